/-
  C18 — model of the introspection machinery of async-graphql:

    * the registry as built from a schema description (derive macros / dynamic builder):
      `mkRegistry`  (possible types of interfaces, the `implements` map, system types);
    * `Registry::find_visible_types` (src/registry/mod.rs): `visibleSet` / `visibleNames`;
    * the `__Schema` / `__Type` / `__Field` / `__InputValue` / `__EnumValue` / `__Directive`
      resolvers (src/model/*.rs): `introspect`, `typeT`, `probe` (= `__type(name:)`,
      src/types/query_root.rs and src/dynamic/resolve.rs).

  The model mirrors the code AS IT IS when all toggles of `Defects` are `true`; the all-`false`
  value is the repaired behaviour the property statement requires.
-/
import AGV.Core.Types

namespace AGV.Model.Introspect
open AGV AGV.Core

-- ------------------------------------------------------------------ descriptions

/-- a visibility rule: `MetaVisibleFn` as a function of the request-context token -/
inductive Vis where
  | always
  | never
  | bit (k : Nat)
  deriving Repr, Inhabited, DecidableEq

def Vis.holds : Vis → Nat → Bool
  | .always, _ => true
  | .never, _ => false
  | .bit k, c => c.testBit k

inductive Dep where
  | no
  | yes (reason : Option String)
  deriving Repr, Inhabited, DecidableEq

def Dep.is : Dep → Bool
  | .no => false
  | .yes _ => true
def Dep.reason : Dep → Option String
  | .no => none
  | .yes r => r

structure IInput where
  name : String
  desc : Option String
  ty : TypeRef
  default : Option String
  dep : Dep
  vis : Vis
  deriving Repr, Inhabited, DecidableEq

structure IField where
  name : String
  desc : Option String
  ty : TypeRef
  dep : Dep
  vis : Vis
  args : List IInput
  deriving Repr, Inhabited, DecidableEq

structure IEnumVal where
  name : String
  desc : Option String
  dep : Dep
  vis : Vis
  deriving Repr, Inhabited, DecidableEq

structure IType where
  name : String
  kind : Kind
  desc : Option String := none
  vis : Vis := .always
  fields : List IField := []
  inputs : List IInput := []
  values : List IEnumVal := []
  /-- `registry.implements[name]` (declared `implements` list, in declaration order) -/
  implements : List String := []
  /-- union members as declared -/
  members : List String := []
  specBy : Option String := none
  oneOf : Bool := false
  /-- `possible_types` of the registered interface / union (filled by `mkRegistry`) -/
  possible : List String := []
  deriving Repr, Inhabited, DecidableEq

structure IDir where
  name : String
  locs : List String
  args : List IInput
  repeatable : Bool := false
  deriving Repr, Inhabited

structure Desc where
  query : String
  mutation : Option String
  subscription : Option String
  types : List IType
  deriving Repr, Inhabited, DecidableEq

inductive Flavour where
  | static
  | dynamic
  deriving Repr, Inhabited, DecidableEq

/-- defect toggles; `true` = behaviour of the pinned tree -/
structure Defects where
  /-- a field / argument / input field whose own rule passes is listed although its type is
      hidden by a type-level rule (src/model/type.rs, field.rs) -/
  hiddenTypeReferenced : Bool := false
  /-- `__Type.interfaces` is `null` for INTERFACE kinds (src/model/type.rs) -/
  interfacesNull : Bool := false
  /-- static interfaces with a nested interface variant list that INTERFACE among their
      possible types (derive/src/interface.rs does not flatten) -/
  possibleListsInterfaces : Bool := false
  /-- the "interface with a visible implementor" pass of `find_visible_types` runs once, in
      alphabetical order, so its result depends on the interface names -/
  singlePass : Bool := false
  /-- dynamic `Interface::implement` never reaches the registry (src/dynamic/interface.rs) -/
  dynIfaceImplDropped : Bool := false
  deriving Repr, Inhabited, DecidableEq

def Defects.none : Defects := {}
def Defects.pinned : Defects :=
  { hiddenTypeReferenced := true, interfacesNull := true, possibleListsInterfaces := true,
    singlePass := true, dynIfaceImplDropped := true }

-- ------------------------------------------------------------------ system types (constants of the registry)

def builtinScalarNames : List String := ["Boolean", "Float", "ID", "Int", "String"]

/-- `name.starts_with("__")` -/
def dunder (s : String) : Bool :=
  match s.toList with
  | '_' :: '_' :: _ => true
  | _ => false

def isSystem (n : String) : Bool := dunder n || builtinScalarNames.contains n

def nn (n : String) : TypeRef := .nonNull (.named n)
def lnn (n : String) : TypeRef := .list (.nonNull (.named n))

private def fld (n : String) (t : TypeRef) (args : List IInput := []) : IField :=
  { name := n, desc := none, ty := t, dep := .no, vis := .always, args := args }
private def incDep : IInput :=
  { name := "includeDeprecated", desc := none, ty := nn "Boolean", default := some "false", dep := .no, vis := .always }
private def ev (n : String) : IEnumVal := { name := n, desc := none, dep := .no, vis := .always }

/-- the `__*` types registered by `create_introspection_types` (skeleton; documentation texts are
    blanked by the harness) -/
def metaTypes : List IType :=
  [ { name := "__Directive", kind := .object, fields :=
        [fld "name" (nn "String"), fld "description" (.named "String"),
         fld "locations" (.nonNull (lnn "__DirectiveLocation")),
         fld "args" (.nonNull (lnn "__InputValue")) [incDep], fld "isRepeatable" (nn "Boolean")] },
    { name := "__DirectiveLocation", kind := .enum, values :=
        ["QUERY", "MUTATION", "SUBSCRIPTION", "FIELD", "FRAGMENT_DEFINITION", "FRAGMENT_SPREAD",
         "INLINE_FRAGMENT", "VARIABLE_DEFINITION", "SCHEMA", "SCALAR", "OBJECT", "FIELD_DEFINITION",
         "ARGUMENT_DEFINITION", "INTERFACE", "UNION", "ENUM", "ENUM_VALUE", "INPUT_OBJECT",
         "INPUT_FIELD_DEFINITION"].map ev },
    { name := "__EnumValue", kind := .object, fields :=
        [fld "name" (nn "String"), fld "description" (.named "String"),
         fld "isDeprecated" (nn "Boolean"), fld "deprecationReason" (.named "String")] },
    { name := "__Field", kind := .object, fields :=
        [fld "name" (nn "String"), fld "description" (.named "String"),
         fld "args" (.nonNull (lnn "__InputValue")) [incDep], fld "type" (nn "__Type"),
         fld "isDeprecated" (nn "Boolean"), fld "deprecationReason" (.named "String")] },
    { name := "__InputValue", kind := .object, fields :=
        [fld "name" (nn "String"), fld "description" (.named "String"), fld "type" (nn "__Type"),
         fld "defaultValue" (.named "String"), fld "isDeprecated" (nn "Boolean"),
         fld "deprecationReason" (.named "String")] },
    { name := "__Schema", kind := .object, fields :=
        [fld "description" (nn "String"), fld "types" (.nonNull (lnn "__Type")),
         fld "queryType" (nn "__Type"), fld "mutationType" (.named "__Type"),
         fld "subscriptionType" (.named "__Type"), fld "directives" (.nonNull (lnn "__Directive"))] },
    { name := "__Type", kind := .object, fields :=
        [fld "kind" (nn "__TypeKind"), fld "name" (.named "String"), fld "description" (.named "String"),
         fld "fields" (lnn "__Field") [incDep], fld "interfaces" (lnn "__Type"),
         fld "possibleTypes" (lnn "__Type"), fld "enumValues" (lnn "__EnumValue") [incDep],
         fld "inputFields" (lnn "__InputValue") [incDep], fld "ofType" (.named "__Type"),
         fld "specifiedByURL" (.named "String"), fld "isOneOf" (.named "Boolean")] },
    { name := "__TypeKind", kind := .enum, values :=
        ["SCALAR", "OBJECT", "INTERFACE", "UNION", "ENUM", "INPUT_OBJECT", "LIST", "NON_NULL"].map ev } ]

private def darg (n : String) (t : TypeRef) (d : Option String := none) : IInput :=
  { name := n, desc := none, ty := t, default := d, dep := .no, vis := .always }

/-- the directives registered by `add_system_types`, in `BTreeMap` order -/
def builtinDirectives : List IDir :=
  [ { name := "deprecated", locs := ["FIELD_DEFINITION", "ARGUMENT_DEFINITION", "INPUT_FIELD_DEFINITION", "ENUM_VALUE"],
      args := [darg "reason" (.named "String") (some "\"No longer supported\"")] },
    { name := "include", locs := ["FIELD", "FRAGMENT_SPREAD", "INLINE_FRAGMENT"], args := [darg "if" (nn "Boolean")] },
    { name := "oneOf", locs := ["INPUT_OBJECT"], args := [] },
    { name := "skip", locs := ["FIELD", "FRAGMENT_SPREAD", "INLINE_FRAGMENT"], args := [darg "if" (nn "Boolean")] },
    { name := "specifiedBy", locs := ["SCALAR"], args := [darg "url" (nn "String")] } ]

-- ------------------------------------------------------------------ the registry

structure Registry where
  /-- `registry.types` in `BTreeMap` (name) order -/
  types : List IType
  dirs : List IDir
  query : String
  mutation : Option String
  subscription : Option String
  deriving Repr, Inhabited

def nameLe (a b : String) : Bool := !(decide (b < a))

def sortNames (xs : List String) : List String := xs.mergeSort nameLe

def sortTypes (ts : List IType) : List IType := ts.mergeSort (fun a b => nameLe a.name b.name)

/-- is `u` registered as a possible type of interface `i`? -/
def isPossibleOf (D : Defects) (fl : Flavour) (i : String) (u : IType) : Bool :=
  u.implements.contains i &&
    (u.kind == .object || (fl == .static && D.possibleListsInterfaces && u.kind == .interface))

def register (D : Defects) (fl : Flavour) (all : List IType) (t : IType) : IType :=
  match t.kind with
  | .interface =>
    { t with possible := sortNames ((all.filter (isPossibleOf D fl t.name)).map (·.name)),
             implements := if fl == .dynamic && D.dynIfaceImplDropped then [] else t.implements }
  | .union => { t with possible := t.members }
  | _ => t

def allTypes (d : Desc) : List IType :=
  d.types ++ (builtinScalarNames.filter (fun n => !(d.types.any (·.name == n)))).map
      (fun n => ({ name := n, kind := .scalar } : IType)) ++ metaTypes

def mkRegistry (D : Defects) (fl : Flavour) (d : Desc) : Registry :=
  let all := allTypes d
  { types := sortTypes (all.map (register D fl all)), dirs := builtinDirectives,
    query := d.query, mutation := d.mutation, subscription := d.subscription }

def lookup (ts : List IType) (n : String) : Option IType := ts.find? (fun t => t.name == n)

-- ------------------------------------------------------------------ find_visible_types

def inputKids (c : Nat) (ivs : List IInput) : List String :=
  (ivs.filter (fun a => a.vis.holds c)).map (fun a => a.ty.base)

def fieldKids (c : Nat) (fs : List IField) : List String :=
  (fs.filter (fun f => f.vis.holds c)).flatMap (fun f => f.ty.base :: inputKids c f.args)

/-- the type names `traverse_type` visits below a type that passed its own rule -/
def children (c : Nat) (t : IType) : List String :=
  match t.kind with
  | .object => fieldKids c t.fields
  | .interface => fieldKids c t.fields ++ t.possible
  | .union => t.possible
  | .input => inputKids c t.inputs
  | _ => []

def unvisited (ts : List IType) (vis : List String) : Nat :=
  (ts.filter (fun t => !vis.contains t.name)).length

theorem filter_length_lt {α} (p q : α → Bool) (l : List α) (h : ∀ x, q x = true → p x = true)
    (x : α) (hx : x ∈ l) (hp : p x = true) (hq : q x = false) :
    (l.filter q).length < (l.filter p).length := by
  induction l with
  | nil => cases hx
  | cons a l ih =>
    have hle : ∀ l : List α, (l.filter q).length ≤ (l.filter p).length := by
      intro l
      induction l with
      | nil => simp
      | cons b l ihl =>
        simp only [List.filter_cons]
        cases hqb : q b
        · cases hpb : p b <;> simp <;> omega
        · simp [h b hqb]; omega
    simp only [List.filter_cons]
    rcases List.mem_cons.mp hx with rfl | hx'
    · simp [hp, hq]; have := hle l; omega
    · have := ih hx'
      cases hqa : q a
      · cases hpa : p a <;> simp <;> omega
      · simp [h a hqa]; omega

theorem lookup_some {ts : List IType} {n : String} {t : IType} (h : lookup ts n = some t) :
    t ∈ ts ∧ t.name = n := by
  unfold lookup at h
  have h1 := List.mem_of_find?_eq_some h
  have h2 := List.find?_some h
  exact ⟨h1, by simpa using h2⟩

theorem unvisited_lt {ts : List IType} {vis : List String} {n : String} {t : IType}
    (h1 : lookup ts n = some t) (h2 : vis.contains n = false) :
    unvisited ts (n :: vis) < unvisited ts vis := by
  obtain ⟨hm, hn⟩ := lookup_some h1
  unfold unvisited
  apply filter_length_lt _ _ ts _ t hm
  · have : n ∉ vis := by simpa using h2
    simp [hn, this]
  · simp [hn]
  · intro x hx
    simp at hx ⊢
    exact hx.2

/-- `traverse_type` as a work-list search: the set it computes does not depend on the order of
    the visits, and a `HashSet` is all the resolvers see -/
def dfs (ts : List IType) (c : Nat) : List String → List String → List String
  | [], vis => vis
  | n :: st, vis =>
    if hv : vis.contains n then dfs ts c st vis
    else
      match hl : lookup ts n with
      | none => dfs ts c st vis
      | some t =>
        if t.vis.holds c then dfs ts c (children c t ++ st) (n :: vis)
        else dfs ts c st vis
termination_by st vis => (unvisited ts vis, st.length)
decreasing_by
  · exact Prod.Lex.right _ (by simp)
  · exact Prod.Lex.right _ (by simp)
  · exact Prod.Lex.left _ _ (unvisited_lt hl (by simpa using hv))
  · exact Prod.Lex.right _ (by simp)

/-- one run of the final loop of `find_visible_types` over the interfaces in name order -/
def ifacePass (ts : List IType) (c : Nat) (vis : List String) : List String :=
  ts.foldl (fun vis t =>
    if t.kind == .interface && t.vis.holds c && !vis.contains t.name && t.possible.any vis.contains
    then dfs ts c [t.name] vis else vis) vis

def iterPass (ts : List IType) (c : Nat) : Nat → List String → List String
  | 0, vis => vis
  | k + 1, vis => iterPass ts c k (ifacePass ts c vis)

def rootNames (R : Registry) : List String :=
  R.query :: (R.mutation.toList ++ R.subscription.toList)

/-- the accumulated `visible_types` before the final filter -/
def visibleSet (D : Defects) (R : Registry) (c : Nat) : List String :=
  let v0 := dfs R.types c (R.dirs.flatMap (fun d => inputKids c d.args)) []
  let v1 := dfs R.types c (rootNames R) v0
  if D.singlePass then ifacePass R.types c v1 else iterPass R.types c R.types.length v1

/-- the result of `find_visible_types`, in registry order -/
def visibleNames (D : Defects) (R : Registry) (c : Nat) : List String :=
  ((R.types.filter (fun t => isSystem t.name || (visibleSet D R c).contains t.name)).map (·.name))

-- ------------------------------------------------------------------ the introspection tree

/-- `__Type` seen through the `TypeRef` fragment: kind, name, ofType -/
inductive RefT where
  | named (kind : String) (name : String)
  | list (ofType : RefT)
  | nonNull (ofType : RefT)
  deriving Repr, Inhabited, DecidableEq

structure InputT where
  name : String
  desc : Option String
  ty : RefT
  default : Option String
  isDep : Bool
  reason : Option String
  deriving Repr, Inhabited, DecidableEq

structure FieldT where
  name : String
  desc : Option String
  args : List InputT
  ty : RefT
  isDep : Bool
  reason : Option String
  deriving Repr, Inhabited, DecidableEq

structure EnumValT where
  name : String
  desc : Option String
  isDep : Bool
  reason : Option String
  deriving Repr, Inhabited, DecidableEq

structure TypeT where
  kind : String
  name : Option String
  desc : Option String
  specBy : Option String
  oneOf : Option Bool
  fields : Option (List FieldT)
  inputFields : Option (List InputT)
  interfaces : Option (List RefT)
  enumValues : Option (List EnumValT)
  possible : Option (List RefT)
  deriving Repr, Inhabited, DecidableEq

structure DirT where
  name : String
  desc : Option String
  repeatable : Bool
  locs : List String
  args : List InputT
  deriving Repr, Inhabited, DecidableEq

structure SchemaT where
  desc : String
  query : String × String
  mutation : Option (String × String)
  subscription : Option (String × String)
  types : List TypeT
  dirs : List DirT
  deriving Repr, Inhabited, DecidableEq

def kindName : Kind → String
  | .scalar => "SCALAR"
  | .object => "OBJECT"
  | .interface => "INTERFACE"
  | .union => "UNION"
  | .enum => "ENUM"
  | .input => "INPUT_OBJECT"

/-- `__Type::new(registry, _, type_name)` followed through `ofType` -/
def refT (ts : List IType) : TypeRef → RefT
  | .named n => .named (match lookup ts n with | some t => kindName t.kind | none => "MISSING") n
  | .list t => .list (refT ts t)
  | .nonNull t => .nonNull (refT ts t)

/-- may an element whose type is `ty` be listed? (repaired behaviour only) -/
def tyListed (D : Defects) (vn : List String) (ty : TypeRef) : Bool :=
  D.hiddenTypeReferenced || vn.contains ty.base

def inputT (ts : List IType) (a : IInput) : InputT :=
  { name := a.name, desc := a.desc, ty := refT ts a.ty, default := a.default, isDep := a.dep.is,
    reason := a.dep.reason }

/-- `__Field.args` / `__Type.input_fields` -/
def inputsT (D : Defects) (ts : List IType) (vn : List String) (c : Nat) (incDep : Bool) (as : List IInput) :
    List InputT :=
  ((as.filter (fun a => (incDep || !a.dep.is) && a.vis.holds c && tyListed D vn a.ty))).map (inputT ts)

/-- `__Directive.args`: no visibility filter -/
def dirArgsT (ts : List IType) (incDep : Bool) (as : List IInput) : List InputT :=
  (as.filter (fun a => incDep || !a.dep.is)).map (inputT ts)

def fieldT (D : Defects) (ts : List IType) (vn : List String) (c : Nat) (incDep : Bool) (f : IField) : FieldT :=
  { name := f.name, desc := f.desc, args := inputsT D ts vn c incDep f.args, ty := refT ts f.ty,
    isDep := f.dep.is, reason := f.dep.reason }

def fieldsT (D : Defects) (ts : List IType) (vn : List String) (c : Nat) (incDep : Bool) (fs : List IField) :
    List FieldT :=
  (fs.filter (fun f => f.vis.holds c && (incDep || !f.dep.is) && !dunder f.name
      && tyListed D vn f.ty)).map (fieldT D ts vn c incDep)

def enumValsT (c : Nat) (incDep : Bool) (vs : List IEnumVal) : List EnumValT :=
  (vs.filter (fun v => v.vis.holds c && (incDep || !v.dep.is))).map
    (fun v => { name := v.name, desc := v.desc, isDep := v.dep.is, reason := v.dep.reason })

def namedRefs (ts : List IType) (vn : List String) (ns : List String) : List RefT :=
  (ns.filter vn.contains).map (fun n => refT ts (.named n))

/-- `__Type` for a named registry type -/
def typeT (D : Defects) (ts : List IType) (vn : List String) (c : Nat) (incDep : Bool) (t : IType) : TypeT :=
  { kind := kindName t.kind, name := some t.name, desc := t.desc,
    specBy := if t.kind == .scalar then t.specBy else none,
    oneOf := if t.kind == .input then some t.oneOf else none,
    fields := if t.kind == .object || t.kind == .interface then some (fieldsT D ts vn c incDep t.fields) else none,
    inputFields := if t.kind == .input then some (inputsT D ts vn c incDep t.inputs) else none,
    interfaces :=
      if t.kind == .object || (t.kind == .interface && !D.interfacesNull) then some (namedRefs ts vn t.implements)
      else none,
    enumValues := if t.kind == .enum then some (enumValsT c incDep t.values) else none,
    possible := if t.kind == .interface || t.kind == .union then some (namedRefs ts vn t.possible) else none }

def schemaDescription : String :=
  "A GraphQL Schema defines the capabilities of a GraphQL server. It exposes all available types and directives on the server, as well as the entry points for query, mutation, and subscription operations."

def rootRef (ts : List IType) (n : String) : String × String :=
  (match lookup ts n with | some t => kindName t.kind | none => "MISSING", n)

def introspect (D : Defects) (R : Registry) (c : Nat) (incDep : Bool) : SchemaT :=
  let vn := visibleNames D R c
  { desc := schemaDescription,
    query := rootRef R.types R.query,
    mutation := (R.mutation.filter vn.contains).map (rootRef R.types),
    subscription := (R.subscription.filter vn.contains).map (rootRef R.types),
    types := (R.types.filter (fun t => vn.contains t.name)).map (typeT D R.types vn c incDep),
    dirs := R.dirs.map (fun d =>
      { name := d.name, desc := none, repeatable := d.repeatable, locs := d.locs,
        args := dirArgsT R.types incDep d.args }) }

/-- `__type(name:)` -/
def probe (D : Defects) (R : Registry) (c : Nat) (incDep : Bool) (n : String) : Option TypeT :=
  let vn := visibleNames D R c
  ((lookup R.types n).filter (fun _ => vn.contains n)).map (typeT D R.types vn c incDep)

end AGV.Model.Introspect
