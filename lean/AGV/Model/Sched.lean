/-
  Scheduler model (C04, C05): a round-based cost semantics on top of the static executor model
  (`Model/ExecStatic.lean`, whose collection, value conversion and deep merge are reused).

  One ROUND = one poll of the root future by the harness (`agvh::spin_on`: busy polling with a
  no-op waker).  Every future that has been started and is not finished is polled exactly once per
  round, in depth-first index order:

    * a resolver started in round `s` whose gate is `k` is Pending in rounds `s … s+k-1` and
      completes in round `s+k`; completion of its value (nested selection sets, list items) starts
      in that same round;
    * `futures_util::future::try_join_all` with at most 30 children (`Small`): every round polls the
      unfinished children in index order and returns at the FIRST child that yields `Err`, dropping
      all others: children with a smaller index have already been polled in that round, children
      with a larger index have not (`joinPar`);
    * `resolve_container_inner(parallel = false)` — the mutation ROOT only — awaits one field
      future after the other (`joinSer`); nested selection sets of a mutation are parallel again
      (`#[Object]` calls `resolve_container`).  `async_graphql::dynamic` schemas differ in one
      respect (`Cfg.nestedSerial`): `dynamic::resolve::resolve_value` passes `serial = true` for
      every nested object value, only the query root and list items are joined concurrently.

  Events (resolver start / end, errors captured by `Option<T>::resolve` into the request-wide
  list) carry the round in which they happen; within a sub-execution they are listed in the
  order in which they happen.  When a join is cancelled only the events that really happened
  are kept.

  NOT modelled: `try_join_all` over more than 30 futures (`Big`: FuturesOrdered + try_collect,
  wake-driven); the harness generates no selection set / list with more than 30 children.
  Real wakers / multi-threaded executors are outside the model: its atomic step is a poll.

  Defect toggle added here (true = pinned tree):
    perOccurrence   `Fields::add_set` creates one future per field OCCURRENCE; occurrences that
                    share a response key are merged only afterwards (`create_value_object`), so
                    the resolver runs once per occurrence.  Repaired: occurrences are grouped by
                    response key first (sub-selections concatenated), one future per key.
  Import-free.
-/
import AGV.Core.Types
import AGV.Spec.Exec
import AGV.Model.ExecStatic

namespace AGV.Model.Sched
open AGV.Core
open AGV.Spec.Exec (FieldOcc mapIdx selectOp group)
open AGV.Model.ExecStatic (collect createValueObject toValue fieldRVal singleKV prune skipVars)

inductive Ev where
  /-- resolver invocation: parent object id, field name, response path of the parent position,
      response key, source position of the occurrence -/
  | start (id : Nat) (field : String) (path : List PathSeg) (key : String) (pos : Pos)
  | fin (path : List PathSeg) (key : String) (pos : Pos)
  /-- an error captured at a nullable position (`ctx.add_error`) -/
  | err (e : GErr)
  deriving Repr, Inhabited, BEq, DecidableEq

/-- result of a sub-execution started in some round -/
structure TRes where
  /-- `none` = an error is travelling upwards -/
  val : Option GValue
  /-- that error -/
  up : Option GErr := none
  /-- round in which the future completes -/
  fin : Nat
  /-- (round, event), in the order in which they happen -/
  evs : List (Nat × Ev) := []
  /-- some error reached a join (field → selection set, item → list) inside this sub-execution -/
  prop : Bool := false
  deriving Repr, Inhabited

/-- gate of a resolver occurrence: parent path, response key, source position ↦ k -/
abbrev Gate := List PathSeg → String → Pos → Nat

structure Cfg where
  c : ExecStatic.Ctx
  perOccurrence : Bool
  gate : Gate
  /-- nested selection sets are executed by the serial loop too: `false` for derive-built (static)
      schemas, `true` for `async_graphql::dynamic` schemas, whose `resolve_value` passes
      `serial = true` for every object / interface / union value (only the query root and list
      items are joined concurrently there) -/
  nestedSerial : Bool := false

def okNow (s : Nat) (v : GValue) : TRes := { val := some v, fin := s }
def failNow (s : Nat) (e : GErr) : TRes := { val := none, up := some e, fin := s }

-- ------------------------------------------------------------------ merging event lists

/-- insert behind every event of the same or an earlier round -/
def insEv (e : Nat × Ev) : List (Nat × Ev) → List (Nat × Ev)
  | [] => [e]
  | x :: xs => if e.1 < x.1 then e :: x :: xs else x :: insEv e xs

/-- stable sort by round: within a round the events of child 0 come first, then child 1, … -/
def sortEvs (l : List (Nat × Ev)) : List (Nat × Ev) := l.foldl (fun acc e => insEv e acc) []

-- ------------------------------------------------------------------ joins

structure JRes where
  vals : Option (List GValue)
  up : Option GErr := none
  fin : Nat
  evs : List (Nat × Ev) := []
  prop : Bool := false
  deriving Repr, Inhabited

/-- (round, index) of the child whose error ends a parallel join: earliest round, then smallest index -/
def firstErrAux : List TRes → Nat → Option (Nat × Nat) → Option (Nat × Nat)
  | [], _, best => best
  | r :: rs, i, best =>
    firstErrAux rs (i + 1)
      (match r.val, best with
       | some _, b => b
       | none, none => some (r.fin, i)
       | none, some (f, j) => if r.fin < f then some (r.fin, i) else some (f, j))

def firstErr (rs : List TRes) : Option (Nat × Nat) := firstErrAux rs 0 none

def maxFin (s : Nat) (rs : List TRes) : Nat := rs.foldl (fun m r => max m r.fin) s

/-- `try_join_all` (Small) over children that were all started in round `s` -/
def joinPar (s : Nat) (rs : List TRes) : JRes :=
  match firstErr rs with
  | none =>
    { vals := some (rs.filterMap (·.val)), fin := maxFin s rs, evs := sortEvs (rs.map (·.evs)).flatten,
      prop := rs.any (·.prop) }
  | some (f, i) =>
    let kept := mapIdx (fun j (r : TRes) => r.evs.filter (fun e => if j ≤ i then e.1 ≤ f else e.1 < f)) rs 0
    { vals := none, up := (rs[i]?).bind (·.up), fin := f, evs := sortEvs kept.flatten, prop := true }

/-- the serial loop: each child starts in the round in which its predecessor completed -/
def joinSer : Nat → List (Nat → TRes) → JRes
  | s, [] => { vals := some [], fin := s }
  | s, f :: fs =>
    let r := f s
    match r.val with
    | none => { vals := none, up := r.up, fin := r.fin, evs := r.evs, prop := true }
    | some v =>
      let j := joinSer r.fin fs
      { vals := j.vals.map (v :: ·), up := j.up, fin := j.fin, evs := r.evs ++ j.evs, prop := r.prop || j.prop }

-- ------------------------------------------------------------------ values

/-- `Option<T>::resolve`: an error from below is pushed to the request's error list, the value is null -/
def capture (opt : Bool) (r : TRes) : TRes :=
  if opt then
    match r.val with
    | some _ => r
    | none =>
      match r.up with
      | some e => { val := some .null, up := none, fin := r.fin, evs := r.evs ++ [(r.fin, .err e)], prop := r.prop }
      | none => { r with val := some .null }
  else r

/-- the per-item wrapper of `resolve_list` (`set_error_path`) -/
def itemWrap (D : ExecStatic.Defects) (p : List PathSeg) (r : TRes) : TRes :=
  if D.listItemPathOverwrite && r.val.isNone then { r with up := r.up.map (fun e => { e with path := p }) } else r

def ofJoin (j : JRes) (mk : List GValue → GValue) : TRes :=
  match j.vals with
  | some vs => { val := some (mk vs), fin := j.fin, evs := j.evs, prop := j.prop }
  | none => { val := none, up := j.up, fin := j.fin, evs := j.evs, prop := j.prop }

/-- `OutputType::resolve` started in round `s`.  `opt` = the Rust type is an `Option<…>` (the
    schema type is nullable): errors from below are captured here.
    `rec st rt id sels path s` = resolve_container on an object value, started in round `s`. -/
def resolveT (c : ExecStatic.Ctx) (rec : String → String → Nat → List Sel → List PathSeg → Nat → TRes) :
    Bool → TypeRef → RVal → List Sel → List PathSeg → Pos → Nat → TRes
  | _, .nonNull t, rv, ss, path, pos, s =>
    match rv with
    | .null => failNow s ⟨path, pos⟩   -- not expressible in a derive-built schema
    | _ => resolveT c rec false t rv ss path pos s
  | opt, .list t, rv, ss, path, pos, s =>
    match rv with
    | .null => okNow s .null
    | .list xs =>
      let rs := mapIdx (fun i x =>
        itemWrap c.D (path ++ [.idx i]) (resolveT c rec true t x ss (path ++ [.idx i]) pos s)) xs 0
      capture opt (ofJoin (joinPar s rs) .list)
    | _ => capture opt (failNow s ⟨path, pos⟩)
  | opt, .named n, rv, ss, path, pos, s =>
    match rv with
    | .null => okNow s .null
    | .obj ty id =>
      if (c.S.possibleTypes n).contains ty then capture opt (rec n ty id ss path s)
      else capture opt (failNow s ⟨path, pos⟩)
    | .leaf v =>
      match toValue c.D c.S n v with
      | some (some v') => okNow s v'
      | _ => capture opt (failNow s ⟨path, pos⟩)
    | _ => capture opt (failNow s ⟨path, pos⟩)

/-- resolver result (available in round `s`) → completed value -/
def completeFieldT (c : ExecStatic.Ctx) (rec : String → String → Nat → List Sel → List PathSeg → Nat → TRes)
    (fd : FieldDef) (rv : RVal) (occ : FieldOcc) (fpath : List PathSeg) (s : Nat) : TRes :=
  match rv with
  | .fail _ =>
    let epath := if c.D.ifaceErrNoPath && c.S.kindOf occ.st == some .interface then [] else fpath
    if fd.ty.isNonNull || c.D.resolverErrPropagates then failNow s ⟨epath, occ.pos⟩
    else { val := some .null, fin := s, evs := [(s, .err ⟨epath, occ.pos⟩)] }
  | _ => resolveT c rec true fd.ty rv occ.sels fpath occ.pos s

/-- one field future, first polled in round `s` -/
def runFieldT (g : Cfg) (rec : String → String → Nat → List Sel → List PathSeg → Nat → TRes)
    (rt : String) (id : Nat) (path : List PathSeg) (occ : FieldOcc) (s : Nat) : TRes :=
  if occ.name = "__typename" then okNow s (.obj [(occ.key, .str rt)])
  else
    match g.c.S.field? rt occ.name with
    | none => okNow s (.obj [(occ.key, .null)])
    | some fd =>
      let k := g.gate path occ.key occ.pos
      let r := completeFieldT g.c rec fd (fieldRVal g.c id fd occ) occ (path ++ [PathSeg.key occ.key]) (s + k)
      { r with val := r.val.map (fun v => .obj [(occ.key, v)]),
               evs := (s, .start id occ.name path occ.key occ.pos) :: (s + k, .fin path occ.key occ.pos) :: r.evs }

/-- repaired collection: one entry per response key (first occurrence), sub-selections concatenated -/
def mergeOccs (occs : List FieldOcc) : List FieldOcc :=
  (group occs).filterMap (fun g =>
    match g.2 with
    | [] => none
    | o :: _ => some { o with sels := (g.2.map (·.sels)).flatten })

def occsOf (g : Cfg) (rt : String) (fuel : Nat) (st : String) (sels : List Sel) : List FieldOcc :=
  if g.perOccurrence then collect g.c rt fuel st sels else mergeOccs (collect g.c rt fuel st sels)

/-- `resolve_container_inner(parallel = !serial)` started in round `s` -/
def resolveContainerT (g : Cfg) : Bool → Nat → String → String → Nat → List Sel → List PathSeg → Nat → TRes
  | _, 0, _, _, _, _, path, s => failNow s ⟨path, ⟨0, 0⟩⟩   -- out of fuel (never with `fuelBound`)
  | serial, fuel + 1, st, rt, id, sels, path, s =>
    let fs := (occsOf g rt (fuel + 1) st sels).map (fun occ => runFieldT g (resolveContainerT g g.nestedSerial fuel) rt id path occ)
    let j := if serial then joinSer s fs else joinPar s (fs.map (· s))
    ofJoin j (fun vs => createValueObject g.c.D (fuel + 1) (vs.filterMap singleKV))

def runWith (nestedSerial : Bool) (D : ExecStatic.Defects) (perOcc : Bool) (gate : Gate) (S : Schema) (d : Doc)
    (opName : Option String) (raw : List (String × GValue)) (w : World) (fuel : Nat) : TRes :=
  match selectOp d opName with
  | none => { val := none, fin := 0 }
  | some op =>
    let sv := skipVars D op.vars raw
    let d' : Doc := { ops := d.ops, frags := d.frags.map (fun f => { f with sels := prune sv fuel f.sels }) }
    let c : ExecStatic.Ctx := { D := D, S := S, d := d', vars := AGV.Spec.Exec.coerceVars op.vars raw, w := w }
    let root := match op.ty with
      | .query => S.query
      | .mutation => S.mutation.getD ""
      | .subscription => S.subscription.getD ""
    resolveContainerT { c := c, perOccurrence := perOcc, gate := gate, nestedSerial := nestedSerial } (op.ty == .mutation)
      fuel root root 0 (prune sv fuel op.sels) [] 0

/-- a request against a derive-built (static) schema -/
def run (D : ExecStatic.Defects) (perOcc : Bool) (gate : Gate) (S : Schema) (d : Doc) (opName : Option String)
    (raw : List (String × GValue)) (w : World) (fuel : Nat) : TRes :=
  runWith false D perOcc gate S d opName raw w fuel

-- ------------------------------------------------------------------ observables

def errOf : Nat × Ev → Option GErr
  | (_, .err e) => some e
  | _ => none

/-- the response's errors: the propagated one, then the captured ones in the order of capture -/
def TRes.errors (r : TRes) : List GErr := r.up.toList ++ r.evs.filterMap errOf

def invOf : Nat × Ev → Option Inv
  | (_, .start id f _ k _) => some ⟨id, f, k⟩
  | _ => none

/-- the invocation log (resolver starts in the order in which they happen) -/
def TRes.log (r : TRes) : List Inv := r.evs.filterMap invOf

/-- (parent path, response key) of every resolver start -/
def startOf : Nat × Ev → Option (List PathSeg × String)
  | (_, .start _ _ p k _) => some (p, k)
  | _ => none

def TRes.starts (r : TRes) : List (List PathSeg × String) := r.evs.filterMap startOf

end AGV.Model.Sched
