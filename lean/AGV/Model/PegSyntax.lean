/-
  Abstract syntax of a pest grammar (property C13): what `parser/src/graphql.pest` is translated
  into by `srcfacts/gen.py` (`Gen/Grammar.lean`), and pest's pair tree.  Core-only.
-/
namespace AGV.Model.Peg

/-- pest expressions -/
inductive Expr where
  | str (s : List Char)             -- "literal"
  | insens (s : List Char)          -- ^"literal" (ASCII case-insensitive)
  | range (lo hi : Char)            -- 'a'..'z'
  | ident (name : String)           -- rule reference or builtin (SOI EOI ANY ASCII_*)
  | seq (a b : Expr)                -- a ~ b
  | choice (a b : Expr)             -- a | b   (ordered)
  | opt (e : Expr)                  -- e?
  | rep (e : Expr)                  -- e*
  | rep1 (e : Expr)                 -- e+
  | repN (n : Nat) (e : Expr)       -- e{n}
  | neg (e : Expr)                  -- !e
  | pos (e : Expr)                  -- &e
  | repTail (e : Expr)              -- internal: the `(skip ~ e)*` tail of a repetition
  deriving Repr, Inhabited, BEq

/-- rule modifiers: `{}` normal, `_{}` silent, `@{}` atomic, `${}` compound atomic, `!{}` non-atomic -/
inductive RuleTy where
  | normal | silent | atomic | compound | nonatomic
  deriving Repr, Inhabited, BEq, DecidableEq

structure Rule where
  name : String
  ty : RuleTy
  expr : Expr
  deriving Repr, Inhabited

abbrev Grammar := List Rule

/-- pest's `Pair`: rule name, start and end offsets (in characters), inner pairs -/
inductive Pair where
  | mk (rule : String) (start stop : Nat) (inner : List Pair)
  deriving Repr, Inhabited

def Pair.rule : Pair → String | .mk r _ _ _ => r
def Pair.start : Pair → Nat | .mk _ s _ _ => s
def Pair.stop : Pair → Nat | .mk _ _ e _ => e
def Pair.inner : Pair → List Pair | .mk _ _ _ i => i

end AGV.Model.Peg
