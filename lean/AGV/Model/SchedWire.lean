/-
  Wire format and shared judge machinery of the scheduler streams (C04, C05):
  decoding of schedules, canonical printing of a model run (same form as harness/core/src/sched.rs),
  parsing of the implementation's output, the toggle lattice.  Import-free (no Mathlib).
-/
import AGV.Util.Sexp
import AGV.Util.Judge
import AGV.Core.Types
import AGV.Spec.Exec
import AGV.Model.ExecStatic
import AGV.Model.Sched

namespace AGV.Model.SchedWire
open AGV AGV.Sexp AGV.Core AGV.Model.Sched

def seg? : Sexp → Option PathSeg
  | .str cs => some (.key (String.ofList cs))
  | a => (asNat? a).map .idx

def path? : Sexp → Option (List PathSeg)
  | .list xs => xs.mapM seg?
  | _ => none

abbrev Entries := List ((List PathSeg × String × Pos) × Nat)

/-- `(sched ((PATH…) KEY LINE COL K) …)` -/
def sched? : Sexp → Option Entries
  | .list (.atom "sched" :: es) =>
    es.mapM (fun (e : Sexp) => match e with
      | .list [p, .str k, l, c, n] => do
        some ((← path? p, String.ofList k, { line := ← asNat? l, col := ← asNat? c }), ← asNat? n)
      | _ => none)
  | _ => none

/-- `(scheds (sc INTENDED (sched …)) …)` -/
def scheds? : Sexp → Option (List Entries)
  | .list (.atom "scheds" :: scs) =>
    scs.mapM (fun (sc : Sexp) => match sc with
      | .list [.atom "sc", _, s] => sched? s
      | _ => none)
  | _ => none

def gateOf (es : Entries) : Gate := fun p k pos =>
  match es.find? (fun e => e.1.1 == p && e.1.2.1 == k && e.1.2.2 == pos) with
  | some e => e.2
  | none => 0

-- ------------------------------------------------------------------ printing a model run

def insertSorted (s : String) : List String → List String
  | [] => [s]
  | x :: xs => if s ≤ x then s :: x :: xs else x :: insertSorted s xs

def sortStrings (xs : List String) : List String := xs.foldl (fun acc s => insertSorted s acc) []

def errStrings (es : List GErr) : List String := sortStrings (es.map (fun e => render e.toSexp))

def pathSexp (p : List PathSeg) : Sexp := .list (p.map PathSeg.toSexp)

def traceOf : Nat × Ev → Option Sexp
  | (_, .start _ _ p k pos) => some (.list [.atom "s", pathSexp p, .str k.toList, .atom (toString pos.line), .atom (toString pos.col)])
  | (_, .fin p k pos) => some (.list [.atom "e", pathSexp p, .str k.toList, .atom (toString pos.line), .atom (toString pos.col)])
  | (_, .err _) => none

/-- `(run (resp DATA (errs …) (log …)) (trace …))` -/
def runStr (r : TRes) : String :=
  render (.list [.atom "run",
    .list [.atom "resp", (match r.val with | some v => v.toSexp | none => .atom "null"),
      .list (.atom "errs" :: (errStrings r.errors).map .atom),
      .list (.atom "log" :: r.log.map Inv.toSexp)],
    .list (.atom "trace" :: r.evs.filterMap traceOf)])

-- ------------------------------------------------------------------ the implementation's output

structure TraceEv where
  isEnd : Bool
  path : List PathSeg
  key : String
  deriving Repr, Inhabited

structure ImplRun where
  whole : String
  data : String
  errs : List String
  trace : List TraceEv
  deriving Inhabited

def traceEv? : Sexp → Option TraceEv
  | .list [.atom t, p, .str k, _, _] => do some { isEnd := t == "e", path := ← path? p, key := String.ofList k }
  | _ => none

def implRuns? (impl : String) : Option (List ImplRun) :=
  match parse impl with
  | some (.list (.atom "out" :: rs)) =>
    rs.mapM (fun (r : Sexp) => match r with
      | .list [.atom "run", .list [.atom "resp", d, .list (.atom "errs" :: es), .list (.atom "log" :: _)],
               .list (.atom "trace" :: ts)] => do
        some { whole := render r, data := render d, errs := es.map render, trace := ← ts.mapM traceEv? }
      | _ => none)
  | _ => none

-- ------------------------------------------------------------------ cases and toggles

structure Case where
  S : Schema
  doc : Doc
  opName : Option String
  vars : List (String × GValue)
  world : World
  scheds : List Entries
  kind : String

def case? (case : String) : Option Case :=
  match parse case with
  | some (.list [.atom "case", s, d, opn, vs, w, _, sc, .atom kind]) => do
    some { S := ← Decode.schema? s, doc := ← Decode.doc? d, opName := ← Decode.optStr? opn, vars := ← Decode.vars? vs,
           world := ← Decode.world? w, scheds := ← scheds? sc, kind := kind }
  | _ => none

def Case.isMutation (c : Case) : Bool :=
  match Spec.Exec.selectOp c.doc c.opName with
  | some op => op.ty == .mutation
  | none => false

/-- toggles of the executor models that can influence a scheduler run -/
structure Toggles where
  perOccurrence : Bool
  resolverErrPropagates : Bool
  unionCondIgnored : Bool
  skipIgnoresVarDefault : Bool
  listItemPathOverwrite : Bool
  ifaceErrNoPath : Bool
  mergeKeepsPartialOnNull : Bool
  deriving Repr, BEq, DecidableEq

def Toggles.defects (t : Toggles) : ExecStatic.Defects :=
  { unionCondIgnored := t.unionCondIgnored, skipIgnoresVarDefault := t.skipIgnoresVarDefault,
    nanNullInNonNull := true, resolverErrPropagates := t.resolverErrPropagates,
    listItemPathOverwrite := t.listItemPathOverwrite, ifaceErrNoPath := t.ifaceErrNoPath,
    mergeKeepsPartialOnNull := t.mergeKeepsPartialOnNull }

/-- the pinned tree -/
def Toggles.pinned : Toggles := ⟨true, true, true, true, true, true, true⟩

/-- every setting (the findings of other properties may be repaired independently) -/
def Toggles.all : List Toggles :=
  let bs := [true, false]
  bs.flatMap fun a => bs.flatMap fun b => bs.flatMap fun c => bs.flatMap fun d => bs.flatMap fun e => bs.flatMap fun f =>
    bs.map fun g => ⟨a, b, c, d, e, f, g⟩

/-- cases of kind `dyn-…` were executed by an `async_graphql::dynamic` schema (nested selection sets serial) -/
def Case.dyn (c : Case) : Bool := c.kind.startsWith "dyn"

def modelRun (c : Case) (t : Toggles) (es : Entries) : TRes :=
  Sched.runWith c.dyn t.defects t.perOccurrence (gateOf es) c.S c.doc c.opName c.vars c.world (Spec.Exec.fuelBound c.doc)

/-- does the model under `t` print exactly the implementation's runs? (stops at the first difference) -/
def agrees (c : Case) (t : Toggles) (impl : List ImplRun) : Bool :=
  c.scheds.length == impl.length &&
  (c.scheds.zip impl).all (fun p => runStr (modelRun c t p.1) == p.2.whole)

def modelStr (c : Case) (t : Toggles) : String :=
  "(out " ++ " ".intercalate (c.scheds.map (fun es => runStr (modelRun c t es))) ++ ")"

-- ------------------------------------------------------------------ property predicates on the implementation's traces

/-- no resolver start is repeated for the same parent position and response key -/
def onceOK (tr : List TraceEv) : Bool :=
  let starts := (tr.filter (!·.isEnd)).map (fun e => (e.path, e.key))
  starts.Pairwise (· ≠ ·) |> decide

/-- mutation roots run one at a time in order: between two consecutive root-level starts every
    event belongs to the subtree of the earlier one (its path begins with that root's response
    key, or it is that root's own `end`) -/
def serialOK : Option String → List TraceEv → Bool
  | _, [] => true
  | cur, e :: rest =>
    if e.path.isEmpty then
      if e.isEnd then (cur == some e.key) && serialOK cur rest
      else serialOK (some e.key) rest
    else
      (match cur, e.path.head? with
       | some k, some (.key k') => k == k'
       | _, _ => false) && serialOK cur rest

/-- every root-level resolver that started also ended before the next one started -/
def serialEndsOK (tr : List TraceEv) : Bool :=
  let roots := tr.filter (·.path.isEmpty)
  let rec go : List TraceEv → Bool
    | a :: b :: rest => (!a.isEnd && b.isEnd && a.key == b.key) && go rest
    | [_] => false
    | [] => true
  go roots

end AGV.Model.SchedWire
