/-
  C28 — executable model of `DataLoader` (src/dataloader/mod.rs) under an explicit scheduler.

  The state mirrors `Requests { keys, pending, cache_storage, disable_cache }`, the loader-wide
  `disable_cache` flag, and the futures handed to the spawner (`tasks`, in spawn order):
    * an `ImmediateLoad` task owns the `(keys, pending)` pair taken in the critical section,
    * a `StartFetch` task first waits for the timer and then takes whatever is pending.
  Every action is one atomic piece of the real code between two suspension points:
    load r ks   first poll of `load_many(ks)`: cache split, early return, push, decision, spawn
    run i       first poll of spawned task i (timer registered / `Loader::load` called)
    fire i      timer of task i elapses: `Requests::take`, `Loader::load` called if non-empty
    done i resp `Loader::load` of task i returns: cache fill, fan-out (rest of `do_load`)
    cancel r    the future of request r is dropped
    enall/entype/feed/clear   the cache switches and cache operations of the public API
    drain       run every unstarted task, then fire every timer, then answer every batch
  Sets are duplicate-free lists in insertion order (printed sorted), maps are association lists
  with unique keys.  Core only: linked into the driver.
-/
namespace AGV.Model.Loader

abbrev Key := Nat
abbrev Val := Nat
abbrev KV := List (Key × Val)

/-- `HashMap::insert` -/
def ins (m : KV) (k : Key) (v : Val) : KV := (k, v) :: m.filter (fun p => p.1 != k)

def insMany (m : KV) (ps : KV) : KV := ps.foldl (fun acc p => ins acc p.1 p.2) m

/-- `HashSet::insert` -/
def addKey (s : List Key) (k : Key) : List Key := if k ∈ s then s else s ++ [k]

def addKeys (s : List Key) (ks : List Key) : List Key := ks.foldl addKey s

/-- what the gated loader of the harness answers -/
inductive Resp where
  | okall (b : Nat)
  | ok (ps ex : KV)
  | err (e : Nat)
  deriving Repr, Inhabited

/-- the `HashMap` returned by `Loader::load` for the slice `batch` (`.error` = `Err`) -/
def Resp.values (r : Resp) (batch : List Key) : Except Nat KV :=
  match r with
  | .okall b => .ok (batch.map (fun k => (k, b + k)))
  | .ok ps ex => .ok (insMany (insMany [] (ps.filter (fun p => p.1 ∈ batch))) ex)
  | .err e => .error e

inductive Act where
  | load (r : Nat) (ks : List Key)
  | run (i : Nat)
  | fire (i : Nat)
  | done (i : Nat) (resp : Resp)
  | cancel (r : Nat)
  | enall (b : Bool)
  | entype (b : Bool)
  | feed (kv : KV)
  | clear
  | drain
  deriving Repr, Inhabited

inductive Ev where
  | call (i : Nat) (ks : List Key)
  | timer (i : Nat) (d : Nat)
  | ok (r : Nat) (m : KV)
  | err (r : Nat) (e : Nat)
  deriving Repr, Inhabited

/-- one element of `Requests::pending`: `(keys_set, ResSender { use_cache_values, tx })` -/
structure Pend where
  rid : Nat
  keys : List Key
  cached : KV
  deriving Repr, Inhabited

inductive Phase where
  | fresh | timer | flight | fin
  deriving Repr, Inhabited, DecidableEq

structure Task where
  fetch : Bool          -- `StartFetch` (true) / `ImmediateLoad` (false)
  dis : Bool            -- `self.disable_cache` captured when the task was created
  phase : Phase
  keys : List Key       -- the batch (immediate: taken at spawn; fetch: taken when the timer fires)
  waiters : List Pend
  deriving Repr, Inhabited

inductive RSt where
  | waiting | done | cancelled
  deriving Repr, Inhabited, DecidableEq

structure St where
  max : Nat
  delay : Nat
  hasCache : Bool
  keys : List Key := []
  pending : List Pend := []
  cache : KV := []
  disType : Bool := false
  disAll : Bool := false
  tasks : List Task := []
  reqs : List (Nat × RSt) := []
  out : List Ev := []
  deriving Repr, Inhabited

def St.emit (s : St) (e : Ev) : St := { s with out := s.out ++ [e] }

def St.status (s : St) (r : Nat) : Option RSt := s.reqs.lookup r

def St.setStatus (s : St) (r : Nat) (x : RSt) : St :=
  { s with reqs := s.reqs.map (fun p => if p.1 = r then (p.1, x) else p) }

/-- `CacheStorage::insert` for every pair (`NoCache` ignores it) -/
def St.fill (s : St) (ps : KV) : St :=
  if s.hasCache then { s with cache := insMany s.cache ps } else s

/-- the loop `for key in keys { cache hit → use_cache_values | miss → keys_set }` -/
def splitKeys (cache : KV) : List Key → List Key × KV → List Key × KV
  | [], acc => acc
  | k :: ks, (miss, hit) =>
    match cache.lookup k with
    | some v => splitKeys cache ks (miss, if (hit.lookup k).isSome then hit else hit ++ [(k, v)])
    | none => splitKeys cache ks (addKey miss k, hit)

/-- `(keys_set, use_cache_values)` of a request: everything is a miss when the cache is switched off -/
def split (s : St) (ks : List Key) : List Key × KV :=
  if s.disType || s.disAll then (addKeys [] ks, []) else splitKeys s.cache ks ([], [])

/-- the rest of the critical section of `load_many` and the spawn that follows it -/
def enqueue (s : St) (r : Nat) (miss : List Key) (hit : KV) : St :=
  if miss = [] then
    St.emit { s with reqs := s.reqs ++ [(r, RSt.done)] } (.ok r hit)
  else
    let keys' := addKeys s.keys miss
    let pending' := s.pending ++ [{ rid := r, keys := miss, cached := hit }]
    let s1 : St := { s with reqs := s.reqs ++ [(r, RSt.waiting)] }
    if keys'.length ≥ s.max then
      { s1 with keys := [], pending := [],
                tasks := s.tasks ++ [{ fetch := false, dis := s.disAll, phase := .fresh, keys := keys', waiters := pending' }] }
    else if s.keys.length = 0 then
      { s1 with keys := keys', pending := pending',
                tasks := s.tasks ++ [{ fetch := true, dis := s.disAll, phase := .fresh, keys := [], waiters := [] }] }
    else
      { s1 with keys := keys', pending := pending' }

/-- first poll of `load_many(ks)` as request `r` (a request id is used once) -/
def loadStep (s : St) (r : Nat) (ks : List Key) : St :=
  if (s.status r).isSome then s else enqueue s r (split s ks).1 (split s ks).2

/-- first poll of a spawned task -/
def runStep (s : St) (i : Nat) : St :=
  match s.tasks[i]? with
  | some t =>
    if t.phase = .fresh then
      if t.fetch then
        St.emit { s with tasks := s.tasks.set i { t with phase := .timer } } (.timer i s.delay)
      else
        St.emit { s with tasks := s.tasks.set i { t with phase := .flight } } (.call i t.keys)
    else s
  | none => s

/-- the timer of a `StartFetch` task elapses: `take()`, then `do_load` unless nothing is pending -/
def fireStep (s : St) (i : Nat) : St :=
  match s.tasks[i]? with
  | some t =>
    if t.phase = .timer then
      if s.keys = [] then
        { s with keys := [], pending := [], tasks := s.tasks.set i { t with phase := .fin } }
      else
        St.emit { s with keys := [], pending := [],
                          tasks := s.tasks.set i { t with phase := .flight, keys := s.keys, waiters := s.pending } } (.call i s.keys)
    else s
  | none => s

/-- the `HashMap` sent to one waiter -/
def waiterResult (values : KV) (p : Pend) : KV :=
  p.cached ++ p.keys.filterMap (fun k => (values.lookup k).map (fun v => (k, v)))

/-- `sender.tx.send(res).ok()` observed by the request future (nothing if it was dropped) -/
def deliver (s : St) (p : Pend) (res : Except Nat KV) : St :=
  if s.status p.rid = some .waiting then
    (s.setStatus p.rid .done).emit (match res with
      | .ok m => .ok p.rid m
      | .error e => .err p.rid e)
  else s

/-- `Loader::load` returned: the rest of `do_load` -/
def doneStep (s : St) (i : Nat) (resp : Resp) : St :=
  match s.tasks[i]? with
  | some t =>
    if t.phase = .flight then
      let s1 : St := { s with tasks := s.tasks.set i { t with phase := .fin } }
      match resp.values t.keys with
      | .ok values =>
        let s2 := if s1.disType || t.dis then s1 else s1.fill values
        t.waiters.foldl (fun acc p => deliver acc p (.ok (waiterResult values p))) s2
      | .error e =>
        t.waiters.foldl (fun acc p => deliver acc p (.error e)) s1
    else s
  | none => s

def cancelStep (s : St) (r : Nat) : St :=
  if s.status r = some .waiting then s.setStatus r .cancelled else s

def drainStep (s : St) : St :=
  let n := s.tasks.length
  let s1 := (List.range n).foldl runStep s
  let s2 := (List.range n).foldl fireStep s1
  (List.range n).foldl (fun acc i => doneStep acc i (.okall 1000)) s2

def apply (s : St) (a : Act) : St :=
  match a with
  | .load r ks => loadStep s r ks
  | .run i => runStep s i
  | .fire i => fireStep s i
  | .done i resp => doneStep s i resp
  | .cancel r => cancelStep s r
  | .enall b => { s with disAll := !b }
  | .entype b => { s with disType := !b }
  | .feed kv => s.fill kv
  | .clear => { s with cache := [] }
  | .drain => drainStep s

/-- one scheduler step: the events of the previous step are forgotten -/
def step (s : St) (a : Act) : St := apply { s with out := [] } a

/-- `DataLoader::new/with_cache(..).max_batch_size(max).delay(delay)` followed by `feed_many(feed)` -/
def init (max delay : Nat) (hasCache : Bool) (feed : KV) : St :=
  ({ max := max, delay := delay, hasCache := hasCache } : St).fill feed

def runAll (s : St) (acts : List Act) : St := acts.foldl step s

/-- the observable trace: the events of every step, then the final state -/
def trace (s : St) : List Act → List (List Ev) × St
  | [] => ([], s)
  | a :: as =>
    let s' := step s a
    let (t, f) := trace s' as
    (s'.out :: t, f)

def St.waitingReqs (s : St) : List Nat :=
  (s.reqs.filter (fun p => p.2 = .waiting)).map (·.1)

end AGV.Model.Loader
