/-
  Model of `parser/src/pos.rs::PositionCalculator` and of pest's `Position::line_col`
  (used for syntax errors through `From<pest::error::Error>`).  Import-free.

  Text is `List Char` (Unicode scalar values): columns count scalar values.
  Defect toggles (true = behaviour of the pinned tree before the `fix:` commit):
    crBug      lone CR resets the column but does not start a new line (PositionCalculator)
    pestCrBug  lone CR counts as an ordinary column (pest's line_col)
-/
namespace AGV.Model.Pos

structure St where
  line : Nat
  col : Nat
  prevCR : Bool
  deriving DecidableEq, Repr

def St.init : St := ⟨1, 1, false⟩

/-- one iteration of the `for ch in chars_to_read` loop -/
def stepChar (crBug : Bool) (s : St) (c : Char) : St :=
  if c = '\r' then
    if crBug then { s with col := 1 } else ⟨s.line + 1, 1, true⟩
  else if c = '\n' then
    if s.prevCR then { s with prevCR := false } else ⟨s.line + 1, 1, false⟩
  else ⟨s.line, s.col + 1, false⟩

def stepChars (crBug : Bool) (s : St) (cs : List Char) : St := cs.foldl (stepChar crBug) s

/-- `PositionCalculator::step` called for a sequence of token offsets: the calculator keeps the
    unread input and the offset reached so far. -/
def stepAllAux (crBug : Bool) : List Char → Nat → St → List Nat → List (Nat × Nat)
  | _, _, _, [] => []
  | inp, pos, s, o :: os =>
    let n := o - pos
    let s' := stepChars crBug s (inp.take n)
    (s'.line, s'.col) :: stepAllAux crBug (inp.drop n) o s' os

def stepAll (crBug : Bool) (text : List Char) (offs : List Nat) : List (Nat × Nat) :=
  stepAllAux crBug text 0 St.init offs

/-! Byte layer.  The real `step` receives BYTE offsets (pest spans), slices the remaining
    input at `input[..bytes_to_read]` and iterates over the scalar values of that slice.  Text
    stays a `List Char`; a byte offset cuts it after as many characters as fit. -/

/-- UTF-8 length of a character sequence -/
def byteLen : List Char → Nat
  | [] => 0
  | c :: r => c.utf8Size + byteLen r

/-- `input[..n].chars()` for a byte count `n` (characters that end at or before byte `n`) -/
def takeBytes : Nat → List Char → List Char
  | _, [] => []
  | n, c :: r => if c.utf8Size ≤ n then c :: takeBytes (n - c.utf8Size) r else []

/-- `&input[n..]` -/
def dropBytes : Nat → List Char → List Char
  | _, [] => []
  | n, c :: r => if c.utf8Size ≤ n then dropBytes (n - c.utf8Size) r else c :: r

/-- `PositionCalculator::step` along a sequence of byte offsets, as the code runs it -/
def stepAllAuxB (crBug : Bool) : List Char → Nat → St → List Nat → List (Nat × Nat)
  | _, _, _, [] => []
  | inp, pos, s, o :: os =>
    let n := o - pos
    let s' := stepChars crBug s (takeBytes n inp)
    (s'.line, s'.col) :: stepAllAuxB crBug (dropBytes n inp) o s' os

def stepAllB (crBug : Bool) (text : List Char) (boffs : List Nat) : List (Nat × Nat) :=
  stepAllAuxB crBug text 0 St.init boffs

/-- byte offset of the character with index `k` -/
def byteOff (text : List Char) (k : Nat) : Nat := byteLen (text.take k)

/-- pest 2.x `Position::line_col` on the prefix before the error offset -/
def pestAux (crBug : Bool) : List Char → Nat → Nat → Nat × Nat
  | [], l, c => (l, c)
  | a :: r, l, c =>
    if a = '\n' then pestAux crBug r (l + 1) 1
    else if a = '\r' then
      match r with
      | b :: r' =>
        if b = '\n' then pestAux crBug r' (l + 1) 1
        else if crBug then pestAux crBug (b :: r') l (c + 1) else pestAux crBug (b :: r') (l + 1) 1
      | [] => if crBug then (l, c + 1) else (l + 1, 1)
    else pestAux crBug r l (c + 1)
termination_by cs => cs.length

def pestLineCol (crBug : Bool) (text : List Char) (off : Nat) : Nat × Nat :=
  pestAux crBug (text.take off) 1 1

end AGV.Model.Pos
