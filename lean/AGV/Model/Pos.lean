/-
  Model of `parser/src/pos.rs::PositionCalculator` and of pest's `Position::line_col`
  (used for syntax errors through `From<pest::error::Error>`).  Import-free.

  Text is `List Char` (Unicode scalar values): columns count scalar values.
  Defect toggles (true = behaviour of the pinned tree before the `fix:` commit):
    crBug      lone CR resets the column but does not start a new line (PositionCalculator)
    pestCrBug  lone CR counts as an ordinary column (pest's line_col)
-/
namespace AGV.Model.Pos

structure St where
  line : Nat
  col : Nat
  prevCR : Bool
  deriving DecidableEq, Repr

def St.init : St := ⟨1, 1, false⟩

/-- one iteration of the `for ch in chars_to_read` loop -/
def stepChar (crBug : Bool) (s : St) (c : Char) : St :=
  if c = '\r' then
    if crBug then { s with col := 1 } else ⟨s.line + 1, 1, true⟩
  else if c = '\n' then
    if s.prevCR then { s with prevCR := false } else ⟨s.line + 1, 1, false⟩
  else ⟨s.line, s.col + 1, false⟩

def stepChars (crBug : Bool) (s : St) (cs : List Char) : St := cs.foldl (stepChar crBug) s

/-- `PositionCalculator::step` called for a sequence of token offsets: the calculator keeps the
    unread input and the offset reached so far. -/
def stepAllAux (crBug : Bool) : List Char → Nat → St → List Nat → List (Nat × Nat)
  | _, _, _, [] => []
  | inp, pos, s, o :: os =>
    let n := o - pos
    let s' := stepChars crBug s (inp.take n)
    (s'.line, s'.col) :: stepAllAux crBug (inp.drop n) o s' os

def stepAll (crBug : Bool) (text : List Char) (offs : List Nat) : List (Nat × Nat) :=
  stepAllAux crBug text 0 St.init offs

/-- pest 2.x `Position::line_col` on the prefix before the error offset -/
def pestAux (crBug : Bool) : List Char → Nat → Nat → Nat × Nat
  | [], l, c => (l, c)
  | a :: r, l, c =>
    if a = '\n' then pestAux crBug r (l + 1) 1
    else if a = '\r' then
      match r with
      | b :: r' =>
        if b = '\n' then pestAux crBug r' (l + 1) 1
        else if crBug then pestAux crBug (b :: r') l (c + 1) else pestAux crBug (b :: r') (l + 1) 1
      | [] => if crBug then (l, c + 1) else (l + 1, 1)
    else pestAux crBug r l (c + 1)
termination_by cs => cs.length

def pestLineCol (crBug : Bool) (text : List Char) (off : Nat) : Nat × Nat :=
  pestAux crBug (text.take off) 1 1

end AGV.Model.Pos
