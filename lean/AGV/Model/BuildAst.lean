/-
  Model of `async_graphql_parser::parse_query` (property C13): the pest grammar of
  `Gen/Grammar.lean` run by `Model/Peg.lean`, followed by the tree builder of
  parser/src/parse/{mod,executable,utils}.rs and `Type::new` of parser/src/types/mod.rs —
  number conversion as serde_json does it, `string_value` (imported from `Model/Print.lean`, C15),
  `block_string_value`, the selection-depth limit, and the uniqueness loop of `parse_query`.

  `Defects` lists the deviations of the pinned tree from the GraphQL grammar; `true` = pinned
  behaviour.  Grammar-level ones are *repaired* by a patch of the generated grammar when the toggle
  is off, so with the toggles of `Defects.pinned` the grammar interpreted is exactly the generated one
  (a grammar-level defect the tree has repaired since — `emptyStringBeforeQuote` — is modelled the other
  way round: the toggle removes the repair from the generated rule).
  Core-only imports.
-/
import AGV.Model.Peg
import AGV.Model.Print
import AGV.Gen.Grammar
import AGV.Gen.ParserLimits
import AGV.Core.PAst
import AGV.Util.F64

namespace AGV.Model.BuildAst
open AGV.Model.Peg AGV.Core.PAst

structure Defects where
  /-- `type_` is an atomic rule: `[ Int ]`, `Int !` are rejected -/
  atomicTypeRule : Bool := false
  /-- `variable_definition` has `directives? ~ default_value?` (the spec: DefaultValue? Directives?) -/
  varDefDirectivesFirst : Bool := false
  /-- directives of a variable definition may contain variables (the spec: Directives[Const]) -/
  varDefNonConstDirectives : Bool := false
  /-- keywords are plain literals: `queryfoo{a}` = `query foo{a}`, `[truefalse]` = `[true false]`,
      and an enum value starting with `true`/`false`/`null` is rejected -/
  keywordGlue : Bool := false
  /-- `number` only forbids a following NameStart: `[01]` = `[0 1]` -/
  numberDigitFollow : Bool := false
  /-- `type_condition = ${ "on" ~ WHITESPACE+ ~ name }`: a comment after `on` is not accepted -/
  onNeedsWhitespace : Bool := false
  /-- a fragment may be called `on` (`fragment on on T{a}`, `...on @d`) -/
  fragmentNamedOn : Bool := false
  /-- `query () {a}`: empty variable definitions accepted -/
  emptyVarDefs : Bool := false
  /-- `string` falls back to the plain-string alternative when the input starts with `"""` but is
      not a complete block string: `["""" ""]` is read as three empty strings (the spec: `""` is a
      StringValue only when not followed by `"`; an unterminated block string is an error).
      Repaired in the tree by cf2b035 (the generated grammar has the guard), hence off in `pinned`. -/
  emptyStringBeforeQuote : Bool := false
  /-- `\"""` is kept verbatim in block strings -/
  blockEscapeKept : Bool := false
  /-- a whitespace-only line shorter than the common indent keeps its spaces -/
  shortBlankLineKept : Bool := false
  /-- integer literals outside the i64/u64 range, and `-0`, silently become floats -/
  intAsFloat : Bool := false
  /-- float literals are converted by serde_json's default two-step algorithm (not correctly
      rounded); off = serde_json's `float_roundtrip` feature (repaired in the tree by 278c956) -/
  floatDoubleRounding : Bool := false
  deriving Repr, Inhabited

def Defects.none : Defects := {}
def Defects.pinned : Defects :=
  { atomicTypeRule := true, varDefDirectivesFirst := true, varDefNonConstDirectives := true,
    keywordGlue := true, numberDigitFollow := true, onNeedsWhitespace := true, fragmentNamedOn := true,
    emptyVarDefs := true, emptyStringBeforeQuote := false, blockEscapeKept := true, shortBlankLineKept := true, intAsFloat := true,
    floatDoubleRounding := true }

-- ------------------------------------------------------------------ grammar patches (repairs)

def mapRule (n : String) (f : Rule → Rule) (g : Grammar) : Grammar :=
  g.map (fun r => if r.name = n then f r else r)

/-- rewrite every sub-expression bottom-up -/
def mapExpr (f : Expr → Expr) : Expr → Expr
  | .seq a b => f (.seq (mapExpr f a) (mapExpr f b))
  | .choice a b => f (.choice (mapExpr f a) (mapExpr f b))
  | .opt a => f (.opt (mapExpr f a))
  | .rep a => f (.rep (mapExpr f a))
  | .rep1 a => f (.rep1 (mapExpr f a))
  | .repN n a => f (.repN n (mapExpr f a))
  | .neg a => f (.neg (mapExpr f a))
  | .pos a => f (.pos (mapExpr f a))
  | .repTail a => f (.repTail (mapExpr f a))
  | e => f e

def isKeywordLit (l : List Char) : Bool := 2 ≤ l.length && l.all (fun c => isAsciiAlpha c || c = '_')

def kwRuleName (l : List Char) : String := "kw_" ++ String.ofList l

def nameContinue : Expr := .choice (.ident "ASCII_ALPHA") (.choice (.ident "ASCII_DIGIT") (.str ['_']))

/-- `kw_x = @{ "x" ~ !(ASCII_ALPHA | ASCII_DIGIT | "_") }`, only ever called inside a lookahead -/
def kwRule (l : List Char) : Rule := ⟨kwRuleName l, .atomic, .seq (.str l) (.neg nameContinue)⟩

def collectKw : Expr → List (List Char)
  | .str l => if isKeywordLit l then [l] else []
  | .seq a b => collectKw a ++ collectKw b
  | .choice a b => collectKw a ++ collectKw b
  | .opt a => collectKw a
  | .rep a => collectKw a
  | .rep1 a => collectKw a
  | .repN _ a => collectKw a
  | .neg a => collectKw a
  | .pos a => collectKw a
  | .repTail a => collectKw a
  | _ => []

def kwWrap : Expr → Expr
  | .str l => if isKeywordLit l then .seq (.pos (.ident (kwRuleName l))) (.str l) else .str l
  | e => e

/-- repair of `keywordGlue`: every keyword literal `"x"` becomes `&kw_x ~ "x"` -/
def patchKeywords (g : Grammar) : Grammar :=
  let kws := (g.flatMap (fun r => collectKw r.expr)).eraseDups
  g.map (fun r => { r with expr := mapExpr kwWrap r.expr }) ++ kws.map kwRule

def onKw : List Char := ['o', 'n']
def fragmentKw : List Char := ['f','r','a','g','m','e','n','t']

def bangToRule : Expr → Expr
  | .opt (.str ['!']) => .opt (.ident "non_null_mark")
  | e => e

/-- repair of `atomicTypeRule`: `type_ = { (name | "[" ~ type_ ~ "]") ~ non_null_mark? }` -/
def patchType (g : Grammar) : Grammar :=
  mapRule "type_" (fun r => { r with ty := .normal, expr := mapExpr bangToRule r.expr }) g
    ++ [⟨"non_null_mark", .normal, .str ['!']⟩]

/-- repair of the variable-definition defects -/
def patchVarDef (D : Defects) (g : Grammar) : Grammar :=
  if D.varDefDirectivesFirst && D.varDefNonConstDirectives then g
  else
    let d : Expr := .opt (.ident (if D.varDefNonConstDirectives then "directives" else "const_directives"))
    let v : Expr := .opt (.ident "default_value")
    let tail : Expr := if D.varDefDirectivesFirst then .seq d v else .seq v d
    let body : Expr := Expr.seq (.ident "variable") (.seq (.str [':']) (.seq (.ident "type_") tail))
    mapRule "variable_definition" (fun r => { r with expr := body }) g

def numFollow : Expr → Expr
  | .neg (.ident "name_start") =>
    .neg (.choice (.ident "name_start") (.choice (.ident "ASCII_DIGIT") (.str ['.'])))
  | e => e

def patchNumber (g : Grammar) : Grammar :=
  mapRule "number" (fun r => { r with expr := mapExpr numFollow r.expr }) g

/-- repair of `onNeedsWhitespace`: `type_condition = { "on" ~ name }` -/
def patchTypeCondition (g : Grammar) : Grammar :=
  mapRule "type_condition" (fun r => { r with ty := .normal, expr := Expr.seq (.str onKw) (.ident "name") }) g

def notOn : Expr := .neg (.ident "kw_on_only")

def spreadNotOn : Expr → Expr
  | .seq (.neg (.ident "type_condition")) rest => .seq (.neg (.ident "type_condition")) (.seq notOn rest)
  | e => e

def fragDefNotOn : Expr → Expr
  | .seq (.str l) rest => if l = fragmentKw then .seq (.str l) (.seq notOn rest) else .seq (.str l) rest
  | e => e

/-- repair of `fragmentNamedOn`: the name of a fragment is not the keyword `on` -/
def patchFragmentName (g : Grammar) : Grammar :=
  (mapRule "fragment_spread" (fun r => { r with expr := mapExpr spreadNotOn r.expr })
   (mapRule "fragment_definition" (fun r => { r with expr := mapExpr fragDefNotOn r.expr }) g))
    ++ [⟨"kw_on_only", .atomic, .seq (.str onKw) (.neg nameContinue)⟩]

def varDefs1 : Expr → Expr
  | .rep (.ident "variable_definition") => .rep1 (.ident "variable_definition")
  | e => e

def patchVarDefs (g : Grammar) : Grammar :=
  mapRule "variable_definitions" (fun r => { r with expr := mapExpr varDefs1 r.expr }) g

def tripleQuote : List Char := ['"', '"', '"']

/-- the plain-string alternative of `string` without a guard in front of it -/
def stripGuard : Expr → Expr
  | .choice blk (.seq (.neg (.str _)) plain) => .choice blk plain
  | e => e

/-- … and with the guard `!"\"\"\""` (a text that starts with three quotes is a block string or nothing) -/
def addGuard : Expr → Expr
  | .choice blk plain => .choice blk (.seq (.neg (.str tripleQuote)) plain)
  | e => e

/-- `emptyStringBeforeQuote` off: the `string` rule carries the guard (the tree has it since cf2b035, so
    on the generated grammar this changes nothing; on a source without it, it is added — once) -/
def patchString (g : Grammar) : Grammar :=
  mapRule "string" (fun r => { r with expr := addGuard (stripGuard r.expr) }) g

/-- `emptyStringBeforeQuote` on (the tree before cf2b035): the guard is removed -/
def unpatchString (g : Grammar) : Grammar :=
  mapRule "string" (fun r => { r with expr := stripGuard r.expr }) g

/-- the grammar the model interprets: the generated one with the repairs of the toggles that are off
    (`patchKeywords` last so that it also covers literals introduced by other repairs) -/
def grammarFor (D : Defects) : Grammar :=
  let g := AGV.Gen.Grammar.grammar
  let g := if D.atomicTypeRule then g else patchType g
  let g := patchVarDef D g
  let g := if D.numberDigitFollow then g else patchNumber g
  let g := if D.onNeedsWhitespace then g else patchTypeCondition g
  let g := if D.fragmentNamedOn then g else patchFragmentName g
  let g := if D.emptyVarDefs then g else patchVarDefs g
  let g := if D.emptyStringBeforeQuote then unpatchString g else patchString g
  if D.keywordGlue then g else patchKeywords g

-- ------------------------------------------------------------------ utils.rs

/-- `raw.split("\r\n").flat_map(|s| s.split(['\r','\n']))` -/
def consHead (c : Char) : List (List Char) → List (List Char)
  | l :: ls => (c :: l) :: ls
  | [] => [[c]]

def splitLines : List Char → List (List Char)
  | [] => [[]]
  | '\r' :: '\n' :: r => [] :: splitLines r
  | '\r' :: r => [] :: splitLines r
  | '\n' :: r => [] :: splitLines r
  | c :: r => consHead c (splitLines r)

def isBlank (c : Char) : Bool := c = '\t' || c = ' '

/-- `line.find(|c| c != '\t' && c != ' ')` -/
def firstNonBlank : List Char → Option Nat
  | [] => none
  | c :: r => if isBlank c then (firstNonBlank r).map (· + 1) else some 0

def lineHasContent (l : List Char) : Bool := l.any (fun c => !isBlank c)

def minList : List Nat → Option Nat
  | [] => none
  | a :: r => match minList r with
    | some m => some (min a m)
    | none => some a

/-- `position(line_has_content).unwrap_or(len)` -/
def firstContentful : List (List Char) → Nat
  | [] => 0
  | l :: ls => if lineHasContent l then 0 else firstContentful ls + 1

/-- `rposition(line_has_content).map_or(0, |i| i + 1)` -/
def endingStart : List (List Char) → Nat
  | [] => 0
  | l :: ls =>
    let r := endingStart ls
    if r ≠ 0 then r + 1 else if lineHasContent l then 1 else 0

def joinLines : List (List Char) → List Char
  | [] => []
  | [l] => l
  | l :: ls => l ++ '\n' :: joinLines ls

/-- `\"""` → `"""` -/
def unescapeTriple : List Char → List Char
  | '\\' :: '"' :: '"' :: '"' :: r => '"' :: '"' :: '"' :: unescapeTriple r
  | c :: r => c :: unescapeTriple r
  | [] => []

def zipIdxFrom {α : Type} : Nat → List α → List (Nat × α)
  | _, [] => []
  | i, a :: r => (i, a) :: zipIdxFrom (i + 1) r

/-- `block_string_value` (lengths in characters: the sliced prefix is always ASCII blanks) -/
def blockStringValue (D : Defects) (raw0 : List Char) : List Char :=
  let raw := if D.blockEscapeKept then raw0 else unescapeTriple raw0
  let lines := splitLines raw
  let commonIndent := (minList (lines.tail.filterMap firstNonBlank)).getD 0
  let first := firstContentful lines
  let ending := endingStart lines
  let kept := ((zipIdxFrom 0 lines).take ending).drop first
  joinLines (kept.map (fun p =>
    if p.1 ≠ 0 && (p.2.length ≥ commonIndent || !D.shortBlankLineKept) then p.2.drop commonIndent else p.2))

-- ------------------------------------------------------------------ types/mod.rs  Type::new

def stripSuffix (c : Char) (l : List Char) : Option (List Char) :=
  match l.reverse with
  | x :: r => if x = c then some r.reverse else none
  | [] => none

/-- `Type::new` (fuel ≥ length of the text) -/
def typeNew : Nat → List Char → Option PType
  | 0, _ => none
  | f + 1, t =>
    let nn := stripSuffix '!' t
    let nullable := nn.isNone
    let ty := nn.getD t
    match ty with
    | '[' :: rest =>
      match stripSuffix ']' rest with
      | some inner => (typeNew f inner).map (fun i => .listOf i nullable)
      | none => none
    | _ => some (.named ty nullable)

-- ------------------------------------------------------------------ numbers (serde_json, no float_roundtrip)

def u64Max : Nat := 18446744073709551615
def i32Max : Nat := 2147483647

/-- digits eaten by `parse_integer`/`parse_long_integer`: significand and decimal exponent -/
def eatIntDigits : List Char → Nat → Nat → Bool → Nat × Nat
  | [], sig, ex, _ => (sig, ex)
  | c :: r, sig, ex, long =>
    let d := c.toNat - 48
    if long || sig * 10 + d > u64Max then eatIntDigits r sig (ex + 1) true
    else eatIntDigits r (sig * 10 + d) ex false

/-- digits after the point (`parse_decimal` / `parse_decimal_overflow`): significand, digits used -/
def eatFracDigits : List Char → Nat → Nat → Nat × Nat
  | [], sig, used => (sig, used)
  | c :: r, sig, used =>
    let d := c.toNat - 48
    if sig * 10 + d > u64Max then (sig, used)
    else eatFracDigits r (sig * 10 + d) (used + 1)

/-- exponent digits (`parse_exponent`): `none` on i32 overflow -/
def eatExpDigits : List Char → Nat → Option Nat
  | [], e => some e
  | c :: r, e =>
    let d := c.toNat - 48
    if e * 10 + d > i32Max then none else eatExpDigits r (e * 10 + d)

def pow10Bits (i : Nat) : Nat := AGV.F64.ofDecimal 1 i

/-- `f64_from_parts`: `none` = NumberOutOfRange -/
def f64FromParts : Nat → Nat → Int → Option Nat
  | 0, f, _ => some f
  | fuel + 1, f, e =>
    if e.natAbs ≤ 308 then
      if e ≥ 0 then
        let r := AGV.F64.mul f (pow10Bits e.natAbs)
        if r ≥ AGV.F64.infBits then none else some r
      else some (AGV.F64.div f (pow10Bits e.natAbs))
    else if f = 0 then some f
    else if e ≥ 0 then none
    else f64FromParts fuel (AGV.F64.div f (pow10Bits 308)) (e + 308)

def satI32 (i : Int) : Int := if i > 2147483647 then 2147483647 else if i < -2147483648 then -2147483648 else i

def isDigitC (c : Char) : Bool := 48 ≤ c.toNat && c.toNat ≤ 57

def spanDigits : List Char → List Char × List Char
  | [] => ([], [])
  | c :: r => if isDigitC c then ((spanDigits r).1.cons c, (spanDigits r).2) else ([], c :: r)

/-- what the token denotes for the specification: mantissa digits and exponent -/
def decimalOf (ip fr : List Char) (ex : Int) : Nat × Int :=
  ((ip ++ fr).foldl (fun a c => a * 10 + (c.toNat - 48)) 0, ex - fr.length)

/-- `pair.as_str().parse::<Number>()` on a token of the `number` rule -/
def parseNumber (D : Defects) (tok : List Char) : Except PErr PValue :=
  let negative := tok.head? = some '-'
  let body := if negative then tok.tail else tok
  let ip := (spanDigits body).1
  let rest := (spanDigits body).2
  let sign (b : Nat) : PValue := .float (if negative then AGV.F64.neg b else b)
  let (sig, ex0) := eatIntDigits ip 0 0 false
  -- fraction
  let (hasFrac, fr, rest2) := match rest with
    | '.' :: r => (true, (spanDigits r).1, (spanDigits r).2)
    | r => (false, [], r)
  let (sig1, used) := if hasFrac then eatFracDigits fr sig 0 else (sig, 0)
  let ex1 : Int := (ex0 : Int) - (used : Int)
  -- exponent
  let expPart : Option (Bool × List Char) := match rest2 with
    | c :: r =>
      if c = 'e' || c = 'E' then
        (match r with
         | '+' :: r' => some (true, r')
         | '-' :: r' => some (false, r')
         | r' => some (true, r'))
      else none
    | [] => none
  let isFloatTok := hasFrac || expPart.isSome
  if !isFloatTok then
    -- an integer token
    let value : Nat := ip.foldl (fun a c => a * 10 + (c.toNat - 48)) 0
    if !D.intAsFloat then .ok (.int (if negative then -(value : Int) else value))
    else if ex0 ≠ 0 then
      -- more digits than a u64 holds: `parse_long_integer`
      if !D.floatDoubleRounding then
        -- float_roundtrip: every digit is used, correctly rounded
        let b := AGV.F64.ofNat value
        if b ≥ AGV.F64.infBits then .error .number else .ok (sign b)
      else
        match f64FromParts 3 (AGV.F64.ofNat sig) ex0 with
        | some b => .ok (sign b)
        | none => .error .number
    else if !negative then .ok (.int sig)
    else if sig = 0 || sig > 9223372036854775808 then .ok (sign (AGV.F64.ofNat sig))
    else .ok (.int (-(sig : Int)))
  else if !D.floatDoubleRounding then
    -- correctly rounded
    let exv : Int := match expPart with
      | some (pos, ds) => let e : Int := (ds.foldl (fun a c => a * 10 + (c.toNat - 48)) 0 : Nat); if pos then e else -e
      | none => 0
    let (m, e) := decimalOf ip fr exv
    let b := if e < -400 - (ip.length + fr.length : Nat) then 0 else if e > 400 && m ≠ 0 then AGV.F64.infBits else AGV.F64.ofDecimal m e
    if b ≥ AGV.F64.infBits then .error .number else .ok (sign b)
  else
    match expPart with
    | none =>
      (match f64FromParts 3 (AGV.F64.ofNat sig1) ex1 with
       | some b => .ok (sign b)
       | none => .error .number)
    | some (pos, ds) =>
      match eatExpDigits ds 0 with
      | none => if sig1 ≠ 0 && pos then .error .number else .ok (sign 0)
      | some e =>
        let fe := satI32 (if pos then ex1 + e else ex1 - e)
        match f64FromParts 3 (AGV.F64.ofNat sig1) fe with
        | some b => .ok (sign b)
        | none => .error .number

-- ------------------------------------------------------------------ the tree builder

structure Env where
  D : Defects
  inp : Array Char

def Env.asStr (env : Env) (p : Pair) : List Char := (env.inp.extract p.start p.stop).toList

/-- `next_if_rule` -/
def nextIf (rule : String) : List Pair → Option Pair × List Pair
  | p :: r => if p.rule = rule then (some p, r) else (none, p :: r)
  | [] => (none, [])

def bug : PErr := .oof

/-- first inner pair's text as a name (`parse_name(exactly_one(pair.into_inner()))`) -/
def innerName (env : Env) (p : Pair) : Except PErr Name :=
  match p.inner with
  | n :: _ => .ok (env.asStr n)
  | [] => .error bug

/-- IndexMap `collect`: a repeated key keeps its first position and takes the last value -/
def indexMapInsert (k : Name) (v : PValue) : List (Name × PValue) → List (Name × PValue)
  | [] => [(k, v)]
  | (k', v') :: r => if k' = k then (k', v) :: r else (k', v') :: indexMapInsert k v r

def indexMapCollect (fs : List (Name × PValue)) : List (Name × PValue) :=
  fs.foldl (fun m p => indexMapInsert p.1 p.2 m) []

/-- `parse_value` / `parse_const_value` -/
def buildValue (env : Env) : Nat → Pair → Except PErr PValue
  | 0, _ => .error bug
  | f + 1, p =>
    match p.inner with
    | c :: _ =>
      let r := c.rule
      if r = "variable" then (innerName env c).map .var
      else if r = "number" then parseNumber env.D (env.asStr c)
      else if r = "string" then
        (match c.inner with
         | s :: _ =>
           if s.rule = "block_string_content" then .ok (.str (blockStringValue env.D (env.asStr s)))
           else (match AGV.Model.Print.stringValue (env.asStr s) with
                 | some v => .ok (.str v)
                 | none => .error bug)
         | [] => .error bug)
      else if r = "boolean" then .ok (.bool (env.asStr c == ['t', 'r', 'u', 'e']))
      else if r = "null" then .ok .null
      else if r = "enum_value" then (innerName env c).map .enum
      else if r = "list" || r = "const_list" then (c.inner.mapM (buildValue env f)).map .list
      else if r = "object" || r = "const_object" then
        (c.inner.mapM (fun (fp : Pair) =>
          match fp.inner with
          | n :: v :: _ => (buildValue env f v).map (fun x => (env.asStr n, x))
          | _ => .error bug)).map (fun fs => .obj (indexMapCollect fs))
      else .error bug
    | [] => .error bug

def fuelOf (env : Env) : Nat := env.inp.size + 8

/-- `parse_arguments` / `parse_const_arguments` -/
def buildArgs (env : Env) (p : Pair) : Except PErr (List (Name × PValue)) :=
  p.inner.mapM (fun (ap : Pair) =>
    match ap.inner with
    | n :: v :: _ => (buildValue env (fuelOf env) v).map (fun x => (env.asStr n, x))
    | _ => .error bug)

/-- `parse_directive` -/
def buildDirective (env : Env) (p : Pair) : Except PErr PDirective :=
  match p.inner with
  | n :: rest =>
    (match rest with
     | a :: _ => (buildArgs env a).map (fun as => ⟨env.asStr n, as⟩)
     | [] => .ok ⟨env.asStr n, []⟩)
  | [] => .error bug

/-- `parse_opt_directives`: consumes a `directives` (or, for the repaired variable definition,
    `const_directives`) pair if it is next -/
def buildOptDirectives (env : Env) (ps : List Pair) : Except PErr (List PDirective × List Pair) :=
  match ps with
  | p :: r =>
    if p.rule = "directives" || p.rule = "const_directives" then
      (p.inner.mapM (buildDirective env)).map (fun ds => (ds, r))
    else .ok ([], ps)
  | [] => .ok ([], [])

/-- type from the pairs of the repaired (non-atomic) `type_` rule -/
def buildTypePairs (env : Env) : Nat → Pair → Except PErr PType
  | 0, _ => .error bug
  | f + 1, p =>
    match p.inner with
    | c :: rest =>
      let nullable := rest.isEmpty
      if c.rule = "name" then .ok (.named (env.asStr c) nullable)
      else (buildTypePairs env f c).map (fun t => .listOf t nullable)
    | [] => .error bug

/-- `parse_type` -/
def buildType (env : Env) (p : Pair) : Except PErr PType :=
  if env.D.atomicTypeRule then
    let t := env.asStr p
    match typeNew (t.length + 1) t with
    | some ty => .ok ty
    | none => .error bug
  else buildTypePairs env (fuelOf env) p

/-- `parse_variable_definition` -/
def buildVarDef (env : Env) (p : Pair) : Except PErr PVarDef :=
  match p.inner with
  | v :: t :: rest => do
    let name ← innerName env v
    let ty ← buildType env t
    let dflt (ps : List Pair) : Except PErr (Option PValue × List Pair) :=
      match nextIf "default_value" ps with
      | (some d, r) =>
        (match d.inner with
         | cv :: _ => (buildValue env (fuelOf env) cv).map (fun x => (some x, r))
         | [] => .error bug)
      | (none, r) => .ok (none, r)
    if env.D.varDefDirectivesFirst then
      let (ds, rest) ← buildOptDirectives env rest
      let (dv, _) ← dflt rest
      pure ⟨name, ty, ds, dv⟩
    else
      let (dv, rest) ← dflt rest
      let (ds, _) ← buildOptDirectives env rest
      pure ⟨name, ty, ds, dv⟩
  | _ => .error bug

/-- `parse_selection_set` with `remaining_depth`; fuel bounds the pair depth -/
def buildSelSet (env : Env) : Nat → Nat → Pair → Except PErr (List PSel)
  | 0, _, _ => .error bug
  | f + 1, remaining, p =>
    p.inner.mapM (fun (sp : Pair) =>
      match sp.inner with
      | c :: _ =>
        if c.rule = "field" then
          let (alias, r1) := nextIf "alias" c.inner
          match r1 with
          | n :: r2 => do
            let al ← match alias with
              | some a => (innerName env a).map some
              | none => pure none
            let (argsP, r3) := nextIf "arguments" r2
            let args ← match argsP with
              | some a => buildArgs env a
              | none => pure []
            let (ds, r4) ← buildOptDirectives env r3
            let (ssP, _) := nextIf "selection_set" r4
            let ss ← match ssP with
              | some s => if remaining = 0 then .error .depth else buildSelSet env f (remaining - 1) s
              | none => pure []
            pure (PSel.field al (env.asStr n) args ds ss)
          | [] => .error bug
        else if c.rule = "fragment_spread" then
          match c.inner with
          | n :: r => (buildOptDirectives env r).map (fun x => PSel.spread (env.asStr n) x.1)
          | [] => .error bug
        else if c.rule = "inline_fragment" then
          let (tcP, r1) := nextIf "type_condition" c.inner
          do
            let tc ← match tcP with
              | some t => (innerName env t).map some
              | none => pure none
            let (ds, r2) ← buildOptDirectives env r1
            match r2 with
            | s :: _ =>
              if remaining = 0 then .error .depth
              else (buildSelSet env f (remaining - 1) s).map (fun ss => PSel.inline tc ds ss)
            | [] => .error bug
        else .error bug
      | [] => .error bug)

def maxDepth : Nat := AGV.Gen.ParserLimits.maxRecursionDepth

def opTypeOf (t : List Char) : OpType :=
  if t == "query".toList then .query else if t == "mutation".toList then .mutation else .subscription

/-- `parse_definition_item` -/
def buildDefinition (env : Env) (p : Pair) : Except PErr PDef :=
  match p.inner with
  | c :: _ =>
    if c.rule = "operation_definition" then
      match c.inner with
      | o :: _ =>
        if o.rule = "selection_set" then
          (buildSelSet env (fuelOf env) maxDepth o).map (fun ss => .op none ⟨.query, [], [], ss⟩)
        else
          match o.inner with
          | t :: r0 => do
            let (nameP, r1) := nextIf "name" r0
            let (varsP, r2) := nextIf "variable_definitions" r1
            let vars ← match varsP with
              | some v => v.inner.mapM (buildVarDef env)
              | none => pure []
            let (ds, r3) ← buildOptDirectives env r2
            match r3 with
            | s :: _ =>
              let ss ← buildSelSet env (fuelOf env) maxDepth s
              pure (.op (nameP.map env.asStr) ⟨opTypeOf (env.asStr t), vars, ds, ss⟩)
            | [] => .error bug
          | [] => .error bug
      | [] => .error bug
    else
      match c.inner with
      | n :: tc :: r => do
        let on ← innerName env tc
        let (ds, r2) ← buildOptDirectives env r
        match r2 with
        | s :: _ =>
          let ss ← buildSelSet env (fuelOf env) maxDepth s
          pure (.frag (env.asStr n) ⟨on, ds, ss⟩)
        | [] => .error bug
      | _ => .error bug
  | [] => .error bug

-- ------------------------------------------------------------------ parse_query's uniqueness loop

/-- the loop over the definition items: `ops` is `None`, `Single` or `Multiple` -/
def collectLoop : List PDef → Option POps → List (Name × PFrag) → Except PErr PDoc
  | [], ops, frags =>
    match ops with
    | some o => .ok ⟨o, frags⟩
    | none => .error .missingOp
  | .op (some name) o :: rest, ops, frags =>
    (match ops.getD (.multi []) with
     | .single _ => .error .multipleOps
     | .multi m =>
       if m.any (fun p => p.1 == name) then .error (.dupOp name)
       else collectLoop rest (some (.multi (m ++ [(name, o)]))) frags)
  | .op none o :: rest, ops, frags =>
    (match ops with
     | some _ => .error .multipleOps
     | none => collectLoop rest (some (.single o)) frags)
  | .frag name f :: rest, ops, frags =>
    if frags.any (fun p => p.1 == name) then .error (.dupFrag name)
    else collectLoop rest ops (frags ++ [(name, f)])

def collectDefs (defs : List PDef) : Except PErr PDoc := collectLoop defs none []

/-- `parse_query` -/
def parseQuery (D : Defects) (s : List Char) : Except PErr PDoc :=
  let g := grammarFor D
  match eval g (fuelFor s) {} (.ident "executable_document") 0 s with
  | .oof => .error .oof
  | .fail => .error .syntax
  | .ok _ _ ps =>
    match ps with
    | doc :: _ =>
      let env : Env := ⟨D, s.toArray⟩
      (do
        let defs ← (doc.inner.filter (fun p => p.rule ≠ "EOI")).mapM (buildDefinition env)
        collectDefs defs)
    | [] => .error bug

end AGV.Model.BuildAst
