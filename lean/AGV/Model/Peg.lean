/-
  A fuelled interpreter for pest grammars (property C13), following pest 2.x
  (`pest::ParserState` + the code `pest_generator` emits):

  * ordered choice, sequences restore the position on failure (we are functional);
  * in a rule that is not declared atomic, `a ~ b` is `a ~ skip ~ b`, `e*` is `(e ~ (skip ~ e)*)?`,
    `e+` is `e ~ (skip ~ e)*`, `e{n}` is `e ~ skip ~ e …`, where
    `skip = WHITESPACE* ~ (COMMENT ~ WHITESPACE*)*` runs only while the *runtime* atomicity is
    non-atomic (`hidden::skip`);
  * `@{}` sets the atomicity to atomic for its body, `${}` to compound-atomic, `!{}` to
    non-atomic; `_{}` and `{}` inherit; `WHITESPACE` and `COMMENT` always run atomically;
  * a non-silent rule (and `EOI`) emits a pair iff no lookahead is active and the atomicity
    *at the call* is not atomic (so an atomic rule emits its own pair but no inner ones);
  * `!e`/`&e` run `e` in lookahead mode and consume nothing.

  Fuel bounds the recursion *depth* (it is passed down, not threaded), `oof` = out of fuel.
  Positions are character offsets.  Core-only.
-/
import AGV.Model.PegSyntax

namespace AGV.Model.Peg

inductive Atomicity where
  | non | atomic | compound
  deriving Repr, Inhabited, BEq, DecidableEq

structure Ctx where
  atom : Atomicity := .non
  look : Bool := false
  deriving Repr, Inhabited

inductive Res where
  | oof
  | fail
  | ok (pos : Nat) (rest : List Char) (pairs : List Pair)
  deriving Repr, Inhabited

def findRule : Grammar → String → Option Rule
  | [], _ => none
  | r :: g, n => if r.name = n then some r else findRule g n

/-- `s` starts with `l`: the remainder -/
def matchStr : List Char → List Char → Option (List Char)
  | [], s => some s
  | _ :: _, [] => none
  | a :: l, b :: s => if a = b then matchStr l s else none

def lowerAscii (c : Char) : Char :=
  if 65 ≤ c.toNat && c.toNat ≤ 90 then Char.ofNat (c.toNat + 32) else c

def matchInsens : List Char → List Char → Option (List Char)
  | [], s => some s
  | _ :: _, [] => none
  | a :: l, b :: s => if lowerAscii a = lowerAscii b then matchInsens l s else none

def isAsciiDigit (c : Char) : Bool := 48 ≤ c.toNat && c.toNat ≤ 57
def isAsciiNonzeroDigit (c : Char) : Bool := 49 ≤ c.toNat && c.toNat ≤ 57
def isAsciiAlpha (c : Char) : Bool := (65 ≤ c.toNat && c.toNat ≤ 90) || (97 ≤ c.toNat && c.toNat ≤ 122)
def isAsciiHex (c : Char) : Bool :=
  isAsciiDigit c || (65 ≤ c.toNat && c.toNat ≤ 70) || (97 ≤ c.toNat && c.toNat ≤ 102)

/-- pest's character-class builtins used by the grammar -/
def charClass (n : String) : Option (Char → Bool) :=
  if n = "ANY" then some (fun _ => true)
  else if n = "ASCII_DIGIT" then some isAsciiDigit
  else if n = "ASCII_NONZERO_DIGIT" then some isAsciiNonzeroDigit
  else if n = "ASCII_HEX_DIGIT" then some isAsciiHex
  else if n = "ASCII_ALPHA" then some isAsciiAlpha
  else none

/-- `hidden::skip` -/
def skipExpr : Expr :=
  .seq (.rep (.ident "WHITESPACE")) (.rep (.seq (.ident "COMMENT") (.rep (.ident "WHITESPACE"))))

def emits (c : Ctx) : Bool := !c.look && c.atom != .atomic

/-- context of a rule body -/
def bodyCtx (c : Ctx) (r : Rule) : Ctx :=
  match r.ty with
  | .atomic => { c with atom := .atomic }
  | .compound => { c with atom := .compound }
  | .nonatomic => { c with atom := .non }
  | _ => if r.name = "WHITESPACE" || r.name = "COMMENT" then { c with atom := .atomic } else c

def eval (g : Grammar) : Nat → Ctx → Expr → Nat → List Char → Res
  | 0, _, _, _, _ => .oof
  | f + 1, c, e, p, s =>
    let skip (p : Nat) (s : List Char) : Res :=
      if c.atom = .non then eval g f { c with atom := .atomic } skipExpr p s else .ok p s []
    match e with
    | .str l =>
      match matchStr l s with
      | some r => .ok (p + l.length) r []
      | none => .fail
    | .insens l =>
      match matchInsens l s with
      | some r => .ok (p + l.length) r []
      | none => .fail
    | .range lo hi =>
      match s with
      | ch :: r => if lo.toNat ≤ ch.toNat && ch.toNat ≤ hi.toNat then .ok (p + 1) r [] else .fail
      | [] => .fail
    | .ident n =>
      if n = "SOI" then (if p = 0 then .ok p s [] else .fail)
      else if n = "EOI" then
        (match s with
         | [] => .ok p s (if emits c then [Pair.mk "EOI" p p []] else [])
         | _ :: _ => .fail)
      else
        match charClass n with
        | some pred =>
          (match s with
           | ch :: r => if pred ch then .ok (p + 1) r [] else .fail
           | [] => .fail)
        | none =>
          match findRule g n with
          | none => .fail
          | some r =>
            match eval g f (bodyCtx c r) r.expr p s with
            | .ok p1 s1 ps =>
              if r.ty = .silent then .ok p1 s1 ps
              else if emits c then .ok p1 s1 [Pair.mk n p p1 ps]
              else .ok p1 s1 ps
            | x => x
    | .seq a b =>
      match eval g f c a p s with
      | .ok p1 s1 ps1 =>
        (match skip p1 s1 with
         | .ok p2 s2 _ =>
           (match eval g f c b p2 s2 with
            | .ok p3 s3 ps3 => .ok p3 s3 (ps1 ++ ps3)
            | x => x)
         | x => x)
      | x => x
    | .choice a b =>
      match eval g f c a p s with
      | .fail => eval g f c b p s
      | x => x
    | .opt a =>
      match eval g f c a p s with
      | .fail => .ok p s []
      | x => x
    | .rep a =>
      match eval g f c a p s with
      | .ok p1 s1 ps1 =>
        (match eval g f c (.repTail a) p1 s1 with
         | .ok p2 s2 ps2 => .ok p2 s2 (ps1 ++ ps2)
         | x => x)
      | .fail => .ok p s []
      | .oof => .oof
    | .rep1 a =>
      match eval g f c a p s with
      | .ok p1 s1 ps1 =>
        (match eval g f c (.repTail a) p1 s1 with
         | .ok p2 s2 ps2 => .ok p2 s2 (ps1 ++ ps2)
         | x => x)
      | x => x
    | .repTail a =>
      match skip p s with
      | .ok p1 s1 _ =>
        (match eval g f c a p1 s1 with
         | .ok p2 s2 ps2 =>
           (match eval g f c (.repTail a) p2 s2 with
            | .ok p3 s3 ps3 => .ok p3 s3 (ps2 ++ ps3)
            | x => x)
         | .fail => .ok p s []
         | .oof => .oof)
      | x => x
    | .repN n a =>
      match n with
      | 0 => .ok p s []
      | 1 => eval g f c a p s
      | k + 2 => eval g f c (.seq a (.repN (k + 1) a)) p s
    | .neg a =>
      match eval g f { c with look := true } a p s with
      | .ok _ _ _ => .fail
      | .fail => .ok p s []
      | .oof => .oof
    | .pos a =>
      match eval g f { c with look := true } a p s with
      | .ok _ _ _ => .ok p s []
      | x => x

/-- fuel that exceeds the recursion depth on inputs of this length -/
def fuelFor (s : List Char) : Nat := 24 * s.length + 400

/-- `GraphQLParser::parse(rule, input)`: the pairs, or `none` on a syntax error -/
def parseRule (g : Grammar) (rule : String) (s : List Char) : Option (List Pair) :=
  match eval g (fuelFor s) {} (.ident rule) 0 s with
  | .ok _ _ ps => some ps
  | _ => none

/-- ran out of fuel (never on the inputs of the correspondence; the judge reports it) -/
def outOfFuel (g : Grammar) (rule : String) (s : List Char) : Bool :=
  match eval g (fuelFor s) {} (.ident rule) 0 s with
  | .oof => true
  | _ => false

end AGV.Model.Peg
