import AGV.Util.Sexp
import AGV.Util.Judge
import AGV.Model.Serde
import AGV.Spec.Serde

open AGV AGV.Sexp AGV.Model.Serde

namespace AGV.Drive.C16

-- ---------------------------------------------------------------- wire format → model

def parsePrim (s : String) : Option PTy :=
  [("bool", PTy.bool), ("i8", .i8), ("i16", .i16), ("i32", .i32), ("i64", .i64), ("i128", .i128),
   ("u8", .u8), ("u16", .u16), ("u32", .u32), ("u64", .u64), ("u128", .u128), ("f32", .f32), ("f64", .f64),
   ("char", .char), ("str", .str), ("bytes", .bytes), ("unit", .unit), ("ustruct", .ustruct)].lookup s

partial def parseTy : Sexp → Option STy
  | .atom a => (parsePrim a).map .prim
  | .list [.atom "opt", t] => (parseTy t).map .opt
  | .list [.atom "newtype", t] => (parseTy t).map .newtype
  | .list [.atom "seq", t] => (parseTy t).map .seq
  | .list [.atom "map", t] => (parseTy t).map .map
  | .list (.atom "tup" :: ts) => (ts.mapM parseTy).map .tup
  | .list (.atom "tstruct" :: ts) => (ts.mapM parseTy).map .tstruct
  | .list (.atom "struct" :: fs) => (parseFields fs).map (fun p => .struct p.1 p.2)
  | .list (.atom "enum" :: vs) => do
    let ps ← vs.mapM parseVariant
    pure (.enum (ps.map (·.1)) (ps.map (·.2.1)) (ps.map (·.2.2)))
  | _ => none
where
  parseFields (fs : List Sexp) : Option (List Str × List STy) := do
    let ps ← fs.mapM (fun f => match f with
      | .list [.str n, t] => (parseTy t).map (fun t => (n, t))
      | _ => none)
    pure (ps.map (·.1), ps.map (·.2))
  parseVariant : Sexp → Option (Str × VKind × STy)
    | .list [.atom "uv", .str n] => some (n, .unit, .prim .unit)
    | .list [.atom "nv", .str n, t] => (parseTy t).map (fun t => (n, .newtype, t))
    | .list (.atom "tv" :: .str n :: ts) => (ts.mapM parseTy).map (fun ts => (n, .tuple, .tup ts))
    | .list (.atom "sv" :: .str n :: fs) => (parseFields fs).map (fun p => (n, .struct, .struct p.1 p.2))
    | _ => none

def natList (xs : List Sexp) : Option (List Nat) := xs.mapM asNat?

partial def parseVal (x : Sexp) : Option SVal :=
  match x with
  | .list [.atom "b", .atom "true"] => some (.bool true)
  | .list [.atom "b", .atom "false"] => some (.bool false)
  | .list [.atom "i", n] => (asInt? n).map .int
  | .list [.atom "f", n] => (asNat? n).map .float
  | .list [.atom "c", .str [c]] => some (.char c)
  | .list [.atom "s", .str s] => some (.str s)
  | .list [.atom "y", .list bs] => (natList bs).map .bytes
  | .list [.atom "unit"] => some .unit
  | .list [.atom "none"] => some .none
  | .list [.atom "some", v] => (parseVal v).map .some
  | .list [.atom "nt", v] => (parseVal v).map .newtype
  | .list (.atom "seq" :: vs) => (vs.mapM parseVal).map .seq
  | .list (.atom "tup" :: vs) => (vs.mapM parseVal).map .tup
  | .list (.atom "map" :: es) =>
    (es.mapM (fun (e : Sexp) => match e with
      | .list [.str k, v] => (parseVal v).map (fun v => (k, v))
      | _ => none)).map .map
  | .list [.atom "var", .str n, v] => (parseVal v).map (.var n)
  | _ => none

partial def parseGV (x : Sexp) : Option GV :=
  match x with
  | .atom "null" => some .null
  | .list [.atom "n", n] => (asInt? n).map .int
  | .list [.atom "fl", n] => (asNat? n).map .float
  | .list [.atom "s", .str s] => some (.str s)
  | .list [.atom "b", .atom "true"] => some (.bool true)
  | .list [.atom "b", .atom "false"] => some (.bool false)
  | .list [.atom "bin", .list bs] => (natList bs).map .bin
  | .list [.atom "en", .str s] => some (.enum s)
  | .list (.atom "l" :: xs) => (xs.mapM parseGV).map .list
  | .list (.atom "o" :: es) =>
    (es.mapM (fun (e : Sexp) => match e with
      | .list [.str k, v] => (parseGV v).map (fun v => (k, v))
      | _ => none)).map .obj
  | _ => none

-- ---------------------------------------------------------------- model → wire format

def strLt : Str → Str → Bool
  | [], [] => false
  | [], _ :: _ => true
  | _ :: _, [] => false
  | a :: as, b :: bs => a.toNat < b.toNat || (a == b && strLt as bs)

def insertSorted {β : Type} (kv : Str × β) : List (Str × β) → List (Str × β)
  | [] => [kv]
  | x :: xs => if strLt kv.1 x.1 then kv :: x :: xs else x :: insertSorted kv xs

/-- a Rust `BTreeMap` iterates in key order: canonical form of a map that came out of `de` -/
def sortKeys {β : Type} (l : List (Str × β)) : List (Str × β) := l.foldr insertSorted []

partial def valSexp : SVal → Sexp
  | .bool b => .list [.atom "b", ofBool b]
  | .int n => .list [.atom "i", ofInt n]
  | .float b => .list [.atom "f", ofNat b]
  | .char c => .list [.atom "c", .str [c]]
  | .str s => .list [.atom "s", .str s]
  | .bytes bs => .list [.atom "y", .list (bs.map ofNat)]
  | .unit => .list [.atom "unit"]
  | .none => .list [.atom "none"]
  | .some v => .list [.atom "some", valSexp v]
  | .newtype v => .list [.atom "nt", valSexp v]
  | .seq vs => .list (.atom "seq" :: vs.map valSexp)
  | .tup vs => .list (.atom "tup" :: vs.map valSexp)
  | .map kvs => .list (.atom "map" :: (sortKeys kvs).map (fun kv => .list [.str kv.1, valSexp kv.2]))
  | .var n v => .list [.atom "var", .str n, valSexp v]

partial def gvSexp : GV → Sexp
  | .null => .atom "null"
  | .int n => .list [.atom "n", ofInt n]
  | .float b => .list [.atom "fl", ofNat b]
  | .str s => .list [.atom "s", .str s]
  | .bool b => .list [.atom "b", ofBool b]
  | .bin bs => .list [.atom "bin", .list (bs.map ofNat)]
  | .enum s => .list [.atom "en", .str s]
  | .list xs => .list (.atom "l" :: xs.map gvSexp)
  | .obj kvs => .list (.atom "o" :: kvs.map (fun kv => .list [.str kv.1, gvSexp kv.2]))

def errS : Sexp := .list [.atom "err"]
def okS (x : Sexp) : Sexp := .list [.atom "ok", x]

def rtOut (D : Defects) (τ : STy) (v : SVal) : String :=
  match ser D τ v with
  | none => render (.list [.atom "rt", errS, .list [.atom "skip"]])
  | some g =>
    let back := match de τ g with
      | some w => okS (valSexp w)
      | none => errS
    render (.list [.atom "rt", okS (gvSexp g), back])

def deOut (τ : STy) (g : GV) : String :=
  match de τ g with
  | some w => render (.list [.atom "de", okS (valSexp w)])
  | none => render (.list [.atom "de", errS])

-- ---------------------------------------------------------------- attribution of a loss to a listed finding

/-- the classes excluded by `RoundTrippable` that occur in a (well-shaped) value -/
partial def classes (D : Defects) : STy → SVal → List String
  | .prim .char, _ => if D.charRejected then ["C16-char-rejected"] else []
  | .prim .i128, _ => ["C16-wide-int-rejected"]
  | .prim .u128, _ => ["C16-wide-int-rejected"]
  | .prim _, .float b => if finiteBits b then [] else ["C16-nonfinite-float"]
  | .prim _, _ => []
  | .opt t, .some v =>
    classes D t v ++ (if serIsNull (ser D t v) then ["C16-null-under-option"] else [])
  | .newtype t, .newtype v => classes D t v
  | .seq t, .seq vs => (vs.map (classes D t)).flatten
  | .map t, .map kvs => (kvs.map (fun kv => classes D t kv.2)).flatten
  | .tup ts, .tup vs => ((ts.zip vs).map (fun p => classes D p.1 p.2)).flatten
  | .tstruct ts, .tup vs => ((ts.zip vs).map (fun p => classes D p.1 p.2)).flatten
  | .struct _ ts, .tup vs => ((ts.zip vs).map (fun p => classes D p.1 p.2)).flatten
  | .enum ns ks ts, .var name v =>
    match (ns.zip (ks.zip ts)).lookup name with
    | some (.newtype, t) => classes D t v
    | some (.tuple, .tup ts') =>
      (match v with
       | .tup vs => (if vs.isEmpty then ["C16-empty-tuple-variant"] else []) ++
                    ((ts'.zip vs).map (fun p => classes D p.1 p.2)).flatten
       | _ => [])
    | some (.struct, .struct _ fts) =>
      (match v with
       | .tup vs => ((fts.zip vs).map (fun p => classes D p.1 p.2)).flatten
       | _ => [])
    | _ => []
  | _, _ => []

def judge (known : List String) (case impl : String) : JudgeOut :=
  let D : Defects := { charRejected := known.contains "C16-char-rejected" }
  match parse case with
  | some (.list [.atom "rt", _, shape, value]) =>
    match parseTy shape, parseVal value with
    | some τ, some v =>
      let mK := rtOut D τ v
      let m0 := rtOut Defects.none τ v
      -- the property: `to_value` succeeds and `from_value` gives the value back
      let holds := match parse impl with
        | some (.list [.atom "rt", .list [.atom "ok", _], back]) => back == okS value
        | _ => false
      let spec := "(rt _ " ++ render (okS value) ++ ")"
      if impl = mK ∨ impl = m0 then
        if holds then .ok
        else
          let cs := classes (if impl = mK then D else Defects.none) τ v
          match cs with
          | [] => .viol mK spec
          | c :: _ => if cs.all known.contains then .known c mK spec else .viol mK spec
      else if holds then .tie mK spec else .viol mK spec
    | _, _ => .viol "bad-case" "bad-case"
  | some (.list [.atom "de", _, shape, gv]) =>
    match parseTy shape, parseGV gv with
    | some τ, some g =>
      let m := deOut τ g
      if impl = m then .ok else .tie m "(correspondence of from_value only)"
    | _, _ => .viol "bad-case" "bad-case"
  | _ => .viol "bad-case" "bad-case"

end AGV.Drive.C16

def main (args : List String) : IO UInt32 := AGV.runJudge AGV.Drive.C16.judge args
