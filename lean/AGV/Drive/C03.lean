import AGV.Util.Sexp
import AGV.Util.Judge
import AGV.Core.Types
import AGV.Spec.Exec
import AGV.Model.ExecStatic

open AGV AGV.Sexp AGV.Core

namespace AGV.Drive.C03

def insertSorted (s : String) : List String → List String
  | [] => [s]
  | x :: xs => if s ≤ x then s :: x :: xs else x :: insertSorted s xs

def sortStrings (xs : List String) : List String := xs.foldl (fun acc s => insertSorted s acc) []

def errStrings (es : List GErr) : List String := sortStrings (es.map (fun e => render e.toSexp))

def dataSexp (r : Res) : Sexp :=
  match r.val with
  | some v => v.toSexp
  | none => .atom "null"

/-- the same canonical form as `family::response_sexp` -/
def respStr (r : Res) : String :=
  render (.list [.atom "resp", dataSexp r,
    .list (.atom "errs" :: (errStrings r.errs).map .atom),
    .list (.atom "log" :: r.log.map Inv.toSexp)])

structure Impl where
  data : String
  errs : List String
  log : List (Nat × String × String)

def implParts (impl : String) : Option Impl :=
  match parse impl with
  | some (.list [.atom "resp", d, .list (.atom "errs" :: es), .list (.atom "log" :: ls)]) =>
    some { data := render d, errs := es.map render,
           log := ls.filterMap (fun l => match l with
             | .list [id, .str f, .str k] => (asNat? id).map (fun i => (i, String.ofList f, String.ofList k))
             | _ => none) }
  | _ => none

def isSubMultiset : List String → List String → Bool
  | [], _ => true
  | x :: xs, ys => if ys.contains x then isSubMultiset xs (ys.erase x) else false

/-- The property on one case, evaluated on the implementation's output:
    (a) data = the specification's data (errors nulled at the nearest nullable position, every
        other position unchanged);
    (b) every reported error is one of the specification's errors (exact path and location),
        none twice;
    (c) exactly one error per resolver invocation that failed. -/
def holds (w : World) (spec : Res) (i : Impl) : Bool :=
  let failedInvocations := i.log.filter (fun l => match w.get l.1 l.2.1 with
    | .fail _ => true
    | _ => false)
  i.data == render (dataSexp spec) &&
  isSubMultiset i.errs (errStrings spec.errs) &&
  i.errs.length == failedInvocations.length

def judge (known : List String) (case impl : String) : JudgeOut :=
  match parse case with
  | some (.list (.atom "case" :: s :: d :: opn :: vs :: w :: _)) =>
    match Decode.schema? s, Decode.doc? d, Decode.optStr? opn, Decode.vars? vs, Decode.world? w with
    | some S, some doc, some opName, some vars, some world =>
      let fuel := Spec.Exec.fuelBound doc
      let spec := Spec.Exec.run S doc opName vars world fuel
      let ids : List String := ["C03-resolver-error-skips-nullable-field", "C03-list-item-overwrites-error-path",
        "C03-interface-field-error-without-path", "C03-repeated-key-error-keeps-partial-object",
        "C01-union-condition-ignored", "C01-skip-ignores-variable-default"]
      let mk (on : List String) : Model.ExecStatic.Defects :=
        { unionCondIgnored := on.contains "C01-union-condition-ignored"
          skipIgnoresVarDefault := on.contains "C01-skip-ignores-variable-default"
          resolverErrPropagates := on.contains "C03-resolver-error-skips-nullable-field"
          listItemPathOverwrite := on.contains "C03-list-item-overwrites-error-path"
          ifaceErrNoPath := on.contains "C03-interface-field-error-without-path"
          mergeKeepsPartialOnNull := on.contains "C03-repeated-key-error-keeps-partial-object" }
      let on := ids.filter known.contains
      let m (on : List String) := respStr (Model.ExecStatic.run (mk on) S doc opName vars world fuel)
      let mK := m on
      match implParts impl with
      | none => .viol mK (respStr spec)
      | some i =>
        if holds world spec i then
          if impl = mK then .ok
          else if impl = m [] then { verdict := "OK", model := mK, spec := respStr spec }   -- listed defects repaired
          else .tie mK (respStr spec)
        else if impl = mK then
          -- attribute to the first listed defect whose removal changes the model's answer
          match on.find? (fun id => m (on.filter (· ≠ id)) ≠ mK) with
          | some id => .known id mK (respStr spec)
          | none => match on with
            | id :: _ => .known id mK (respStr spec)
            | [] => .viol mK (respStr spec)
        else .viol mK (respStr spec)
    | _, _, _, _, _ => .viol "bad-case" "undecodable case"
  | _ => .viol "bad-case" "undecodable case"

end AGV.Drive.C03

def main (args : List String) : IO UInt32 := AGV.runJudge AGV.Drive.C03.judge args
