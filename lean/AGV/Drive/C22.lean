import AGV.Util.Sexp
import AGV.Util.Judge
import AGV.Core.Types
import AGV.Spec.Exec
import AGV.Spec.Lookahead
import AGV.Model.ExecStatic
import AGV.Model.Lookahead

open AGV AGV.Sexp AGV.Core
open AGV.Spec.Lookahead (Node)

namespace AGV.Drive.C22

/-- one listed field: name, alias, resolved arguments (values rendered), listed sub-fields -/
inductive Entry where
  | mk (name : String) (alias : Option String) (args : List (String × String)) (kids : List Entry)
  deriving Inhabited

namespace Entry
def name : Entry → String | mk n _ _ _ => n
def alias : Entry → Option String | mk _ a _ _ => a
def args : Entry → List (String × String) | mk _ _ a _ => a
def kids : Entry → List Entry | mk _ _ _ k => k
def key (e : Entry) : String := e.alias.getD e.name
end Entry

/-- `(n NAME EXISTS (entries) (subs))` with subs = `(m NAME EXISTS (entries))` -/
structure LaSub where
  name : String
  ex : Bool
  entries : List Entry

structure LaN where
  name : String
  ex : Bool
  entries : List Entry
  subs : List LaSub

-- ------------------------------------------------------------------ rendering (the harness's format)

partial def entrySexp (withKids : Nat) (e : Entry) : Sexp :=
  let base := [.atom "f", .str e.name.toList,
    (match e.alias with | some a => .str a.toList | none => .atom "none"),
    .list (.atom "args" :: e.args.map (fun p => .list [.str p.1.toList, .atom p.2]))]
  match withKids with
  | 0 => .list base
  | k + 1 => .list (base ++ [.list (e.kids.map (entrySexp k))])

def selSexp (es : List Entry) : Sexp := .list (.atom "sel" :: es.map (entrySexp 1))

def laSexp (ls : List LaN) : Sexp :=
  .list (.atom "la" :: ls.map (fun l =>
    .list [.atom "n", .str l.name.toList, ofBool l.ex, .list (l.entries.map (entrySexp 0)),
      .list (l.subs.map (fun s => .list [.atom "m", .str s.name.toList, ofBool s.ex, .list (s.entries.map (entrySexp 0))]))]))

-- ------------------------------------------------------------------ views from a document walk

/-- how a view walks a selection set: all fields / the fields of one name -/
structure Walk where
  fields : List Sel → List Node
  named : String → List Sel → List Node

def modelWalk (d : Doc) (fuel : Nat) : Walk :=
  { fields := Model.Lookahead.selFields d fuel, named := fun n ss => Model.Lookahead.filter d n fuel ss }

def specWalk (vars : List (String × GValue)) (d : Doc) (fuel : Nat) : Walk :=
  { fields := Spec.Lookahead.visible vars d fuel,
    named := fun n ss => (Spec.Lookahead.visible vars d fuel ss).filter (·.name = n) }

def argStrs (vars : List (String × GValue)) (n : Node) : List (String × String) :=
  (Spec.Lookahead.resolvedArgs vars n.args).map (fun p => (p.1, render p.2.toSexp))

def mkEntry (W : Walk) (vars : List (String × GValue)) : Nat → Node → Entry
  | 0, n => .mk n.name n.alias (argStrs vars n) []
  | k + 1, n => .mk n.name n.alias (argStrs vars n) ((W.fields n.sels).map (mkEntry W vars k))

def mkSel (W : Walk) (vars : List (String × GValue)) (node : Node) : List Entry :=
  (W.fields node.sels).map (mkEntry W vars 1)

def mkLa (W : Walk) (vars : List (String × GValue)) (names : List String) (node : Node) : List LaN :=
  names.map (fun n =>
    let l1 := W.named n node.sels            -- Lookahead::new(field).field(n)
    let subs := if l1.isEmpty then [] else
      names.filterMap (fun m =>
        let l2 := (l1.map (fun f => W.named m f.sels)).flatten     -- .field(m)
        if l2.isEmpty then none else some { name := m, ex := true, entries := l2.map (mkEntry W vars 0) })
    { name := n, ex := !l1.isEmpty, entries := l1.map (mkEntry W vars 0), subs := subs })

/-- the look-ahead view that the selection view (depth 2) determines -/
def laOfSel (names : List String) (sel : List Entry) : List LaN :=
  let strip (e : Entry) : Entry := .mk e.name e.alias e.args []
  names.map (fun n =>
    let l1 := sel.filter (·.name = n)
    let subs := if l1.isEmpty then [] else
      names.filterMap (fun m =>
        let l2 := ((l1.map (·.kids)).flatten).filter (·.name = m)
        if l2.isEmpty then none else some { name := m, ex := true, entries := l2.map strip })
    { name := n, ex := !l1.isEmpty, entries := l1.map strip, subs := subs })

-- ------------------------------------------------------------------ reading the implementation's output

partial def entry? : Sexp → Option Entry
  | .list (.atom "f" :: .str n :: al :: .list (.atom "args" :: as) :: rest) => do
    let alias ← Decode.optStr? al
    let args ← as.mapM (fun (a : Sexp) => match a with
      | .list [.str k, v] => some (String.ofList k, render v)
      | _ => none)
    let kids ← match rest with
      | [] => some []
      | [.list ks] => ks.mapM entry?
      | _ => none
    some (.mk (String.ofList n) alias args kids)
  | _ => none

def bool? : Sexp → Option Bool
  | .atom "true" => some true
  | .atom "false" => some false
  | _ => none

def laN? : Sexp → Option LaN
  | .list [.atom "n", .str n, ex, .list es, .list subs] => do
    let subs ← subs.mapM (fun (s : Sexp) => match s with
      | .list [.atom "m", .str m, ex2, .list es2] => do
        some ({ name := String.ofList m, ex := ← bool? ex2, entries := ← es2.mapM entry? } : LaSub)
      | _ => none)
    some { name := String.ofList n, ex := ← bool? ex, entries := ← es.mapM entry?, subs := subs }
  | _ => none

structure Inv where
  parent : Nat
  field : String
  key : String
  pos : Pos
  path : List PathSeg
  recv : List (String × String)
  sel : List Entry
  la : List LaN
  selRaw : String
  laRaw : String

def seg? : Sexp → Option PathSeg
  | .str s => some (.key (String.ofList s))
  | .atom a => a.toNat?.map .idx
  | _ => none

def inv? : Sexp → Option Inv
  | .list [.atom "inv", p, .str f, .str k, pos, .list path, .list (.atom "recv" :: rs), .list (.atom "sel" :: ss),
      .list (.atom "la" :: ls)] => do
    let recv ← rs.mapM (fun (a : Sexp) => match a with
      | .list [.str k, v] => some (String.ofList k, render v)
      | _ => none)
    some { parent := ← asNat? p, field := String.ofList f, key := String.ofList k, pos := ← Decode.pos? pos,
           path := ← path.mapM seg?, recv := recv, sel := ← ss.mapM entry?, la := ← ls.mapM laN?,
           selRaw := render (.list (.atom "sel" :: ss)), laRaw := render (.list (.atom "la" :: ls)) }
  | _ => none

def out? (impl : String) : Option (List Inv) :=
  match parse impl with
  | some (.list (.atom "out" :: is)) => is.mapM inv?
  | _ => none

-- ------------------------------------------------------------------ the property on one case

def insertSorted (s : String) : List String → List String
  | [] => [s]
  | x :: xs => if s < x then s :: x :: xs else if s = x then x :: xs else x :: insertSorted s xs

partial def selNames : List Sel → List String
  | [] => []
  | .field _ n _ _ ss _ :: r => n :: selNames ss ++ selNames r
  | .spread _ _ _ :: r => selNames r
  | .inline _ _ ss _ :: r => selNames ss ++ selNames r

/-- the names the harness probes the look-ahead with: every field name of the document,
    `__typename`, and the absent `zz`; sorted, without duplicates -/
def probeNames (d : Doc) : List String :=
  (["__typename", "zz"] ++ (d.ops.map (fun o => selNames o.sels)).flatten ++ (d.frags.map (fun f => selNames f.sels)).flatten).foldl
    (fun acc s => insertSorted s acc) []

def dropTrailingIdx (p : List PathSeg) : List PathSeg :=
  (p.reverse.dropWhile (fun s => match s with | .idx _ => true | .key _ => false)).reverse

/-- the invocations directly beneath invocation number `i`: execution is depth-first, so they are
    among the following entries while the path strictly extends `i`'s path -/
def childrenOf (log : List Inv) (i : Nat) : List Inv :=
  match log[i]? with
  | none => []
  | some x =>
    let below := (log.drop (i + 1)).takeWhile (fun j => x.path.length < j.path.length && j.path.take x.path.length == x.path)
    below.filter (fun j => dropTrailingIdx j.path.dropLast == x.path)

def argDefault (S : Schema) (field a : String) : String :=
  match S.types.findSome? (fun t => t.fields.find? (·.name = field)) with
  | some fd => match fd.args.find? (·.name = a) with
    | some ad => render (ad.default.getD .null).toSexp
    | none => "null"
  | none => "null"

/-- the value the resolver received for every parameter is the listed one, or the declared
    default / null when the view does not list the argument -/
def argsAgree (S : Schema) (e : Entry) (j : Inv) : Bool :=
  j.recv.all (fun r => match e.args.find? (·.1 = r.1) with
    | some p => p.2 == r.2
    | none => argDefault S j.field r.1 == r.2)

def lists (S : Schema) (es : List Entry) (j : Inv) : Bool :=
  es.any (fun e => e.name == j.field && e.key == j.key && argsAgree S e j)

def complete (S : Schema) (log : List Inv) : Bool :=
  (List.range log.length).all (fun i =>
    match log[i]? with
    | none => true
    | some x =>
      (childrenOf log i).all (fun j =>
        lists S x.sel j &&
        x.la.any (fun l => l.name == j.field && l.ex && lists S l.entries j)))

/-- `as` is listed within `bs`: a subsequence, entry by entry (name, alias, arguments), sub-fields likewise -/
partial def subEntries : List Entry → List Entry → Bool
  | [], _ => true
  | _ :: _, [] => false
  | a :: as, b :: bs =>
    if a.name == b.name && a.alias == b.alias && a.args == b.args && subEntries a.kids b.kids then subEntries as bs
    else subEntries (a :: as) bs

def judge (known : List String) (case impl : String) : JudgeOut :=
  match parse case with
  | some (.list [.atom "case", s, d, opn, vs, w, _]) =>
    match Decode.schema? s, Decode.doc? d, Decode.optStr? opn, Decode.vars? vs, Decode.world? w with
    | some S, some doc, some opName, some raw, some world =>
      match Spec.Exec.selectOp doc opName, out? impl with
      | some op, some log =>
        let fuel := Spec.Exec.fuelBound doc
        let vars := Spec.Exec.coerceVars op.vars raw
        let names := probeNames doc
        let myId := "C22-views-list-field-skipped-by-variable-default"
        let modelOf (skipDefect : Bool) : String :=
          let D : Model.ExecStatic.Defects := { skipIgnoresVarDefault := skipDefect }
          let pd := Model.Lookahead.prunedDoc D doc op raw fuel
          let W := modelWalk pd fuel
          String.intercalate " ;; " (log.map (fun x =>
            match Model.Lookahead.findNodeDoc pd fuel x.pos with
            | none => "no-field-at-position"
            | some node =>
              if node.name ≠ x.field ∨ node.key ≠ x.key then "other-field-at-position"
              else render (selSexp (mkSel W vars node)) ++ " " ++ render (laSexp (mkLa W vars names node))))
        let implViews := String.intercalate " ;; " (log.map (fun x => x.selRaw ++ " " ++ x.laRaw))
        -- which invocations happen is the executor's business (C01/C03): accept the executor model with the
        -- union-condition deviation present or repaired
        let implLog := log.map (fun x => (x.parent, x.field, x.key))
        let execLog (skipDefect union : Bool) :=
          (Model.ExecStatic.run { skipIgnoresVarDefault := skipDefect, unionCondIgnored := union } S doc opName raw world fuel).log.map
            (fun i => (i.parent, i.field, i.key))
        let logOK (skipDefect : Bool) := implLog == execLog skipDefect true || implLog == execLog skipDefect false
        -- the property, evaluated on the implementation's own output
        let SW := specWalk vars doc fuel
        let pruned := log.all (fun x =>
          match Model.Lookahead.findNodeDoc doc fuel x.pos with
          | none => false
          | some node => subEntries x.sel (mkSel SW vars node))
        let agree := log.all (fun x => render (laSexp (laOfSel names x.sel)) == x.laRaw)
        let holds := complete S log && pruned && agree
        let on := known.contains myId
        let mK := modelOf on
        let specStr := s!"complete={complete S log} pruned={pruned} views-agree={agree}"
        if holds then
          if implViews = mK ∧ logOK on then .ok
          else if implViews = modelOf false ∧ logOK false then { verdict := "OK", model := "", spec := specStr }  -- listed defect repaired
          else .tie mK specStr
        else if on ∧ implViews = mK ∧ logOK true ∧ mK ≠ modelOf false then .known myId mK specStr
        else .viol mK specStr
      | _, _ => .viol "bad-case" "no operation / unreadable output"
    | _, _, _, _, _ => .viol "bad-case" "undecodable case"
  | _ => .viol "bad-case" "undecodable case"

end AGV.Drive.C22

def main (args : List String) : IO UInt32 := AGV.runJudge AGV.Drive.C22.judge args
