import AGV.Util.Sexp
import AGV.Util.Judge
import AGV.Model.Introspection
import AGV.Model.IntrospectionObs
import AGV.Spec.Introspection

open AGV AGV.Sexp AGV.Model.Introspection

namespace AGV.Drive.C19

def flavour? : String → Option Flavour
  | "static" => some .static | "dynamic" => some .dynamic | _ => none
def mode? : String → Option Mode
  | "enabled" => some .enabled | "only" => some .only | "disabled" => some .disabled | _ => none
def op? : String → Option Op
  | "query" => some .query | "mutation" => some .mutation | "subscription" => some .subscription | _ => none
def via? : String → Option Via
  | "exec" => some .exec | "batch" => some .batch | "stream" => some .stream | _ => none
def kind? : String → Option Kind
  | "schema" => some .schema | "type" => some .type | "service" => some .service
  | "entities" => some .entities | "typename" => some .typename | "ordinary" => some .ordinary | _ => none

def sel? : Sexp → Option Sel
  | .atom k => (kind? k).map .field
  | .list [.atom "on", .atom k] => (kind? k).map (.inline true)
  | .list [.atom "in", .atom k] => (kind? k).map (.inline false)
  | _ => none

def idService := "C19-static-service-ungated"
def idEntities := "C19-dynamic-entities-in-only"
def idSubscription := "C19-dynamic-subscription-in-only"
def idTypename := "C19-empty-mutation-typename"
def allIds : List String := [idService, idEntities, idSubscription, idTypename]

def defectsOf (ids : List String) : Defects :=
  { staticServiceUngated := ids.contains idService
    dynEntitiesGated := ids.contains idEntities
    dynSubscriptionInOnly := ids.contains idSubscription
    emptyMutationTypename := ids.contains idTypename }

/-- all sublists, the full list first -/
def sublists : List String → List (List String)
  | [] => [[]]
  | x :: xs => let r := sublists xs; r.map (x :: ·) ++ r

/-- observation of the implementation's output line, for the specification -/
def obsOfImpl (ks : List Kind) (impl : Sexp) : Option Spec.Introspection.Obs :=
  match impl with
  | .list [.atom "rejected", n] => (asNat? n).map (fun n => { fields := [], strayRuns := n })
  | .list [.atom "unsupported", n] => (asNat? n).map (fun n => { fields := [], strayRuns := n })
  | .list [.atom "failed", _, n] => (asNat? n).map (fun n => { fields := [], strayRuns := n })
  | .list (.atom "ok" :: rest) =>
    let fs := rest.dropLast.dropLast
    let stray := match rest.getLast? with
      | some (.list [.atom "stray", n]) => asNat? n
      | _ => none
    if fs.length ≠ ks.length then none else
    let one (k : Kind) (f : Sexp) : Option Spec.Introspection.FieldObs :=
      match f with
      | .list [cls, run] =>
        some { kind := k
               gotMetadata := cls == .atom "meta"
               resolverRan := run != .atom "norun"
               typeName := match cls with
                 | .list [.atom "typename", .str cs] => some (String.ofList cs)
                 | _ => none }
      | _ => none
    let obs := (ks.zip fs).map (fun p => one p.1 p.2)
    if obs.all Option.isSome then
      stray.map (fun s => { fields := obs.filterMap id, strayRuns := s })
    else none
  | _ => none

def judge (known : List String) (case impl : String) : JudgeOut :=
  match parse case with
  | some (.list [.atom "c", .atom fl, .atom sm, .atom rm, .atom op, .atom via, .list ks]) =>
    match flavour? fl, mode? sm, mode? rm, op? op, via? via, ks.mapM sel? with
    | some fl, some sm, some rm, some op, some via, some ss =>
      let ks := ss.map Sel.kind
      let ids := allIds.filter known.contains
      let out (S : List String) := render (runSel (defectsOf S) fl sm rm op via ss)
      let spec := out []
      let modelK := out ids
      if impl = spec then
        { verdict := "OK", model := modelK, spec := spec }
      else
        -- the tree may carry any subset of the listed findings (fixes are applied one by one)
        match (sublists ids).find? (fun S => out S = impl) with
        | some S =>
          match S.find? (fun id => out (S.erase id) ≠ impl) with
          | some id => .known id modelK spec
          | none => .viol modelK spec
        | none =>
          let holds := match (parse impl).bind (obsOfImpl ks) with
            | some o => Spec.Introspection.holds sm rm op o
            | none => false
          if holds then .tie modelK spec else .viol modelK spec
    | _, _, _, _, _, _ => .viol "bad-case" "bad-case"
  | _ => .viol "bad-case" "bad-case"

end AGV.Drive.C19

def main (args : List String) : IO UInt32 := AGV.runJudge AGV.Drive.C19.judge args
