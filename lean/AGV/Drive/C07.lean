import AGV.Util.Sexp
import AGV.Util.Judge
import AGV.Model.Scalars
import AGV.Spec.Scalars
import AGV.Gen.NumScalars

open AGV AGV.Sexp

namespace AGV.Drive.C07
open AGV.Spec.Scalars (GValue RVal STy Req)
open AGV.Model.Scalars (Defects Res Err Ty)

def decodeTy : Sexp → Option (Ty × STy)
  | .atom "f64" => some (.f64, .f64)
  | .atom "f32" => some (.f32, .f32)
  | .atom "bool" => some (.bool, .bool)
  | .atom "string" => some (.string, .string)
  | .atom "boxstr" => some (.string, .string)
  | .atom "arcstr" => some (.string, .string)
  | .atom "char" => some (.char, .char)
  | .atom "id" => some (.id, .id)
  | .list [.atom "int", .str name] =>
    let n := String.ofList name
    (AGV.Gen.IntScalars.table.find? (fun e => e.name = n)).map (fun e => (.int e, .int n))
  | .list [.atom "enum", .atom _, .list items] =>
    let names := items.filterMap asStr?
    if names.length = items.length then
      let its := names.zipIdx
      some (.enum its, .enum its)
    else none
  | _ => none

/-- `none` (absent) is `value.unwrap_or_default()` = null in every scalar's `InputType::parse` -/
def decodeV : Sexp → Option GValue
  | .atom "none" => some .null
  | .atom "null" => some .null
  | .list [.atom "int", i] => (asInt? i).map .int
  | .list [.atom "float", b] => (asNat? b).map .float
  | .list [.atom "str", .str s] => some (.str s)
  | .list [.atom "bool", .atom "true"] => some (.bool true)
  | .list [.atom "bool", .atom "false"] => some (.bool false)
  | .list [.atom "bin"] => some .binary
  | .list [.atom "enum", .str n] => some (.enum n)
  | .list (.atom "list" :: _) => some .list
  | .list (.atom "obj" :: _) => some .object
  | _ => none

def decodeR : STy → Sexp → Option RVal
  | .int _, s => (asInt? s).map .int
  | .f64, s => (asNat? s).map .f64
  | .f32, s => (asNat? s).map .f32
  | .bool, .atom "true" => some (.bool true)
  | .bool, .atom "false" => some (.bool false)
  | .string, .str s => some (.str s)
  | .char, .str [c] => some (.char c)
  | .id, .str s => some (.id s)
  | .enum _, s => (asNat? s).map .enumV
  | _, _ => none

def rvalSexp : RVal → Sexp
  | .int i => ofInt i
  | .f64 b => ofNat b
  | .f32 b => ofNat b
  | .bool b => ofBool b
  | .str s => .str s
  | .char c => .str [c]
  | .id s => .str s
  | .enumV v => ofNat v

def errName : Err → String
  | .expectedType => "expected"
  | .invalidNumber => "invalid"
  | .range => "range"
  | .charEmpty => "char_empty"
  | .charMany => "char_many"
  | .enumUnknown => "enum_unknown"

def resSexp : Res RVal → Sexp
  | .ok r => .list [.atom "ok", rvalSexp r]
  | .err e => .list [.atom "err", .atom (errName e)]
  | .panic => .list [.atom "model-panic"]

def valueSexp : GValue → Sexp
  | .null => .atom "null"
  | .int i => .list [.atom "int", ofInt i]
  | .float b => .list [.atom "float", ofNat b]
  | .str s => .list [.atom "str", .str s]
  | .bool b => .list [.atom "bool", ofBool b]
  | .binary => .list [.atom "bin"]
  | .enum n => .list [.atom "enum", .str n]
  | .list => .list [.atom "list"]
  | .object => .list [.atom "obj"]

def idsOf (known : List String) : Defects :=
  { idRejectsLargeUint := known.contains "C07-id-rejects-large-uint"
    nonFiniteToNull := known.contains "C07-nonfinite-float-null"
    nonZeroUnsignedIsValidI64 := known.contains "C07-nonzero-unsigned-isvalid-i64"
    intValidatorOfFirstRegistered := known.contains "C07-int-validator-of-first-registered" }

/-- predicate-style triage: `sat` = the implementation's output satisfies what the property
    requires on this case; `model known'` = output of the model under the given findings -/
def decide (known : List String) (impl : String) (sat : Bool) (specTxt : String)
    (model : List String → String) : JudgeOut :=
  let modelK := model known
  if sat then
    -- also fine: a listed finding has been repaired in the code but not yet flipped to fixed
    if impl = modelK ∨ impl = model [] ∨ known.any (fun id => impl = model (known.filter (· ≠ id)))
    then .ok else .tie modelK specTxt
  else if impl = modelK then
    match known.find? (fun id => model (known.filter (· ≠ id)) ≠ modelK) with
    | some id => .known id modelK specTxt
    | none => .viol modelK specTxt
  else .viol modelK specTxt


-- ------------------------------------------------------------------ stream `schema`

open AGV.Gen.IntScalars in
def entryNamed (n : String) : Option Entry := table.find? (fun e => e.name = n)

open AGV.Gen.IntScalars in
/-- the integer types `add_system_types` registers before any user type, in order (source-derived) -/
def systemInts : List Entry := AGV.Gen.NumScalars.systemScalars.filterMap entryNamed

open AGV.Gen.IntScalars in
def decodeOrder (l : List Sexp) : Option (List Entry) :=
  l.mapM (fun x => match x with
    | .str n => entryNamed (String.ofList n)
    | _ => none)

def classSexp : Model.Scalars.VClass → Sexp
  | .i64 => .atom "i64"
  | .u64 => .atom "u64"
  | .any => .atom "any"
  | .other => .atom "other"

def sresSexp : Model.Scalars.SRes → Sexp
  | .accepted r => .list [.atom "ok", ofInt r]
  | .rejected .validation => .list [.atom "rejected", .atom "validation"]
  | .rejected .execution => .list [.atom "rejected", .atom "execution"]
  | .crash => .list [.atom "model-panic"]

/-- what the property requires at a position of integer type `name`, and whether `res` (the
    last element of the implementation's output, rendered) meets it -/
def intReq (name : String) (v : GValue) (res : String) : Bool × String :=
  match Spec.Scalars.coerce (.int name) v with
  | .accept (.int r) =>
    let want := render (.list [.atom "ok", ofInt r])
    (res == want, want)
  | .reject => (res == "(rejected validation)" || res == "(rejected execution)", "(rejected _)")
  | _ => (false, "?")

open AGV.Gen.IntScalars in
def judgeSch (known : List String) (impl : String) (order : List Entry) (t : Entry) (via : String) (v : GValue) : JudgeOut :=
  -- a `Schema` registers the system scalars first
  let full := systemInts ++ order
  let res := match parse impl with
    | some (.list [.atom "sch", _, r]) => render r
    | _ => ""
  let (sat, specTxt) := intReq t.name v res
  let model (k : List String) : String :=
    let D := idsOf k
    -- `$v: Int = null`: null is a valid default of the nullable variable; the resolver's argument
    -- of type `Int!` then refuses it
    let a := if via = "def" ∧ v = .null then Model.Scalars.SRes.rejected .execution
      else Model.Scalars.schemaAnswer D full t v
    render (.list [.atom "sch", classSexp (Model.Scalars.schemaValidatorClass D full t), sresSexp a])
  decide known impl sat ("(sch _ " ++ specTxt ++ ")") model

open AGV.Gen.IntScalars in
def judgeReg (known : List String) (impl : String) (order : List Entry) (t : Entry) (v : GValue) : JudgeOut :=
  let res := match parse impl with
    | some (.list [.atom "reg", _, r]) => render r
    | _ => ""
  -- a value of the position's type must pass the validator registered under `Int`
  let must : Bool := Spec.Scalars.coerce (.int t.name) v ≠ .reject
  let sat : Bool := (res == "true" || res == "false") && (!must || res == "true")
  let model (k : List String) : String :=
    let D := idsOf k
    render (.list [.atom "reg", classSexp (Model.Scalars.schemaValidatorClass D order t),
      ofBool (Model.Scalars.schemaValid D order t v)])
  decide known impl sat (if must then "(reg _ true)" else "(reg _ true|false)") model

def judge (known : List String) (case impl : String) : JudgeOut :=
  match parse case with
  | some (.list [.atom "sch", .atom _, .list order, .list [.atom "int", .str name], .atom via, vS]) =>
    match decodeOrder order, entryNamed (String.ofList name), decodeV vS with
    | some o, some t, some v =>
      if o.any (fun e => e.name = t.name) then judgeSch known impl o t via v else .viol "bad-case" "bad-case"
    | _, _, _ => .viol "bad-case" "bad-case"
  | some (.list [.atom "reg", .list order, .list [.atom "int", .str name], vS]) =>
    match decodeOrder order, entryNamed (String.ofList name), decodeV vS with
    | some o, some t, some v =>
      if o.any (fun e => e.name = t.name) then judgeReg known impl o t v else .viol "bad-case" "bad-case"
    | _, _, _ => .viol "bad-case" "bad-case"
  | some (.list [.atom "parse", tyS, vS]) =>
    match decodeTy tyS, decodeV vS with
    | some (ty, sty), some v =>
      let req := Spec.Scalars.coerce sty v
      let sat := match req with
        | .accept r => impl = render (resSexp (.ok r))
        | .acceptSome => impl.startsWith "(ok "
        | .reject => impl.startsWith "(err "
      let specTxt := match req with
        | .accept r => render (resSexp (.ok r))
        | .acceptSome => "(ok _)"
        | .reject => "(err _)"
      decide known impl sat specTxt (fun k => render (resSexp (Model.Scalars.parse (idsOf k) ty v)))
    | _, _ => .viol "bad-case" "bad-case"
  | some (.list [.atom "rt", tyS, rS]) =>
    match decodeTy tyS with
    | some (ty, sty) =>
      match decodeR sty rS with
      | some r =>
        let want := render (resSexp (.ok r))
        let sat := match parse impl with
          | some (.list [.atom "rt", _, res]) => render res = want
          | _ => false
        let model (k : List String) : String :=
          match Model.Scalars.toValue (idsOf k) ty r with
          | some v => render (.list [.atom "rt", valueSexp v, resSexp (Model.Scalars.parse (idsOf k) ty v)])
          | none => "(model-panic)"
        decide known impl sat ("(rt _ " ++ want ++ ")") model
      | none => .viol "bad-case" "bad-case"
    | none => .viol "bad-case" "bad-case"
  | some (.list [.atom "valid", tyS, vS]) =>
    match decodeTy tyS, decodeV vS with
    | some (ty, sty), some v =>
      -- a value the type accepts must pass the validation pre-check
      let must := Spec.Scalars.coerce sty v ≠ .reject
      let sat := (impl = "true" ∨ impl = "false") ∧ (must → impl = "true")
      let model (k : List String) : String :=
        match Model.Scalars.isValid (idsOf k) ty v with
        | some b => if b then "true" else "false"
        | none => "(no-is-valid)"
      decide known impl sat (if must then "true" else "true|false") model
    | _, _ => .viol "bad-case" "bad-case"
  | _ => .viol "bad-case" "bad-case"

end AGV.Drive.C07

def main (args : List String) : IO UInt32 := AGV.runJudge AGV.Drive.C07.judge args
