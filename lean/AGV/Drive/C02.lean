import AGV.Util.Sexp
import AGV.Util.Judge
import AGV.Core.Types
import AGV.Spec.Exec
import AGV.Spec.ExecDyn
import AGV.Model.ExecDynamic

open AGV AGV.Sexp AGV.Core

namespace AGV.Drive.C02

def dataStr (r : Res) : String :=
  match r.val with
  | some v => render v.toSexp
  | none => "null"

/-- the DATA component of `(resp DATA (errs …) (log …))` -/
def implData (impl : String) : String :=
  match parse impl with
  | some (.list (.atom "resp" :: d :: _)) => render d
  | _ => impl

def ids : List String :=
  ["C02-union-condition-ignored", "C02-skip-ignores-variable-default", "C02-null-value-not-null",
   "C02-builtin-scalar-unchecked", "C02-nested-list-merge-shallow"]

/-- C02's toggles from the listed findings; `cap` = C03's "no capture at nullable positions"
    (not C02's business: both states are admitted, see `judge`) -/
def mk (on : List String) (cap : Bool) : Model.ExecDynamic.Defects :=
  { unionCondIgnored := on.contains "C02-union-condition-ignored"
    skipIgnoresVarDefault := on.contains "C02-skip-ignores-variable-default"
    builtinScalarUnchecked := on.contains "C02-builtin-scalar-unchecked"
    nullValueNotNull := on.contains "C02-null-value-not-null"
    nestedListMergeShallow := on.contains "C02-nested-list-merge-shallow"
    noNullableCapture := cap
    resolverErrNoPath := cap }

/-- all sublists, the full list first -/
def subsets : List String → List (List String)
  | [] => [[]]
  | x :: xs => (subsets xs).map (x :: ·) ++ subsets xs

/-- DATA only.  OK when the data equals the specification's.  Otherwise the data must be what
    the model gives under the listed C02 findings, with C03's dynamic defect (an error nulls the
    whole response instead of the nearest nullable position) either present or repaired; the
    deviation is attributed to the first listed C02 finding whose removal changes the model's
    answer; a deviation that remains with every C02 toggle off is C03's alone and not judged here
    (only when the specification's run recorded a field error). -/
def judge (known : List String) (case impl : String) : JudgeOut :=
  match parse case with
  | some (.list [.atom "case", s, d, opn, vs, w, _]) =>
    match Decode.schema? s, Decode.doc? d, Decode.optStr? opn, Decode.vars? vs, Decode.world? w with
    | some S, some doc, some opName, some vars, some world =>
      let fuel := Spec.Exec.fuelBound doc
      let specRes := Spec.ExecDyn.run S doc opName vars world fuel
      let spec := dataStr specRes
      let spec2 := dataStr (Spec.ExecDyn.run S doc opName vars world (fuel + 3))
      let on := ids.filter known.contains
      let m (on : List String) (cap : Bool) (fuel : Nat) :=
        dataStr (Model.ExecDynamic.run (mk on cap) S doc opName vars world fuel)
      let i := implData impl
      if spec ≠ spec2 ∨ m on true fuel ≠ m on true (fuel + 3) then .viol "fuel-dependent" "fuel-dependent"
      else if i = spec then .ok
      else
        -- every listed finding may have been repaired independently: admit each subset of the
        -- listed toggles (the full set first), with C03's defect present or repaired
        let cands := (subsets on).flatMap (fun sub => [(sub, true), (sub, false)])
        match cands.find? (fun p => m p.1 p.2 fuel = i) with
        | none => .viol (m on true fuel) spec
        | some (sub, cap) =>
          let mK := m sub cap fuel
          match sub.find? (fun id => m (sub.filter (· ≠ id)) cap fuel ≠ mK) with
          | some id => .known id mK spec
          | none =>
            -- no listed C02 finding is involved: the toggle-free model itself deviates.  That is
            -- C03's business (how errors null positions; a key that occurs twice is executed per
            -- occurrence) exactly when the specification's run recorded a field error; without
            -- any error it would be an unlisted data defect
            if m [] cap fuel = mK then
              if specRes.errs ≠ [] then { verdict := "OK", model := mK, spec := spec } else .viol mK spec
            else
              -- several listed findings produce the same loss (removing any single one changes
              -- nothing, removing all does): still exactly the listed deviation
              match sub with
              | id :: _ => .known id mK spec
              | [] => .viol mK spec
    | _, _, _, _, _ => .viol "bad-case" "undecodable case"
  | _ => .viol "bad-case" "undecodable case"

end AGV.Drive.C02

def main (args : List String) : IO UInt32 := AGV.runJudge AGV.Drive.C02.judge args
