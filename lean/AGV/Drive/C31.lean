import AGV.Util.Sexp
import AGV.Util.Judge
import AGV.Model.PQ
import AGV.Spec.PQ

/-
  Judge of C31.  Case line and implementation output: see harness/core/src/bin/c31.rs.
  `H` and `parse` are the tables of the case line (the harness computed the real SHA-256 of every
  text and the signature of its parsed document, and re-checks both when it runs the case).
  Verdict: VIOL when the observed history is not accepted by `Spec.PQ.accepts`; TIE when it is
  but differs from the model's outputs (outcomes, and for the exact-map store the store content
  after every request).  For the crate's LruCacheStorage a miss on a hash the model still holds is
  the environment's `forget` (eviction), inserted before that request; the exact-map store never
  forgets.
-/
open AGV AGV.Sexp
open AGV.Model.PQ

namespace AGV.Drive.C31

abbrev Hash := List Char
abbrev Doc := List Char

structure TextRow where
  text : List Char
  sha : Hash
  sig : Option Doc

def parseText : Sexp → Option TextRow
  | .list [.atom "t", .str t, .str h, .list [.atom "sig", .str s]] => some ⟨t, h, some s⟩
  | .list [.atom "t", .str t, .str h, .list [.atom "noparse"]] => some ⟨t, h, none⟩
  | _ => none

def parseExt : Sexp → Option (Ext Hash)
  | .list [.atom "none"] => some .none
  | .list (.atom "bad" :: _) => some .bad
  | .list (.atom "pq" :: v :: .str h :: _) => (asInt? v).map (fun v => .pq v h)
  | _ => none

def parseReq (texts : List TextRow) : Sexp → Option (Req Hash)
  | .list (.atom "r" :: q :: e :: _) =>
    let query : Option (List Char) := match q with
      | .atom "e" => some []
      | q => (asNat? q).bind (fun i => texts[i]?.map (·.text))
    match query, parseExt e with
    | some q, some e => some { query := q, ext := e }
    | _, _ => none
  | _ => none

def parseOutcome : Sexp → Option (Outcome Doc)
  | .list [.atom "exec", .str s] => some (.exec s)
  | .list [.atom "err", .atom "notfound"] => some (.err .notFound)
  | .list [.atom "err", .atom "mismatch"] => some (.err .mismatch)
  | .list [.atom "err", .atom "invalid"] => some (.err .invalid)
  | .list [.atom "err", .atom "parse"] => some (.err .parse)
  | .list [.atom "err", .atom "version", v] => (asInt? v).map (fun v => .err (.version v))
  | _ => none

def renderOutcome : Outcome Doc → Sexp
  | .exec s => .list [.atom "exec", .str s]
  | .err .notFound => .list [.atom "err", .atom "notfound"]
  | .err .mismatch => .list [.atom "err", .atom "mismatch"]
  | .err .invalid => .list [.atom "err", .atom "invalid"]
  | .err .parse => .list [.atom "err", .atom "parse"]
  | .err (.version v) => .list [.atom "err", .atom "version", ofInt v]

def renderStore (isMap : Bool) (texts : List TextRow) (s : Store Hash Doc) : Sexp :=
  .list (.atom "st" :: (if isMap then texts.map (fun t => match sGet t.sha s with
    | some d => Sexp.str d
    | none => .atom "-") else []))

def tableH (texts : List TextRow) (q : Text) : Hash :=
  match texts.find? (fun t => t.text = q) with
  | some t => t.sha
  | none => []

def tableParse (texts : List TextRow) (q : Text) : Option Doc :=
  match texts.find? (fun t => t.text = q) with
  | some t => t.sig
  | none => none

/-- the model's outputs; for the LRU store an observed miss on a held hash is a `forget` -/
def runModel (isMap : Bool) (texts : List TextRow) : Store Hash Doc → List (Req Hash) → List (Option (Outcome Doc)) → List Sexp
  | _, [], _ => []
  | s, r :: rs, obs =>
    let s := match isMap, r.ext, obs.head? with
      | false, .pq _ h, some (some (.err .notFound)) => if r.query = [] then sErase h s else s
      | _, _, _ => s
    let (s', o) := step (tableH texts) (tableParse texts) s r
    .list [.atom "o", renderOutcome o, renderStore isMap texts s'] :: runModel isMap texts s' rs obs.tail

def judge (_known : List String) (case impl : String) : JudgeOut :=
  match parse case with
  | some (.list [.atom "pq", .list (.atom "store" :: .atom kind :: _), .list (.atom "texts" :: ts), .list (.atom "reqs" :: rs)]) =>
    let texts := ts.filterMap parseText
    let reqs := rs.filterMap (parseReq texts)
    if texts.length ≠ ts.length ∨ reqs.length ≠ rs.length then .viol "bad-case" "bad-case" else
    match parse impl with
    | some (.list (.atom "outs" :: os)) =>
      let obs : List (Option (Outcome Doc)) := os.map (fun o => match o with
        | .list [.atom "o", out, _] => parseOutcome out
        | _ => none)
      let isMap := kind = "map"
      let model := render (.list (.atom "outs" :: runModel isMap texts [] reqs obs))
      if obs.length ≠ reqs.length ∨ obs.any (·.isNone) then .viol model "unclassified-outcome" else
      let pairs := reqs.zip (obs.filterMap id)
      if Spec.PQ.accepts (tableH texts) (tableParse texts) [] pairs then
        if impl = model then .ok else .tie model "accepted-by-spec"
      else .viol model "rejected-by-spec"
    | _ => .viol "no-outs" "no-outs"
  | _ => .viol "bad-case" "bad-case"

end AGV.Drive.C31

def main (args : List String) : IO UInt32 := AGV.runJudge AGV.Drive.C31.judge args
