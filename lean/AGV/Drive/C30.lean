import AGV.Util.Sexp
import AGV.Util.Judge
import AGV.Core.Types
import AGV.Spec.Exec
import AGV.Model.ExecStatic
import AGV.Model.Ext

open AGV AGV.Sexp AGV.Core AGV.Model.Ext

namespace AGV.Drive.C30

def insertSorted (s : String) : List String → List String
  | [] => [s]
  | x :: xs => if s ≤ x then s :: x :: xs else x :: insertSorted s xs

def sortStrings (xs : List String) : List String := xs.foldl (fun acc s => insertSorted s acc) []

def hookName : Hook → String
  | .request => "request" | .prepare => "prepare" | .parse => "parse"
  | .validation => "validation" | .execute => "execute" | .resolve => "resolve" | .subscribe => "subscribe"

def hookOf? : String → Option Hook
  | "request" => some .request | "prepare" => some .prepare | "parse" => some .parse
  | "validation" => some .validation | "execute" => some .execute | "resolve" => some .resolve
  | "subscribe" => some .subscribe
  | _ => none

/-- the line the recording extension of the harness prints for an event -/
def evSexp : Ev → Option Sexp
  | .mark _ _ => none
  | .hook enter idx s =>
    let head := [Sexp.atom (if enter then "e" else "x"), .atom (hookName s.hook), .atom (toString idx)]
    match s.hook with
    | .resolve =>
      let p := Sexp.list (s.path.map PathSeg.toSexp)
      if enter then some (.list (head ++ [p, .str s.parent.toList, .str s.ret.toList]))
      else some (.list (head ++ [p]))
    | .parse =>
      -- the parse hook records the query text it is handed
      if enter then some (.list (head ++ [.str s.parent.toList])) else some (.list head)
    | _ => some (.list head)

def pathSeg? : Sexp → Option PathSeg
  | .str cs => some (.key (String.ofList cs))
  | .atom a => a.toNat?.map .idx
  | _ => none

def ev? : Sexp → Option Ev
  | .list [.atom k, .atom h, i] => do
    let hk ← hookOf? h
    some (.hook (k = "e") (← asNat? i) { hook := hk })
  | .list [.atom "e", .atom "parse", i, .str q] => do
    some (.hook true (← asNat? i) { hook := .parse, parent := String.ofList q })
  | .list [.atom "e", .atom "resolve", i, .list p, .str pa, .str re] => do
    some (.hook true (← asNat? i) { hook := .resolve, path := ← p.mapM pathSeg?, parent := String.ofList pa, ret := String.ofList re })
  | .list [.atom "x", .atom "resolve", i, .list p] => do
    some (.hook false (← asNat? i) { hook := .resolve, path := ← p.mapM pathSeg? })
  | _ => none

def dataSexp (r : FRes) : Sexp :=
  match r.val with
  | some v => v.toSexp
  | none => .atom "null"

structure Part where
  data : String
  errs : List String
  log : List String
  cc : String
  exts : String
  hdrs : String
  kinds : List String
  deriving BEq, Repr

structure Out where
  plain : Part
  ext : Part
  trace : List Sexp

def part? : Sexp → Sexp → Option Part
  | .list [.atom "resp", d, .list (.atom "errs" :: es), .list (.atom "log" :: ls)],
    .list [.atom "x", cc, ex, hd, .list (.atom "kinds" :: ks)] =>
    some { data := render d, errs := es.map render, log := ls.map render, cc := render cc, exts := render ex,
           hdrs := render hd, kinds := ks.map render }
  | _, _ => none

def out? (impl : String) : Option Out :=
  match parse impl with
  | some (.list [.atom "out", .list [.atom "plain", r0, x0], .list [.atom "ext", r1, x1], .list (.atom "trace" :: evs)]) => do
    some { plain := ← part? r0 x0, ext := ← part? r1 x1, trace := evs }
  | _ => none

/-- what the model says a response looks like; `none` for a component the model does not determine
    (error texts and positions of parse / validation errors) -/
def modelPart (r : Resp) : Part × Bool :=
  match r.early with
  | none =>
    ({ data := render (dataSexp r.res),
       errs := sortStrings (r.res.errs.map (fun e => render e.toSexp)),
       log := r.res.log.map (fun i => render i.toSexp),
       cc := render (.list [.atom "cc", .atom (if r.cache.isPublic then "public" else "private"), .atom (toString r.cache.maxAge)]),
       exts := "(exts 0)", hdrs := "(hdrs 0)",
       kinds := List.replicate (r.res.errs.length - r.res.nq) "boom" ++ List.replicate r.res.nq "cannot-query" }, true)
  | some st =>
    ({ data := "null", errs := [], log := [], cc := "(cc public 0)", exts := "(exts 0)", hdrs := "(hdrs 0)",
       kinds := [match st with
         | .parse => "parse" | .validation => "v-" | .selectOp => "unknown-op" | .prepare => "prepare"] }, false)

/-- does the implementation's response agree with the model's? -/
def partAgrees (m : Part × Bool) (i : Part) : Bool :=
  if m.2 then m.1 == i
  else
    i.data == m.1.data && i.log == [] && i.cc == m.1.cc && i.exts == m.1.exts && i.hdrs == m.1.hdrs &&
    !i.kinds.isEmpty && i.errs.length == i.kinds.length &&
    i.kinds.all (fun k => match m.1.kinds with
      | ["v-"] => k.startsWith "v-"
      | [x] => k == x
      | _ => false)

-- ------------------------------------------------------------------ the property, evaluated on the implementation's output

def isEnter (i : Nat) (e : Ev) : Bool := match e with
  | .hook true j _ => i == j
  | _ => false

/-- the markers behind the events of extension 0 -/
def skeleton (t : List Ev) : List Ev :=
  t.filterMap (fun e => match e with
    | .hook en 0 s => some (.mark en s)
    | _ => none)

/-- well bracketed: every closing marker matches the innermost open one (hook and path) -/
def balanced : List Site → List Ev → Bool
  | st, [] => st.isEmpty
  | st, .mark true s :: r => balanced (s :: st) r
  | top :: st, .mark false s :: r => top.hook == s.hook && top.path == s.path && balanced st r
  | [], .mark false _ :: _ => false
  | st, .hook _ _ _ :: r => balanced st r

/-- (nesting) the events of every hook site are  enter 0 … enter n-1 · inner · exit n-1 … exit 0;
    exits carry no type names, so compare after erasing them -/
def eraseTypes (e : Ev) : Ev := match e with
  | .hook en i s => .hook en i { s with parent := "", ret := "" }
  | .mark en s => .mark en { s with parent := "", ret := "" }

def nestedOK (n : Nat) (t : List Ev) : Bool :=
  if n = 0 then t.isEmpty
  else
    let sk := skeleton t
    balanced [] sk &&
    (recorded (expand (List.range n) sk)).map eraseTypes == t.map eraseTypes &&
    -- the type names are those seen by extension 0
    t.all (fun e => match e with
      | .hook true i s => i == 0 || t.any (fun e' => e' == .hook true 0 s)
      | _ => true)

/-- (lifecycle) the hooks extension 0 enters, in order: request, prepare, parse, then validation,
    then execute, then only resolve; nothing after the request hook is left -/
def lifecycleOK (n : Nat) (t : List Ev) (extLogLen : Nat) : Bool :=
  if n = 0 then true
  else
    let hooks := (t.filter (isEnter 0)).filterMap (fun e => match e with
      | .hook _ _ s => some s.hook
      | _ => none)
    let stages := hooks.filter (· ≠ .resolve)
    let resolves := (t.filter (isEnter 0)).filterMap (fun e => match e with
      | .hook _ _ s => if s.hook = .resolve then some s else none
      | _ => none)
    let fieldSites := resolves.filter (fun s => match s.path.getLast? with
      | some (.key _) => true
      | _ => false)
    (stages == [.request, .prepare, .parse] || stages == [.request, .prepare, .parse, .validation] ||
     stages == [.request, .prepare, .parse, .validation, .execute]) &&
    hooks.take stages.length == stages &&
    (resolves.isEmpty || stages.length == 5) &&
    (match t.getLast? with
     | some (.hook false 0 s) => s.hook == .request
     | _ => false) &&
    -- one resolve hook per resolver invocation
    fieldSites.length == extLogLen

def holds (n : Nat) (o : Out) (t : List Ev) : Bool :=
  o.plain == o.ext && nestedOK n t && lifecycleOK n t o.ext.log.length

-- ------------------------------------------------------------------ the judge

def findingId : String := "C30-fast-mode-unknown-field-differs-with-extensions"

def subsets {α} : List α → List (List α)
  | [] => [[]]
  | x :: xs => (subsets xs).map (x :: ·) ++ subsets xs

def mkD (on : List String) : Model.ExecStatic.Defects :=
  { unionCondIgnored := on.contains "u", skipIgnoresVarDefault := on.contains "s",
    resolverErrPropagates := on.contains "r", listItemPathOverwrite := on.contains "l",
    ifaceErrNoPath := on.contains "i", mergeKeepsPartialOnNull := on.contains "m" }

structure ModelOut where
  plain : Resp
  ext : Resp
  trace : List Ev

def modelRun (D : Model.ExecStatic.Defects) (X : XDefects) (req : CaseReq) (n : Nat) : ModelOut :=
  let B := caseBase D X
  let p := execute B [] req
  let e := execute B (stack (List.range n)) req
  { plain := p.1, ext := e.1, trace := recorded e.2 }

def showModel (m : ModelOut) : String :=
  let p := (modelPart m.plain).1
  let e := (modelPart m.ext).1
  s!"plain data={p.data} errs={p.errs} log={p.log} kinds={p.kinds} | ext data={e.data} errs={e.errs} log={e.log} kinds={e.kinds} | trace={(m.trace.filterMap evSexp).map render}"

def agrees (m : ModelOut) (o : Out) : Bool :=
  partAgrees (modelPart m.plain) o.plain && partAgrees (modelPart m.ext) o.ext &&
  (m.trace.filterMap evSexp).map render == o.trace.map render

/-- the executor of this file and the shared one of `Model/ExecStatic` say the same on documents
    that strict validation accepts (no registry look-up fails) -/
def consistent (D : Model.ExecStatic.Defects) (req : CaseReq) (m : ModelOut) : Bool :=
  match m.plain.early with
  | some _ => true
  | none =>
    if m.plain.res.nq ≠ 0 || !req.strictValid then true
    else
      let r := Model.ExecStatic.run D req.S req.doc req.opName req.vars req.w req.fuel
      -- (an error without a path below a list item is outside the shared model when the overwrite is repaired)
      r.val == m.plain.res.val && r.log == m.plain.res.log &&
      ((D.ifaceErrNoPath && !D.listItemPathOverwrite) || r.errs == m.plain.res.errs)

-- ------------------------------------------------------------------ stream `forms`

def dynFindingId : String := "C30-dynamic-stream-query-skips-execute-hook"

structure FSrc where
  kind : String
  doc : Doc
  text : String

def FSrc.parses (s : FSrc) : Bool := s.kind ≠ "syntax"
def FSrc.strictValid (s : FSrc) : Bool := s.kind = "valid" || s.kind = "unknown-op"

def src? : Sexp → Option FSrc
  | .list [.atom "src", .atom k, d, .str t] => do some { kind := k, doc := ← Decode.doc? d, text := String.ofList t }
  | _ => none

structure FReq where
  form : String
  src : FSrc
  pre : Option FSrc
  opName : Option String
  vars : List (String × GValue)
  w : World

def freq? : Sexp → Option FReq
  | .list [.atom "req", .atom form, .atom _, s, p, opn, vs, w] => do
    let pre ← (match p with
      | .atom "none" => some none
      | x => (src? x).map some)
    some { form := form, src := ← src? s, pre := pre, opName := ← Decode.optStr? opn, vars := ← Decode.vars? vs,
           w := ← Decode.world? w }
  | _ => none

inductive RwAct where
  | text (s : FSrc) | parsed (s : FSrc) | flipvars | op (n : Option String)

def rwAct? : Sexp → Option RwAct
  | .list [.atom "text", s] => (src? s).map .text
  | .list [.atom "parsed", s] => (src? s).map .parsed
  | .list [.atom "flipvars"] => some .flipvars
  | .list [.atom "op", n] => (Decode.optStr? n).map .op
  | _ => none

def rw? : Sexp → Option (Option (Nat × List RwAct))
  | .atom "none" => some none
  | .list (.atom "rw" :: k :: acts) => do some (some (← asNat? k, ← acts.mapM rwAct?))
  | _ => none

/-- what the rewriting prepare hook of the harness does, on the model's request -/
def applyRw (acts : List RwAct) (r : CaseReq) : CaseReq :=
  acts.foldl (fun r a => match a with
    | .text s => { r with text := s.text, doc := s.doc, parses := s.parses, strictValid := s.strictValid }
    | .parsed s => { r with pre := some { doc := s.doc, strictValid := s.strictValid } }
    | .flipvars => { r with vars := r.vars.map (fun kv => (kv.1, match kv.2 with
        | .bool b => GValue.bool (!b)
        | v => v)) }
    | .op n => { r with opName := n }) r

/-- the model's request for a request of the harness: its FORM decides what it carries parsed -/
def toCaseReq (S : Schema) (fast : Bool) (fuel : Nat) (q : FReq) : CaseReq :=
  { S := S, doc := q.src.doc, opName := q.opName, vars := q.vars, w := q.w,
    parses := q.src.parses, strictValid := q.src.strictValid, fast := fast, fuel := fuel, text := q.src.text,
    pre := match q.form with
      | "inspected" =>
        -- `Request::parsed_query()` keeps the document when the text parses; an error is not kept
        if q.src.parses then some { doc := q.src.doc, strictValid := q.src.strictValid } else none
      | "preparsed" => q.pre.map (fun p => { doc := p.doc, strictValid := p.strictValid })
      | _ => none }

structure FOut where
  pq : List String
  plain : List Part
  ext : List Part
  trace : List Sexp

def parts? (rs : List Sexp) : Option (List Part) :=
  rs.mapM (fun r => match r with
    | .list [.atom "r", a, b] => part? a b
    | _ => none)

def fout? (impl : String) : Option FOut :=
  match parse impl with
  | some (.list [.atom "out", .list (.atom "pq" :: pqs), .list (.atom "plain" :: r0), .list (.atom "ext" :: r1),
      .list (.atom "trace" :: evs)]) => do
    some { pq := pqs.map render, plain := ← parts? r0, ext := ← parts? r1, trace := evs }
  | _ => none

def emptyReq : CaseReq :=
  { S := { types := [], query := "" }, doc := { ops := [], frags := [] }, opName := none, vars := [], w := { entries := [] },
    parses := false, strictValid := false, fast := false, fuel := 0 }

structure FModel where
  plain : List Resp
  ext : List Resp
  trace : List Ev

def fmodelRun (D : Model.ExecStatic.Defects) (X : XDefects) (P : PDefects) (api : String) (reqs : List CaseReq) (n : Nat)
    (rw : Option (Nat × List RwAct)) : FModel :=
  let B := caseBase D X
  let SB := caseSBase D X
  let f : CaseReq → CaseReq := match rw with
    | some (_, acts) => applyRw acts
    | none => id
  let lfs : List (Nat × (CaseReq → CaseReq)) := (List.range n).map (fun i =>
    (i, if (rw.map (·.1)) == some i then f else id))
  -- the extension-free reference run of the harness rewrites the request by hand
  let reqsP := reqs.map f
  let reqsE := if n = 0 then reqsP else reqs
  match api with
  | "batch" =>
    let p := executeBatch P B [] reqsP
    let e := executeBatch P B (stackRw lfs) reqsE
    { plain := p.1, ext := e.1, trace := recorded e.2 }
  | "stream" =>
    let p := executeStream P SB [] (reqsP.headD emptyReq)
    let e := executeStream P SB (stackRw lfs) (reqsE.headD emptyReq)
    { plain := p.1, ext := e.1, trace := recorded e.2 }
  | _ =>
    let p := executeP P B [] (reqsP.headD emptyReq)
    let e := executeP P B (stackRw lfs) (reqsE.headD emptyReq)
    { plain := [p.1], ext := [e.1], trace := recorded e.2 }

def showParts (rs : List Resp) : String :=
  String.intercalate " ; " (rs.map (fun r => let p := (modelPart r).1; s!"data={p.data} errs={p.errs} log={p.log} kinds={p.kinds}"))

def showFModel (m : FModel) : String :=
  s!"plain [{showParts m.plain}] | ext [{showParts m.ext}] | trace={(m.trace.filterMap evSexp).map render}"

def partsAgree : List Resp → List Part → Bool
  | [], [] => true
  | r :: rs, p :: ps => partAgrees (modelPart r) p && partsAgree rs ps
  | _, _ => false

def fagrees (m : FModel) (o : FOut) (pq : List String) : Bool :=
  partsAgree m.plain o.plain && partsAgree m.ext o.ext && o.pq == pq &&
  (m.trace.filterMap evSexp).map render == o.trace.map render

/-- the hooks of one request / stream as extension 0 enters them: FIRST, prepare, parse, then
    validation, then execute and only resolves (streams: one execute per event) — each stage once -/
def stagesShape (first : Hook) (multi : Bool) (hs : List Hook) : Bool :=
  match hs with
  | f :: .prepare :: .parse :: rest =>
    f == first && (match rest with
      | [] => true
      | .validation :: r2 => (match r2 with
          | [] => true
          | .execute :: r3 => r3.all (fun h => h == .resolve || (multi && h == .execute))
          | _ => false)
      | _ => false)
  | _ => false

/-- split before every occurrence of `h` -/
def groupsAt (h : Hook) : List Hook → List (List Hook)
  | [] => []
  | x :: xs =>
    match groupsAt h xs with
    | [] => [[x]]
    | g :: gs => if (match g with | y :: _ => y == h | [] => false) then [x] :: g :: gs else (x :: g) :: gs

def lifecycleOKF (api : String) (n : Nat) (t : List Ev) (nResp : Nat) (logLen : Nat) : Bool :=
  if n = 0 then true
  else
    let sites := (t.filter (isEnter 0)).filterMap (fun e => match e with
      | .hook _ _ s => some s
      | _ => none)
    let hooks := sites.map (·.hook)
    let fieldSites := sites.filter (fun s => s.hook == .resolve && (match s.path.getLast? with
      | some (.key _) => true
      | _ => false))
    let executes := (hooks.filter (· == .execute)).length
    fieldSites.length == logLen &&
    (match api with
     | "stream" => stagesShape .subscribe true hooks && (executes == 0 || executes == nResp)
     | _ =>
       let gs := groupsAt .request hooks
       gs.length == nResp && gs.all (stagesShape .request false) &&
       (match t.getLast? with
        | some (.hook false 0 s) => s.hook == .request
        | _ => false))

def fholds (api : String) (n : Nat) (o : FOut) (t : List Ev) : Bool :=
  o.plain == o.ext && nestedOK n t && lifecycleOKF api n t o.ext.length ((o.ext.map (·.log.length)).sum)

def fconsistent (D : Model.ExecStatic.Defects) (api : String) (reqs : List CaseReq) (m : FModel) : Bool :=
  if api == "stream" then true
  else (reqs.zip m.plain).all (fun rp =>
    let req := rp.1
    let pl := rp.2
    match pl.early with
    | some _ => true
    | none =>
      -- the document that ends up executed
      match (match req.pre with
        | some p => some (p.doc, p.strictValid)
        | none => if req.parses then some (req.doc, req.strictValid) else none) with
      | none => true
      | some (doc, sv) =>
        if pl.res.nq ≠ 0 || !sv then true
        else
          let r := Model.ExecStatic.run D req.S doc req.opName req.vars req.w req.fuel
          r.val == pl.res.val && r.log == pl.res.log &&
          ((D.ifaceErrNoPath && !D.listItemPathOverwrite) || r.errs == pl.res.errs))

def judgeForms (known : List String) (case impl : String) : JudgeOut :=
  match parse case with
  | some (.list [.atom "fcase", .atom backend, .atom mode, nx, .atom api, .atom _, s, rw, .list (.atom "reqs" :: rs)]) =>
    match Decode.schema? s, asNat? nx, rw? rw, rs.mapM freq? with
    | some S, some n, some rwSpec, some qs =>
      let dynamic := backend == "dynamic"
      let docs : List Doc := qs.flatMap (fun q => q.src.doc :: (match q.pre with | some p => [p.doc] | none => [])) ++
        (match rwSpec with
         | some (_, acts) => acts.filterMap (fun a => match a with
            | .text s => some s.doc
            | .parsed s => some s.doc
            | _ => none)
         | none => [])
      let fuel := (docs.map Spec.Exec.fuelBound).foldl max 2
      let reqs := qs.map (toCaseReq S (mode == "fast") fuel)
      let reqsP := reqs.map (match rwSpec with
        | some (_, acts) => applyRw acts
        | none => id)
      let pq := qs.map (fun q => if q.form == "inspected" then (if q.src.parses then "ok" else "err") else "none")
      let pinnedX : XDefects := { plainPathSkipsLookup := known.contains findingId, itemTypeAlwaysNonNull := !dynamic }
      let pinnedP : PDefects := { streamQuerySkipsExecuteHook := dynamic && known.contains dynFindingId }
      let spec := fmodelRun (mkD []) {} {} api reqs n rwSpec
      let mK := fmodelRun (mkD ["u", "s", "r", "l", "i", "m"]) pinnedX pinnedP api reqs n rwSpec
      match fout? impl with
      | none => .viol (showFModel mK) "unreadable implementation output"
      | some o =>
        match o.trace.mapM ev? with
        | none => .viol (showFModel mK) "unreadable trace"
        | some t =>
          let xs : List XDefects := [pinnedX, { pinnedX with itemTypeAlwaysNonNull := !pinnedX.itemTypeAlwaysNonNull },
            { pinnedX with plainPathSkipsLookup := !pinnedX.plainPathSkipsLookup },
            { plainPathSkipsLookup := !pinnedX.plainPathSkipsLookup, itemTypeAlwaysNonNull := !pinnedX.itemTypeAlwaysNonNull }]
          let ps : List PDefects := if dynamic && api == "stream"
            then [pinnedP, { pinnedP with streamQuerySkipsExecuteHook := !pinnedP.streamQuerySkipsExecuteHook }] else [pinnedP]
          let ons : List (List String) := [[], ["u", "s", "r", "l", "i", "m"]] ++
            (subsets ["u", "s", "r", "l", "i", "m"]).filter (fun on => on.length ≠ 0 && on.length ≠ 6)
          let cfgs : List (PDefects × XDefects × List String) :=
            ps.flatMap (fun P => xs.flatMap (fun X => ons.map (fun on => (P, X, on))))
          let hit := cfgs.find? (fun c =>
            let m := fmodelRun (mkD c.2.2) c.2.1 c.1 api reqs n rwSpec
            fagrees m o pq && fconsistent (mkD c.2.2) api reqsP m)
          if fholds api n o t then
            match hit with
            | some _ => .ok
            | none => .tie (showFModel mK) (showFModel spec)
          else
            match hit with
            | some c =>
              -- which of this property's toggles does the explanation need?
              let ok := fun (P : PDefects) (X : XDefects) =>
                let m := fmodelRun (mkD c.2.2) X P api reqs n rwSpec
                fagrees m o pq && fconsistent (mkD c.2.2) api reqsP m
              let needP := c.1.streamQuerySkipsExecuteHook && !ok { c.1 with streamQuerySkipsExecuteHook := false } c.2.1
              let needX := c.2.1.plainPathSkipsLookup && !ok c.1 { c.2.1 with plainPathSkipsLookup := false }
              if needP then
                (if known.contains dynFindingId then .known dynFindingId (showFModel mK) (showFModel spec)
                 else .viol (showFModel mK) (showFModel spec))
              else if needX && known.contains findingId then .known findingId (showFModel mK) (showFModel spec)
              else .viol (showFModel mK) (showFModel spec)
            | none => .viol (showFModel mK) (showFModel spec)
    | _, _, _, _ => .viol "bad-case" "undecodable case"
  | _ => .viol "bad-case" "undecodable case"

def judge (known : List String) (case impl : String) : JudgeOut :=
  match parse case with
  | some (.list (.atom "fcase" :: _)) => judgeForms known case impl
  | some (.list [.atom "case", .atom kind, .atom mode, nx, s, d, opn, vs, w, .str text]) =>
    match Decode.schema? s, Decode.doc? d, Decode.optStr? opn, Decode.vars? vs, Decode.world? w, asNat? nx with
    | some S, some doc, some opName, some vars, some world, some n =>
      let req : CaseReq :=
        { S := S, doc := doc, opName := opName, vars := vars, w := world,
          parses := kind ≠ "syntax", strictValid := kind = "valid" || kind = "unknown-op",
          fast := mode = "fast", fuel := Spec.Exec.fuelBound doc, text := String.ofList text }
      let pinnedX : XDefects := { plainPathSkipsLookup := known.contains findingId, itemTypeAlwaysNonNull := true }
      let spec := modelRun (mkD []) {} req n
      let mK := modelRun (mkD ["u", "s", "r", "l", "i", "m"]) pinnedX req n
      match out? impl with
      | none => .viol (showModel mK) "unreadable implementation output"
      | some o =>
        match o.trace.mapM ev? with
        | none => .viol (showModel mK) "unreadable trace"
        | some t =>
          -- executor configurations: the pinned one first; the other properties' toggles are not
          -- this property's business, any setting that explains the run is accepted
          let xs : List XDefects := [pinnedX, { pinnedX with itemTypeAlwaysNonNull := false },
            { pinnedX with plainPathSkipsLookup := !pinnedX.plainPathSkipsLookup },
            { plainPathSkipsLookup := !pinnedX.plainPathSkipsLookup, itemTypeAlwaysNonNull := false }]
          let cfgs : List (XDefects × List String) :=
            xs.flatMap (fun X => ([[], ["u", "s", "r", "l", "i", "m"]] ++
              (subsets ["u", "s", "r", "l", "i", "m"]).filter (fun on => on.length ≠ 0 && on.length ≠ 6)).map (fun on => (X, on)))
          let hit := cfgs.find? (fun c =>
            let m := modelRun (mkD c.2) c.1 req n
            agrees m o && consistent (mkD c.2) req m)
          if holds n o t then
            match hit with
            | some _ => .ok
            | none => .tie (showModel mK) (showModel spec)
          else
            match hit with
            | some c =>
              if c.1.plainPathSkipsLookup && known.contains findingId then .known findingId (showModel mK) (showModel spec)
              else .viol (showModel mK) (showModel spec)
            | none => .viol (showModel mK) (showModel spec)
    | _, _, _, _, _, _ => .viol "bad-case" "undecodable case"
  | _ => .viol "bad-case" "undecodable case"

end AGV.Drive.C30

def main (args : List String) : IO UInt32 := AGV.runJudge AGV.Drive.C30.judge args
