import AGV.Util.Sexp
import AGV.Util.Judge
import AGV.Model.Http
import AGV.Spec.Http

open AGV AGV.Sexp
open AGV.Spec.Http (Str J Members Req BatchReq Err Part BatchResp Bytes BPart)

namespace AGV.Drive.C23

-- ------------------------------------------------------------------ wire format

partial def jOfSexp : Sexp → Option J
  | .atom "null" => some .null
  | .atom "true" => some (.bool true)
  | .atom "false" => some (.bool false)
  | .list [.atom "i", .atom n] => n.toInt?.map .num
  | .list [.atom "s", .str s] => some (.str s)
  | .list (.atom "a" :: xs) => (xs.mapM jOfSexp).map .arr
  | .list (.atom "o" :: ms) =>
    (ms.mapM (fun (m : Sexp) => match m with
      | Sexp.list [Sexp.str k, v] => (jOfSexp v).map (fun j => (k, j))
      | _ => none)).map .obj
  | _ => none

def leStr : List Char → List Char → Bool
  | [], _ => true
  | _ :: _, [] => false
  | a :: as, b :: bs => if a.toNat < b.toNat then true else if a.toNat > b.toNat then false else leStr as bs

/-- what a map keeps of a member list: the last value of every key; printed with sorted keys -/
def normMembers {α : Type} (kvs : List (Str × α)) : List (Str × α) :=
  let dedup := kvs.foldl (fun acc p => acc.filter (fun q => q.1 ≠ p.1) ++ [p]) []
  dedup.mergeSort (fun a b => leStr a.1 b.1)

partial def canonJ : J → Sexp
  | .null => .atom "null"
  | .bool true => .atom "true"
  | .bool false => .atom "false"
  | .num n => .list [.atom "i", ofInt n]
  | .str s => .list [.atom "s", .str s]
  | .arr xs => .list (.atom "a" :: xs.map canonJ)
  | .obj kvs => .list (.atom "o" :: (normMembers kvs).map (fun p => .list [.str p.1, canonJ p.2]))

def reqSexp (r : Req) : Sexp :=
  .list [.atom "req", .str r.query,
         (match r.operationName with | none => .atom "none" | some o => .list [.atom "some", .str o]),
         canonJ (.obj r.variables), canonJ (.obj r.extensions)]

def errName : Err → String
  | .queryString => "query-string" | .variables => "variables" | .extensions => "extensions"
  | .invalidRequest => "invalid-request" | .unsupportedBatch => "unsupported-batch"
  | .invalidMultipart => "invalid-multipart" | .missingOperations => "missing-operations"
  | .missingMap => "missing-map" | .panic => "panic"
  | .invalidFilesMap => "invalid-files-map" | .missingFiles => "missing-files"

def errSexp (e : Err) : Sexp := .list [.atom "err", .atom (errName e)]

def singleOut : Except Err Req → Sexp
  | .ok r => .list [.atom "ok", reqSexp r]
  | .error e => errSexp e

def batchOut : Except Err BatchReq → Sexp
  | .ok (.single r) => .list [.atom "single", reqSexp r]
  | .ok (.batch rs) => .list (.atom "batch" :: rs.map reqSexp)
  | .error e => errSexp e

/-- output of `receive_batch_body` and `receive_body` on the same body; a panic takes the case -/
def bothOut (b : Except Err BatchReq) (single : Except Err BatchReq → Except Err Req) : String :=
  match b with
  | .error .panic => "(panic)"
  | _ => render (.list [.atom "both", batchOut b, singleOut (single b)])

-- ------------------------------------------------------------------ the echo schema of the harness

def echoQuery : Str := "query($v: String, $d: Int) { echo(v: $v, d: $d) }".toList

def lastOf (k : Str) (kvs : Members) : Option J := (kvs.reverse.find? (fun p => p.1 = k)).map (·.2)

/-- `echo(v: String, d: Int): String` returns `v`; anything else the harness sends does not
    execute (syntax error, wrongly typed variable) -/
def execEcho (r : Req) : Sexp :=
  let dOk := match lastOf "d".toList r.variables with
    | none => true
    | some .null => true
    | some (.num n) => decide (-2147483648 ≤ n ∧ n ≤ 2147483647)
    | some _ => false
  if r.query = echoQuery && dOk then
    match lastOf "v".toList r.variables with
    | none => .list [.atom "data", .list [.atom "o", .list [.str "echo".toList, .atom "null"]]]
    | some .null => .list [.atom "data", .list [.atom "o", .list [.str "echo".toList, .atom "null"]]]
    | some (.str s) => .list [.atom "data", .list [.atom "o", .list [.str "echo".toList, .list [.atom "s", .str s]]]]
    | some _ => .list [.atom "errors"]
  else .list [.atom "errors"]

def execOut (b : Except Err BatchReq) (run : BatchReq → BatchResp Sexp) : String :=
  match b with
  | .error .panic => "(panic)"
  | .error e => render (errSexp e)
  | .ok br => match run br with
    | .single r => render (.list [.atom "single", r])
    | .batch rs => render (.list (.atom "batch" :: rs))

-- ------------------------------------------------------------------ cases

def partOfSexp : Sexp → Option Part
  | .list [.atom "ops", j] => (jOfSexp j).map (Part.ops none)
  | .list [.atom "opsct", .str ct, j] => (jOfSexp j).map (Part.ops (some ct))
  | .list [.atom "map"] => some .map
  | .list [.atom "field", .str _, .str _] => some .other
  | _ => none

structure GetCase where
  pairs : List (Str × Str)
  table : List (Str × J)      -- JSON texts of the case and the trees they denote

def getOfSexp (ps : List Sexp) : Option GetCase :=
  ps.foldlM (fun (g : GetCase) p => match p with
    | .list [.str k, .str v] => some { g with pairs := g.pairs ++ [(k, v)] }
    | .list [.str k, .str v, j] => (jOfSexp j).map (fun t => { pairs := g.pairs ++ [(k, v)], table := g.table ++ [(v, t)] })
    | _ => none) ⟨[], []⟩

-- ------------------------------------------------------------------ byte-level cases

def hexVal (c : Char) : Option Nat :=
  if '0' ≤ c ∧ c ≤ '9' then some (c.toNat - '0'.toNat)
  else if 'a' ≤ c ∧ c ≤ 'f' then some (c.toNat - 'a'.toNat + 10)
  else none

def unhex : List Char → Option Bytes
  | [] => some []
  | a :: b :: r => match hexVal a, hexVal b, unhex r with
    | some x, some y, some bs => some ((x * 16 + y).toUInt8 :: bs)
    | _, _, _ => none
  | _ => none

def tableOfSexp (ts : List Sexp) : Option (List (Str × J)) :=
  ts.mapM (fun (t : Sexp) => match t with
    | Sexp.list [Sexp.str text, j] => (jOfSexp j).map (fun j => (text, j))
    | _ => none)

def lookupText (table : List (Str × J)) (t : Str) : Option J := (table.find? (fun p => p.1 = t)).map (·.2)

def lowerAscii (s : Str) : Str := s.map (fun c => if 'A' ≤ c ∧ c ≤ 'Z' then Char.ofNat (c.toNat + 32) else c)

def partContentType (hdrs : List Sexp) : Option Str :=
  hdrs.findSome? (fun (h : Sexp) => match h with
    | Sexp.list [Sexp.str k, Sexp.str v] => if lowerAscii k = "content-type".toList then some v else none
    | _ => none)

def bpartOfSexp : Sexp → Option BPart
  | .list [.atom "opsb", .list hdrs, .str h] => (unhex h).map (BPart.ops (partContentType hdrs))
  | .list [.atom "mapb", .list _, .str h] => (unhex h).map BPart.map
  | .list [.atom "fieldb", .str _, .str _] => some .other
  | _ => none

/-- the batch a `bdoc` case wraps its bytes into (see the harness: BATCH_PREFIX) -/
def batchPrefix : Str := "[{\"query\":\"0\"},".toList
def batchFirst : J := .obj [("query".toList, .str "0".toList)]

def bothSexp (b : Except Err BatchReq) (single : Except Err BatchReq → Except Err Req) : Option Sexp :=
  match b with
  | .error .panic => none
  | _ => some (.list [.atom "both", batchOut b, singleOut (single b)])

def docOut (xs : List (Option Sexp)) : String :=
  match xs.mapM id with
  | none => "(panic)"
  | some ys => render (.list (.atom "doc" :: ys))

def idLossy := "C23-get-lossy-utf8"

def normImpl (impl : String) : String := if impl.startsWith "(panic" then "(panic)" else impl

def idGet := "C23-get-operation-name-ignored"
def idArr := "C23-array-accepted-as-request"
def idPanic := "C23-multipart-operations-type-panics"

def judge (known : List String) (case impl : String) : JudgeOut :=
  let impl := normImpl impl
  let dK : Model.Http.Defects :=
    { getOperationNameSnakeCase := known.contains idGet,
      requestAcceptsArray := known.contains idArr,
      opsMultipartTypePanics := known.contains idPanic,
      getLossyUtf8 := known.contains idLossy }
  let jk := Model.Http.jsonKeys
  -- `f D` = model output under toggles D; spec given separately
  let go (spec : String) (f : Model.Http.Defects → String) : JudgeOut :=
    triage impl spec (f dK)
      [(idGet, f { dK with getOperationNameSnakeCase := false }),
       (idArr, f { dK with requestAcceptsArray := false }),
       (idPanic, f { dK with opsMultipartTypePanics := false }),
       (idLossy, f { dK with getLossyUtf8 := false })]
  match parse case with
  | some (.list [.atom "get", .atom _, .list ps]) =>
    match getOfSexp ps with
    | none => .viol "bad-case" "bad-case"
    | some g =>
      let parseJ : Str → Option J := fun t => (g.table.find? (fun p => p.1 = t)).map (·.2)
      go (render (singleOut (Spec.Http.decodeGet parseJ g.pairs)))
         (fun D => render (singleOut (Model.Http.decodeGet (Model.Http.getKeys D) parseJ g.pairs)))
  | some (.list [.atom "json", .atom _, .atom _, j]) =>
    match jOfSexp j with
    | none => .viol "bad-case" "bad-case"
    | some j =>
      go (bothOut (Spec.Http.decodeBody j) Spec.Http.intoSingle)
         (fun D => bothOut (Model.Http.decodeBatch D jk j) Model.Http.intoSingle)
  | some (.list [.atom "jsontext", .str _]) =>
    -- the harness only sends text that is not JSON here
    let out := bothOut (.error .invalidRequest) Spec.Http.intoSingle
    go out (fun _ => out)
  | some (.list [.atom "multipart", .list parts]) =>
    match parts.mapM partOfSexp with
    | none => .viol "bad-case" "bad-case"
    | some parts =>
      go (bothOut (Spec.Http.decodeMultipart parts) Spec.Http.intoSingle)
         (fun D => bothOut (Model.Http.decodeMultipart D jk parts) Model.Http.intoSingle)
  | some (.list [.atom "mpnoboundary", _]) =>
    let out := bothOut (.error .invalidMultipart) Spec.Http.intoSingle
    go out (fun _ => out)
  | some (.list [.atom "exec", .atom _, j]) =>
    match jOfSexp j with
    | none => .viol "bad-case" "bad-case"
    | some j =>
      go (execOut (Spec.Http.decodeBody j) (Spec.Http.executeBatch execEcho))
         (fun D => execOut (Model.Http.decodeBatch D jk j) (Model.Http.executeBatch execEcho))
  | some (.list [.atom "bdoc", _, .list hdrs, .str h, .list ts]) =>
    match unhex h, tableOfSexp ts with
    | some bs, some table =>
      let emptyObj : Str × J := ("{}".toList, .obj [])
      let parseT := lookupText (emptyObj :: table)
      -- `[first,T]` is JSON text exactly when `T` is, and denotes the two-element array
      let parseW := lookupText (table.map (fun p => (batchPrefix ++ p.1 ++ [']'], J.arr [batchFirst, p.2])))
      let wrapped : Bytes := AGV.Spec.Http.utf8Encode batchPrefix ++ bs ++ [0x5D]
      let parts : List BPart := [.ops (partContentType hdrs) bs, .map (AGV.Spec.Http.utf8Encode "{}".toList)]
      go (docOut [bothSexp (Spec.Http.decodeBodyBytes parseT bs) Spec.Http.intoSingle,
                  bothSexp (Spec.Http.decodeBodyBytes parseW wrapped) Spec.Http.intoSingle,
                  bothSexp (Spec.Http.decodeMultipartBytes parseT parts) Spec.Http.intoSingle])
         (fun D => docOut [bothSexp (Model.Http.decodeBodyBytes D jk parseT bs) Model.Http.intoSingle,
                           bothSexp (Model.Http.decodeBodyBytes D jk parseW wrapped) Model.Http.intoSingle,
                           bothSexp (Model.Http.decodeMultipartBytes D jk parseT parts) Model.Http.intoSingle])
    | _, _ => .viol "bad-case" "bad-case"
  | some (.list [.atom "bmultipart", .list ps, .list ts]) =>
    match ps.mapM bpartOfSexp, tableOfSexp ts with
    | some parts, some table =>
      let parseT := lookupText table
      go (bothOut (Spec.Http.decodeMultipartBytes parseT parts) Spec.Http.intoSingle)
         (fun D => bothOut (Model.Http.decodeMultipartBytes D jk parseT parts) Model.Http.intoSingle)
    | _, _ => .viol "bad-case" "bad-case"
  | some (.list [.atom "bget", .atom _, .list ps, .list ts]) =>
    let pairs := ps.mapM (fun (p : Sexp) => match p with
      | Sexp.list [Sexp.str k, Sexp.str v] => match unhex k, unhex v with
        | some kb, some vb => some (kb, vb)
        | _, _ => none
      | _ => none)
    match pairs, tableOfSexp ts with
    | some pairs, some table =>
      let parseT := lookupText table
      go (render (singleOut (Spec.Http.decodeGetBytes parseT pairs)))
         (fun D => render (singleOut (Model.Http.decodeGetBytes D (Model.Http.getKeys D) parseT pairs)))
    | _, _ => .viol "bad-case" "bad-case"
  | _ => .viol "bad-case" "bad-case"

end AGV.Drive.C23

def main (args : List String) : IO UInt32 := AGV.runJudge AGV.Drive.C23.judge args
