import AGV.Util.Sexp
import AGV.Util.Judge
import AGV.Model.Cursor
import AGV.Spec.Cursor

open AGV AGV.Sexp
open AGV.Model.Cursor

namespace AGV.Drive.C32

inductive Ty where
  | int (t : IntTy) | bool | char | str | opq

def tyOf (s : String) : Option Ty :=
  match intTypes.find? (fun p => p.1 = s) with
  | some p => some (.int p.2)
  | none =>
    if s = "bool" then some .bool else if s = "char" then some .char
    else if s = "string" ∨ s = "id" then some .str else if s = "opq" then some .opq else none

def utf8 (cs : List Char) : List Nat := (String.ofList cs).toUTF8.toList.map UInt8.toNat

def unUtf8 (bs : List Nat) : List Char :=
  match String.fromUTF8? (ByteArray.mk (bs.map UInt8.ofNat).toArray) with
  | some s => s.toList
  | none => ['?', '?']

def intErrName : IntErr → String
  | .empty => "empty" | .invalid => "invalid" | .posOverflow => "posoverflow" | .negOverflow => "negoverflow"

/-- the model's `encode_cursor` on a case value -/
def encodeV (ty : Ty) (v : Sexp) : Option (List Char) :=
  match ty, v with
  | .int _, .atom a => a.toInt?.map encodeInt
  | .bool, .atom "true" => some (encodeBool true)
  | .bool, .atom "false" => some (encodeBool false)
  | .char, .str [c] => some (encodeChar c)
  | .str, .str s => some (encodeString s)
  | .opq, .str s => some (encodeOpaque (J := List Char) utf8 s)
  | _, _ => none

/-- the model's `decode_cursor`, printed as the harness prints it; `none` = the case does not
    determine it (valid base64 around a payload the generator says nothing about) -/
def decodeM (ty : Ty) (label : String) (s : List Char) : Option (Except Sexp Sexp) :=
  match ty with
  | .int t => some (match decodeInt t s with
    | .ok i => .ok (ofInt i)
    | .error e => .error (.atom (intErrName e)))
  | .bool => some (match decodeBool s with
    | some b => .ok (ofBool b)
    | none => .error (.atom "notbool"))
  | .char => some (match decodeChar s with
    | .ok c => .ok (.str [c])
    | .error .empty => .error (.atom "empty")
    | .error .tooMany => .error (.atom "toomany"))
  | .str => some (.ok (.str (decodeString s)))
  | .opq =>
    if label = "valid" ∨ label = "invalid" then
      some (match decodeOpaque (J := List Nat) (fun bs => if label = "valid" then some bs else none) s with
        | .ok bs => .ok (.str (unUtf8 bs))
        | .error .b64 => .error (.atom "b64")
        | .error .json => .error (.atom "json"))
    else
      match b64decode s with
      | none => some (.error (.atom "b64"))
      | some _ => none

/-- the reference decoder (no error kinds) -/
def decodeS (ty : Ty) (label : String) (s : List Char) : Option (Option Sexp) :=
  match ty with
  | .int t => some ((Spec.Cursor.decodeInt t.signed t.bits s).map ofInt)
  | .bool => some (if s = "true".toList then some (ofBool true) else if s = "false".toList then some (ofBool false) else none)
  | .char => some (if s.length = 1 then some (.str s) else none)
  | .str => some (some (.str s))
  | .opq => (decodeM .opq label s).map (fun r => match r with | .ok v => some v | .error _ => none)

def resSexp : Except Sexp Sexp → Sexp
  | .ok v => .list [.atom "ok", v]
  | .error k => .list [.atom "err", k]

/-- `(err K …)` ↦ `(err …)` -/
def eraseKind : Sexp → Sexp
  | .list (.atom "err" :: _ :: r) => .list (.atom "err" :: r)
  | x => x

def specRes : Option Sexp → Sexp
  | some v => .list [.atom "ok", v]
  | none => .list [.atom "err"]

def decide3 (specOk : Bool) (impl model spec : String) : JudgeOut :=
  if !specOk then .viol model spec else if impl ≠ model then .tie model spec else .ok

-- ------------------------------------------------------------------ floats (differential)

def natDec (n : Nat) : List Char := AGV.Digits.natDigits n

/-- exact text for the values whose `Display` is determined without the shortest-digits
    algorithm: NaN, infinities, zeros and integral values below 2^(mant+1) -/
def floatText (expBits manBits : Nat) (bits : Nat) : Option (List Char) :=
  let man := bits % 2 ^ manBits
  let ex := (bits / 2 ^ manBits) % 2 ^ expBits
  let neg := (bits / 2 ^ (manBits + expBits)) % 2 = 1
  let sign : List Char := if neg then ['-'] else []
  let bias := 2 ^ (expBits - 1) - 1
  if ex = 2 ^ expBits - 1 then
    if man = 0 then some (sign ++ "inf".toList) else some "NaN".toList
  else if ex = 0 ∧ man = 0 then some (sign ++ ['0'])
  else if ex ≥ bias ∧ ex ≤ bias + manBits then
    let sh := manBits - (ex - bias)
    let full := 2 ^ manBits + man
    if full % 2 ^ sh = 0 then some (sign ++ natDec (full / 2 ^ sh)) else none
  else none

def isPlainDecimal (s : List Char) : Bool :=
  let s := match s with | '-' :: r => r | r => r
  let ip := s.takeWhile AGV.Digits.isDigit
  let rest := s.dropWhile AGV.Digits.isDigit
  !ip.isEmpty && (match rest with
    | [] => true
    | '.' :: fr => !fr.isEmpty && fr.all AGV.Digits.isDigit
    | _ => false)

-- ------------------------------------------------------------------ query

def cursorArg : Sexp → Option (Option (List Char × String))
  | .atom "none" => some none
  | .list [.str s, .atom l] => some (some (s, l))
  | _ => none

def countArg : Sexp → Option (Option Int)
  | .atom "none" => some none
  | .atom a => a.toInt?.map some
  | _ => none

def optS (f : α → Sexp) : Option α → Sexp
  | none => .atom "none"
  | some v => .list [.atom "some", f v]

def optN : Option Nat → Sexp
  | none => .atom "none"
  | some n => ofNat n

def qErrSexp : QErr Sexp → Sexp
  | .firstNegative => .atom "first-negative"
  | .lastNegative => .atom "last-negative"
  | .cursor k => k

def judge (_known : List String) (case impl : String) : JudgeOut :=
  let bad : JudgeOut := .viol "bad-case" "bad-case"
  match parse case, parse impl with
  | some (.list [.atom "rt", .atom tyS, v]), some implS =>
    match tyOf tyS with
    | none => bad
    | some ty =>
      match encodeV ty v with
      | none => bad
      | some enc =>
        match decodeM ty "valid" enc with
        | none => bad
        | some r =>
          let model := render (.list [.atom "enc", .str enc, resSexp r])
          let want := Sexp.list [.atom "ok", v]
          let specOk := match implS with
            | .list [.atom "enc", .str _, got] => render got = render want
            | _ => false
          decide3 specOk impl model (render (.list [.atom "enc", .atom "_", want]))
  | some (.list [.atom "dec", .atom tyS, .str s]), some implS =>
    match tyOf tyS with
    | none => bad
    | some ty =>
      match decodeM ty "na" s, decodeS ty "na" s with
      | some r, some sp =>
        let spec := render (specRes sp)
        decide3 (render (eraseKind implS) = spec) impl (render (resSexp r)) spec
      | _, _ => bad
  | some (.list [.atom "opqdec", .str s, .atom label]), some implS =>
    match decodeM .opq label s, decodeS .opq label s with
    | some r, some sp =>
      let spec := render (specRes sp)
      decide3 (render (eraseKind implS) = spec) impl (render (resSexp r)) spec
    | _, _ =>
      -- valid base64, payload unknown: must not be a base64 error
      let okForm := match implS with
        | .list [.atom "ok", .str _] => true
        | .list [.atom "err", .atom "json"] => true
        | _ => false
      decide3 okForm impl impl "(ok _)|(err json)"
  | some (.list [.atom "flt", .atom w, .atom bitsS]), some implS =>
    match bitsS.toNat? with
    | none => bad
    | some bits =>
      let txt := if w = "f64" then floatText 11 52 bits else floatText 8 23 bits
      match implS with
      | .list [.atom "enc", .str s, .atom verdict] =>
        let specOk := verdict = "same"
        match txt with
        | some t => decide3 specOk impl (render (.list [.atom "enc", .str t, .atom "same"])) "(enc _ same)"
        | none => decide3 (specOk && isPlainDecimal s) impl impl "(enc <decimal> same)"
      | _ => .viol "(enc _ same)" "(enc _ same)"
  | some (.list [.atom "q", .atom tyS, a, b, f, l]), some implS =>
    match tyOf tyS, cursorArg a, cursorArg b, countArg f, countArg l with
    | some ty, some a, some b, some f, some l =>
      let label (x : Option (List Char × String)) := (x.map (·.2)).getD "na"
      let str (x : Option (List Char × String)) := x.map (·.1)
      -- which label applies is determined by the string (a query has one label per argument)
      let lab (s : List Char) : String :=
        if (str b) = some s then label b else label a
      let negative := f.any (· < 0) || l.any (· < 0)
      let undetermined := !negative &&
        ((match b with | some (s, lb) => (decodeM ty lb s).isNone | none => false) ||
         (match a with | some (s, lb) => (decodeM ty lb s).isNone | none => false))
      if undetermined then
        -- some payload is unknown: only the shape is checked (a base64 error needs an
        -- argument that is not valid base64)
        let anyBad64 := [a, b].any (fun x => match x with
          | some (s, _) => (b64decode s).isNone
          | none => false)
        let okForm := match implS with
          | .list [.atom "err", .atom "json", .atom "notcalled"] => true
          | .list [.atom "err", .atom "b64", .atom "notcalled"] => anyBad64
          | .list (.atom "called" :: _) => true
          | _ => false
        decide3 okForm impl impl "(called …)|(err json notcalled)"
      else if (str a).isSome ∧ str a = str b ∧ label a ≠ label b then bad
      else
        let dec (s : List Char) : Except Sexp Sexp :=
          match decodeM ty (lab s) s with
          | some r => r
          | none => .error (.atom "undetermined")
        let (trace, res) := queryWith dec (str a) (str b) f l (fun _ => ())
        let callS (x : Args Sexp) : Sexp :=
          .list [.atom "called", optS id x.after, optS id x.before, optN x.first, optN x.last]
        let model := match trace, res with
          | [x], .ok _ => render (callS x)
          | [], .error e => render (.list [.atom "err", qErrSexp e, .atom "notcalled"])
          | _, _ => "model-inconsistent"
        let decS (s : List Char) : Option Sexp := (decodeS ty (lab s) s).getD none
        let spec := match Spec.Cursor.query decS (str a) (str b) f l with
          | .rejected => render (.list [.atom "err", .atom "notcalled"])
          | .called a' b' f' l' => render (.list [.atom "called", optS id a', optS id b', optN f', optN l'])
        decide3 (render (eraseKind implS) = spec) impl model spec
    | _, _, _, _, _ => bad
  | some (.list [.atom "page", .atom tyS, .list vals, .atom hp, .atom hn]), some implS =>
    match tyOf tyS with
    | none => bad
    | some ty =>
      match vals.mapM (encodeV ty) with
      | none => bad
      | some _ =>
        let enc (v : Sexp) : List Char := (encodeV ty v).getD []
        let conn : Conn Sexp := { edges := vals, hasPreviousPage := hp = "true", hasNextPage := hn = "true" }
        let pi := pageInfo enc conn
        let cur (x : Option (List Char)) := optS (fun s => Sexp.str s) x
        let nodes := (List.range vals.length).map ofNat
        let model := render (.list [.atom "page", ofBool pi.hasPreviousPage, ofBool pi.hasNextPage,
          cur pi.startCursor, cur pi.endCursor, .list ((edgeCursors enc conn).map .str), .list nodes])
        let (s0, e0) := Spec.Cursor.pageCursors enc vals
        let specOk := match implS with
          | .list [.atom "page", _, _, st, en, .list cs, _] =>
            render st = render (cur s0) && render en = render (cur e0) &&
            -- the start / end cursor are the cursor fields of the first / last edge
            (match cs.head?, cs.getLast? with
              | some c0, some c1 => render st = render (.list [.atom "some", c0]) && render en = render (.list [.atom "some", c1])
              | _, _ => render st = "none" && render en = "none")
          | _ => false
        decide3 specOk impl model (render (.list [.atom "page", .atom "_", .atom "_", cur s0, cur e0]))
  | _, _ => bad

end AGV.Drive.C32

def main (args : List String) : IO UInt32 := AGV.runJudge AGV.Drive.C32.judge args
