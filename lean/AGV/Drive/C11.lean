import AGV.Util.Sexp
import AGV.Util.Judge
import AGV.Core.Types
import AGV.Spec.Cost
import AGV.Model.Cost

open AGV AGV.Sexp AGV.Core

namespace AGV.Drive.C11
open AGV.Model.Cost

def findingId : String := "C11-exponential-fragment-fanout"

def cfg? : Sexp → Option Config
  | .list [.atom "cfg", .atom m, .atom r, rl, md] => do
    let strict ← match m with | "strict" => some true | "fast" => some false | _ => none
    let full ← match r with | "full" => some true | "qonly" => some false | _ => none
    let md ← match md with | .atom "none" => some none | x => (asNat? x).map some
    some { strict := strict, fullRoots := full, recLimit := ← asNat? rl, maxDirs := md }
  | _ => none

/-- the operations in the order the implementation iterated them (`none` if `order` is not a
    permutation of the operation names) -/
def reorder (ops : List OpDef) : List (Option String) → Option (List OpDef)
  | [] => if ops.isEmpty then some [] else none
  | n :: ns =>
    match ops.find? (·.name = n) with
    | some o => (reorder (ops.filter (·.name ≠ n)) ns).map (o :: ·)
    | none => none

def stageTok : Stage → String
  | .depth => "depth"
  | .directives => "directives"
  | .done => "done"

def renderOut (order : List Sexp) (r : Stage × Counters) : String :=
  render (.list [.atom "out", .list (.atom "order" :: order), .atom (stageTok r.1),
    .list (r.2.toList.map fun n => .atom (toString n))])

def defects (known : List String) : Defects :=
  if known.contains findingId then pinned else {}

def judge (known : List String) (case impl : String) : JudgeOut :=
  match parse case, parse impl with
  | some (.list [.atom "case", c, d]), some (.list [.atom "out", .list (.atom "order" :: order), .atom _stage, .list cs]) =>
    match cfg? c, Decode.doc? d, order.mapM Decode.optStr?, cs.mapM asNat? with
    | some cfg, some doc, some names, some counts =>
      match reorder doc.ops names with
      | none => .viol "bad-order" "the reported operation order is not a permutation of the operations"
      | some ops =>
        let doc' : Doc := { doc with ops := ops }
        let modelK := renderOut order (run (defects known) cfg doc')
        -- the property, evaluated on what the implementation did
        let visits := (counts.drop 2).take 4 |>.sum
        let holds := counts.length = 8 && Spec.Cost.within cfg.strict doc visits (counts.getD 6 0)
        let specTxt := s!"visits<={Spec.Cost.visitBound cfg.strict doc} overlap<={Spec.Cost.overlapBound doc}"
        if impl = modelK then
          if holds then .ok
          else if known.contains findingId then .known findingId modelK specTxt
          else .viol modelK specTxt
        else if holds then .tie modelK specTxt
        else .viol modelK specTxt
    | _, _, _, _ => .viol "bad-case" "undecodable case"
  | _, _ => .viol "bad-case" "undecodable case or output"

end AGV.Drive.C11

def main (args : List String) : IO UInt32 := AGV.runJudge AGV.Drive.C11.judge args
