import AGV.Util.Sexp
import AGV.Util.Judge
import AGV.Core.Types
import AGV.Spec.Cost
import AGV.Model.Cost
import AGV.Model.CostValue
import AGV.Core.VSchema

open AGV AGV.Sexp AGV.Core

namespace AGV.Drive.C11
open AGV.Model.Cost

def findingId : String := "C11-exponential-fragment-fanout"

def cfg? : Sexp → Option Config
  | .list [.atom "cfg", .atom m, .atom r, rl, md] => do
    let strict ← match m with | "strict" => some true | "fast" => some false | _ => none
    let full ← match r with | "full" => some true | "qonly" => some false | _ => none
    let md ← match md with | .atom "none" => some none | x => (asNat? x).map some
    some { strict := strict, fullRoots := full, recLimit := ← asNat? rl, maxDirs := md }
  | _ => none

/-- the operations in the order the implementation iterated them (`none` if `order` is not a
    permutation of the operation names) -/
def reorder (ops : List OpDef) : List (Option String) → Option (List OpDef)
  | [] => if ops.isEmpty then some [] else none
  | n :: ns =>
    match ops.find? (·.name = n) with
    | some o => (reorder (ops.filter (·.name ≠ n)) ns).map (o :: ·)
    | none => none

-- what the real registry says (printed by the harness with every output)

def dirDef? : Sexp → Option DirDef
  | .list (.atom "dirdef" :: .str n :: as) => do
    some { name := String.ofList n, repeatable := false, locs := [], args := ← as.mapM Decode.argDef? }
  | _ => none

def inputDef? : Sexp → Option InputDef
  | .list (.atom "input" :: .str n :: .atom o :: as) => do
    some { name := String.ofList n, oneof := o == "true", fields := ← as.mapM Decode.argDef? }
  | _ => none

def vschema? : Sexp → Option VSchema
  | .list [.atom "vschema", sc, .list (.atom "dirs" :: ds), .list (.atom "inputs" :: is)] => do
    some { base := ← Decode.schema? sc, dirs := ← ds.mapM dirDef?, inputs := ← is.mapM inputDef? }
  | _ => none

/-- `(req OPNAME (vars (NAME VALUE)…))`; absent = no operation name, no variables -/
def req? : List Sexp → Option Model.CostValue.Req
  | [] => some {}
  | [.list [.atom "req", o, v]] => do some { opName := ← Decode.optStr? o, vars := ← Decode.vars? v }
  | _ => none

def stageTok : Stage → String
  | .depth => "depth"
  | .directives => "directives"
  | .done => "done"

def renderOut (order : List Sexp) (r : Stage × Counters) (extra : List Nat) (reg : List Sexp) : String :=
  render (.list ([.atom "out", .list (.atom "order" :: order), .atom (stageTok r.1),
    .list ((r.2.toList ++ extra).map fun n => .atom (toString n))] ++ reg))

def defects (known : List String) : Defects :=
  if known.contains findingId then pinned else {}

/-- value checks a request may need: every value is looked at once per list / non-null layer of
    the type it is checked against, in each of the walks -/
def valueSpec (S : VSchema) (cfg : Config) (r : Model.CostValue.Req) (doc : Doc) : Nat :=
  Spec.Cost.passes cfg.strict * Spec.Cost.valueBoundDoc S r.vars doc

def judge (known : List String) (case impl : String) : JudgeOut :=
  match parse case, parse impl with
  | some (.list (.atom "case" :: c :: d :: rq)),
    some (.list (.atom "out" :: .list (.atom "order" :: order) :: .atom _stage :: .list cs :: reg)) =>
    match cfg? c, Decode.doc? d, order.mapM Decode.optStr?, cs.mapM asNat?, req? rq with
    | some cfg, some doc, some names, some counts, some rq =>
      match reorder doc.ops names with
      | none => .viol "bad-order" "the reported operation order is not a permutation of the operations"
      | some ops =>
        let doc' : Doc := { doc with ops := ops }
        let r := run (defects known) cfg doc'
        -- the ninth counter (calls of is_valid_input_value) exists from the second hook commit on;
        -- it comes with the registry description the cost model of value checking is evaluated on
        let newHook : Bool := counts.length == 9
        let S? : Option VSchema := match reg with | [x] => vschema? x | _ => none
        match newHook, S? with
        | true, none => .viol "bad-registry" "nine counters but no decodable registry description"
        | _, _ =>
        let extra : List Nat := match newHook, S? with
          | true, some S => [Model.CostValue.valueCounter {} S cfg.strict rq doc' r.1]
          | _, _ => []
        let modelK := renderOut order r extra reg
        -- the property, evaluated on what the implementation did
        let visits := (counts.drop 2).take 4 |>.sum
        let vspec : Nat := match S? with | some S => valueSpec S cfg rq doc' | none => 0
        let holds := (counts.length == 8 || newHook)
          && Spec.Cost.within cfg.strict doc visits (counts.getD 6 0)
          && (!newHook || counts.getD 8 0 ≤ vspec)
        let specTxt := s!"visits<={Spec.Cost.visitBound cfg.strict doc} overlap<={Spec.Cost.overlapBound doc}"
          ++ (if newHook then s!" valueChecks<={vspec}" else "")
        if impl = modelK then
          if holds then .ok
          else if known.contains findingId then .known findingId modelK specTxt
          else .viol modelK specTxt
        else if holds then .tie modelK specTxt
        else .viol modelK specTxt
    | _, _, _, _, _ => .viol "bad-case" "undecodable case"
  | _, _ => .viol "bad-case" "undecodable case or output"

end AGV.Drive.C11

def main (args : List String) : IO UInt32 := AGV.runJudge AGV.Drive.C11.judge args
