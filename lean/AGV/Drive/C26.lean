import AGV.Util.Sexp
import AGV.Util.Judge
import AGV.Model.Multipart
import AGV.Model.MultipartObs
import AGV.Spec.Multipart

/-
  Judge of C26.  Case line:   (mp OFFER…)
     OFFER = (resp "json")       a response becomes available (nothing else is ready)
           | (tick)              the heartbeat timer fires (nothing else is ready)
           | (fin)               the response stream ends
           | (both "json")       a response and the timer are ready at the same poll
           | (bothfin)           end of the response stream and the timer are ready at the same poll
     offers after the one that ends the stream are never made.
  Implementation output:
     (body "text" (delays N) (dur ok|bad) (done B) (order r|t|f …))
     text = all bytes the stream yielded (UTF-8), N = calls of Timer::delay, dur = every call got
     the heartbeat interval the stream was created with, done = the stream returned None,
     order = the order in which the harness' response source (r = an item, f = end) and timer (t)
     were consumed.  `order` resolves the `select!` race of both/bothfin: it must be one of the
     orders the offers allow; the events in that order are the input of model and spec.
  Verdict: VIOL when the body is not the multipart body the property requires for these events
  (or the order is impossible), TIE when it is but the output differs from the model's.
-/
open AGV AGV.Sexp
open AGV.Model.Multipart (Ev itemsOf ended PayloadsSafe)
open AGV.Spec.Multipart (Item)

namespace AGV.Drive.C26

/-- the events of the offers, in the order the implementation consumed them; `none` when the
    consumption order is not one the offers allow -/
def linearise : List Sexp → List String → Option (List Ev)
  | [], [] => some []
  | [], _ :: _ => none
  | .list [.atom "resp", .str j] :: r, "r" :: o => (linearise r o).map (Ev.resp j :: ·)
  | .list [.atom "tick"] :: r, "t" :: o => (linearise r o).map (Ev.tick :: ·)
  | .list [.atom "fin"] :: _, ["f"] => some [Ev.fin]
  | .list [.atom "both", .str j] :: r, "r" :: "t" :: o => (linearise r o).map (fun es => Ev.resp j :: Ev.tick :: es)
  | .list [.atom "both", .str j] :: r, "t" :: "r" :: o => (linearise r o).map (fun es => Ev.tick :: Ev.resp j :: es)
  | .list [.atom "bothfin"] :: _, ["t", "f"] => some [Ev.tick, Ev.fin]
  | .list [.atom "bothfin"] :: _, ["f"] => some [Ev.fin]
  | _, _ => none

def renderOut (body : List Char) (delays : Nat) (done : Bool) (order : List String) : String :=
  render (.list [.atom "body", .str body, .list [.atom "delays", ofNat delays],
    .list [.atom "dur", .atom "ok"], .list [.atom "done", ofBool done],
    .list (.atom "order" :: order.map .atom)])

def judge (_known : List String) (case impl : String) : JudgeOut :=
  match parse case, parse impl with
  | some (.list (.atom "mp" :: offers)),
    some (.list [.atom "body", .str body, _, _, _, .list (.atom "order" :: order)]) =>
    let order := order.filterMap asAtom?
    match linearise offers order with
    | none => .viol "impossible-order" "impossible-order"
    | some evs =>
      if ¬ PayloadsSafe evs then .viol "bad-case-unsafe-payload" "bad-case-unsafe-payload" else
      let items := itemsOf evs
      let want := if ended evs then Spec.Multipart.expectedClosed items else Spec.Multipart.expectedOpen items
      let model := renderOut (Model.Multipart.emit evs) (Model.Multipart.delays evs) (ended evs) order
      let specS := ((repr want).pretty 100000).replace "\n" " "
      if Spec.Multipart.parseMixed body = want then
        if impl = model then .ok else .tie model specS
      else .viol model specS
  | some (.list (.atom "mp" :: _)), _ => .viol "no-body" "no-body"   -- e.g. (panic …)
  | _, _ => .viol "bad-case" "bad-case"

end AGV.Drive.C26

def main (args : List String) : IO UInt32 := AGV.runJudge AGV.Drive.C26.judge args
