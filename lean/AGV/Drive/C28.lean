import AGV.Util.Sexp
import AGV.Util.Judge
import AGV.Model.Loader
import AGV.Spec.Loader

open AGV AGV.Sexp

namespace AGV.Drive.C28
open AGV.Model.Loader

def insertBy {α : Type} (key : α → Nat) (x : α) : List α → List α
  | [] => [x]
  | y :: ys => if key x ≤ key y then x :: y :: ys else y :: insertBy key x ys

def sortBy {α : Type} (key : α → Nat) (xs : List α) : List α := xs.foldr (insertBy key) []

def pairS (p : Nat × Nat) : Sexp := .list [ofNat p.1, ofNat p.2]

def evS : Ev → Sexp
  | .call i ks => .list (.atom "call" :: ofNat i :: (sortBy id ks).map ofNat)
  | .timer i d => .list [.atom "timer", ofNat i, ofNat d]
  | .ok r m => .list (.atom "ok" :: ofNat r :: (sortBy (·.1) m).map pairS)
  | .err r e => .list [.atom "err", ofNat r, ofNat e]

def isRes : Ev → Bool
  | .ok .. | .err .. => true
  | _ => false

def resId : Ev → Nat
  | .ok r _ | .err r _ => r
  | _ => 0

/-- within one step the loader calls / timers come in order, then the deliveries by request id
    (the harness polls the request futures after the step) -/
def canon (evs : List Ev) : List Ev :=
  evs.filter (fun e => !isRes e) ++ sortBy resId (evs.filter isRes)

def renderOut (tr : List (List Ev)) (f : St) : String :=
  render (.list (.atom "out" :: tr.map (fun evs => .list ((canon evs).map evS)) ++
    [.list (.atom "cache" :: (sortBy (·.1) f.cache).map pairS),
     .list (.atom "wait" :: f.waitingReqs.map ofNat),
     .list [.atom "tasks", ofNat f.tasks.length]]))

def pairP : Sexp → Option (Nat × Nat)
  | .list [a, b] => do pure ((← asNat? a), (← asNat? b))
  | _ => none

def nats (xs : List Sexp) : List Nat := xs.filterMap asNat?

def respP (r : Sexp) (extra : Option Sexp) : Resp :=
  match r with
  | .list (.atom "okall" :: b :: _) => .okall ((asNat? b).getD 0)
  | .list [.atom "okall"] => .okall 0
  | .list (.atom "ok" :: ps) =>
    let ex := match extra with
      | some (.list (_ :: es)) => es.filterMap pairP
      | _ => []
    .ok (ps.filterMap pairP) ex
  | .list (_ :: e :: _) => .err ((asNat? e).getD 0)
  | _ => .err 0

def flag (xs : List Sexp) : Bool :=
  match xs with
  | x :: _ => (asNat? x).getD 1 != 0
  | [] => true

/-- an action the harness would ignore is mapped to an inapplicable one (`run` of a task that cannot exist) -/
def noop : Act := .cancel 4000000000

def actP : Sexp → Act
  | .list (.atom "load" :: r :: ks) => match asNat? r with
    | some r => .load r (nats ks)
    | none => noop
  | .list (.atom "run" :: i :: _) => (asNat? i).elim noop .run
  | .list (.atom "fire" :: i :: _) => (asNat? i).elim noop .fire
  | .list (.atom "done" :: i :: r :: rest) => match asNat? i with
    | some i => .done i (respP r rest.head?)
    | none => noop
  | .list (.atom "cancel" :: r :: _) => (asNat? r).elim noop .cancel
  | .list (.atom "enall" :: xs) => .enall (flag xs)
  | .list (.atom "entype" :: xs) => .entype (flag xs)
  | .list (.atom "feed" :: ps) => .feed (ps.filterMap pairP)
  | .list [.atom "clear"] => .clear
  | .list [.atom "drain"] => .drain
  | _ => noop

def field (name : String) (xs : List Sexp) : List Sexp :=
  match xs.find? (fun x => match x with
      | .list (.atom n :: _) => n == name
      | _ => false) with
  | some (.list (_ :: rest)) => rest
  | _ => []

def evP : Sexp → Option Ev
  | .list (.atom "call" :: i :: ks) => do pure (.call (← asNat? i) (nats ks))
  | .list [.atom "timer", i, d] => do pure (.timer (← asNat? i) (← asNat? d))
  | .list (.atom "ok" :: r :: ps) => do pure (.ok (← asNat? r) (ps.filterMap pairP))
  | .list [.atom "err", r, e] => do pure (.err (← asNat? r) (← asNat? e))
  | _ => none

/-- the per-step event lists of an implementation output; `none` if it is not of that shape
    (a panic, a `dup` event, …) -/
def implTrace (nacts : Nat) (impl : String) : Option (List (List Ev)) :=
  match parse impl with
  | some (.list (.atom "out" :: rest)) =>
    (rest.take nacts).mapM (fun seg => match seg with
      | .list evs => evs.mapM evP
      | _ => none)
  | _ => none

def judge (_known : List String) (case impl : String) : JudgeOut :=
  match parse case with
  | some (.list (.atom "c28" :: fs)) =>
    let max := ((field "max" fs).head?.bind asNat?).getD 1000
    let delay := ((field "delay" fs).head?.bind asNat?).getD 1
    let hasCache := match (field "cache" fs).head? with
      | some (.atom "map") => true
      | _ => false
    let feed := (field "feed" fs).filterMap pairP
    let acts := (field "acts" fs).map actP
    let (tr, f) := trace (init max delay hasCache feed) acts
    let model := renderOut tr f
    let specOk := match implTrace acts.length impl with
      | some itr => Spec.Loader.check max hasCache feed acts itr
      | none => false
    if !specOk then .viol model "C28 predicate (B1 B2 R1 R2 L) fails on the observed run"
    else if impl = model then .ok
    else .tie model "predicate holds"
  | _ => .viol "bad-case" "bad-case"

end AGV.Drive.C28

def main (args : List String) : IO UInt32 := AGV.runJudge AGV.Drive.C28.judge args
