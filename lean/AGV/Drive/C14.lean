import AGV.Util.Sexp
import AGV.Util.Judge
import AGV.Model.Pos
import AGV.Spec.Pos

open AGV AGV.Sexp

namespace AGV.Drive.C14

def posList (tag : String) (ps : List (Nat × Nat)) : String :=
  render (.list (.atom tag :: ps.map (fun p => .list [ofNat p.1, ofNat p.2])))

def judge (known : List String) (case impl : String) : JudgeOut :=
  let kStep := known.contains "C14-lone-cr-step"
  let kPest := known.contains "C14-lone-cr-pest"
  match parse case with
  | some (.list [.atom "doc", .str text, .list offs, _]) =>
    let offs := offs.filterMap asNat?
    let spec := posList "ok" (offs.map (Spec.Pos.lineCol text))
    let m (b : Bool) := posList "ok" (Model.Pos.stepAll b text offs)
    triage impl spec (m kStep) [("C14-lone-cr-step", m false)]
  | some (.list [.atom "synerr", .str text, off]) =>
    let off := (asNat? off).getD 0
    let spec := posList "errs" [Spec.Pos.lineCol text off]
    let m (b : Bool) := posList "errs" [Model.Pos.pestLineCol b text off]
    triage impl spec (m kPest) [("C14-lone-cr-pest", m false)]
  | some (.list [.atom kind, .str text, off]) =>
    if kind = "valerr" ∨ kind = "execerr" then
      let off := (asNat? off).getD 0
      let spec := posList "errs" [Spec.Pos.lineCol text off]
      let m (b : Bool) := posList "errs" (Model.Pos.stepAll b text [off])
      triage impl spec (m kStep) [("C14-lone-cr-step", m false)]
    else .viol "bad-case" "bad-case"
  | _ => .viol "bad-case" "bad-case"

end AGV.Drive.C14

def main (args : List String) : IO UInt32 := AGV.runJudge AGV.Drive.C14.judge args
