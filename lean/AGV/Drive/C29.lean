import AGV.Util.Sexp
import AGV.Util.Judge
import AGV.Model.LoaderCache
import AGV.Spec.LoaderCache

/-
  Judge of C29.  Case line:
     (hist (cfg KIND CAP NKEYS MODE) OP…)       KIND = nocache | hashmap | lru
     OP = (load k…) | (one k) | (feed (k v)…) | (clear) | (clear1 k) | (enable b) | (enableall b)
        | (cached) | (fail b)
  Implementation output: (outs OUT…), one OUT per OP, printed as `renderOut` below.
  The order in which the loader's answer enumerated its keys (`(ord …)` of a `loaded` output) is
  an environment choice: it is read from the implementation's output and handed to model and
  spec as the `ord` argument of the corresponding `load` operation; both print the order they
  actually used (always a rearrangement of the fetched keys), so an impossible order shows up
  as a difference.
-/
open AGV AGV.Sexp
open AGV.Spec.LoaderCache (Key Val Op Out)

namespace AGV.Drive.C29

def kvs (xs : List (Key × Val)) : Sexp := .list (xs.map (fun p => .list [ofNat p.1, ofNat p.2]))
def keys (tag : String) (xs : List Key) : Sexp := .list (.atom tag :: xs.map ofNat)

def renderOut : Out → Sexp
  | .unit => .list [.atom "u"]
  | .vals xs => .list [.atom "vals", kvs xs]
  | .loaded res call ins => .list [.atom "loaded", kvs res, keys "call" call, keys "ord" ins]
  | .failed call => .list [.atom "failed", keys "call" call]
  | .one v call => .list [.atom "one", (match v with | some x => ofNat x | none => .atom "none"), keys "call" call]
  | .panic => .list [.atom "panic"]

def renderOuts (os : List Out) : String := render (.list (.atom "outs" :: os.map renderOut))

def asBool? : Sexp → Option Bool
  | .atom "true" => some true
  | .atom "false" => some false
  | _ => none

def asKV? : Sexp → Option (Key × Val)
  | .list [a, b] => match asNat? a, asNat? b with
    | some k, some v => some (k, v)
    | _, _ => none
  | _ => none

/-- the `(ord …)` of the implementation's output for this operation, if it has one -/
def ordOf : Option Sexp → List Key
  | some (.list [.atom "loaded", _, _, .list (.atom "ord" :: ks)]) => ks.filterMap asNat?
  | _ => []

def parseOp (nkeys : Nat) (implOut : Option Sexp) : Sexp → Option Op
  | .list (.atom "load" :: ks) => some (.load (ks.filterMap asNat?) (ordOf implOut))
  | .list [.atom "one", k] => (asNat? k).map .loadOne
  | .list (.atom "feed" :: ps) => some (.feed (ps.filterMap asKV?))
  | .list [.atom "clear"] => some .clear
  | .list [.atom "clear1", k] => (asNat? k).map .clearOne
  | .list [.atom "enable", b] => (asBool? b).map .enable
  | .list [.atom "enableall", b] => (asBool? b).map .enableAll
  | .list [.atom "cached"] => some (.cached nkeys)
  | .list [.atom "fail", b] => (asBool? b).map .setFail
  | _ => none

def parseOps (nkeys : Nat) : List Sexp → List Sexp → Option (List Op)
  | [], _ => some []
  | o :: os, outs =>
    match parseOp nkeys outs.head? o, parseOps nkeys os outs.tail with
    | some op, some ops => some (op :: ops)
    | _, _ => none

def parseKind (kind : String) (cap : Nat) : Option Model.LoaderCache.Kind :=
  if kind = "nocache" then some .noCache
  else if kind = "hashmap" then some .hashMap
  else if kind = "lru" then some (.lru cap)
  else none

def capOf : Model.LoaderCache.Kind → Option Nat
  | .noCache => some 0
  | .hashMap => none
  | .lru c => some c

def judge (known : List String) (case impl : String) : JudgeOut :=
  let kEnable := known.contains "C29-enable-cache-before-first-use"
  match parse case with
  | some (.list (.atom "hist" :: .list [.atom "cfg", .atom kind, cap, nkeys, _mode] :: opsS)) =>
    let implOuts := match parse impl with
      | some (.list (.atom "outs" :: os)) => os
      | _ => []
    match parseKind kind ((asNat? cap).getD 0), parseOps ((asNat? nkeys).getD 0) opsS implOuts with
    | some k, some ops =>
      let spec := renderOuts (Spec.LoaderCache.run (Spec.LoaderCache.init (capOf k)) ops)
      let m (b : Bool) :=
        renderOuts (Model.LoaderCache.run { enableCacheNeedsEntry := b } (Model.LoaderCache.init k) ops)
      triage impl spec (m kEnable) [("C29-enable-cache-before-first-use", m false)]
    | _, _ => .viol "bad-case" "bad-case"
  | _ => .viol "bad-case" "bad-case"

end AGV.Drive.C29

def main (args : List String) : IO UInt32 := AGV.runJudge AGV.Drive.C29.judge args
