import AGV.Util.Sexp
import AGV.Util.Judge
import AGV.Core.Types
import AGV.Spec.Coerce
import AGV.Model.Coerce

/-!
  Judge of property C06.  Case `(case STREAM TABLE DOC VARS)` (STREAM = static | dynamic |
  static-fast | dynamic-fast: the schema and its validation mode), implementation line
  `(out STATUS (KEY OUTCOME)…)` — see harness/core/src/bin/c06.rs.

  The property is a predicate on the implementation's output (`sat`): when the specification's
  coercion of every root field succeeds the output must be exactly `ok` with the required
  arguments at every field; when some coercion fails (variable coercion: the whole request;
  argument coercion: that field) the response carries an error, the failing fields were not
  invoked, and every other field either received exactly its required arguments or was not
  invoked.  The model (with the toggles of the open findings) must reproduce the output
  exactly; a difference with the predicate holding is a broken tie.
-/

open AGV AGV.Sexp AGV.Core
open AGV.Spec.Coerce (RTy InField NDef FieldSig Table RV)

namespace AGV.Drive.C06

-- ------------------------------------------------------------------ wire format

partial def rty? : Sexp → Option RTy
  | .str n => some (.named (String.ofList n))
  | .list [.atom "opt", t] => (rty? t).map .opt
  | .list [.atom "mu", t] => (rty? t).map .mu
  | .list [.atom "vec", t] => (rty? t).map .vec
  | _ => none

def inField? : Sexp → Option InField
  | .list [.atom "a", .str n, t, d] => do
    some { name := String.ofList n, ty := ← rty? t, default := ← Decode.optG? d }
  | _ => none

def ndef? : Sexp → Option (String × NDef)
  | .list [.atom "scalar", .str n] => some (String.ofList n, .scalar)
  | .list [.atom "enum", .str n, .list vs] => do some (String.ofList n, .enum (← Decode.strs? vs))
  | .list [.atom "input", .str n, .atom o, .list fs] => do
    some (String.ofList n, .input (o = "true") (← fs.mapM inField?))
  | _ => none

def table? : Sexp → Option Table
  | .list [.atom "table", .list ts, .list fs] => do
    let types ← ts.mapM ndef?
    let fields ← fs.mapM (fun (f : Sexp) => match f with
      | .list [.atom "fd", .str n, .list as] => do
        some ({ name := String.ofList n, args := ← as.mapM inField? } : FieldSig)
      | _ => none)
    some { types := types, fields := fields }
  | _ => none

partial def rvSexp : RV → Sexp
  | .undef => .atom "undef"
  | .null => .atom "null"
  | .int i => .atom (toString i)
  | .float t => .list [.atom "f", .str t.toList]
  | .str s => .str s.toList
  | .bool b => .atom (if b then "true" else "false")
  | .enum n => .list [.atom "e", .str n.toList]
  | .list xs => .list (.atom "list" :: xs.map rvSexp)
  | .obj fs => .list (.atom "obj" :: fs.map (fun p => .list [.str p.1.toList, rvSexp p.2]))

def seenSexp (args : List (String × RV)) : Sexp :=
  .list (.atom "seen" :: args.map (fun p => .list [.str p.1.toList, rvSexp p.2]))

open AGV.Model.Coerce in
def outcomeSexp : Outcome → Sexp
  | .seen args => seenSexp args
  | .err => .atom "err"
  | .notInvoked => .atom "none"

open AGV.Model.Coerce in
def outSexp (o : Out) : String :=
  render (.list (.atom "out" :: .atom (match o.status with | .ok => "ok" | .reqerr => "reqerr" | .fielderr => "fielderr")
    :: o.fields.map (fun f => .list [.str f.1.toList, outcomeSexp f.2])))

-- ------------------------------------------------------------------ dynamic schemas

/-- a dynamic resolver is handed GraphQL values: the coerced value itself, `undef` = no entry -/
partial def embed : GValue → RV
  | .null => .null
  | .int i => .int i
  | .float t => .float t
  | .str s => .str s
  | .bool b => .bool b
  | .enum n => .enum n
  | .list xs => .list (xs.map embed)
  | .obj fs => .obj (fs.map (fun p => (p.1, embed p.2)))

def specDynamic (T : Table) (op : OpDef) (raw : List (String × GValue)) :
    Option (List (String × Option (List (String × RV)))) :=
  match AGV.Spec.Coerce.coerceVars T op.vars raw with
  | none => none
  | some vars =>
    some (op.sels.filterMap (fun s =>
      match s with
      | .field al n args _ _ _ =>
        some (al.getD n, (T.field? n).bind (fun sig =>
          (AGV.Spec.Coerce.coerceArgs T vars args sig.args).map (fun cs =>
            cs.map (fun c => (c.1, match c.2 with | some v => embed v | none => RV.undef)))))
      | _ => none))

open AGV.Model.Coerce in
/-- src/dynamic/resolve.rs `collect_field`: the resolved values of the provided arguments
    (a variable without runtime value is dropped), then the defaults of the missing ones; with
    `raw = true` (finding C06-dynamic-args-not-coerced) nothing is coerced and the resolver is
    always invoked; repaired = the specification -/
def modelDynamic (fast : Bool) (rawMode : Bool) (D : Defects) (T : Table) (op : OpDef) (raw : List (String × GValue)) : Out :=
  let fs := rootFields op
  let valid :=
    if fast then
      -- `ValidationMode::Fast`: no rule looks at argument values (see `Model.Coerce.runFast`)
      D.varValueNotCoerced ||
        (varDefaultsValid D.nonObjectPassesInputObject T op.vars
          && varValuesValid D.nonObjectPassesInputObject T op.vars raw)
    else
    varDefaultsValid D.nonObjectPassesInputObject T op.vars
      && fs.all (fun f => match T.field? f.2.1 with
          | some sig => fieldValid D T raw sig f.2.2
          | none => false)
      && (D.varValueNotCoerced || varValuesValid D.nonObjectPassesInputObject T op.vars raw)
  if !valid then { status := .reqerr, fields := fs.map (fun f => (f.1, .notInvoked)) }
  else if rawMode then
    { status := .ok,
      fields := fs.map (fun f =>
        (f.1, match T.field? f.2.1 with
          | none => .err
          | some sig => .seen (sig.args.map (fun a =>
              (a.name,
                match (AGV.Spec.Coerce.lookup f.2.2 a.name).bind (resolve op.vars raw) with
                | some v => embed v
                | none => match a.default with
                  | some d => embed d
                  | none => RV.undef))))) }
  else
    match specDynamic T op raw with
    | none => { status := .reqerr, fields := fs.map (fun f => (f.1, .notInvoked)) }
    | some rs =>
      let rec go : List (String × Option (List (String × RV))) → Bool → List (String × Outcome)
        | [], _ => []
        | (k, _) :: rest, true => (k, .notInvoked) :: go rest true
        | (k, some a) :: rest, false => (k, .seen a) :: go rest false
        | (k, none) :: rest, false => (k, .err) :: go rest true
      let outs := go rs false
      { status := if outs.all (fun o => match o.2 with | .seen _ => true | _ => false) then .ok else .fielderr,
        fields := outs }

-- ------------------------------------------------------------------ the predicate

/-- `impl` satisfies the property for the required per-field arguments `spec` -/
def sat (spec : Option (List (String × Option (List (String × RV))))) (impl : Sexp) : Bool :=
  match impl with
  | .list (.atom "out" :: .atom status :: outs) =>
    match spec with
    | none =>
      -- variable coercion fails: error, nothing invoked
      status ≠ "ok" && outs.all (fun o => match o with
        | .list [_, .atom "none"] => true
        | .list [_, .atom "err"] => true
        | _ => false)
    | some fs =>
      let anyFail := fs.any (fun f => f.2.isNone)
      outs.length = fs.length &&
      (if anyFail then status ≠ "ok" else status = "ok") &&
      (fs.zip outs).all (fun p =>
        match p.2 with
        | .list [.str k, o] =>
          String.ofList k = p.1.1 &&
          (match p.1.2 with
           | some args => render o = render (seenSexp args) || (anyFail && (o == .atom "none" || o == .atom "err"))
           | none => o == .atom "none" || o == .atom "err")
        | _ => false)
  | _ => false

def specString (spec : Option (List (String × Option (List (String × RV))))) : String :=
  match spec with
  | none => "(spec reqerr)"
  | some fs => render (.list (.atom "spec" :: fs.map (fun f => .list [.str f.1.toList,
      match f.2 with | some a => seenSexp a | none => .atom "fail"])))

open AGV.Model.Coerce in
def judge (known : List String) (case impl : String) : JudgeOut :=
  match Sexp.parse case, Sexp.parse impl with
  | some (.list [.atom "case", .atom stream0, t, d, v]), some implS =>
    -- STREAM carries the validation mode: `static-fast` / `dynamic-fast` = ValidationMode::Fast
    let fast := stream0.endsWith "-fast"
    let stream := if stream0.startsWith "dynamic" then "dynamic" else "static"
    match table? t, Decode.doc? d, Decode.vars? v with
    | some T, some doc, some raw =>
      match doc.ops with
      | [op] =>
        let has := fun (id : String) => known.contains id
        let ids := ["C06-omitted-variable-skips-argument-default", "C06-null-becomes-singleton-list",
                    "C06-variable-values-not-coerced", "C06-literal-unchecked-beside-unsupplied-variable",
                    "C06-non-object-passes-input-object-validation",
                    "C06-generated-parse-ignores-undeclared-keys"]
        let mk : Option String → Defects := fun off =>
          { omittedVarSkipsArgDefault := has ids[0]! && off ≠ some ids[0]!,
            nullToSingletonList := has ids[1]! && off ≠ some ids[1]!,
            varValueNotCoerced := has ids[2]! && off ≠ some ids[2]!,
            literalUncheckedBesideVar := has ids[3]! && off ≠ some ids[3]!,
            nonObjectPassesInputObject := has ids[4]! && off ≠ some ids[4]!,
            undeclaredKeysIgnored := has ids[5]! && off ≠ some ids[5]! }
        let dynId := "C06-dynamic-args-not-coerced"
        let isDyn := stream = "dynamic"
        let model := fun (off : Option String) =>
          if isDyn then outSexp (modelDynamic fast (has dynId && off ≠ some dynId) (mk off) T op raw)
          else outSexp (runMode fast (mk off) T op raw)
        let spec := if isDyn then specDynamic T op raw else AGV.Spec.Coerce.request T op raw
        let modelK := model none
        let ok := sat spec implS
        let specS := specString spec
        if ok then
          if impl = modelK then .ok else .tie modelK specS
        else if impl = modelK then
          match ((if isDyn then [dynId] else []) ++ ids).filter has |>.find? (fun id => model (some id) ≠ modelK) with
          | some id => .known id modelK specS
          | none =>
            match (ids ++ [dynId]).filter has with
            | id :: _ => .known id modelK specS
            | [] => .viol modelK specS
        else .viol modelK specS
      | _ => .viol "bad case: one operation expected" ""
    | _, _, _ => .viol "bad case: table/doc/vars do not decode" ""
  | _, _ => .viol "bad case or implementation line" ""

end AGV.Drive.C06

def main (args : List String) : IO UInt32 := AGV.runJudge AGV.Drive.C06.judge args
