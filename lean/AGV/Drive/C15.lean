import AGV.Util.Sexp
import AGV.Util.Judge
import AGV.Model.Print
import AGV.Model.Json
import AGV.Spec.Literal

open AGV AGV.Sexp AGV.Core

namespace AGV.Drive.C15
open AGV.Model.Print AGV.Model.Json AGV.Spec.Literal

/-- float tokens of the case with their bit patterns (the model carries the token only) -/
abbrev FTab := List (List Char × String)

partial def ofSexp : Sexp → Option (LValue × FTab)
  | .atom "null" => some (.null, [])
  | .list [.atom "i", .atom n] => n.toInt?.map (fun i => (.int i, []))
  | .list [.atom "f", .atom bits, .str tok] => some (.float tok, [(tok, bits)])
  | .list [.atom "s", .str s] => some (.str s, [])
  | .list [.atom "b", .atom "true"] => some (.bool true, [])
  | .list [.atom "b", .atom "false"] => some (.bool false, [])
  | .list [.atom "e", .str n] => some (.enum n, [])
  | .list (.atom "l" :: xs) =>
    (xs.mapM ofSexp).map (fun ys => (.list (ys.map (·.1)), (ys.map (·.2)).flatten))
  | .list (.atom "o" :: fs) =>
    let one : Sexp → Option ((List Char × LValue) × FTab)
      | .list [.str k, v] => (ofSexp v).map (fun p => ((k, p.1), p.2))
      | _ => none
    match fs.mapM one with
    | some ys =>
      let keys := ys.map (·.1.1)
      if keys.eraseDups.length = keys.length then some (.obj (ys.map (·.1)), (ys.map (·.2)).flatten) else none
    | none => none
  | _ => none

partial def toSexp (tab : FTab) : LValue → Sexp
  | .null => .atom "null"
  | .int i => .list [.atom "i", ofInt i]
  | .float tok =>
    let bits := match tab.find? (fun p => p.1 = tok) with
      | some p => p.2
      | none => "?"
    .list [.atom "f", .atom bits, .str tok]
  | .str s => .list [.atom "s", .str s]
  | .bool b => .list [.atom "b", ofBool b]
  | .enum n => .list [.atom "e", .str n]
  | .list xs => .list (.atom "l" :: xs.map (toSexp tab))
  | .obj fs => .list (.atom "o" :: fs.map (fun kv => .list [.str kv.1, toSexp tab kv.2]))

def res (tab : FTab) : Option LValue → Sexp
  | some v => .list [.atom "ok", toSexp tab v]
  | none => .list [.atom "err"]

def allTrue : Sexp := .list (.atom "flags" :: List.replicate 5 (.atom "true"))

def out (tab : FTab) (text : List Char) (rep : Option LValue) (json : List Char) (back : LValue) : String :=
  render (.list [.atom "ok", .list [.atom "text", .str text], .list [.atom "reparse", res tab rep],
    .list [.atom "json", .str json], .list [.atom "back", res tab (some back)], allTrue])

/-- equality of canonical forms up to the bit patterns of float leaves, which may differ by at
    most `k` (adjacent doubles have adjacent bit patterns); tokens of such leaves are not compared -/
partial def approxEq (k : Nat) : Sexp → Sexp → Bool
  | .list [.atom "f", .atom b1, .str t1], .list [.atom "f", .atom b2, .str t2] =>
    match b1.toNat?, b2.toNat? with
    | some x, some y => if x = y then t1 = t2 else (x - y) + (y - x) ≤ k
    | _, _ => false
  | .list xs, .list ys => xs.length = ys.length && (xs.zip ys).all (fun p => approxEq k p.1 p.2)
  | .atom a, .atom b => a = b
  | .str a, .str b => a = b
  | _, _ => false

partial def hasFloat : LValue → Bool
  | .float _ => true
  | .list xs => xs.any hasFloat
  | .obj fs => fs.any (fun kv => hasFloat kv.2)
  | _ => false

/-- the listed finding C15-float-text-lossy: the number reader (serde_json without its
    `float_roundtrip` feature) may return a neighbouring double.  Floats are opaque in the model, so
    under this toggle the model only predicts float leaves up to `lossyUlps` and does not predict
    the two flags that compare the text path with the tree path. -/
def lossyUlps : Nat := 8

def lossyMatch (impl expected : Sexp) : Bool :=
  match impl, expected with
  | .list [.atom "ok", t1, r1, j1, b1, .list [.atom "flags", f1, f2, f3, _, _]],
    .list [.atom "ok", t2, r2, j2, b2, _] =>
    render t1 = render t2 && render j1 = render j2 && approxEq lossyUlps r1 r2 && approxEq lossyUlps b1 b2
      && render (.list [f1, f2, f3]) = "(true true true)"
  | _, _ => false

def judge (known : List String) (case impl : String) : JudgeOut :=
  let kDec := known.contains "C15-control-escape-decimal"
  let kFloat := known.contains "C15-float-text-lossy"
  match parse case with
  | some (.list [.atom "val", v]) =>
    match ofSexp v with
    | none => .viol "bad-case" "bad-case"
    | some (x, tab) =>
      let model (D : Defects) : String :=
        let text := print D x
        out tab text (parseValue text) (jsonText (toJson x)) (fromJson (toJson x))
      let wf := wellFormed x
      -- what the property requires: the text denotes x again (for well-formed x), JSON gives x
      -- back with enums as strings; the text itself is the repaired printer's
      let spec : String :=
        let text := print Defects.none x
        out tab text (if wf then some x else parseValue text) (jsonText (toJson x)) (enumsAsStrings x)
      let modelK := model { decimalUnicodeEscape := kDec }
      if impl = spec ∨ impl = modelK then
        triage impl spec modelK [("C15-control-escape-decimal", model { decimalUnicodeEscape := false })]
      else
        let lossy := kFloat && hasFloat x &&
          (match parse impl, parse modelK with
           | some i, some m => lossyMatch i m
           | _, _ => false)
        if lossy then .known "C15-float-text-lossy" modelK spec
        else
        -- neither: a property violation unless the observable round trips hold (then only the tie broke)
        match parse impl with
        | some (.list [.atom "ok", .list [.atom "text", .str _], .list [.atom "reparse", r],
                       .list [.atom "json", .str _], .list [.atom "back", b], fl]) =>
          let okRep := !wf || render r = render (res tab (some x))
          let okBack := render b = render (res tab (some (enumsAsStrings x)))
          if okRep && okBack && render fl = render allTrue then .tie modelK spec else .viol modelK spec
        | _ => .viol modelK spec
  | _ => .viol "bad-case" "bad-case"

end AGV.Drive.C15

def main (args : List String) : IO UInt32 := AGV.runJudge AGV.Drive.C15.judge args
