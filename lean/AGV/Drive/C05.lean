import AGV.Model.SchedWire

open AGV AGV.Model.SchedWire

namespace AGV.Drive.C05

def idErrs : String := "C05-error-set-depends-on-completion-order"

def allEq (xs : List String) : Bool :=
  match xs with
  | [] => true
  | x :: rest => rest.all (· == x)

/-- C05 on one case (query, world, schedules = completion orders), evaluated on the
    implementation's responses: every schedule gives the same data, and — when the failing
    resolvers sit at nullable positions only (streams other than `nonnull`) — the same multiset
    of errors (path, location).  The implementation's output must be exactly the scheduler
    model's under the toggles of the listed findings. -/
def judge (known : List String) (case impl : String) : JudgeOut :=
  match case? case with
  | none => .viol "bad-case" "undecodable case"
  | some c =>
    let tK : Toggles := { Toggles.pinned with resolverErrPropagates := known.contains idErrs }
    match implRuns? impl with
    | none => .viol (modelStr c tK) "unreadable implementation output"
    | some runs =>
      let dataEq := allEq (runs.map (·.data))
      let errsEq := c.kind == "nonnull" || allEq (runs.map (fun r => " ".intercalate r.errs))
      let spec := s!"dataEq={dataEq} errsEq={errsEq}"
      -- the toggles of OTHER properties' findings are not told to this judge: take the first
      -- setting (the pinned tree first) under which the model prints exactly the implementation's
      -- output, with this property's own toggle as listed
      let own := known.contains idErrs
      match (Toggles.all.filter (·.resolverErrPropagates == own)).find? (fun t => agrees c t runs) with
      | some t =>
        if dataEq && errsEq then .ok
        else if dataEq && own then .known idErrs (modelStr c t) spec
        else .viol (modelStr c t) spec
      | none =>
        if dataEq && errsEq then
          -- the property holds on this case; the listed finding of this property may be repaired
          if (Toggles.all.filter (·.resolverErrPropagates != own)).any (fun t => agrees c t runs) then
            { verdict := "OK", model := "", spec := spec }
          else .tie (modelStr c tK) spec
        else .viol (modelStr c tK) spec

end AGV.Drive.C05

def main (args : List String) : IO UInt32 := AGV.runJudge AGV.Drive.C05.judge args
