import AGV.Util.Sexp
import AGV.Util.Judge
import AGV.Core.Types
import AGV.Spec.Exec
import AGV.Model.ExecStatic

open AGV AGV.Sexp AGV.Core

namespace AGV.Drive.C01

def dataStr (r : Res) : String :=
  match r.val with
  | some v => render v.toSexp
  | none => "null"

/-- the DATA component of `(resp DATA (errs …) (log …))` -/
def implData (impl : String) : String :=
  match parse impl with
  | some (.list (.atom "resp" :: d :: _)) => render d
  | _ => impl

def defects (known : List String) : Model.ExecStatic.Defects :=
  { unionCondIgnored := known.contains "C01-union-condition-ignored"
    skipIgnoresVarDefault := known.contains "C01-skip-ignores-variable-default"
    nanNullInNonNull := known.contains "C01-nonfinite-float-null-in-nonnull" }

def judge (known : List String) (case impl : String) : JudgeOut :=
  match parse case with
  | some (.list [.atom "case", s, d, opn, vs, w, _]) =>
    match Decode.schema? s, Decode.doc? d, Decode.optStr? opn, Decode.vars? vs, Decode.world? w with
    | some S, some doc, some opName, some vars, some world =>
      let fuel := Spec.Exec.fuelBound doc
      let spec := Spec.Exec.run S doc opName vars world fuel
      let spec2 := Spec.Exec.run S doc opName vars world (fuel + 3)
      let D := defects known
      let m (D : Model.ExecStatic.Defects) := dataStr (Model.ExecStatic.run D S doc opName vars world fuel)
      let mK := m D
      if dataStr spec ≠ dataStr spec2 ∨ mK ≠ dataStr (Model.ExecStatic.run D S doc opName vars world (fuel + 3)) then
        .viol "fuel-dependent" "fuel-dependent"
      else
        triage (implData impl) (dataStr spec) mK
          [("C01-union-condition-ignored", m { D with unionCondIgnored := false }),
           ("C01-skip-ignores-variable-default", m { D with skipIgnoresVarDefault := false }),
           ("C01-nonfinite-float-null-in-nonnull", m { D with nanNullInNonNull := false })]
          (known.filter (·.startsWith "C01-"))
    | _, _, _, _, _ => .viol "bad-case" "undecodable case"
  | _ => .viol "bad-case" "undecodable case"

end AGV.Drive.C01

def main (args : List String) : IO UInt32 := AGV.runJudge AGV.Drive.C01.judge args
