import AGV.Util.Sexp
import AGV.Util.Judge
import AGV.Model.BuildAst
import AGV.Spec.Parse

open AGV AGV.Sexp AGV.Core.PAst

namespace AGV.Drive.C13
open AGV.Model.BuildAst

/-- finding id ↦ switching that toggle off -/
def toggles : List (String × (Defects → Defects)) := [
  ("C13-type-inner-ws", fun D => { D with atomicTypeRule := false }),
  ("C13-vardef-directives-first", fun D => { D with varDefDirectivesFirst := false }),
  ("C13-vardef-nonconst-directives", fun D => { D with varDefNonConstDirectives := false }),
  ("C13-keyword-glue", fun D => { D with keywordGlue := false }),
  ("C13-number-digit-follow", fun D => { D with numberDigitFollow := false }),
  ("C13-on-needs-whitespace", fun D => { D with onNeedsWhitespace := false }),
  ("C13-fragment-named-on", fun D => { D with fragmentNamedOn := false }),
  ("C13-empty-vardefs", fun D => { D with emptyVarDefs := false }),
  ("C13-empty-string-before-quote", fun D => { D with emptyStringBeforeQuote := false }),
  ("C13-block-escaped-quotes", fun D => { D with blockEscapeKept := false }),
  ("C13-block-short-blank-line", fun D => { D with shortBlankLineKept := false }),
  ("C13-int-as-float", fun D => { D with intAsFloat := false }),
  ("C13-float-double-rounding", fun D => { D with floatDoubleRounding := false })]

def defectsOf (known : List String) : Defects :=
  toggles.foldl (fun D t => if known.contains t.1 then D else t.2 D) Defects.pinned

/-- the document a focused case stands for (same as `wrap` in the harness) -/
def wrap (kind : String) (t : List Char) : Option (List Char) :=
  if kind = "q" then some t
  else if kind = "blk" then some ("{a(b:\"\"\"".toList ++ t ++ "\"\"\")}".toList)
  else if kind = "ty" then some ("query($v:".toList ++ t ++ "){a}".toList)
  else if kind = "num" then some ("{a(b:[".toList ++ t ++ "])}".toList)
  else none

def erase (s : String) : String := if s.startsWith "(err" then "(err)" else s

def model (D : Defects) (text : List Char) : String := sResult (parseQuery D text)

def judge (known : List String) (case impl : String) : JudgeOut :=
  match parse case with
  | some (.list [.atom kind, .str t]) =>
    match wrap kind t with
    | none => .viol "bad-case" "bad-case"
    | some text =>
      let spec := match AGV.Spec.Parse.parseDocument {} text with
        | some d => sResult (.ok d)
        | none => "(err)"
      let D := defectsOf known
      let modelK := model D text
      if modelK = "(err out-of-fuel)" then .viol modelK spec
      else if erase impl = spec then
        -- accepted with the required tree, or rejected as required; the kind of error is part of
        -- the correspondence only
        if impl.startsWith "(err" && modelK.startsWith "(err" && impl ≠ modelK then .tie modelK spec
        else if erase modelK = spec then .ok
        else { verdict := "OK", model := modelK, spec := spec }
      else if impl = modelK then
        match toggles.find? (fun t => known.contains t.1 && model (t.2 D) text ≠ modelK) with
        | some (id, _) => .known id modelK spec
        | none =>
          match known.filter (fun k => toggles.any (fun t => t.1 = k)) with
          | id :: _ => .known id modelK spec
          | [] => .viol modelK spec
      else .viol modelK spec
  | _ => .viol "bad-case" "bad-case"

end AGV.Drive.C13

def main (args : List String) : IO UInt32 := AGV.runJudge AGV.Drive.C13.judge args
