import AGV.Util.Sexp
import AGV.Util.Judge
import AGV.Model.Validators
import AGV.Spec.Validators

open AGV AGV.Sexp
open AGV.Spec.Validators AGV.Model.Validators

namespace AGV.Drive.C08

/-- the two patterns the harness schema uses, evaluated directly (the `regex` crate is trusted;
    the theorems keep `re` uninterpreted) -/
def reEval (p s : List Char) : Bool :=
  if p = "^[a-z]+$".toList then !s.isEmpty && s.all (fun c => 'a' ≤ c ∧ c ≤ 'z')
  else if p = "^[0-9]{3}$".toList then s.length = 3 && s.all (fun c => '0' ≤ c ∧ c ≤ '9')
  else false

def elemOf : String → Option Elem
  | "i8" => some (.num (.int 8 true))
  | "i16" => some (.num (.int 16 true))
  | "i32" => some (.num (.int 32 true))
  | "i64" => some (.num (.int 64 true))
  | "u8" => some (.num (.int 8 false))
  | "u16" => some (.num (.int 16 false))
  | "u32" => some (.num (.int 32 false))
  | "u64" => some (.num (.int 64 false))
  | "f32" => some (.num .f32)
  | "f64" => some (.num .f64)
  | "str" => some .str
  | _ => none

def boolOf : Sexp → Option Bool
  | .atom "true" => some true
  | .atom "false" => some false
  | _ => none

def shapeOf : Sexp → Option Shape
  | .list [.atom "shape", .atom e, l, eo, o] => do
    let e ← elemOf e
    let l ← boolOf l
    let eo ← boolOf eo
    let o ← boolOf o
    pure { elem := e, isList := l, elemOpt := eo, opt := o }
  | _ => none

def numOf : Sexp → Option Num
  | .list [.atom "i", n] => (asInt? n).map .i
  | .list [.atom "f", b] => (asNat? b).map (fun b => .f (Dy.ofBits64 b))
  | _ => none

def cfgStep (c : Cfg) : Sexp → Option Cfg
  | .list [.atom "multiple_of", n] => (numOf n).map (fun n => { c with multipleOf := some n })
  | .list [.atom "maximum", n] => (numOf n).map (fun n => { c with maximum := some n })
  | .list [.atom "minimum", n] => (numOf n).map (fun n => { c with minimum := some n })
  | .list [.atom "max_length", n] => (asNat? n).map (fun n => { c with maxLength := some n })
  | .list [.atom "min_length", n] => (asNat? n).map (fun n => { c with minLength := some n })
  | .list [.atom "chars_max_length", n] => (asNat? n).map (fun n => { c with charsMax := some n })
  | .list [.atom "chars_min_length", n] => (asNat? n).map (fun n => { c with charsMin := some n })
  | .list [.atom "max_items", n] => (asNat? n).map (fun n => { c with maxItems := some n })
  | .list [.atom "min_items", n] => (asNat? n).map (fun n => { c with minItems := some n })
  | .list [.atom "regex", .str p] => some { c with regex := some p }
  | .atom "list" => some c
  | _ => none

def cfgOf : Sexp → Option Cfg
  | .list (.atom "cfg" :: items) => items.foldlM cfgStep {}
  | _ => none

def scalarW : Sexp → Option W
  | .atom "null" => some .null
  | .atom "other" => some .other
  | .list [.atom "int", n] => (asInt? n).map .int
  | .list [.atom "float", b] => (asNat? b).map .float
  | .list [.atom "str", .str s] => some (.str s)
  | _ => none

def wireOf : Sexp → Option W
  | .list (.atom "list" :: xs) =>
    (xs.mapM (fun (x : Sexp) => match x with
      | .list (.atom "list" :: _) => some (W.list [])
      | x => scalarW x)).map W.list
  | x => scalarW x

def kindName : Kind → String
  | .gate => "gate" | .parse => "parse"
  | .multipleOf => "multiple_of" | .maximum => "maximum" | .minimum => "minimum"
  | .maxLength => "max_length" | .minLength => "min_length"
  | .charsMax => "chars_max_length" | .charsMin => "chars_min_length" | .regex => "regex"
  | .maxItems => "max_items" | .minItems => "min_items"

def showOut : Out → String
  | .reached => "(reached)"
  | .err k => "(err " ++ kindName k ++ ")"

def ids : List String :=
  ["C08-unsigned-wrap", "C08-float-truncated", "C08-int-rounded-to-float", "C08-strict-int-gate-i64"]

def defectsOf (on : List String) : Defects :=
  { unsignedWrap := on.contains "C08-unsigned-wrap"
    floatTrunc := on.contains "C08-float-truncated"
    intToFloatRound := on.contains "C08-int-rounded-to-float"
    strictGateI64 := on.contains "C08-strict-int-gate-i64" }

/-- all sublists, the full list first -/
def sublists : List String → List (List String)
  | [] => [[]]
  | x :: xs => (sublists xs).map (x :: ·) ++ sublists xs

/-- The property is a predicate on the observable (resolver reached or not); the model adds which
    validator reports.  `impl` must be the output of the model under some subset of the listed
    findings (the full set on the pinned tree; fewer once some are repaired): a deviation from
    the specification is then attributed to a finding whose removal changes the output. -/
def judge (known : List String) (case impl : String) : JudgeOut :=
  match parse case with
  | some (.list [.atom "c", .atom mode, _loc, _via, _name, sh, cfg, w]) =>
    match shapeOf sh, cfgOf cfg, wireOf w with
    | some sh, some c, some w =>
      let mode := if mode = "strict" then Mode.strict else Mode.fast
      let specReach : Bool := decide (mustReach reEval sh c w)
      let specS := if specReach then "(reached)" else "(err _)"
      let implReach := impl = "(reached)"
      let knownMine := ids.filter known.contains
      let m (on : List String) := showOut (run (defectsOf on) reEval mode sh c w)
      let mK := m knownMine
      match (sublists knownMine).find? (fun on => m on = impl) with
      | some on =>
        if implReach = specReach then .ok
        else
          match on.find? (fun id => m (on.filter (· ≠ id)) ≠ impl) with
          | some id => .known id mK specS
          | none => match on with
            | id :: _ => .known id mK specS
            | [] => .viol mK specS
      | none => if implReach = specReach then .tie mK specS else .viol mK specS
    | _, _, _ => .viol "bad-case" "bad-case"
  | _ => .viol "bad-case" "bad-case"

end AGV.Drive.C08

def main (args : List String) : IO UInt32 := AGV.runJudge AGV.Drive.C08.judge args
