import AGV.Util.Sexp
import AGV.Util.Judge
import AGV.Core.Types
import AGV.Core.Cache
import AGV.Spec.Exec
import AGV.Spec.Cache
import AGV.Model.CacheControl
import AGV.Model.CacheDecl
import AGV.Gen.C20Decl

open AGV AGV.Sexp AGV.Core AGV.Core.Cache

namespace AGV.Drive.C20
open AGV.Model.CacheControl

def idAbstract := "C20-abstract-type-hints-ignored"
def idSpread := "C20-spread-keeps-parent-type"
def idMerged := "C20-merged-object-own-hint-ignored"

def declDefects (known : List String) : Model.CacheDecl.Defects :=
  { mergedOwnHintIgnored := known.contains idMerged }

def defects (known : List String) : Defects :=
  { abstractTypeIgnoresImplementors := known.contains idAbstract
    spreadKeepsParentType := known.contains idSpread }

def bool? : Sexp → Option Bool
  | .atom "true" => some true
  | .atom "false" => some false
  | _ => none

def int? : Sexp → Option Int
  | .atom a => a.toInt?
  | _ => none

def hint? : Sexp → Option (Key × CC)
  | .list [.atom "hint", .str t, f, p, m] => do
    some (⟨String.ofList t, ← Decode.optStr? f⟩, ⟨← bool? p, ← int? m⟩)
  | _ => none

def partsOnly? : Sexp → Option (String × CC)
  | .list [.atom "partsonly", .str t, p, m] => do some (String.ofList t, ⟨← bool? p, ← int? m⟩)
  | _ => none

def isHint : Sexp → Bool
  | .list (.atom "hint" :: _) => true
  | _ => false

def hintSexp (p : Key × CC) : Sexp :=
  .list [.atom "hint", .str p.1.ty.toList,
         match p.1.field with
         | some f => .str f.toList
         | none => .atom "none",
         .atom (if p.2.isPublic then "true" else "false"), .atom (toString p.2.maxAge)]

structure Req where
  doc : Doc
  opName : Option String
  vars : List (String × GValue)

def req? : Sexp → Option Req
  | .list [.atom "req", d, opn, vs, _] => do
    some { doc := ← Decode.doc? d, opName := ← Decode.optStr? opn, vars := ← Decode.vars? vs }
  | _ => none

def ccSexp (tag : String) (c : CC) : Sexp :=
  .list [.atom tag, .atom (if c.isPublic then "true" else "false"), .atom (toString c.maxAge),
         match value c with
         | some v => .str v.toList
         | none => .atom "none"]

/-- `(cc P M _)` / `(batch P M _)` → policy; `(rejected)` → none -/
def implCC? : Sexp → Option CC
  | .list [.atom _, p, m, _] => do some ⟨← bool? p, ← int? m⟩
  | _ => none

/-- `(out (cc …)… (batch …) (stream …) (reg (hint …)…))` from the policies of the requests and the
    registry table -/
def outStr (items : List CC) (reg : Hints) : String :=
  render (.list (.atom "out" :: items.map (ccSexp "cc") ++
    [ccSexp "batch" (match items with
      | [c] => c
      | cs => batchPolicy cs),
     (match items with
      | c :: _ => ccSexp "stream" c
      | [] => .list [.atom "rejected"]),
     .list (.atom "reg" :: (Model.CacheDecl.nonDefault reg).map hintSexp)]))

/-- the schema and the declared tables of the case are the constants the theorems
    `c20_declared_table_wf` … are about (Gen/C20Decl.lean) -/
def embedded (tag : String) (S : Schema) (H : Hints) (parts : List (String × CC)) : Bool :=
  match Gen.C20Decl.variant? tag with
  | some (S', H', parts') =>
    S.types == S'.types && S.query == S'.query && S.mutation == S'.mutation &&
    S.subscription == S'.subscription && decide (H = H') && decide (parts = parts')
  | none => false

def judge (known : List String) (case impl : String) : JudgeOut :=
  match parse case with
  | some (.list (.atom "case" :: .str tag :: s :: .list hs :: rs)) =>
    match Decode.schema? s, (hs.filter isHint).mapM hint?, (hs.filter (!isHint ·)).mapM partsOnly?, rs.mapM req? with
    | some S, some H, some parts, some reqs =>
      if !embedded (String.ofList tag) S H parts then
        .viol "stale-embedded-table" "the schema / declared hint table of the case is not the constant of Gen/C20Decl.lean (run tools/c20_declared.py)"
      else
      -- the model: the visitor over the table the derive macros REGISTER
      let model (D : Defects) (DD : Model.CacheDecl.Defects) (extra : Nat) : String :=
        let HR := Model.CacheDecl.registered DD H parts
        outStr (reqs.map (fun r => policy D S HR r.doc (fuelBound r.doc + extra))) HR
      let D := defects known
      let DD := declDefects known
      let mK := model D DD 0
      -- what each response may contain (any world), and the bound the DECLARED hints put on the policy
      let reaches := reqs.map (fun r =>
        (Spec.Cache.reachRequest S r.doc r.opName r.vars (Spec.Exec.fuelBound r.doc)).map (hintOf H))
      let reaches2 := reqs.map (fun r =>
        (Spec.Cache.reachRequest S r.doc r.opName r.vars (Spec.Exec.fuelBound r.doc + 3)).map (hintOf H))
      let spec := render (.list (.atom "bound" :: reaches.map (fun hs => ccSexp "cc" (Spec.Cache.combine hs)) ++
        [.list (.atom "reg" :: (Model.CacheDecl.nonDefault H).map hintSexp)]))
      if mK ≠ model D DD 3 ∨ reaches.map Spec.Cache.combine ≠ reaches2.map Spec.Cache.combine then
        .viol "fuel-dependent" "fuel-dependent"
      else
        match parse impl with
        | some (.list (.atom "out" :: outs)) =>
          let items := outs.take reqs.length
          let okItem (o : Sexp) (r : Req) (hs : List CC) : Bool :=
            match implCC? o with
            | none => false
            | some c =>
              hs.all (fun h => decide (Spec.Cache.noLooser c h)) &&
              (!Spec.Cache.objOnly S r.doc (Spec.Exec.fuelBound r.doc) || c == Spec.Cache.combine hs)
          let ok : Bool :=
            outs.length == reqs.length + 3 &&
            (match outs[reqs.length]? with
             | some b => (match implCC? b with
               | some bc => (reaches.all (fun hs => hs.all (fun h => decide (Spec.Cache.noLooser bc h))))
               | none => false)
             | none => false) &&
            ((items.zip (reqs.zip reaches)).all (fun (o, r, hs) => okItem o r hs)) &&
            -- the streaming entry point answers the first request under the same bound
            (match outs[reqs.length + 1]?, reqs.head?, reaches.head? with
             | some o, some r, some hs => okItem o r hs
             | _, _, _ => false) &&
            -- the registry holds exactly the declared hints
            (match outs[reqs.length + 2]? with
             | some (.list (.atom "reg" :: rg)) =>
               (match rg.mapM hint? with
                | some R => decide (R = Model.CacheDecl.nonDefault H)
                | none => false)
             | _ => false)
          if ok then
            if impl = mK then .ok else .tie mK spec
          else if impl = mK then
            let mA := model { D with abstractTypeIgnoresImplementors := false } DD 0
            let mS := model { D with spreadKeepsParentType := false } DD 0
            let mM := model D { DD with mergedOwnHintIgnored := false } 0
            if D.abstractTypeIgnoresImplementors ∧ mA ≠ mK then .known idAbstract mK spec
            else if D.spreadKeepsParentType ∧ mS ≠ mK then .known idSpread mK spec
            else if DD.mergedOwnHintIgnored ∧ mM ≠ mK then .known idMerged mK spec
            else .viol mK spec
          else .viol mK spec
        | _ => .viol mK "unreadable impl output"
    | _, _, _, _ => .viol "bad-case" "undecodable case"
  | _ => .viol "bad-case" "undecodable case"

end AGV.Drive.C20

def main (args : List String) : IO UInt32 := AGV.runJudge AGV.Drive.C20.judge args
