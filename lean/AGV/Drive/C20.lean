import AGV.Util.Sexp
import AGV.Util.Judge
import AGV.Core.Types
import AGV.Core.Cache
import AGV.Spec.Exec
import AGV.Spec.Cache
import AGV.Model.CacheControl

open AGV AGV.Sexp AGV.Core AGV.Core.Cache

namespace AGV.Drive.C20
open AGV.Model.CacheControl

def idAbstract := "C20-abstract-type-hints-ignored"
def idSpread := "C20-spread-keeps-parent-type"

def defects (known : List String) : Defects :=
  { abstractTypeIgnoresImplementors := known.contains idAbstract
    spreadKeepsParentType := known.contains idSpread }

def bool? : Sexp → Option Bool
  | .atom "true" => some true
  | .atom "false" => some false
  | _ => none

def int? : Sexp → Option Int
  | .atom a => a.toInt?
  | _ => none

def hint? : Sexp → Option (Key × CC)
  | .list [.atom "hint", .str t, f, p, m] => do
    some (⟨String.ofList t, ← Decode.optStr? f⟩, ⟨← bool? p, ← int? m⟩)
  | _ => none

structure Req where
  doc : Doc
  opName : Option String
  vars : List (String × GValue)

def req? : Sexp → Option Req
  | .list [.atom "req", d, opn, vs, _] => do
    some { doc := ← Decode.doc? d, opName := ← Decode.optStr? opn, vars := ← Decode.vars? vs }
  | _ => none

def ccSexp (tag : String) (c : CC) : Sexp :=
  .list [.atom tag, .atom (if c.isPublic then "true" else "false"), .atom (toString c.maxAge),
         match value c with
         | some v => .str v.toList
         | none => .atom "none"]

/-- `(cc P M _)` / `(batch P M _)` → policy; `(rejected)` → none -/
def implCC? : Sexp → Option CC
  | .list [.atom _, p, m, _] => do some ⟨← bool? p, ← int? m⟩
  | _ => none

def outStr (items : List CC) : String :=
  render (.list (.atom "out" :: items.map (ccSexp "cc") ++ [ccSexp "batch" (match items with
    | [c] => c
    | cs => batchPolicy cs)]))

def judge (known : List String) (case impl : String) : JudgeOut :=
  match parse case with
  | some (.list (.atom "case" :: _ :: s :: .list hs :: rs)) =>
    match Decode.schema? s, hs.mapM hint?, rs.mapM req? with
    | some S, some H, some reqs =>
      let model (D : Defects) (extra : Nat) : String :=
        outStr (reqs.map (fun r => policy D S H r.doc (fuelBound r.doc + extra)))
      let D := defects known
      let mK := model D 0
      -- what each response may contain (any world), and the bound it puts on the policy
      let reaches := reqs.map (fun r =>
        (Spec.Cache.reachRequest S r.doc r.opName r.vars (Spec.Exec.fuelBound r.doc)).map (hintOf H))
      let reaches2 := reqs.map (fun r =>
        (Spec.Cache.reachRequest S r.doc r.opName r.vars (Spec.Exec.fuelBound r.doc + 3)).map (hintOf H))
      let spec := render (.list (.atom "bound" :: reaches.map (fun hs => ccSexp "cc" (Spec.Cache.combine hs))))
      if mK ≠ model D 3 ∨ reaches.map Spec.Cache.combine ≠ reaches2.map Spec.Cache.combine then
        .viol "fuel-dependent" "fuel-dependent"
      else
        match parse impl with
        | some (.list (.atom "out" :: outs)) =>
          let items := outs.dropLast
          let ok : Bool :=
            items.length == reqs.length &&
            (match outs.getLast? with
             | some b => (match implCC? b with
               | some bc => (reaches.all (fun hs => hs.all (fun h => decide (Spec.Cache.noLooser bc h))))
               | none => false)
             | none => false) &&
            ((items.zip (reqs.zip reaches)).all (fun (o, r, hs) =>
              match implCC? o with
              | none => false
              | some c =>
                hs.all (fun h => decide (Spec.Cache.noLooser c h)) &&
                (!Spec.Cache.objOnly S r.doc (Spec.Exec.fuelBound r.doc) || c == Spec.Cache.combine hs)))
          if ok then
            if impl = mK then .ok else .tie mK spec
          else if impl = mK then
            let mA := model { D with abstractTypeIgnoresImplementors := false } 0
            let mS := model { D with spreadKeepsParentType := false } 0
            if D.abstractTypeIgnoresImplementors ∧ mA ≠ mK then .known idAbstract mK spec
            else if D.spreadKeepsParentType ∧ mS ≠ mK then .known idSpread mK spec
            else match known.filter (·.startsWith "C20-") with
              | id :: _ => .known id mK spec
              | [] => .viol mK spec
          else .viol mK spec
        | _ => .viol mK "unreadable impl output"
    | _, _, _ => .viol "bad-case" "undecodable case"
  | _ => .viol "bad-case" "undecodable case"

end AGV.Drive.C20

def main (args : List String) : IO UInt32 := AGV.runJudge AGV.Drive.C20.judge args
