import AGV.Util.Sexp
import AGV.Util.Judge
import AGV.Model.UploadBind
import AGV.Spec.UploadBind

/-
  Judge for C24.  Case and output formats: see harness/core/src/bin/c24.rs.

  The driver mirrors the one way the harness writes a body (byte counts of the framing and of
  the compact JSON text of the operations / map parts), turns the case into the abstract part
  list, runs the model under every subset of the listed defect toggles and the reference
  semantics, and compares:
     impl = model under a subset S of the listed toggles (fewest first)
        → OK if that outcome conforms to `Spec.require` (else KNOWN:<toggle of S that matters>)
     impl equals no model variant → VIOL.
-/
open AGV AGV.Sexp
open AGV.Spec.UploadBind (Str T Members File Req Batch FileMap Part Opts Verdict)
open AGV.Model.UploadBind (Defects Err)

namespace AGV.Drive.C24

-- ------------------------------------------------------------------ reading the case

partial def tOfSexp : Sexp → Option (T Nat)
  | .atom "null" => some .null
  | .atom "true" => some (.bool true)
  | .atom "false" => some (.bool false)
  | .list [.atom "i", .atom n] => n.toInt?.map .num
  | .list [.atom "s", .str s] => some (.str s)
  | .list (.atom "a" :: xs) => (xs.mapM tOfSexp).map .arr
  | .list (.atom "o" :: ms) =>
    (ms.mapM (fun (m : Sexp) => match m with
      | Sexp.list [Sexp.str k, v] => (tOfSexp v).map (fun j => (k, j))
      | _ => none)).map .obj
  | _ => none

def utf8Len (s : Str) : Nat := (s.map (fun c => c.utf8Size)).sum

/-- bytes of `serde_json::to_string(&str)` -/
def jsonStrLen (s : Str) : Nat :=
  2 + (s.map (fun c =>
    if c = '"' ∨ c = '\\' ∨ c = '\n' ∨ c = '\r' ∨ c = '\t' ∨ c.toNat = 8 ∨ c.toNat = 12 then 2
    else if c.toNat < 0x20 then 6 else c.utf8Size)).sum

/-- bytes of the compact JSON text the harness prints for a tree -/
partial def jsonLen : T Nat → Nat
  | .null => 4
  | .bool true => 4
  | .bool false => 5
  | .num n => (toString n).length
  | .str s => jsonStrLen s
  | .arr xs => 2 + (xs.map jsonLen).sum + (xs.length - 1)
  | .obj kvs => 2 + (kvs.map (fun kv => jsonStrLen kv.1 + 1 + jsonLen kv.2)).sum + (kvs.length - 1)
  | .ext _ => 0

def plainQuery : Str := "{q}".toList
def echoQuery : Str := "mutation($a: Upload, $b: [Upload], $c: In) { up(a: $a, b: $b, c: $c) }".toList

def requestLen (query : Str) (vars : T Nat) : Nat := 9 + jsonStrLen query + 13 + jsonLen vars + 1

/-- framing bytes of one part: delimiter line, Content-Disposition, optional Content-Type, blank
    line, CRLF after the content (boundary `agvZ24ZboundaryZ`, 16 bytes) -/
def partOverhead (name filename ctype : Option Str) : Nat :=
  20 + 30 + (match name with | some n => 9 + utf8Len n | none => 0)
    + (match filename with | some n => 13 + utf8Len n | none => 0) + 2
    + (match ctype with | some c => 14 + utf8Len c + 2 | none => 0) + 2 + 2

def closeLen : Nat := 22

def opsName : Option Str := some "operations".toList
def mapName : Option Str := some "map".toList

structure Case where
  kind : String
  opts : Opts
  parts : List Part
  bodyLen : Nat

def mkReq (vars : T Nat) : Req := { vars := (match vars with | .obj kvs => kvs | _ => []), uploads := [] }

/-- one part and the number of bytes it occupies in the body -/
def partOfSexp (query : Str) (pid : Nat) : Sexp → Option (Part × Nat)
  | .list (.atom "ops" :: .atom mode :: vs) => do
    let vars ← vs.mapM tOfSexp
    let lens := vars.map (requestLen query)
    match mode, vars with
    | "single", v :: _ =>
      let n := requestLen query v
      some (.ops (some (.single (mkReq v))) n, partOverhead opsName none none + n)
    | "batch", _ :: _ =>
      let n := 2 + lens.sum + (vars.length - 1)
      some (.ops (some (.batch (vars.map mkReq))) n, partOverhead opsName none none + n)
    | _, _ => none
  | .list [.atom "opsbad", .str t] => some (.ops none (utf8Len t), partOverhead opsName none none + utf8Len t)
  | .list (.atom "map" :: es) => do
    let m ← es.mapM (fun (e : Sexp) => match e with
      | Sexp.list (Sexp.str k :: ps) => (ps.mapM Sexp.asStr?).map (fun ps => (k, ps))
      | _ => none)
    let tree : T Nat := .obj (m.map (fun e => (e.1, .arr (e.2.map .str))))
    let n := jsonLen tree
    some (.map (some m) n, partOverhead mapName none none + n)
  | .list [.atom "mapbad", .str t] => some (.map none (utf8Len t), partOverhead mapName none none + utf8Len t)
  | .list [.atom "file", .str name, .str filename, ct, .str content] => do
    let ctype ← match ct with
      | .atom "none" => some none
      | .str c => some (some c)
      | _ => none
    let n := utf8Len content
    let f : File := { name, filename, ctype, content, size := n, pid }
    -- a file part called operations / map is taken as that part by the implementation
    if some name = opsName ∨ some name = mapName then none
    else some (.file f, partOverhead (some name) (some filename) ctype + n)
  | .list [.atom "field", .str name, .str content] =>
    if some name = opsName ∨ some name = mapName then none
    else some (.other (utf8Len content), partOverhead (some name) none none + utf8Len content)
  | .list [.atom "anon", .str filename, .str content] =>
    some (.other (utf8Len content), partOverhead none (some filename) none + utf8Len content)
  | _ => none

def optNat : Sexp → Option (Option Nat)
  | .atom "none" => some none
  | .atom n => n.toNat?.map some
  | _ => none

def partsOfSexp (query : Str) : Nat → List Sexp → Option (List (Part × Nat))
  | _, [] => some []
  | i, p :: ps => do
    let x ← partOfSexp query i p
    let r ← partsOfSexp query (i + 1) ps
    pure (x :: r)

def caseOfSexp : Sexp → Option Case
  | .list [.atom kind, .list [mfs, mnf], .list ps] => do
    let s ← optNat mfs
    let n ← optNat mnf
    let query := if kind = "exec" then echoQuery else plainQuery
    let parts ← partsOfSexp query 0 ps
    if kind = "mp" ∨ kind = "one" ∨ kind = "exec" then
      some { kind, opts := { maxFileSize := s, maxNumFiles := n }, parts := parts.map (·.1),
             bodyLen := (parts.map (·.2)).sum + closeLen }
    else none
  | _ => none

-- ------------------------------------------------------------------ printing

def leStr : List Char → List Char → Bool
  | [], _ => true
  | _ :: _, [] => false
  | a :: as, b :: bs => if a.toNat < b.toNat then true else if a.toNat > b.toNat then false else leStr as bs

def sortMembers {α : Type} (kvs : List (Str × α)) : List (Str × α) := kvs.mergeSort (fun a b => leStr a.1 b.1)

def markerPrefix : Str := "#__graphql_file__:".toList

def upSexp (f : File) (content : Str) : Sexp :=
  .list [.atom "up", .str f.filename, (match f.ctype with | none => .atom "none" | some c => .str c), .str content]

/-- canonical tree; `leaf` prints the extra leaves -/
partial def canon {α : Type} (leaf : α → Sexp) : T α → Sexp
  | .null => .atom "null"
  | .bool true => .atom "true"
  | .bool false => .atom "false"
  | .num n => .list [.atom "i", ofInt n]
  | .str s => .list [.atom "s", .str s]
  | .arr xs => .list (.atom "a" :: xs.map (canon leaf))
  | .obj kvs => .list (.atom "o" :: (sortMembers kvs).map (fun p => .list [.str p.1, canon leaf p.2]))
  | .ext a => leaf a

def markerSexp (k : Nat) : Sexp := .list [.atom "s", .str (markerPrefix ++ (toString k).toList)]

def reqSexp (r : Req) : Sexp :=
  .list [.atom "req", canon markerSexp (.obj r.vars), .list (r.uploads.map (fun f => upSexp f f.content))]

def errName : Err → String
  | .tooLarge => "too-large" | .invalidRequest => "invalid-request" | .invalidFilesMap => "invalid-files-map"
  | .missingOperations => "missing-operations" | .missingMap => "missing-map" | .missingFiles => "missing-files"
  | .unsupportedBatch => "unsupported-batch"

def errSexp (e : Err) : Sexp := .list [.atom "err", .atom (errName e)]

def batchSexp (one : Req → Sexp) : Except Err Batch → Sexp
  | .error e => errSexp e
  | .ok (.single r) => .list [.atom "single", one r]
  | .ok (.batch rs) => .list (.atom "batch" :: rs.map one)

-- ------------------------------------------------------------------ the echo mutation of the harness

/-- reading a file back: every handle of one temporary file shares its read position when
    `shared` (the pinned behaviour), so only the first read sees the content -/
def readFile (shared : Bool) (consumed : List Nat) (f : File) : Sexp × List Nat :=
  if shared ∧ f.pid ∈ consumed then (upSexp f [], consumed) else (upSexp f f.content, f.pid :: consumed)

def echoOne (shared : Bool) (consumed : List Nat) : Option (T (Option File)) → Option (Sexp × List Nat)
  | none => some (.atom "-", consumed)
  | some .null => some (.atom "-", consumed)
  | some (.ext (some f)) => some (readFile shared consumed f)
  | _ => none

def echoItems (shared : Bool) : List Nat → List (T (Option File)) → Option (List Sexp × List Nat)
  | c, [] => some ([], c)
  | c, x :: xs => do
    let (s, c1) ← echoOne shared c (some x)
    let (r, c2) ← echoItems shared c1 xs
    pure (s :: r, c2)

def echoList (shared : Bool) (consumed : List Nat) : Option (T (Option File)) → Option (Sexp × List Nat)
  | none => some (.atom "-", consumed)
  | some .null => some (.atom "-", consumed)
  | some (.arr xs) => (echoItems shared consumed xs).map (fun r => (.list (.atom "l" :: r.1), r.2))
  | _ => none

def find (k : String) (m : Members (Option File)) : Option (T (Option File)) :=
  (m.find? (fun kv => kv.1 = k.toList)).map (·.2)

/-- `(echo A B CF CL)` for one request, `none` when the variables do not have the shape the echo
    mutation accepts (then nothing is predicted) -/
def echoReq (shared : Bool) (consumed : List Nat) (m : Members (Option File)) : Option (Sexp × List Nat) := do
  if !(m.all (fun kv => kv.1 = "a".toList ∨ kv.1 = "b".toList ∨ kv.1 = "c".toList)) then none
  let (a, c1) ← echoOne shared consumed (find "a" m)
  let (b, c2) ← echoList shared c1 (find "b" m)
  let (cf, cl) ← match find "c" m with
    | none => some (none, none)
    | some .null => some (none, none)
    | some (.obj kvs) =>
      if kvs.all (fun kv => kv.1 = "f".toList ∨ kv.1 = "l".toList) then some (find "f" kvs, find "l" kvs) else none
    | _ => none
  let (f, c3) ← echoOne shared c2 cf
  let (l, c4) ← echoList shared c3 cl
  pure (.list [.atom "echo", a, b, f, l], c4)

def echoAll (shared : Bool) : List Nat → List (Members (Option File)) → Option (List Sexp)
  | _, [] => some []
  | c, m :: ms => do
    let (s, c1) ← echoReq shared c m
    let r ← echoAll shared c1 ms
    pure (s :: r)

/-- output of an `exec` case for a decoded batch; `none` = not predicted -/
def execSexp (shared : Bool) (single : Bool) (reqs : List (Members (Option File))) : Option Sexp :=
  (echoAll shared [] reqs).map (fun rs => .list (.atom (if single then "single" else "batch") :: rs))

-- ------------------------------------------------------------------ the judge

def idCount : String := "C24-max-num-files-byte-budget"
def idPath : String := "C24-unresolvable-path-ignored"
def idOffset : String := "C24-shared-file-offset"

structure Toggles where
  count : Bool
  path : Bool
  offset : Bool
  deriving DecidableEq

def Toggles.ids (t : Toggles) : List String :=
  (if t.count then [idCount] else []) ++ (if t.path then [idPath] else []) ++ (if t.offset then [idOffset] else [])

def Toggles.defects (t : Toggles) : Defects := { numFilesNotCounted := t.count, ignoreUnresolvable := t.path }

def allToggles : List Toggles :=
  [⟨false, false, false⟩, ⟨true, false, false⟩, ⟨false, true, false⟩, ⟨false, false, true⟩,
   ⟨true, true, false⟩, ⟨true, false, true⟩, ⟨false, true, true⟩, ⟨true, true, true⟩]

def Toggles.without (t : Toggles) (id : String) : Toggles :=
  { count := t.count && id != idCount, path := t.path && id != idPath, offset := t.offset && id != idOffset }

def outcome (c : Case) (t : Toggles) : Except Err Batch :=
  if c.kind = "one" then AGV.Model.UploadBind.receiveOne t.defects c.opts c.bodyLen c.parts
  else AGV.Model.UploadBind.receive t.defects c.opts c.bodyLen c.parts

/-- what the harness prints when the implementation behaves like the model under `t`;
    `none`: an `exec` case whose variables the echo mutation does not accept (not predicted) -/
def modelOut (c : Case) (t : Toggles) : Option String :=
  match c.kind, outcome c t with
  | "exec", .ok b =>
    (execSexp t.offset (AGV.Spec.UploadBind.Batch.isSingle b)
      (b.reqs.map AGV.Model.UploadBind.viewReq)).map render
  | _, r => some (render (batchSexp reqSexp r))

def viewSexp (single : Bool) (reqs : List (Members (Option File))) : Sexp :=
  let leaf : Option File → Sexp
    | some f => upSexp f f.content
    | none => .atom "dangling"
  .list (.atom (if single then "single" else "batch") :: reqs.map (fun m => canon leaf (.obj m)))

/-- does the outcome of a model variant satisfy the reference semantics on this case? -/
def conforms (c : Case) (t : Toggles) : Bool :=
  let r := outcome c t
  match AGV.Spec.UploadBind.require c.opts c.parts with
  | .unspecified => true
  | .reject => (match r with | .error _ => true | .ok _ => false)
  | .accept single reqs =>
    if c.kind = "one" ∧ !single then true
    else match r with
      | .error _ => AGV.Spec.UploadBind.resourceBound c.opts c.bodyLen c.parts
      | .ok b =>
        let mine := b.reqs.map AGV.Model.UploadBind.viewReq
        let bsingle := AGV.Spec.UploadBind.Batch.isSingle b
        if c.kind = "exec" then
          match execSexp false single reqs with
          | none => true
          | some want => (execSexp t.offset bsingle mine).map render = some (render want)
        else render (viewSexp bsingle mine) = render (viewSexp single reqs)

def specText (c : Case) : String :=
  match AGV.Spec.UploadBind.require c.opts c.parts with
  | .unspecified => "unspecified"
  | .reject => "reject"
  | .accept single reqs =>
    (if AGV.Spec.UploadBind.resourceBound c.opts c.bodyLen c.parts then "accept-or-too-large " else "accept ")
      ++ (if c.kind = "exec" then (match execSexp false single reqs with | some s => render s | none => "?")
          else render (viewSexp single reqs))

def judge (known : List String) (caseLine impl : String) : JudgeOut :=
  match (Sexp.parse caseLine).bind caseOfSexp with
  | none => .viol "unreadable case" ""
  | some c =>
    let allowed := allToggles.filter (fun t => t.ids.all (fun i => known.contains i))
    let full : Toggles := ⟨known.contains idCount, known.contains idPath, known.contains idOffset⟩
    let modelK := (modelOut c full).getD "(not predicted)"
    -- an exec case that no variant predicts is outside the tie
    if c.kind = "exec" ∧ (modelOut c full).isNone then .ok
    else match allowed.find? (fun t => modelOut c t = some impl) with
      | none => .viol modelK (specText c)
      | some t =>
        if conforms c t then .ok
        else
          let id := match t.ids.find? (fun i => modelOut c (t.without i) ≠ some impl) with
            | some i => i
            | none => t.ids.headD "?"
          if t.ids.isEmpty then .viol modelK (specText c) else .known id modelK (specText c)

end AGV.Drive.C24

def main (args : List String) : IO UInt32 := AGV.runJudge AGV.Drive.C24.judge args
