import AGV.Util.Sexp
import AGV.Util.Judge
import AGV.Core.Types
import AGV.Spec.Limits
import AGV.Model.Limits

open AGV AGV.Sexp AGV.Core

namespace AGV.Drive.C10
open AGV.Spec.Limits (CExpr Rule Rules Config Verdict)

partial def cexpr? : Sexp → Option CExpr
  | .list [.atom "const", n] => (asNat? n).map .const
  | .list [.atom "arg", .str a, .atom "none"] => some (.arg (String.ofList a) none)
  | .list [.atom "arg", .str a, d] => (asNat? d).map fun d => .arg (String.ofList a) (some d)
  | .atom "child" => some .child
  | .list [.atom "add", a, b] => do some (.add (← cexpr? a) (← cexpr? b))
  | .list [.atom "mul", a, b] => do some (.mul (← cexpr? a) (← cexpr? b))
  | _ => none

def rules? : Sexp → Option Rules
  | .list (.atom "rules" :: rs) =>
    rs.mapM fun r => match r with
      | .list [.atom "rule", .str t, .str f, e] => (cexpr? e).map fun e => { ty := String.ofList t, field := String.ofList f, expr := e }
      | _ => none
  | _ => none

/-- a probe configuration of the harness: `none` = the limit is not configured -/
structure PCfg where
  recursion : Option Nat := none
  directives : Option Nat := none
  complexity : Option Nat := none
  depth : Option Nat := none

def token : Verdict → String
  | .accept => "a"
  | .recursion => "n"
  | .directives => "x"
  | .complexity => "c"
  | .depth => "d"

def capNest : Nat := 128

/-- the harness protocol replayed against an oracle `probe` whose thresholds are `mN mX mC mD` -/
def expected (probe : PCfg → String) (mN : Option Nat) (mX mC mD : Nat) : String :=
  let around (m : Nat) (mk : Nat → PCfg) : List Sexp :=
    [.atom (toString m),
     .list [(if m = 0 then .atom "-" else .atom (probe (mk (m - 1)))), .atom (probe (mk m)), .atom (probe (mk (m + 1)))]]
  let dflt := probe {}
  let nest : Sexp := match mN with
    | none => .list [.atom "nest", .atom "inf", .list [], .atom dflt]
    | some m => .list (.atom "nest" :: around m (fun l => { recursion := some l }) ++ [.atom dflt])
  if dflt = "n" then render (.list [.atom "out", nest, .atom "skip"])
  else
    match mN with
    | none => render (.list [.atom "out", nest, .atom "skip"])
    | some n =>
      let combos := (List.range 16).map fun k =>
        let pick (bit m : Nat) : Nat := if (k >>> bit) % 2 = 1 then m - 1 else m
        Sexp.atom (probe { recursion := some (pick 0 n), directives := some (pick 1 mX), complexity := some (pick 2 mC),
                           depth := some (pick 3 mD) })
      render (.list [.atom "out", nest,
        .list (.atom "dirs" :: around mX (fun l => { directives := some l })),
        .list (.atom "cx" :: around mC (fun l => { complexity := some l })),
        .list (.atom "depth" :: around mD (fun l => { depth := some l })),
        .list (.atom "all" :: combos)])

def defects (known : List String) : Model.Limits.Defects :=
  { spreadKeepsParentType := known.contains "C10-spread-keeps-parent-type"
    typenameUncounted := known.contains "C10-typename-not-counted" }

def judge (known : List String) (case impl : String) : JudgeOut :=
  match parse case with
  | some (.list [.atom "case", .atom kind, s, r, d, _opn, vs, _]) =>
    match Decode.schema? s, rules? r, Decode.doc? d, Decode.vars? vs with
    | some S, some R, some doc, some vars =>
      let dyn := kind = "dynamic"
      let ρ := Model.Limits.paramValue vars
      -- the model, replayed through the harness protocol
      let modelOut (D : Model.Limits.Defects) : String :=
        let cfgOf (c : PCfg) : Config :=
          { recursion := Model.Limits.recursionLimit dyn c.recursion, directives := c.directives,
            complexity := c.complexity, depth := c.depth }
        let probe (c : PCfg) : String := token (Model.Limits.check D (cfgOf c) S R ρ doc)
        let fuel := Model.Limits.recursionLimit dyn none + 2
        let mN := (List.range (capNest + 1)).find? fun m => !(doc.ops.any fun o => Model.Limits.recExceeds doc.frags (m + 1) o.sels)
        let mX := ((List.range 4096).find? fun m => !(doc.ops.any fun o => Model.Limits.dirExceeds doc.frags m fuel o.sels)).getD 4096
        expected probe mN mX (Model.Limits.complexity D S R ρ fuel doc) (Model.Limits.depth D S fuel doc)
      -- the property: measures of the document with fragments written inline
      let specOut : String :=
        let F := capNest + 8
        let d' := Spec.Limits.inlineDoc F doc
        let probe (c : PCfg) : String :=
          token (Spec.Limits.required
            { recursion := c.recursion.getD Gen.LimitFacts.documentedRecursiveDepth, directives := c.directives,
              complexity := c.complexity, depth := c.depth } S R ρ F doc)
        let n := Spec.Limits.nesting d'
        expected probe (if n > capNest then none else some n) (Spec.Limits.maxDirectives d')
          (Spec.Limits.complexity S R ρ d') (Spec.Limits.depth S d')
      let D := defects known
      let mK := modelOut D
      triage impl specOut mK
        [("C10-spread-keeps-parent-type", modelOut { D with spreadKeepsParentType := false }),
         ("C10-typename-not-counted", modelOut { D with typenameUncounted := false })]
        (known.filter (·.startsWith "C10-"))
    | _, _, _, _ => .viol "bad-case" "undecodable case"
  | _ => .viol "bad-case" "undecodable case"

end AGV.Drive.C10

def main (args : List String) : IO UInt32 := AGV.runJudge AGV.Drive.C10.judge args
