import AGV.Util.Sexp
import AGV.Util.Judge
import AGV.Model.SubscrWire

open AGV AGV.Sexp AGV.Model.Subscr AGV.Model.SubscrWire
open AGV.Model.SchedWire (Toggles)

namespace AGV.Drive.C27

def idShared : String := "C27-shared-error-list-across-root-fields"

/-- the toggles of OTHER properties' findings are not told to this judge: the pinned tree first,
    then every other setting -/
def settings : List Toggles := Toggles.pinned :: Toggles.all.filter (· != Toggles.pinned)

/-- stream `sub`.  spec = the stream model with a per-event error list (proved to satisfy
    `Spec.Subscr.Owned` for every schedule: c27_repaired_owned); modelK = the model with the
    request-wide list when the finding is listed. -/
def judgeSub (known : List String) (c : Case) (impl : String) : JudgeOut :=
  let own := known.contains idShared
  let m (t : Toggles) (shared : Bool) : String := outStr { sharedErrList := shared } (fieldsOf c t) c.scheds
  let mK := m Toggles.pinned own
  match settings.find? (fun t => m t own == impl) with
  | some t =>
    let spec := m t false
    if impl = spec then .ok
    else if own then .known idShared mK spec
    else .viol mK spec
  | none =>
    match settings.find? (fun t => m t (!own) == impl) with
    | some t =>
      let spec := m t false
      if impl = spec then { verdict := "OK", model := mK, spec := spec }   -- the listed finding is repaired
      else .viol mK spec                                                    -- shared list, but not listed
    | none => .viol mK (m Toggles.pinned false)

/-- stream `once`: `(once (stream RESP … end|open) (exec RESP))`.  The property: exactly one response,
    equal to the one of the non-streaming entry point, then the stream ends.  Correspondence: that
    response is the executor model's. -/
def judgeOnce (c : Case) (impl : String) : JudgeOut :=
  let mK := onceRespStr c Toggles.pinned
  match parse impl with
  | some (.list [.atom "once", .list (.atom "stream" :: items), .list [.atom "exec", e]]) =>
    let holds := match items with
      | [r, .atom "end"] => r == e
      | _ => false
    if !holds then .viol mK "exactly one response equal to Schema::execute's, then end of stream"
    else if settings.any (fun t => onceRespStr c t == render e) then .ok
    else .tie mK (render e)
  | _ => .viol mK "unreadable implementation output"

def judge (known : List String) (case impl : String) : JudgeOut :=
  match case? case with
  | none => .viol "bad-case" "undecodable case"
  | some c => if c.kind = "once" then judgeOnce c impl else judgeSub known c impl

end AGV.Drive.C27

def main (args : List String) : IO UInt32 := AGV.runJudge AGV.Drive.C27.judge args
