import AGV.Util.Sexp
import AGV.Util.Judge
import AGV.Core.Types
import AGV.Core.LValue
import AGV.Model.Print
import AGV.Model.Stringify
import AGV.Spec.Stringify

/-!
  Judge of C21.  Case `(c21 SCHEMA SECRETS DOC VARS)`, implementation output `(out A B)`: the
  string logged for the case as written (run A) and for the case with every sentinel `S<n>E`
  renamed to `T<n>EE` (run B).

  * spec clause 1 (sentinels): none of the strings the request places at a secret position
    (`Spec.secretStrings`, computed here from SCHEMA/SECRETS — not from the letters) occurs in A,
    resp. B;
  * spec clause 2 (non-interference, sampled): A and B are the text the repaired model gives,
    and that text is the same for both runs;
  * correspondence: A and B are the text of the model with the toggles of the open findings.
  Fragment definitions and operations come out of hash maps: a logged string matches a list of
  fragment texts and a list of operation texts when it is a concatenation of a permutation of
  the former followed by a permutation of the latter.
-/

open AGV AGV.Sexp AGV.Core

namespace AGV.Drive.C21
open AGV.Spec.Stringify AGV.Model.Stringify

partial def toL : GValue → LValue
  | .null => .null
  | .int i => .int i
  | .float t => .float t.toList
  | .str s => .str s.toList
  | .bool b => .bool b
  | .enum n => .enum n.toList
  | .list xs => .list (xs.map toL)
  | .obj fs => .obj (fs.map (fun p => (p.1.toList, toL p.2)))

/-- `Display for ConstValue` (C15's model; the generator emits no control characters, on which
    C15's finding would matter) -/
def pv (g : GValue) : String := String.ofList (Model.Print.print Model.Print.Defects.none (toL g))

-- ------------------------------------------------------------------ wire format

def isSentinel (cs : List Char) : Bool :=
  match cs with
  | 'S' :: rest =>
    match rest.reverse with
    | 'E' :: mid => !mid.isEmpty && mid.all Char.isDigit
    | _ => false
  | _ => false

/-- run B of the harness: `S<digits>E` ↦ `T<digits>EE` -/
partial def rename : Sexp → Sexp
  | .str cs => if isSentinel cs then .str ('T' :: cs.drop 1 ++ ['E']) else .str cs
  | .list xs => .list (xs.map rename)
  | a => a

def strs3? : Sexp → Option (String × String × String)
  | .list [.str a, .str b, .str c] => some (String.ofList a, String.ofList b, String.ofList c)
  | _ => none

def strs2? : Sexp → Option (String × String)
  | .list [.str a, .str b] => some (String.ofList a, String.ofList b)
  | _ => none

def secrets? : Sexp → Option Secrets
  | .list [.atom "secrets", .list (.atom "args" :: as), .list (.atom "inputs" :: is)] => do
    some { args := ← as.mapM strs3?, inputs := ← is.mapM strs2? }
  | _ => none

structure Case where
  R : Reg
  doc : Doc
  vars : Vars

def case? (sch sec doc vars : Sexp) : Option Case := do
  some { R := { schema := ← Decode.schema? sch, secrets := ← secrets? sec }, doc := ← Decode.doc? doc,
         vars := ← Decode.vars? vars }

-- ------------------------------------------------------------------ matching up to definition order

def insertAll {α : Type} (x : α) : List α → List (List α)
  | [] => [[x]]
  | y :: r => (x :: y :: r) :: (insertAll x r).map (y :: ·)

def perms {α : Type} : List α → List (List α)
  | [] => [[]]
  | x :: r => (perms r).flatMap (insertAll x)

def matchesChunks (c : List String × List String) (s : String) : Bool :=
  (perms c.1).any (fun fs => (perms c.2).any (fun os => concat fs ++ concat os == s))

def isPrefix : List Char → List Char → Bool
  | [], _ => true
  | _ :: _, [] => false
  | a :: as, b :: bs => a == b && isPrefix as bs

def isInfix (p : List Char) : List Char → Bool
  | [] => p.isEmpty
  | c :: r => isPrefix p (c :: r) || isInfix p r

def noneOccurs (secrets : List String) (s : String) : Bool :=
  let cs := s.toList
  secrets.all (fun x => x.isEmpty || !isInfix x.toList cs)

-- ------------------------------------------------------------------ findings ↔ toggles

def idInline := "C21-inline-no-cond"
def idList := "C21-list-items"
def idDefault := "C21-var-default"

def defectsOf (known : List String) : Defects :=
  { inlineNoCondLosesType := known.contains idInline
    listNotRecursed := known.contains idList
    varDefaultPrinted := known.contains idDefault }

def show2 (a b : List String × List String) : String :=
  render (.list [.str (concat a.1 ++ concat a.2).toList, .str (concat b.1 ++ concat b.2).toList])

def judge (known : List String) (case impl : String) : JudgeOut :=
  match parse case, parse impl with
  | some (.list [.atom "c21", sch, sec, doc, vars]), some (.list [.atom "out", oa, ob]) =>
    match case? sch sec doc vars, case? sch sec (rename doc) (rename vars) with
    | some A, some B =>
      let ch (D : Defects) (c : Case) := chunks D c.R pv c.vars c.doc
      let specA := ch Defects.none A
      let specB := ch Defects.none B
      let DK := defectsOf known
      let mA := ch DK A
      let mB := ch DK B
      match oa, ob with
      | .str a, .str b =>
        let a := String.ofList a
        let b := String.ofList b
        let clean := noneOccurs (secretStrings A.R A.vars A.doc) a && noneOccurs (secretStrings B.R B.vars B.doc) b
        if matchesChunks specA a && matchesChunks specB b then
          -- the sampled instance of the non-interference theorem: both runs log the same text
          if specA == specB && clean then .ok else .viol (show2 mA mB) (show2 specA specB)
        else if matchesChunks mA a && matchesChunks mB b then
          let ids := [idInline, idList, idDefault].filter known.contains
          let blame := ids.find? (fun id =>
            let D' := defectsOf (known.filter (· ≠ id))
            ch D' A != mA || ch D' B != mB)
          match blame, ids with
          | some id, _ => .known id (show2 mA mB) (show2 specA specB)
          | none, id :: _ => .known id (show2 mA mB) (show2 specA specB)
          | none, [] => .viol (show2 mA mB) (show2 specA specB)
        else if clean && a == b then .tie (show2 mA mB) (show2 specA specB)
        else .viol (show2 mA mB) (show2 specA specB)
      | _, _ => .tie (show2 mA mB) (show2 specA specB)   -- nothing was logged: the hook was not reached
    | _, _ => .viol "undecodable case" ""
  | _, _ => .viol "undecodable line" ""

end AGV.Drive.C21

def main (args : List String) : IO UInt32 := AGV.runJudge AGV.Drive.C21.judge args
