import AGV.Util.Sexp
import AGV.Util.Judge
import AGV.Model.Introspect
import AGV.Spec.Introspect
import AGV.Model.RustTy
import AGV.Model.RustTyRef
import AGV.Spec.RustTy

open AGV AGV.Sexp AGV.Core AGV.Model.Introspect

namespace AGV.Drive.C18

-- ------------------------------------------------------------------ decoding the description

def optS? : Sexp → Option (Option String)
  | .atom "none" => some none
  | .str cs => some (some (String.ofList cs))
  | _ => none

def vis? : Sexp → Option Vis
  | .atom "always" => some .always
  | .atom "never" => some .never
  | .list [.atom "bit", k] => (asNat? k).map .bit
  | _ => none

def dep? : Sexp → Option Dep
  | .atom "no" => some .no
  | .list [.atom "dep", r] => (optS? r).map .yes
  | _ => none

def iv? : Sexp → Option IInput
  | .list [.atom "iv", .str n, d, t, df, dp, v] => do
    some { name := String.ofList n, desc := ← optS? d, ty := ← Decode.typeRef? t, default := ← optS? df,
           dep := ← dep? dp, vis := ← vis? v }
  | _ => none

def fd? : Sexp → Option IField
  | .list [.atom "fd", .str n, d, t, dp, v, .list as] => do
    some { name := String.ofList n, desc := ← optS? d, ty := ← Decode.typeRef? t, dep := ← dep? dp,
           vis := ← vis? v, args := ← as.mapM iv? }
  | _ => none

def ev? : Sexp → Option IEnumVal
  | .list [.atom "ev", .str n, d, dp, v] => do
    some { name := String.ofList n, desc := ← optS? d, dep := ← dep? dp, vis := ← vis? v }
  | _ => none

def type? : Sexp → Option IType
  | .list [.atom "type", .str n, k, d, v, .list fs, .list is, .list vs, .list impl, .list ms, sb, oo] => do
    some { name := String.ofList n, kind := ← Decode.kind? k, desc := ← optS? d, vis := ← vis? v,
           fields := ← fs.mapM fd?, inputs := ← is.mapM iv?, values := ← vs.mapM ev?,
           implements := ← Decode.strs? impl, members := ← Decode.strs? ms, specBy := ← optS? sb,
           oneOf := oo == .atom "true" }
  | _ => none

def desc? : Sexp → Option Desc
  | .list [.atom "desc", .str q, m, s, .list ts] => do
    some { query := String.ofList q, mutation := ← optS? m, subscription := ← optS? s, types := ← ts.mapM type? }
  | _ => none

-- ------------------------------------------------------------------ declared Rust types on the wire

/-- the finding about `Box<T>` / `Arc<T>` / `&T` inside a list (Model/RustTy.lean) -/
def ptrFinding : String := "C18-list-of-pointer-to-option-non-null"

def rtyDefects (ids : List String) : AGV.Model.RustTy.Defects :=
  { ptrQualifiedDefault := ids.contains ptrFinding }

def typeRefS : TypeRef → Sexp
  | .named n => .str n.toList
  | .list t => .list [.atom "list", typeRefS t]
  | .nonNull t => .list [.atom "nn", typeRefS t]

/-- An `iv` / `fd` node of the declaration zoo may end with the declared Rust type
    (`(iv n d TY df dep vis RTY)`, `(fd n d TY dep vis (IV…) RTY)`).  The hand-written type
    reference must be what the specification makes of that Rust type (`Spec.RustTy.ref`); the node
    is rewritten to the plain form carrying the type the crate's `type_name` /
    `qualified_type_name` / `create_type_info` (with the toggles `D`) register for it. -/
partial def rewriteRty (D : AGV.Model.RustTy.Defects) : Sexp → Except String Sexp
  | .list [.atom "iv", n, d, ty, df, dp, v, r] => do
    pure (.list [.atom "iv", n, d, ← regTy ty r, df, dp, v])
  | .list [.atom "fd", n, d, ty, dp, v, .list args, r] => do
    let args ← args.mapM (rewriteRty D)
    pure (.list [.atom "fd", n, d, ← regTy ty r, dp, v, .list args])
  | .list xs => do pure (.list (← xs.mapM (rewriteRty D)))
  | x => pure x
where
  regTy (ty r : Sexp) : Except String Sexp :=
    match AGV.Core.RustTy.decode? r, Decode.typeRef? ty with
    | some t, some declared =>
      if declared = (AGV.Spec.RustTy.ref t).toTypeRef then
        .ok (typeRefS (AGV.Model.RustTy.created D t).toTypeRef)
      else .error ("declared-type-is-not-what-the-rust-type-means: " ++ declared.render)
    | _, _ => .error "bad-rust-type"

-- ------------------------------------------------------------------ rendering the tree (same generic form as the harness)

def jNull : Sexp := .atom "null"
def jStr (s : String) : Sexp := .str s.toList
def jOpt (o : Option String) : Sexp := match o with | some s => jStr s | none => jNull
def jBool (b : Bool) : Sexp := ofBool b
def jObj (kvs : List (String × Sexp)) : Sexp := .list (.atom "o" :: kvs.map (fun p => .list [jStr p.1, p.2]))
def jList (xs : List Sexp) : Sexp := .list (.atom "l" :: xs)
def jOptList {α} (f : α → Sexp) (o : Option (List α)) : Sexp :=
  match o with | some xs => jList (xs.map f) | none => jNull

/-- the `TypeRef` fragment selects `ofType` nine levels deep -/
def refJ : Nat → RefT → Sexp
  | 0, .named k n => jObj [("kind", jStr k), ("name", jStr n)]
  | 0, .list _ => jObj [("kind", jStr "LIST"), ("name", jNull)]
  | 0, .nonNull _ => jObj [("kind", jStr "NON_NULL"), ("name", jNull)]
  | _ + 1, .named k n => jObj [("kind", jStr k), ("name", jStr n), ("ofType", jNull)]
  | d + 1, .list t => jObj [("kind", jStr "LIST"), ("name", jNull), ("ofType", refJ d t)]
  | d + 1, .nonNull t => jObj [("kind", jStr "NON_NULL"), ("name", jNull), ("ofType", refJ d t)]

def inputJ (a : InputT) : Sexp :=
  jObj [("name", jStr a.name), ("description", jOpt a.desc), ("type", refJ 9 a.ty), ("defaultValue", jOpt a.default),
        ("isDeprecated", jBool a.isDep), ("deprecationReason", jOpt a.reason)]

def fieldJ (f : FieldT) : Sexp :=
  jObj [("name", jStr f.name), ("description", jOpt f.desc), ("args", jList (f.args.map inputJ)),
        ("type", refJ 9 f.ty), ("isDeprecated", jBool f.isDep), ("deprecationReason", jOpt f.reason)]

def enumValJ (v : EnumValT) : Sexp :=
  jObj [("name", jStr v.name), ("description", jOpt v.desc), ("isDeprecated", jBool v.isDep),
        ("deprecationReason", jOpt v.reason)]

def typeJ (t : TypeT) : Sexp :=
  jObj [("kind", jStr t.kind), ("name", jOpt t.name), ("description", jOpt t.desc), ("specifiedByURL", jOpt t.specBy),
        ("isOneOf", match t.oneOf with | some b => jBool b | none => jNull),
        ("fields", jOptList fieldJ t.fields), ("inputFields", jOptList inputJ t.inputFields),
        ("interfaces", jOptList (refJ 9) t.interfaces), ("enumValues", jOptList enumValJ t.enumValues),
        ("possibleTypes", jOptList (refJ 9) t.possible)]

def rootJ (r : String × String) : Sexp := jObj [("kind", jStr r.1), ("name", jStr r.2)]

def schemaJ (s : SchemaT) : Sexp :=
  jObj [("__schema", jObj
    [("description", jStr s.desc), ("queryType", rootJ s.query),
     ("mutationType", match s.mutation with | some r => rootJ r | none => jNull),
     ("subscriptionType", match s.subscription with | some r => rootJ r | none => jNull),
     ("types", jList (s.types.map typeJ)),
     ("directives", jList (s.dirs.map (fun d =>
        jObj [("name", jStr d.name), ("description", jOpt d.desc), ("isRepeatable", jBool d.repeatable),
              ("locations", jList (d.locs.map jStr)), ("args", jList (d.args.map inputJ))])))])]

-- ------------------------------------------------------------------ the SDL clause

/-- what the SDL export is expected to say, as a description: rules are not exported -/
def eraseVis (t : IType) : IType :=
  { t with vis := .always,
           fields := t.fields.map (fun f => { f with vis := .always, args := f.args.map (fun a => { a with vis := .always }) }),
           inputs := t.inputs.map (fun a => { a with vis := .always }),
           values := t.values.map (fun v => { v with vis := .always }) }

def expectedSdl (D : Defects) (fl : Flavour) (d : Desc) : Desc :=
  { d with types := sortTypes ((d.types.filter (fun t => !(builtinScalarNames.contains t.name))).map (fun t =>
      let t := eraseVis t
      if fl == .dynamic && D.dynIfaceImplDropped && t.kind == .interface then { t with implements := [] } else t)) }

def probeNames (d : Desc) : List String :=
  let names := d.types.map (·.name)
  names ++ (["Int", "Float", "String", "Boolean", "ID", "__Schema", "__Type", "__TypeKind", "__Field", "__InputValue",
             "__EnumValue", "__Directive", "__DirectiveLocation", "Nope", "__Nope", "[Int]", "Int!"].filter
            (fun n => !names.contains n))

def toggles (known : List String) : Defects :=
  { hiddenTypeReferenced := known.contains "C18-hidden-type-referenced",
    interfacesNull := known.contains "C18-interface-interfaces-null",
    possibleListsInterfaces := known.contains "C18-possible-types-list-interface",
    singlePass := known.contains "C18-visible-interfaces-single-pass",
    dynIfaceImplDropped := known.contains "C18-dyn-interface-implements-dropped" }

def allIds : List String :=
  ["C18-hidden-type-referenced", "C18-interface-interfaces-null", "C18-possible-types-list-interface",
   "C18-visible-interfaces-single-pass", "C18-dyn-interface-implements-dropped", ptrFinding]

def modelOut (D : Defects) (fl : Flavour) (d : Desc) (c : Nat) (sdl : Desc) : String :=
  let R := mkRegistry D fl d
  let full := schemaJ (introspect D R c true)
  let probes := Sexp.list ((probeNames d).map (fun n =>
    Sexp.list [jStr n, match probe D R c false n with | some t => typeJ t | none => jNull]))
  let sdlOk := decide (({ sdl with types := sortTypes sdl.types } : Desc) = expectedSdl D fl d)
  render full ++ " " ++ render probes ++ (if sdlOk then "" else " sdl-export-differs")

def judge (known : List String) (case impl : String) : JudgeOut :=
  match parse case, parse impl with
  | some (.list [.atom "case", .atom fl, ds, tok]), some (.list [.atom "out", sdl, full, probes]) =>
    -- declared Rust types: `d` = what the declarations mean (specification side), `dP` = what the
    -- crate registers for them while the pointer finding is in the tree (model side)
    match rewriteRty {} ds, rewriteRty (rtyDefects [ptrFinding]) ds with
    | .error e, _ => .viol e e
    | _, .error e => .viol e e
    | .ok dsS, .ok dsP =>
    match desc? dsS, desc? dsP, desc? sdl, asNat? tok with
    | some d, some dP, some sdlD, some c =>
      let fl := if fl == "dyn" then Flavour.dynamic else Flavour.static
      let implS := render full ++ " " ++ render probes
      let known := known.filter allIds.contains
      let dOf := fun (ids : List String) => if ids.contains ptrFinding then dP else d
      let spec := modelOut Defects.none fl d c sdlD
      let modelK := modelOut (toggles known) fl (dOf known) c sdlD
      let attrib := known.map (fun id =>
        let ids := known.filter (· ≠ id)
        (id, modelOut (toggles ids) fl (dOf ids) c sdlD))
      let r := triage implS spec modelK attrib known
      -- the OPEN round-trip statement is evaluated on every case (on the repaired model)
      let R0 := mkRegistry Defects.none fl d
      let vn := visibleNames Defects.none R0 c
      if r.verdict = "VIOL" then { r with spec := "" }
      else if vn.contains d.query &&
          decide (Spec.Introspect.buildClient (introspect Defects.none R0 c true) ≠ some (Spec.Introspect.restrict d vn c)) then
        .tie "roundtrip-statement-fails-on-this-case" ""
      else { r with model := "", spec := "" }
    | _, _, _, _ => .viol "bad-case" "bad-case"
  | some _, some (.list [.atom "rejected", _]) => .viol "schema-rejected" ""
  | _, _ => .viol "bad-case" "bad-case"

end AGV.Drive.C18

def main (args : List String) : IO UInt32 := AGV.runJudge AGV.Drive.C18.judge args
