import AGV.Util.Sexp
import AGV.Util.Judge
import AGV.Model.Ws
import AGV.Model.WsFrame
import AGV.Spec.WsProto
import AGV.Spec.WsFrame
import AGV.Gen.WsWire

/-
  C25 judge.  Two kinds of case lines.

  Sessions (stream `main`):

    (ws PROTO KA STEP…)      PROTO = new | legacy, KA = keep-alive interval in ticks (0 = none)
    STEP = ((FRAME…) FUT STR TICK)
      FRAME = (t "text")     a frame whose bytes are the UTF-8 encoding of the text
            | (b "hex")      a frame given byte by byte (for bytes that are not UTF-8)
            | (eof)          the client's half of the socket ends
      FUT  = - | ok | err          completion offered to the pending init / ping callback
      STR  = - | (item inst val) | (fin inst)     the one operation stream ready in this poll
      TICK = 0 | 1                 a unit of time passes before the poll

    Implementation output = the session trace
      (tr EV…)   EV = (r K)  the K-th frame of the script (counted from 0 over all steps, `eof`
                             included) was taken from the socket
                    | (pending) (done) (connection_ack) (next "id" inst val) (data "id" inst val)
                      (complete "id") (pong) (connection_error REASON) (close CODE REASON)

    What a frame is, is decided HERE (Model.WsFrame.decode / the specification's reading), never by
    the harness: the session model runs on the decoded messages, with the operation ids of the
    script numbered in order of first appearance.

  Frames (stream `decode`):

    (dec FRAME)              output  (init P) (start "id" (req "query" OP VARS EXTS)) (stop "id") (term)
                                     (ping P) (pong P) (bad)
       P = - | JSON,  OP = - | "name",  VARS/EXTS/JSON = canonical document: null true false (i N) f
       (s "…") (a …) (o ("key" v)…) with keys sorted and the last of repeated keys kept
-/
open AGV AGV.Sexp
open AGV.Spec.WsProto AGV.Model.Ws
open AGV.Spec.WsFrame (J WMsg Req Str)

namespace AGV.Drive.C25

-- ------------------------------------------------------------------ frames

inductive Frame where
  | text (cs : Str)
  | bytes (bs : ByteArray)
  | eof

def hexNib (c : Char) : Option Nat := AGV.Spec.WsFrame.hexVal c

def hexBytes : List Char → Option (List UInt8)
  | [] => some []
  | [_] => none
  | a :: b :: r =>
    match hexNib a, hexNib b, hexBytes r with
    | some x, some y, some l => some (UInt8.ofNat (x * 16 + y) :: l)
    | _, _, _ => none

def frameOf : Sexp → Option Frame
  | .list [.atom "t", .str cs] => some (.text cs)
  | .list [.atom "b", .str hs] => (hexBytes hs).map (fun l => .bytes (ByteArray.mk l.toArray))
  | .list [.atom "eof"] => some .eof
  | _ => none

/-- `exact = true`: the reader is the exact one whatever the extracted facts say (the reading
    the specification requires when `d = {}`); `exact = false`: the model of the code as
    extracted, with the defect toggles `d` -/
def decodeFrame (exact : Bool) (d : AGV.Model.WsFrame.Defects) : Frame → Option WMsg
  | .text cs => if exact then AGV.Model.WsFrame.decodeWith d.lenientTail d cs else AGV.Model.WsFrame.decode d cs
  | .bytes bs =>
    match String.fromUTF8? bs with
    | some s => if exact then AGV.Model.WsFrame.decodeWith d.lenientTail d s.toList else AGV.Model.WsFrame.decode d s.toList
    | none => none
  | .eof => none

-- ------------------------------------------------------------------ canonical documents

def ltStr : Str → Str → Bool
  | [], [] => false
  | [], _ :: _ => true
  | _ :: _, [] => false
  | a :: r, b :: s => if a.toNat < b.toNat then true else if b.toNat < a.toNat then false else ltStr r s

/-- insert into a list sorted by key, replacing an equal key (so the last occurrence wins) -/
def insertKV {α : Type} (k : Str) (v : α) : List (Str × α) → List (Str × α)
  | [] => [(k, v)]
  | (k', v') :: r =>
    if k = k' then (k, v) :: r
    else if ltStr k k' then (k, v) :: (k', v') :: r
    else (k', v') :: insertKV k v r

def sortKV {α : Type} (kvs : List (Str × α)) : List (Str × α) :=
  kvs.foldl (fun acc p => insertKV p.1 p.2 acc) []

/-- how serde_json keeps a number token: an integer when it fits u64 / i64, a double otherwise -/
def numSexp (tok : Str) : Sexp :=
  if tok.any (fun c => c == '.' || c == 'e' || c == 'E') then .atom "f"
  else
    let neg := tok.head? == some '-'
    let v := AGV.Spec.WsFrame.digitsVal (tok.filter AGV.Spec.WsFrame.isDigit)
    if !neg then (if v ≤ 18446744073709551615 then .list [.atom "i", ofNat v] else .atom "f")
    else if v = 0 then .atom "f"
    else if v ≤ 9223372036854775808 then .list [.atom "i", ofInt (-(v : Int))]
    else .atom "f"

partial def canonJ : J → Sexp
  | .null => .atom "null"
  | .bool b => .atom (if b then "true" else "false")
  | .num tok => numSexp tok
  | .str s => .list [.atom "s", .str s]
  | .arr xs => .list (.atom "a" :: xs.map canonJ)
  | .obj kvs => .list (.atom "o" :: (sortKV kvs).map (fun p => .list [.str p.1, canonJ p.2]))

def optJ : Option J → Sexp
  | none => .atom "-"
  | some v => canonJ v

def msgSexpW : Option WMsg → Sexp
  | none => .list [.atom "bad"]
  | some (.init p) => .list [.atom "init", optJ p]
  | some (.start id r) =>
    .list [.atom "start", .str id,
      .list [.atom "req", .str r.query, (match r.operationName with | none => .atom "-" | some o => .str o),
             canonJ (.obj r.variables), canonJ (.obj r.extensions)]]
  | some (.stop id) => .list [.atom "stop", .str id]
  | some .term => .list [.atom "term"]
  | some (.ping p) => .list [.atom "ping", optJ p]
  | some (.pong p) => .list [.atom "pong", optJ p]

-- ------------------------------------------------------------------ session cases

def allSome {α} : List (Option α) → Option (List α)
  | [] => some []
  | none :: _ => none
  | some a :: r => (allSome r).map (a :: ·)

def futOf : Sexp → Option FutRes
  | .atom "-" => some .none
  | .atom "ok" => some .ok
  | .atom "err" => some .err
  | _ => none

def strOf : Sexp → Option StrEv
  | .atom "-" => some .none
  | .list [.atom "item", i, v] => match asNat? i, asNat? v with
    | some i, some v => some (.item i v)
    | _, _ => none
  | .list [.atom "fin", i] => (asNat? i).map .fin
  | _ => none

/-- a step before its frames are decoded -/
structure RawStep where
  frames : List Frame
  fut : FutRes
  str : StrEv
  tick : Bool

def stepOf : Sexp → Option RawStep
  | .list [.list fs, f, s, .atom t] =>
    match allSome (fs.map frameOf), futOf f, strOf s with
    | some fs, some f, some s => some { frames := fs, fut := f, str := s, tick := t == "1" }
    | _, _, _ => none
  | _ => none

def protoOf : Sexp → Option Proto
  | .atom "new" => some .new
  | .atom "legacy" => some .legacy
  | _ => none

def reasonName : Reason → String
  | .timeout => "timeout" | .tooMany => "tooMany" | .handshake => "handshake" | .cb => "cb"
  | .dupId => "dupId" | .unauth => "unauth" | .other => "other"

def reasonOf : String → Option Reason
  | "timeout" => some .timeout | "tooMany" => some .tooMany | "handshake" => some .handshake
  | "cb" => some .cb | "dupId" => some .dupId | "unauth" => some .unauth | "other" => some .other
  | _ => none

/-- operation ids of a script, in order of first appearance -/
def idsOf (ms : List (Option WMsg)) : List Str :=
  ms.foldl (fun acc m => match m with
    | some (.start id _) => if acc.contains id then acc else acc ++ [id]
    | some (.stop id) => if acc.contains id then acc else acc ++ [id]
    | _ => acc) []

def idx (tbl : List Str) (s : Str) : Nat := tbl.idxOf s

def cmsgOfFrame (exact : Bool) (DF : AGV.Model.WsFrame.Defects) (tbl : List Str) : Frame → CMsg
  | .eof => .eof
  | f => cmsgOf (idx tbl) (decodeFrame exact DF f)

def idSexp (tbl : List Str) (n : Nat) : Sexp := .str (tbl.getD n [])

/-- server messages are printed with the `type` strings extracted from the source -/
def outSexp (tbl : List Str) : Out → Sexp
  | .pending => .list [.atom "pending"]
  | .done => .list [.atom "done"]
  | .ack => .list [.atom Gen.WsWire.tyConnectionAck]
  | .next id i v => .list [.atom Gen.WsWire.tyNext, idSexp tbl id, ofNat i, ofNat v]
  | .data id i v => .list [.atom Gen.WsWire.tyData, idSexp tbl id, ofNat i, ofNat v]
  | .complete id => .list [.atom Gen.WsWire.tyComplete, idSexp tbl id]
  | .pong => .list [.atom Gen.WsWire.tyPong]
  | .connErr r => .list [.atom Gen.WsWire.tyConnectionError, .atom (reasonName r)]
  | .close c r => .list [.atom "close", ofNat c, .atom (reasonName r)]

/-- frames are taken in the order they arrived: the k-th `recv` of a trace is frame k -/
def renderEvs (tbl : List Str) : Nat → List Ev → List Sexp
  | _, [] => []
  | k, .recv _ :: r => .list [.atom "r", ofNat k] :: renderEvs tbl (k + 1) r
  | k, .out o :: r => outSexp tbl o :: renderEvs tbl k r

def renderTrace (tbl : List Str) (tr : List Ev) : String :=
  render (.list (.atom "tr" :: renderEvs tbl 0 tr))

/-- reading the implementation's trace back uses the protocol documents' type strings; a frame
    is what the SPECIFICATION says it is -/
def evOf (tbl : List Str) (frames : Array CMsg) : Sexp → Option Ev
  | .list [.atom "r", k] => (asNat? k).bind (fun k => frames[k]?.map .recv)
  | .list [.atom "pending"] => some (.out .pending)
  | .list [.atom "done"] => some (.out .done)
  | .list [.atom "connection_ack"] => some (.out .ack)
  | .list [.atom "next", .str id, i, v] => match asNat? i, asNat? v with
    | some i, some v => some (.out (.next (idx tbl id) i v))
    | _, _ => none
  | .list [.atom "data", .str id, i, v] => match asNat? i, asNat? v with
    | some i, some v => some (.out (.data (idx tbl id) i v))
    | _, _ => none
  | .list [.atom "complete", .str id] => some (.out (.complete (idx tbl id)))
  | .list [.atom "pong"] => some (.out .pong)
  | .list [.atom "connection_error", .atom r] => (reasonOf r).map (fun r => .out (.connErr r))
  | .list [.atom "close", c, .atom r] => match asNat? c, reasonOf r with
    | some c, some r => some (.out (.close c r))
    | _, _ => none
  | _ => none

/-- ids mentioned by the implementation that no frame of the script carries -/
def extraIds (tbl : List Str) : List Sexp → List Str
  | [] => tbl
  | .list (.atom _ :: .str id :: _) :: r => extraIds (if tbl.contains id then tbl else tbl ++ [id]) r
  | _ :: r => extraIds tbl r

-- ------------------------------------------------------------------ findings and toggles

def idDup := "C25-dup-id-replaces"
def idPre := "C25-subscribe-before-ack-1011"
def idBad := "C25-invalid-message-1002"
def idSeqF := "C25-array-frame-accepted"
def idSeqP := "C25-array-payload-accepted"

def allIds : List String := [idDup, idPre, idBad, idSeqF, idSeqP]

def sessD (on : List String) : Defects :=
  { dupIdReplaces := on.contains idDup, preAck1011 := on.contains idPre, invalid1002 := on.contains idBad }

def frameD (on : List String) : AGV.Model.WsFrame.Defects :=
  { seqFrame := on.contains idSeqF, seqPayload := on.contains idSeqP }

/-- all sub-lists, the full list first, larger ones before smaller ones of the same prefix -/
def subsets {α} : List α → List (List α)
  | [] => [[]]
  | a :: r => (subsets r).map (a :: ·) ++ subsets r

def judgeSession (known : List String) (p : Proto) (ka : Nat) (steps : List RawStep) (impl : String) : JudgeOut :=
  let on := allIds.filter known.contains
  let frames := (steps.map (·.frames)).flatten
  let mm (exact : Bool) (on : List String) : String :=
    let DF := frameD on
    let tbl := idsOf (frames.map (decodeFrame exact DF))
    let h : List Env := steps.map (fun s =>
      { arrive := s.frames.map (cmsgOfFrame exact DF tbl), fut := s.fut, str := s.str, tick := s.tick })
    renderTrace tbl (run (sessD on) (State.init p ka) h)
  let m := mm false
  let modelK := m on
  let spec := mm true []
  -- the property on the implementation's own trace, frames read by the specification
  let conf := match parse impl with
    | some (.list (.atom "tr" :: evs)) =>
      let tbl := extraIds (idsOf (frames.map (decodeFrame true {}))) evs
      let fr := (frames.map (cmsgOfFrame true {} tbl)).toArray
      match allSome (evs.map (evOf tbl fr)) with
      | some tr => conforms p tr
      | none => false
    | _ => false
  -- the implementation may have repaired any subset of the listed defects (the model has a
  -- toggle for each, so the check passes in both states): the listed setting first
  match (subsets on).find? (fun d => m d = impl) with
  | some d =>
    if conf then .ok
    else if mm true d ≠ impl then
      -- only a reader that is not exact (extracted from the source) explains this trace
      .viol modelK spec
    else
      -- the implementation does what the model with these listed defects does, and that is not
      -- a conforming session: attribute it to the first toggle that matters here
      match d.find? (fun id => m (d.filter (· ≠ id)) ≠ impl) with
      | some id => .known id modelK spec
      | none => .viol modelK spec
  | none => if conf then .tie modelK spec else .viol modelK spec

def judgeDecode (known : List String) (f : Frame) (impl : String) : JudgeOut :=
  let on := [idSeqF, idSeqP].filter known.contains
  let mm (exact : Bool) (on : List String) : String := render (msgSexpW (decodeFrame exact (frameD on) f))
  let modelK := mm false on
  let spec := mm true []
  if impl = spec then .ok
  else
    match (subsets on).find? (fun d => mm true d = impl) with
    | some d =>
      match d.find? (fun id => mm true (d.filter (· ≠ id)) ≠ impl) with
      | some id => .known id modelK spec
      | none => .viol modelK spec
    | none => .viol modelK spec

def judge (known : List String) (case impl : String) : JudgeOut :=
  match parse case with
  | some (.list (.atom "ws" :: p :: ka :: steps)) =>
    match protoOf p, asNat? ka, allSome (steps.map stepOf) with
    | some p, some ka, some steps => judgeSession known p ka steps impl
    | _, _, _ => .viol "bad-case" "bad-case"
  | some (.list [.atom "dec", f]) =>
    match frameOf f with
    | some .eof => .viol "bad-case" "bad-case"
    | some f => judgeDecode known f impl
    | none => .viol "bad-case" "bad-case"
  | _ => .viol "bad-case" "bad-case"

end AGV.Drive.C25

def main (args : List String) : IO UInt32 := AGV.runJudge AGV.Drive.C25.judge args
