import AGV.Util.Sexp
import AGV.Util.Judge
import AGV.Model.Ws
import AGV.Spec.WsProto
import AGV.Gen.WsWire

/-
  C25 judge.  Case line:

    (ws PROTO KA STEP…)      PROTO = new | legacy, KA = keep-alive interval in ticks (0 = none)
    STEP = ((MSG…) FUT STR TICK)
      MSG  = (init v) | (start id v) | (stop id v) | (term v) | (ping v) | (pong v) | (bad k) | (eof)
             (v, k select a spelling / a malformed text in the harness; the model ignores them)
      FUT  = - | ok | err          completion offered to the pending init / ping callback
      STR  = - | (item inst val) | (fin inst)     the one operation stream ready in this poll
      TICK = 0 | 1                 a unit of time passes before the poll

  Implementation output = the session trace
    (tr EV…)   EV = (r init)|(r start id)|… messages taken from the socket, in order, and per poll
                    one of (pending) (done) (connection_ack) (next id inst val) (data id inst val)
                    (complete id) (pong) (connection_error REASON) (close CODE REASON)
-/
open AGV AGV.Sexp
open AGV.Spec.WsProto AGV.Model.Ws

namespace AGV.Drive.C25

def msgOf : Sexp → Option CMsg
  | .list [.atom "init", _] => some .init
  | .list [.atom "start", id, _] => (asNat? id).map .start
  | .list [.atom "stop", id, _] => (asNat? id).map .stop
  | .list [.atom "term", _] => some .term
  | .list [.atom "ping", _] => some .ping
  | .list [.atom "pong", _] => some .pong
  | .list [.atom "bad", _] => some .bad
  | .list [.atom "eof"] => some .eof
  | _ => none

def allSome {α} : List (Option α) → Option (List α)
  | [] => some []
  | none :: _ => none
  | some a :: r => (allSome r).map (a :: ·)

def futOf : Sexp → Option FutRes
  | .atom "-" => some .none
  | .atom "ok" => some .ok
  | .atom "err" => some .err
  | _ => none

def strOf : Sexp → Option StrEv
  | .atom "-" => some .none
  | .list [.atom "item", i, v] => match asNat? i, asNat? v with
    | some i, some v => some (.item i v)
    | _, _ => none
  | .list [.atom "fin", i] => (asNat? i).map .fin
  | _ => none

def envOf : Sexp → Option Env
  | .list [.list msgs, f, s, .atom t] =>
    match allSome (msgs.map msgOf), futOf f, strOf s with
    | some ms, some f, some s => some { arrive := ms, fut := f, str := s, tick := t == "1" }
    | _, _, _ => none
  | _ => none

def protoOf : Sexp → Option Proto
  | .atom "new" => some .new
  | .atom "legacy" => some .legacy
  | _ => none

def reasonName : Reason → String
  | .timeout => "timeout" | .tooMany => "tooMany" | .handshake => "handshake" | .cb => "cb"
  | .dupId => "dupId" | .unauth => "unauth" | .other => "other"

def reasonOf : String → Option Reason
  | "timeout" => some .timeout | "tooMany" => some .tooMany | "handshake" => some .handshake
  | "cb" => some .cb | "dupId" => some .dupId | "unauth" => some .unauth | "other" => some .other
  | _ => none

def msgSexp : CMsg → Sexp
  | .init => .list [.atom "r", .atom "init"]
  | .start id => .list [.atom "r", .atom "start", ofNat id]
  | .stop id => .list [.atom "r", .atom "stop", ofNat id]
  | .term => .list [.atom "r", .atom "term"]
  | .ping => .list [.atom "r", .atom "ping"]
  | .pong => .list [.atom "r", .atom "pong"]
  | .bad => .list [.atom "r", .atom "bad"]
  | .eof => .list [.atom "r", .atom "eof"]

/-- server messages are printed with the `type` strings extracted from the source -/
def outSexp : Out → Sexp
  | .pending => .list [.atom "pending"]
  | .done => .list [.atom "done"]
  | .ack => .list [.atom Gen.WsWire.tyConnectionAck]
  | .next id i v => .list [.atom Gen.WsWire.tyNext, ofNat id, ofNat i, ofNat v]
  | .data id i v => .list [.atom Gen.WsWire.tyData, ofNat id, ofNat i, ofNat v]
  | .complete id => .list [.atom Gen.WsWire.tyComplete, ofNat id]
  | .pong => .list [.atom Gen.WsWire.tyPong]
  | .connErr r => .list [.atom Gen.WsWire.tyConnectionError, .atom (reasonName r)]
  | .close c r => .list [.atom "close", ofNat c, .atom (reasonName r)]

def evSexp : Ev → Sexp
  | .recv m => msgSexp m
  | .out o => outSexp o

def renderTrace (tr : List Ev) : String := render (.list (.atom "tr" :: tr.map evSexp))

/-- reading the implementation's trace back uses the protocol documents' type strings -/
def evOf : Sexp → Option Ev
  | .list [.atom "r", .atom "init"] => some (.recv .init)
  | .list [.atom "r", .atom "start", id] => (asNat? id).map (fun i => .recv (.start i))
  | .list [.atom "r", .atom "stop", id] => (asNat? id).map (fun i => .recv (.stop i))
  | .list [.atom "r", .atom "term"] => some (.recv .term)
  | .list [.atom "r", .atom "ping"] => some (.recv .ping)
  | .list [.atom "r", .atom "pong"] => some (.recv .pong)
  | .list [.atom "r", .atom "bad"] => some (.recv .bad)
  | .list [.atom "r", .atom "eof"] => some (.recv .eof)
  | .list [.atom "pending"] => some (.out .pending)
  | .list [.atom "done"] => some (.out .done)
  | .list [.atom "connection_ack"] => some (.out .ack)
  | .list [.atom "next", id, i, v] => match asNat? id, asNat? i, asNat? v with
    | some id, some i, some v => some (.out (.next id i v))
    | _, _, _ => none
  | .list [.atom "data", id, i, v] => match asNat? id, asNat? i, asNat? v with
    | some id, some i, some v => some (.out (.data id i v))
    | _, _, _ => none
  | .list [.atom "complete", id] => (asNat? id).map (fun i => .out (.complete i))
  | .list [.atom "pong"] => some (.out .pong)
  | .list [.atom "connection_error", .atom r] => (reasonOf r).map (fun r => .out (.connErr r))
  | .list [.atom "close", c, .atom r] => match asNat? c, reasonOf r with
    | some c, some r => some (.out (.close c r))
    | _, _ => none
  | _ => none

def traceOf (s : String) : Option (List Ev) :=
  match parse s with
  | some (.list (.atom "tr" :: evs)) => allSome (evs.map evOf)
  | _ => none

def idDup := "C25-dup-id-replaces"
def idPre := "C25-subscribe-before-ack-1011"
def idBad := "C25-invalid-message-1002"

def judge (known : List String) (case impl : String) : JudgeOut :=
  match parse case with
  | some (.list (.atom "ws" :: p :: ka :: steps)) =>
    match protoOf p, asNat? ka, allSome (steps.map envOf) with
    | some p, some ka, some h =>
      let D : Defects := { dupIdReplaces := known.contains idDup, preAck1011 := known.contains idPre,
                           invalid1002 := known.contains idBad }
      let m (D : Defects) := renderTrace (run D (State.init p ka) h)
      let modelK := m D
      let spec := m {}
      let conf := match traceOf impl with
        | some tr => conforms p tr
        | none => false
      -- the implementation may have repaired any subset of the listed defects (the model has a
      -- toggle for each, so the check passes in both states): try the listed setting first, then
      -- the settings with fewer toggles on
      let subs : List Defects :=
        [D, { D with dupIdReplaces := false }, { D with preAck1011 := false }, { D with invalid1002 := false },
         { D with dupIdReplaces := false, preAck1011 := false }, { D with dupIdReplaces := false, invalid1002 := false },
         { D with preAck1011 := false, invalid1002 := false }, {}]
      match subs.find? (fun d => m d = impl) with
      | some d =>
        if conf then .ok
        else
          -- the implementation does what the model with these listed defects does, and that is
          -- not a conforming session: attribute it to the first toggle that matters here
          match [(idDup, d.dupIdReplaces, m { d with dupIdReplaces := false }),
                 (idPre, d.preAck1011, m { d with preAck1011 := false }),
                 (idBad, d.invalid1002, m { d with invalid1002 := false })].find?
                  (fun q => q.2.1 && q.2.2 ≠ impl) with
          | some (id, _, _) => .known id modelK spec
          | none => .viol modelK spec
      | none =>
        if conf then .tie modelK spec else .viol modelK spec
    | _, _, _ => .viol "bad-case" "bad-case"
  | _ => .viol "bad-case" "bad-case"

end AGV.Drive.C25

def main (args : List String) : IO UInt32 := AGV.runJudge AGV.Drive.C25.judge args
