import AGV.Model.SchedWire

open AGV AGV.Model.SchedWire

namespace AGV.Drive.C04

def idOnceStatic : String := "C04-repeated-key-resolved-per-occurrence"
def idOnceDyn : String := "C04-dyn-repeated-key-resolved-per-occurrence"

/-- C04 on one case (document, world, several schedules), evaluated on the implementation's traces:
    (a) under every schedule no resolver is started twice for the same parent position and
        response key;
    (b) for a mutation, under every schedule, the root fields run one at a time in order
        (every event between two root-level starts belongs to the earlier root field, and
        each root resolver has ended before the next one starts);
    and the implementation's output must be exactly the scheduler model's (under the toggles of
    the listed findings). -/
def judge (known : List String) (case impl : String) : JudgeOut :=
  match case? case with
  | none => .viol "bad-case" "undecodable case"
  | some c =>
    -- the same defect, listed (and repairable) separately for the two executors
    let idOnce := if c.dyn then idOnceDyn else idOnceStatic
    let tK : Toggles := { Toggles.pinned with perOccurrence := known.contains idOnce }
    match implRuns? impl with
    | none => .viol (modelStr c tK) "unreadable implementation output"
    | some runs =>
      let mut_ := c.isMutation
      let once := runs.all (fun r => onceOK r.trace)
      let serial := !mut_ || runs.all (fun r => serialOK none r.trace && serialEndsOK r.trace)
      let spec := s!"once={once} serial={serial}"
      -- the toggles of OTHER properties' findings are not told to this judge: take the first
      -- setting (the pinned tree first) under which the model prints exactly the implementation's
      -- output, with this property's own toggle as listed
      let own := known.contains idOnce
      match (Toggles.all.filter (·.perOccurrence == own)).find? (fun t => agrees c t runs) with
      | some t =>
        if once && serial then .ok
        else if serial && own then .known idOnce (modelStr c t) spec
        else .viol (modelStr c t) spec
      | none =>
        if once && serial then
          -- the property holds on this case; the listed finding of this property may be repaired
          if (Toggles.all.filter (·.perOccurrence != own)).any (fun t => agrees c t runs) then
            { verdict := "OK", model := "", spec := spec }
          else .tie (modelStr c tK) spec
        else .viol (modelStr c tK) spec

end AGV.Drive.C04

def main (args : List String) : IO UInt32 := AGV.runJudge AGV.Drive.C04.judge args
