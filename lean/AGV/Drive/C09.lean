import AGV.Util.Sexp
import AGV.Util.Judge
import AGV.Core.Types
import AGV.Core.VSchema
import AGV.Model.Validate
import AGV.Model.ValidateDynSchema
import AGV.Model.ValidateStaticSchemas
import AGV.Spec.Validate
import AGV.Gen.Rules

open AGV AGV.Sexp AGV.Core

namespace AGV.Drive.C09
open AGV.Model.Validate

-- ------------------------------------------------------------------ wire format

def argDefs? (xs : List Sexp) : Option (List ArgDef) := xs.mapM Decode.argDef?

def dirDef? : Sexp → Option DirDef
  | .list [.atom "dirdef", .str n, .atom r, .list ls, .list as] => do
    some { name := String.ofList n, repeatable := r == "true", locs := ← ls.mapM asAtom?, args := ← argDefs? as }
  | _ => none

def inputDef? : Sexp → Option InputDef
  | .list (.atom "input" :: .str n :: .atom o :: as) => do
    some { name := String.ofList n, oneof := o == "true", fields := ← argDefs? as }
  | _ => none

def vschema? : Sexp → Option VSchema
  | .list [.atom "vschema", sc, .list (.atom "dirs" :: ds), .list (.atom "inputs" :: is), .list (.atom "subflag" :: fs)] => do
    some { base := ← Decode.schema? sc, dirs := ← ds.mapM dirDef?, inputs := ← is.mapM inputDef?,
           subFlag := (← fs.mapM asStr?).map String.ofList }
  -- case lines written before the dump carried the `is_subscription` flags (corpus, witnesses of the
  -- listed findings): the flags are taken to be those of a well-formed registry
  | .list [.atom "vschema", sc, .list (.atom "dirs" :: ds), .list (.atom "inputs" :: is)] => do
    some (withRootFlag { base := ← Decode.schema? sc, dirs := ← ds.mapM dirDef?, inputs := ← is.mapM inputDef? })
  | _ => none

structure Case where
  S : VSchema
  doc : Doc
  opName : Option String
  vars : List (String × GValue)
  /-- the request ran against the schema built with `async_graphql::dynamic` (stream `dynamic`) -/
  dynamic : Bool := false

def case? (s : Sexp) : Option Case :=
  match s with
  | .list [.atom "case", sc, d, o, v, _] => do
    some { S := ← vschema? sc, doc := ← Decode.doc? d, opName := ← Decode.optStr? o, vars := ← Decode.vars? v }
  | .list [.atom "case", sc, d, o, v, _, .list [.atom "flavour", .atom "dynamic"]] => do
    some { S := ← vschema? sc, doc := ← Decode.doc? d, opName := ← Decode.optStr? o, vars := ← Decode.vars? v,
           dynamic := true }
  | _ => none

structure Impl where
  stage : String
  errs : List (List Char × Nat)
  ran : Nat
  later : List (List Char)

def impl? (s : Sexp) : Option Impl :=
  match s with
  | .list [.atom "out", .atom st, .list es, r, .list (.atom "later" :: ls)] => do
    let es ← es.mapM (fun (e : Sexp) => match e with
      | .list [.str m, n] => do some (m, ← asNat? n)
      | _ => none)
    some { stage := st, errs := es, ran := ← asNat? r, later := ← ls.mapM asStr? }
  | _ => none

-- ------------------------------------------------------------------ messages → kinds (table from the source)

def dropPrefix? : List Char → List Char → Option (List Char)
  | [], s => some s
  | _ :: _, [] => none
  | c :: cs, x :: xs => if c = x then dropPrefix? cs xs else none

/-- remainder after the leftmost occurrence of `c` -/
def findAfter (c : List Char) : List Char → Option (List Char)
  | [] => if c = [] then some [] else none
  | x :: xs => match dropPrefix? c (x :: xs) with
    | some r => some r
    | none => findAfter c xs

def isSuffixOf (c s : List Char) : Bool := (dropPrefix? c.reverse s.reverse).isSome

def matchRest : List (List Char) → List Char → Bool
  | [], _ => false
  | [last], s => isSuffixOf last s
  | c :: rest, s => match findAfter c s with
    | some r => matchRest rest r
    | none => false

/-- does `msg` have the shape of the format string with the given literal chunks? -/
def matchChunks (chunks : List String) (msg : List Char) : Bool :=
  match chunks.map String.toList with
  | [] => false
  | [c] => msg = c
  | c :: rest => match dropPrefix? c msg with
    | some r => matchRest rest r
    | none => false

/-- first row of the source table whose format matches -/
def classify (msg : List Char) : Option Nat :=
  let rec go (i : Nat) : List (String × List String × Nat) → Option Nat
    | [] => none
    | r :: rs => if matchChunks r.2.1 msg then some i else go (i + 1) rs
  go 0 Gen.Rules.messages

def sampleOf (chunks : List String) : List Char := ("x".intercalate chunks).toList

/-- the row the implementation's message for kind `k` is classified as -/
def canon (k : Model.Validate.Kind) : Nat :=
  match Gen.Rules.messages[k.idx]? with
  | some r => (classify (sampleOf r.2.1)).getD k.idx
  | none => k.idx

def preOf (msg : List Char) : Option PreKind :=
  let s := String.ofList msg
  if s.startsWith "operation " && s.endsWith " is defined twice" then some .dupOperation
  else if s = "document contains multiple operations" then some .multipleAnonymous
  else if s.startsWith "fragment " && s.endsWith " is defined twice" then some .dupFragment
  else if s.startsWith "The recursion depth of the query cannot be greater than" then some .recursionDepth
  else none

def preName : PreKind → String
  | .dupOperation => "dup-operation" | .multipleAnonymous => "multiple-anonymous"
  | .dupFragment => "dup-fragment" | .recursionDepth => "recursion-depth"

def insertSorted (n : Nat) : List Nat → List Nat
  | [] => [n]
  | x :: xs => if n < x then n :: x :: xs else if n = x then x :: xs else x :: insertSorted n xs
def sortDedup (xs : List Nat) : List Nat := xs.foldl (fun acc n => insertSorted n acc) []

def showNats (xs : List Nat) : String := " ".intercalate (xs.map toString)

def outcomeStr : Outcome → String
  | .accepted => "ok"
  | .parseRejected ks => "parse:" ++ " ".intercalate (ks.map preName)
  | .rejected ks => "valid:" ++ showNats (sortDedup (ks.map canon))

/-- canonical form of what the implementation did; `none` = a message outside the table or a wrong location count -/
def implStr (i : Impl) : Option String :=
  if i.stage = "ok" then some "ok"
  else if i.stage = "parse" then do
    let ks ← i.errs.mapM (fun e => preOf e.1)
    if i.errs.all (fun e => e.2 ≥ 1) then some ("parse:" ++ " ".intercalate (ks.map preName)) else none
  else if i.stage = "valid" then do
    let ks ← i.errs.mapM (fun e => do
      let k ← classify e.1
      let row ← Gen.Rules.messages[k]?
      if row.2.2 = e.2 && e.2 ≥ 1 then some k else none)
    some ("valid:" ++ showNats (sortDedup ks))
  else none

-- ------------------------------------------------------------------ findings ↔ toggles

def ids : List (String × (Defects → Defects)) :=
  [("C09-input-value-not-forwarded", fun d => { d with inputValueNotForwarded := false }),
   ("C09-subtype-list-nonnull", fun d => { d with subtypeListNonNull := false }),
   ("C09-location-default-ignored", fun d => { d with locationDefaultIgnored := false }),
   ("C09-typename-not-visited", fun d => { d with typenameNotVisited := false }),
   ("C09-overlap-keyed-by-condition", fun d => { d with overlapKeyedByCondition := false }),
   ("C09-no-single-root-subscription", fun d => { d with noSingleRootSubscription := false }),
   ("C09-input-object-any-literal", fun d => { d with inputObjectAnyValue := false }),
   ("C09-enum-accepts-string", fun d => { d with enumAcceptsString := false }),
   ("C09-int-range-unchecked", fun d => { d with intRangeNotChecked := false }),
   ("C09-missing-variable-accepted", fun d => { d with missingVariableAccepted := false }),
   ("C09-ifdef-skips-unknown-field", fun d => { d with ifdefSkipsUnknownField := false }),
   ("C09-overlap-untyped-inline", fun d => { d with overlapUntypedInlineKeyedNone := false }),
   ("C09-null-default-counts", fun d => { d with nullDefaultCounts := false }),
   ("C09-known-args-stale", fun d => { d with knownArgsStale := false }),
   -- listed under C06 (same code path: `into_const_with` fails, the literal is never judged), `also` C09
   ("C06-literal-unchecked-beside-unsupplied-variable", fun d => { d with argsJudgedAfterSubstitution := false })]

def defectsOf (known : List String) : Defects :=
  { inputValueNotForwarded := known.contains "C09-input-value-not-forwarded",
    subtypeListNonNull := known.contains "C09-subtype-list-nonnull",
    locationDefaultIgnored := known.contains "C09-location-default-ignored",
    typenameNotVisited := known.contains "C09-typename-not-visited",
    overlapKeyedByCondition := known.contains "C09-overlap-keyed-by-condition",
    noSingleRootSubscription := known.contains "C09-no-single-root-subscription",
    inputObjectAnyValue := known.contains "C09-input-object-any-literal",
    enumAcceptsString := known.contains "C09-enum-accepts-string",
    intRangeNotChecked := known.contains "C09-int-range-unchecked",
    missingVariableAccepted := known.contains "C09-missing-variable-accepted",
    ifdefSkipsUnknownField := known.contains "C09-ifdef-skips-unknown-field",
    overlapUntypedInlineKeyedNone := known.contains "C09-overlap-untyped-inline",
    nullDefaultCounts := known.contains "C09-null-default-counts",
    knownArgsStale := known.contains "C09-known-args-stale",
    argsJudgedAfterSubstitution := known.contains "C06-literal-unchecked-beside-unsupplied-variable" }

/-- execution-time messages for problems validation is required to catch -/
def mustBeCaught (m : String) : Bool :=
  m.startsWith "Unknown fragment" || m.startsWith "Unknown field" || m.startsWith "Cannot query field"
  || (m.startsWith "Variable " && m.endsWith " is not defined.") || m.startsWith "Unknown directive"

def judgeCase (known : List String) (c : Case) (i : Impl) : JudgeOut :=
    let viol := Spec.Validate.violations {} c.S c.doc c.vars c.opName
    let specStr := if viol.isEmpty then "valid" else "invalid: " ++ "; ".intercalate viol
    let dK := defectsOf known
    let run (D : Defects) : Outcome := checkRules c.S D c.doc c.vars c.opName
    let mK := run dK
    let mStr := outcomeStr mK
    let implRejected := i.stage != "ok"
    let specRejected := !viol.isEmpty
    match implStr i with
    | none => .viol mStr ("unclassified message or wrong location count; " ++ specStr)
    | some iStr =>
      if iStr ≠ mStr then
        (if implRejected = specRejected then .tie mStr specStr else .viol mStr specStr)
      else if implRejected && i.ran ≠ 0 then .viol mStr ("a resolver ran although the request was rejected; " ++ specStr)
      else if implRejected = specRejected then
        -- a valid, accepted document must not fail later for a reason validation has to catch
        -- (other execution errors of valid documents belong to C06)
        (match i.later.find? (fun m => mustBeCaught (String.ofList m)) with
         | some m => if implRejected then .ok else
             .viol mStr ("accepted by validation, then failed: " ++ String.ofList m ++ "; " ++ specStr)
         | none => .ok)
      else
        -- deviation explained by the listed findings: name the one whose repair restores the spec's verdict
        let cand := ids.filter (fun p => known.contains p.1)
        match cand.find? (fun p => (run (p.2 dK)).isRejected = specRejected) with
        | some p => .known p.1 mStr specStr
        | none =>
          -- a defect LATENT behind another one: the spec's verdict comes back only when both are
          -- repaired; the deviation is reported under the one that masks (the earlier in `ids`)
          match cand.find? (fun p => cand.any (fun q => (run (q.2 (p.2 dK))).isRejected = specRejected)) with
          | some p => .known p.1 mStr specStr
          | none =>
            match cand.find? (fun p => outcomeStr (run (p.2 dK)) ≠ mStr) with
            | some p => .known p.1 mStr specStr
            | none => .viol mStr ("deviation from the specification that no listed finding explains; " ++ specStr)

/-- a registry whose `is_subscription` flags do not mark exactly the subscription root, on a case where
    that makes a difference and the implementation behaves as the model computes from the dumped flags -/
def flagDeviation (known : List String) (c : Case) (i : Impl) : Option JudgeOut :=
  if flagWF c.S then none else
  let dK := defectsOf known
  let mDumped := outcomeStr (checkRules c.S dK c.doc c.vars c.opName)
  let mRight := outcomeStr (checkRules (withRootFlag c.S) dK c.doc c.vars c.opName)
  if mDumped ≠ mRight && implStr i = some mDumped then
    let v := Spec.Validate.violations {} c.S c.doc c.vars c.opName
    some (.viol mDumped ("the registry flags [" ++ ", ".intercalate c.S.subFlag ++ "] as is_subscription but subscription_type is "
      ++ (c.S.base.subscription.getD "none") ++ "; with the flag on the subscription root the validator answers " ++ mRight
      ++ "; reference validator: " ++ (if v.isEmpty then "valid" else "invalid: " ++ "; ".intercalate v)))
  else none

def judge (known : List String) (case impl : String) : JudgeOut :=
  -- the witness of a finding another property owns (shared through `also`): replayed there, not here
  if impl.trimAscii.toString = "(foreign)" then .ok else
  match (parse case).bind case?, (parse impl).bind impl? with
  | some c, some i =>
    let r := judgeCase known c i
    if r.verdict = "VIOL" then r else
    -- THE `is_subscription` FLAGS.  The model goes by the flags the registry carries (as
    -- `visit_selection` does), the reference validator by the operation type.  A registry whose flags
    -- do not mark exactly the type `subscription_type` names is outside `SchemaWF` (the theorems say
    -- nothing about it), and no listed finding is about flags: when the implementation behaves as the
    -- model computes from the dumped flags, and differently from the model over the flags a
    -- well-formed registry has, the wrong flag IS the deviation — not to be attributed to a finding.
    match flagDeviation known c i with
    | some v => v
    | none =>
    -- the registry the case carries (dumped from the REAL registry) must be one the theorems
    -- `c09_dynamic_schema_wf` / `c09_static_schemas_wf` are about; otherwise those theorems speak of a
    -- registry the library no longer builds (rerun tools/c09_dyn_schema.py)
    if c.dynamic && !Model.ValidateDynSchema.vschemaEq c.S Model.ValidateDynSchema.dynSchema then
      .tie "registry dump of the dynamic schema differs from Model/ValidateDynSchema.lean" ""
    else if !c.dynamic && !Model.ValidateStaticSchemas.isStaticVariant c.S then
      .tie "registry dump of the static schema is none of the variants of Model/ValidateStaticSchemas.lean" ""
    else r
  | _, _ => .viol "undecodable case or output" ""

end AGV.Drive.C09

def main (args : List String) : IO UInt32 := AGV.runJudge AGV.Drive.C09.judge args
