import AGV.Util.Sexp
import AGV.Util.Judge
import AGV.Model.Graphiql
import AGV.Spec.JsString
import AGV.Gen.AskamaEscape

open AGV AGV.Sexp
open AGV.Model.Graphiql AGV.Spec.JsString

namespace AGV.Drive.C34

def table : Table := AGV.Gen.AskamaEscape.table

def optStr : Sexp → Option (Option (List Char))
  | .atom "none" => some none
  | .str s => some (some s)
  | _ => none

def pairsOf (xs : List Sexp) : Option (List (List Char × List Char)) :=
  xs.mapM (fun p => match p with
    | .list [.str k, .str v] => some (k, v)
    | _ => none)

def configOf : Sexp → Option Config
  | .list [.atom "cfg", .list [.atom "endpoint", .str e], .list [.atom "sub", s], .list [.atom "title", t],
           .list (.atom "headers" :: hs), .list (.atom "ws" :: ws)] => do
    let s ← optStr s
    let t ← optStr t
    let hs ← pairsOf hs
    let ws ← pairsOf ws
    some { endpoint := e, subscription := s, title := t, headers := hs, wsParams := ws }
  | _ => none

structure Obs where
  page : Page
  closers : Nat
  comments : Nat

def obsOf : Sexp → Option Obs
  | .list [.atom "page", .list [.atom "title", .str t], .list [.atom "endpoint", .str e], .list [.atom "sub", s],
           .list (.atom "headers" :: hs), .list (.atom "ws" :: ws), .list (.atom "members" :: ms),
           .list [.atom "closers", .atom c], .list [.atom "comments", .atom m]] => do
    let s ← optStr s
    let hs ← pairsOf hs
    let ws ← pairsOf ws
    let c ← c.toNat?
    let m ← m.toNat?
    let ms ← ms.mapM (fun x => match x with
      | .list [.atom n, .atom b] => some (n, b == "true")
      | _ => none)
    some { page := { title := t, endpoint := e, subscription := s, headers := hs, wsParams := ws, members := ms },
           closers := c, comments := m }
  | _ => none

def ltStr : List Char → List Char → Bool
  | [], [] => false
  | [], _ :: _ => true
  | _ :: _, [] => false
  | a :: as, b :: bs => if a.toNat < b.toNat then true else if a.toNat > b.toNat then false else ltStr as bs

def lePair (a b : List Char × List Char) : Bool :=
  if ltStr a.1 b.1 then true else if ltStr b.1 a.1 then false else !ltStr b.2 a.2

def sortPairs (xs : List (List Char × List Char)) : List (List Char × List Char) := xs.mergeSort lePair

def ltNats : List Nat → List Nat → Bool
  | [], [] => false
  | [], _ :: _ => true
  | _ :: _, [] => false
  | a :: as, b :: bs => if a < b then true else if a > b then false else ltNats as bs

def leNatPair (a b : List Nat × List Nat) : Bool :=
  if ltNats a.1 b.1 then true else if ltNats b.1 a.1 then false else !ltNats b.2 a.2

def pageSexp (p : Page) : Sexp :=
  let ents (xs : List (List Char × List Char)) := (sortPairs xs).map (fun kv => Sexp.list [.str kv.1, .str kv.2])
  .list [.atom "page", .list [.atom "title", .str p.title], .list [.atom "endpoint", .str p.endpoint],
    .list [.atom "sub", match p.subscription with | none => .atom "none" | some s => .str s],
    .list (.atom "headers" :: ents p.headers), .list (.atom "ws" :: ents p.wsParams),
    .list (.atom "members" :: p.members.map (fun m => Sexp.list [.atom m.1, ofBool m.2])),
    .list [.atom "closers", ofNat 2], .list [.atom "comments", ofNat 0]]

/-- the property, evaluated on what the real page contains: every literal evaluates to the
    configured value and cannot end its string or the script; the title decodes to the
    configured title and contains no `<`; the page has the template's two script end tags only -/
def bodyOk (body x : List Char) : Bool :=
  scriptValue body == some (utf16 x) && scriptSafe body && literalClosed body

def mapOk (got : List (List Char × List Char)) (cfg : List (List Char × List Char)) : Bool :=
  let ev := got.map (fun kv => (scriptValue kv.1, scriptValue kv.2))
  ev.all (fun p => p.1.isSome && p.2.isSome) &&
  got.all (fun kv => scriptSafe kv.1 && literalClosed kv.1 && scriptSafe kv.2 && literalClosed kv.2) &&
  (ev.map (fun p => (p.1.getD [], p.2.getD []))).mergeSort leNatPair ==
    (cfg.map (fun kv => (utf16 kv.1, utf16 kv.2))).mergeSort leNatPair

def specOk (c : Config) (o : Obs) : Bool :=
  let wantTitle := c.title.getD "GraphiQL".toList
  htmlDecode o.page.title == wantTitle && !o.page.title.contains '<' &&
  bodyOk o.page.endpoint c.endpoint &&
  (match o.page.subscription, c.subscription with
    | none, none => true
    | some b, some x => bodyOk b x
    | _, _ => false) &&
  mapOk o.page.headers c.headers && mapOk o.page.wsParams c.wsParams &&
  wellSeparated o.page.members && o.page.members.map (·.1) == (members {} c).map (·.1) &&
  o.closers == 2 && o.comments == 0

def ids : List String :=
  ["C34-entities-in-script", "C34-backslash-unescaped", "C34-controls-raw", "C34-missing-comma"]

def defectsOf (known : List String) : Defects :=
  { entitiesInScript := known.contains "C34-entities-in-script"
    backslashRaw := known.contains "C34-backslash-unescaped"
    controlsRaw := known.contains "C34-controls-raw"
    missingComma := known.contains "C34-missing-comma" }

def judge (known : List String) (case impl : String) : JudgeOut :=
  match (parse case).bind configOf with
  | none => .viol "bad-case" "bad-case"
  | some cfg =>
    let m (k : List String) := render (pageSexp (AGV.Model.Graphiql.render table (defectsOf k) cfg))
    let modelK := m known
    let model0 := m []
    let specTxt := "every literal evaluates to the configured value, is closed and script-safe; repaired rendering: " ++ model0
    match (parse impl).bind obsOf with
    | none => .viol modelK specTxt
    | some o =>
      if specOk cfg o then
        if impl = modelK ∨ impl = model0 then .ok else .tie modelK specTxt
      else if impl = modelK then
        -- attribute to the first listed toggle whose removal changes the rendering of this case
        let hit := (ids.filter known.contains).find? (fun id => m (known.filter (· ≠ id)) ≠ modelK)
        match hit, ids.filter known.contains with
        | some id, _ => .known id modelK specTxt
        | none, id :: _ => .known id modelK specTxt
        | none, [] => .viol modelK specTxt
      else .viol modelK specTxt

end AGV.Drive.C34

def main (args : List String) : IO UInt32 := AGV.runJudge AGV.Drive.C34.judge args
