import AGV.Util.Sexp
import AGV.Util.Judge
import AGV.Model.Sdl
import AGV.Spec.SdlParse
import AGV.Model.RustTy
import AGV.Spec.RustTy

open AGV AGV.Sexp AGV.Core AGV.Core.PAst AGV.Core.Sdl

namespace AGV.Drive.C17
open AGV.Model.Sdl AGV.Spec.SdlParse

def stripLast (c : Char) (l : List Char) : Option (List Char) :=
  match l.reverse with
  | x :: r => if x = c then some r.reverse else none
  | [] => none

def parseTy : Nat → List Char → Option PType
  | 0, _ => none
  | f + 1, t =>
    let nn := stripLast '!' t
    let body := nn.getD t
    match body with
    | '[' :: rest =>
      match stripLast ']' rest with
      | some inner => (parseTy f inner).map (fun i => .listOf i nn.isNone)
      | none => none
    | _ => some (.named body nn.isNone)

partial def value : Sexp → Option SValue
  | .atom "null" => some .null
  | .list [.atom "i", .atom n] => n.toInt?.map .int
  | .list [.atom "s", .str x] => some (.str x)
  | .list [.atom "b", .atom "true"] => some (.bool true)
  | .list [.atom "b", .atom "false"] => some (.bool false)
  | .list [.atom "e", .str n] => some (.enum n)
  | .list (.atom "l" :: xs) => (xs.mapM value).map SValue.list
  | .list (.atom "o" :: fs) =>
    (fs.mapM (fun (kv : Sexp) => match kv with
      | .list [.str k, v] => (value v).map (fun x => (k, x))
      | _ => none)).map SValue.obj
  | _ => none

def optText : Sexp → Option (Option Text)
  | .atom "-" => some none
  | .str x => some (some x)
  | _ => none

def texts (xs : List Sexp) : Option (List Text) := xs.mapM asStr?

def dirApp : Sexp → Option DirApp
  | .list (.str n :: args) =>
    (args.mapM (fun (kv : Sexp) => match kv with
      | .list [.str k, v] => (value v).map (fun x => (k, x))
      | _ => none)).map (fun as => ⟨n, as⟩)
  | _ => none

def attrs : Sexp → Option Attrs
  | .list [.atom "a", d, dep, .atom inacc, .list tags, .list dirs] => do
    let d ← optText d
    let dep ← (match dep with
      | .atom "-" => some Dep.no
      | .list [.atom "dep"] => some (Dep.yes none)
      | .list [.atom "dep", .str r] => some (Dep.yes (some r))
      | _ => none)
    let tags ← texts tags
    let dirs ← dirs.mapM dirApp
    pure { desc := d, dep := dep, inacc := inacc = "true", tags := tags, dirs := dirs }
  | _ => none

def inputVal : Sexp → Option InputVal
  | .list [.atom "iv", .str n, a, .str ty, dv] => do
    let a ← attrs a
    let ty ← parseTy (ty.length + 1) ty
    let dv ← (match dv with
      | .atom "-" => some none
      | v => (value v).map some)
    pure ⟨n, a, ty, dv⟩
  | _ => none

def fieldDef : Sexp → Option FieldDef
  | .list [.atom "f", .str n, a, .str ty, .list args] => do
    let a ← attrs a
    let ty ← parseTy (ty.length + 1) ty
    let args ← args.mapM inputVal
    pure ⟨n, a, ty, args⟩
  | _ => none

def typeDef : Sexp → Option TypeDef
  | .list [.atom "scalar", .str n, a, url] => do
    pure (.scalar n (← attrs a) (← optText url))
  | .list [.atom "object", .str n, a, .atom ext, .list is, .list fs] => do
    pure (.object n (← attrs a) (ext = "true") (← texts is) (← fs.mapM fieldDef))
  | .list [.atom "interface", .str n, a, .atom ext, .list is, .list fs] => do
    pure (.interface n (← attrs a) (ext = "true") (← texts is) (← fs.mapM fieldDef))
  | .list [.atom "union", .str n, a, .list ms] => do
    pure (.union n (← attrs a) (← texts ms))
  | .list [.atom "enum", .str n, a, .list vs] => do
    let vs ← vs.mapM (fun (v : Sexp) => match v with
      | .list [.str vn, va] => (attrs va).map (fun x => (vn, x))
      | _ => none)
    pure (.enum n (← attrs a) vs)
  | .list [.atom "input", .str n, a, .atom oneof, .list fs] => do
    pure (.input n (← attrs a) (oneof = "true") (← fs.mapM inputVal))
  | _ => none

def dirDef : Sexp → Option DirDef
  | .list [.atom "ddef", .str n, d, .list args, .atom rep, .list locs, comp] => do
    pure ⟨n, ← optText d, ← args.mapM inputVal, rep = "true", ← texts locs, ← optText comp⟩
  | _ => none

def schema : Sexp → Option Schema
  | .list [.atom _, .list [.atom "roots", .str q, m], .list ts, .list (.atom "ddefs" :: ds)] => do
    pure ⟨q, ← optText m, ← ts.mapM typeDef, ← ds.mapM dirDef⟩
  | _ => none

def opts : Sexp → Option Opts
  | .list [.atom "opts", .atom a, .atom b, .atom c, .atom d, .atom e, .atom f, .atom g, .atom h, .atom w] =>
    w.toNat?.map (fun w => ⟨a = "true", b = "true", c = "true", d = "true", e = "true", f = "true", g = "true", h = "true", w⟩)
  | _ => none

-- ------------------------------------------------------------------ declared Rust types on the wire

/-- the finding about `Box<T>` / `Arc<T>` / `&T` inside a list (Model/RustTy.lean) -/
def ptrFinding : String := "C17-list-of-pointer-to-option-non-null"

def rtyDefects (ids : List String) : AGV.Model.RustTy.Defects :=
  { ptrQualifiedDefault := ids.contains ptrFinding }

/-- An `iv` / `f` node of a derive-built schema may end with the declared Rust type
    (`(iv "n" A "type" DEFAULT RTY)`, `(f "n" A "type" (IV…) RTY)`).  The hand-written GraphQL
    type must be what the specification makes of that Rust type (`Spec.RustTy.ptype`); the node is
    rewritten to the plain form carrying the type the crate's `type_name` /
    `qualified_type_name` / `create_type_info` (with the toggles `D`) register for it. -/
partial def rewriteRty (D : AGV.Model.RustTy.Defects) : Sexp → Except String Sexp
  | .list [.atom "iv", n, a, .str ty, dv, r] => do
    pure (.list [.atom "iv", n, a, .str (← regTy ty r), dv])
  | .list [.atom "f", n, a, .str ty, .list args, r] => do
    let args ← args.mapM (rewriteRty D)
    pure (.list [.atom "f", n, a, .str (← regTy ty r), .list args])
  | .list xs => do pure (.list (← xs.mapM (rewriteRty D)))
  | x => pure x
where
  regTy (ty : List Char) (r : Sexp) : Except String (List Char) :=
    match AGV.Core.RustTy.decode? r with
    | none => .error "bad-rust-type"
    | some t =>
      if parseTy (ty.length + 1) ty = some (AGV.Spec.RustTy.ptype t) then
        .ok (typeText (AGV.Model.RustTy.toP (AGV.Model.RustTy.created D t)))
      else .error ("declared-type-is-not-what-the-rust-type-means: " ++ String.ofList ty)

def findingIds : List String :=
  ["C17-deprecation-reason-quote", "C17-description-single-line-escapes", "C17-description-block-lossy",
   "C17-tag-url-escapes", "C17-interface-directives-before-implements", "C17-dynamic-interface-implements-dropped",
   "C17-dynamic-input-field-attrs", "C17-extend-with-description", "C17-compose-url-escape",
   "C17-federation-scalar-any-dropped", "C17-federation-fields-dropped-everywhere", ptrFinding]

def parserFinding : String := "C17-parser-directive-always-repeatable"

def defectsOf (ids : List String) : Defects :=
  { reasonQuoteRaw := ids.contains "C17-deprecation-reason-quote",
    descSingleLineRaw := ids.contains "C17-description-single-line-escapes",
    descBlockRaw := ids.contains "C17-description-block-lossy",
    tagQuoteOnly := ids.contains "C17-tag-url-escapes",
    interfaceDirectivesFirst := ids.contains "C17-interface-directives-before-implements",
    dynInterfaceImplementsDropped := ids.contains "C17-dynamic-interface-implements-dropped",
    dynInputFieldAttrsFromObject := ids.contains "C17-dynamic-input-field-attrs",
    extendKeepsDescription := ids.contains "C17-extend-with-description",
    composeUrlRaw := ids.contains "C17-compose-url-escape",
    fedScalarAnyDropped := ids.contains "C17-federation-scalar-any-dropped",
    fedFieldsEverywhere := ids.contains "C17-federation-fields-dropped-everywhere" }

/-- all the ways to put `x` into `l` -/
def insertions {α : Type} (x : α) : List α → List (List α)
  | [] => [[x]]
  | y :: r => (x :: y :: r) :: (insertions x r).map (y :: ·)

/-- all sublists, the whole list first, the empty one last -/
def subsets {α : Type} : List α → List (List α)
  | [] => [[]]
  | x :: r => (subsets r).map (x :: ·) ++ subsets r

def perms {α : Type} : List α → List (List α)
  | [] => [[]]
  | x :: r => (perms r).flatMap (insertions x)

/-- the orders in which the exporter may write the compose groups (its `HashMap` decides): pairs
    (the model's groups, the specification's groups) under the same permutation; only one when no
    compose block is written -/
def groupOrders (S : Schema) (o : Opts) : List (List (Text × List Text) × List (Text × List Text)) :=
  let gm := composeGroups (allDirectives S)
  let gs := linkGroups (allDirectives S)
  if o.federation && o.compose && gm.length == gs.length && gm.length ≤ 5 then
    (perms (gm.zip gs)).map List.unzip
  else [(gm, gs)]

/-- verdict for one option set: 0 OK, 1 TIE, 2 KNOWN id, 3 VIOL -/
def judgeOne (known : List String) (k : Kind) (S : Schema) (Sof : List String → Schema) (o : Opts) (implSdl : Text) (crate : Sexp) : Nat × String × String × String :=
  -- `S`: the schema the declarations mean (specification side); `Sof ids`: what the crate registers
  -- for them with the listed findings `ids` still in the tree (model side; `= S` unless a finding
  -- about registration is listed)
  let runG := fun (D : Defects) (k : Kind) (ids : List String) (o : Opts) (g : List (Text × List Text)) =>
    AGV.Model.Sdl.runG D k (Sof ids) o g
  let listed := findingIds.filter known.contains
  -- the order of the compose groups: the one under which the model's text is the real text; the
  -- listed findings that are still in the tree: all of them, or (a fix diff applied before its
  -- finding is flipped to fixed) the largest subset under which the model's text is the real text
  let orders := groupOrders S o
  let cands := if listed.length ≤ 6 then subsets listed else [listed, []]
  let hit := cands.findSome? (fun ids => (orders.find? (fun g => implSdl = runG (defectsOf ids) k ids o g.1)).map (fun g => (ids, g)))
  let (mine, gm, gs) := hit.getD (listed, composeGroups (allDirectives S), linkGroups (allDirectives S))
  let modelK := runG (defectsOf mine) k mine o gm
  let parsed := parseSchema implSdl
  let present := match parsed with
    | some doc => presentBuiltins doc
    | none => []
  let expected := describe o S (allDirectives S) gs present
  let want := render (cDoc expected)
  let got := render (cResult parsed)
  let propOk := got = want
  let crateOk := render crate = want
  -- listed finding about the crate's own parser: every directive definition comes back repeatable
  let wantRep := render (cDoc (expected.map (fun d => match d with
    | .directive n ds as _ ls => .directive n ds as true ls
    | d => d)))
  let crateKnown := known.contains parserFinding && render crate = wantRep
  if propOk then
    if !crateOk && !crateKnown then (3, "", "crate-parser-disagrees", want)
    else if !crateOk then
      (if implSdl = modelK then (2, parserFinding, wantRep, want) else (1, "", String.ofList modelK, want))
    else if implSdl = modelK then (0, "", "", "")
    else if implSdl = runG Defects.none k [] o gm then (0, "", "", "")
    else (1, "", String.ofList modelK, want)
  else if implSdl = modelK then
    -- attribute to the first listed finding whose removal changes the text
    match mine.find? (fun id => runG (defectsOf (mine.filter (· ≠ id))) k (mine.filter (· ≠ id)) o gm ≠ modelK) with
    | some id => (2, id, String.ofList modelK, want)
    | none =>
      -- several listed defects act together (removing any single one leaves the text unchanged,
      -- e.g. `\"` in a single-line description): attribute to the first listed one, provided the
      -- fully repaired exporter's text does satisfy the property on this case
      let fixedSdl := runG Defects.none k [] o gm
      let fixedDoc := parseSchema fixedSdl
      let fixedWant := render (cDoc (describe o S (allDirectives S) gs
        (match fixedDoc with | some d => presentBuiltins d | none => [])))
      match mine with
      | id :: _ =>
        if fixedSdl ≠ modelK && render (cResult fixedDoc) = fixedWant then (2, id, String.ofList modelK, want)
        else (3, "", "unexplained got=" ++ got, want)
      | [] => (3, "", "unexplained got=" ++ got, want)
  else (3, "", s!"prop={decide propOk} crate={decide crateOk} tie=false got={got} MODEL=" ++ String.ofList modelK, want)

def judge (known : List String) (case impl : String) : JudgeOut :=
  match parse case, parse impl with
  | some (.list [.atom "sdl", .list (.atom "optsets" :: os), sch]), some (.list (.atom "outs" :: outs)) =>
    -- `dyn`: built with async_graphql::dynamic; `static`, `static2`, `static3`, `static4`: derive-built
    let k : Kind := match sch with
      | .list (.atom "dyn" :: _) => .dynamic
      | _ => .derived
    -- declared Rust types: specification side = what they mean; model side = what is registered
    match rewriteRty {} sch, rewriteRty (rtyDefects [ptrFinding]) sch with
    | .error e, _ => .viol e e
    | _, .error e => .viol e e
    | .ok schS, .ok schP =>
    match schema schS, schema schP, os.mapM opts with
    | some S, some SP, some os =>
      let Sof := fun (ids : List String) => if ids.contains ptrFinding then SP else S
      if os.length ≠ outs.length then .viol "bad-output" "bad-output"
      else
        let rs := (os.zip outs).map (fun p =>
          match p.2 with
          | .list [.atom "out", .list [.atom "sdl", .str sdl], .list [.atom "crate", c]] => judgeOne known k S Sof p.1 sdl c
          | _ => (3, "", "bad-output", "bad-output"))
        match rs.find? (fun r => r.1 = 3) with
        | some r => .viol (Sexp.quote r.2.2.1.toList) r.2.2.2
        | none =>
          match (rs.find? (fun r => r.1 = 2 && r.2.1 ≠ parserFinding)).orElse (fun _ => rs.find? (fun r => r.1 = 2)) with
          | some r => .known r.2.1 (Sexp.quote r.2.2.1.toList) r.2.2.2
          | none =>
            match rs.find? (fun r => r.1 = 1) with
            | some r => .tie (Sexp.quote r.2.2.1.toList) r.2.2.2
            | none => .ok
    | _, _, _ => .viol "bad-case" "bad-case"
  | _, _ => .viol "bad-case" "bad-case"

end AGV.Drive.C17

def main (args : List String) : IO UInt32 := AGV.runJudge AGV.Drive.C17.judge args
