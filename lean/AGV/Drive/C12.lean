import AGV.Util.Sexp
import AGV.Util.Judge
import AGV.Model.Hostile
import AGV.Model.HostileNum

/-!
  Judge of property C12.  The specification is a predicate on the implementation's answer:
  it is `ok`, `err` or `(ok …)` — never `(panic …)`, `(abort …)`, `(timeout)`.

  * `marker` cases: the model predicts the answer exactly (`Model.Hostile.markerRun`), panics
    included under the two upload toggles → ordinary triage against the toggle-free model.
  * `doc (nest KIND N)` cases: the model predicts `ok`/`err` (`nestAnswer`); an `(abort …)` is the
    listed stack-overflow finding iff the family nests `N ≥ abortFloor` deep (the exact threshold
    depends on the stack the runtime provides — the harness calibrates it, `calib` cases); above
    the floor both `ok` and `err` are accepted when nothing crashes (a repaired tree refuses
    such documents, the pinned one parses them when the stack happens to suffice).
    A `(timeout)` is the listed fragment-bomb finding iff the family is `fragbomb`, executed,
    with `N ≥ bombFloor`.
  * `doc (lit …)`, `body`, `qs`, `ws` cases: the predicate only; a panic inside
    src/types/upload.rs on a payload that carries the internal marker is the listed upload finding; an `(abort …)` is the listed
    stack-overflow finding iff the text nests brackets `≥ abortFloor` deep (`nestingDepth` for a
    document, `rawDepth` — brackets inside strings included — for transport payloads, which carry
    the document inside JSON / percent encoding).
-/

open AGV AGV.Sexp AGV.Model.Hostile

namespace AGV.Drive.C12

def idParse : String := "C12-forged-upload-marker-panics"
def idValue : String := "C12-upload-index-without-file-panics"
def idDeep : String := "C12-deep-nesting-stack-overflow"
def idBomb : String := "C12-fragment-bomb-exponential"

/-- no listed abort below this nesting depth (the smallest observed threshold is 4096 on a 2 MiB stack) -/
def abortFloor : Nat := 512
/-- 4^(n-1) expansions: seconds from n = 10 on; below that the answer must arrive -/
def bombFloor : Nat := 10

def outcomeSexp : Outcome Nat → Sexp
  | .ok k => .list [.atom "ok", .str (("f" ++ toString k).toList)]
  | .err => .atom "err"
  | .panic => .list [.atom "panic", .str "src/types/upload.rs".toList]

def safe (impl : Sexp) : Bool :=
  match impl with
  | .atom "ok" => true
  | .atom "err" => true
  | .list (.atom "ok" :: _) => true
  | _ => false

def isAbort : Sexp → Bool
  | .list (.atom "abort" :: _) => true
  | _ => false

def isTimeout : Sexp → Bool
  | .list [.atom "timeout"] => true
  | _ => false

def ansAtom : Ans → String
  | .ok => "ok"
  | .err => "err"

def specText : String := "ok | err (never panic / abort / timeout)"

def isUploadPanic : Sexp → Bool
  | .list [.atom "panic", .str f] => f = "src/types/upload.rs".toList
  | _ => false

def hasMarker : List Char → Bool
  | [] => false
  | c :: r => (AGV.Model.UploadBind.stripPrefix marker (c :: r)).isSome || hasMarker r

/-- `markerAllowed`: the payload carries the internal upload marker and an upload toggle is
    listed — a panic inside src/types/upload.rs is then that finding reached through this
    entry point (the `markers` stream predicts it exactly; here it is only attributed). -/
def predicateOnly (D : Defects) (impl : Sexp) (implS : String) (deepAllowed markerPresent : Bool) : JudgeOut :=
  if safe impl then .ok
  else if isAbort impl && deepAllowed then .known idDeep implS specText
  else if isUploadPanic impl && markerPresent && D.parseUnwrap then .known idParse implS specText
  else if isUploadPanic impl && markerPresent && D.valueIndex then .known idValue implS specText
  else .viol "ok | err" specText


-- ------------------------------------------------------------------ numbers

open AGV.Model.HostileNum in
def numAnsSexp : NAns → Sexp
  | .data (.int n) => .list [.atom "ok", .str (toString n).toList]
  | .data .float => .list [.atom "ok", .str "f".toList]
  | .error => .atom "err"
  | .crash => .list [.atom "panic", .str "src/types/external/non_zero_integers.rs".toList]

/-- `-?(0|[1-9][0-9]*)` except `-0` (which serde_json reads as the float -0.0): sign and digits -/
def canonicalInt (s : List Char) : Option (Bool × List Char) :=
  let (neg, ds) := match s with
    | '-' :: r => (true, r)
    | r => (false, r)
  match ds with
  | [] => none
  | ['0'] => if neg then none else some (false, ds)
  | '0' :: _ => none
  | _ => if ds.all Char.isDigit then some (neg, ds) else none

def digitsVal (ds : List Char) : Nat := ds.foldl (fun a c => a * 10 + (c.toNat - 48)) 0

open AGV.Model.HostileNum in
/-- the predicted answer, `none` = only "answered, not crashed" is required.  Numerals of more
    than 40 digits are not converted: beyond u64 every integer position and `ID` answer with an
    error (`lexNumber`), a `Float` position accepts up to about 1.8e308 and the parsers refuse
    what lies beyond — left to the predicate. -/
def numExpected (ty : NTy) (text : List Char) : Option NAns :=
  match canonicalInt text with
  | none => none
  | some (neg, ds) =>
    if ds.length ≤ 40 then
      let n : Int := if neg then -(digitsVal ds : Int) else (digitsVal ds : Int)
      some (numAnswer ty n)
    else
      match ty with
      | .float => none
      | _ => some .error

def strsOf (l : List Sexp) : List String :=
  l.filterMap (fun x => match x with | .str s => some (String.ofList s) | _ => none)

def limOf : Sexp → Option (Option Nat)
  | .atom "-" => some none
  | .atom n => n.toNat?.map some
  | _ => none

def cfgOf : Sexp → Option Cfg
  | .list [.atom "cfg", d, de, cx, rd, .atom fast, .atom nointro] => do
    let d ← limOf d
    let de ← limOf de
    let cx ← limOf cx
    let rd ← limOf rd
    pure { dirs := d, depth := de, cplx := cx, rdepth := rd, fast := fast = "1", nointro := nointro = "1" }
  | _ => none

/-- `[CFG] SPEC` -/
def docParts : List Sexp → Option (Cfg × Sexp)
  | [spec] => some ({}, spec)
  | [c, spec] => (cfgOf c).map (fun c => (c, spec))
  | _ => none

def judge (known : List String) (case impl : String) : JudgeOut :=
  let D : Defects :=
    { parseUnwrap := known.contains idParse, valueIndex := known.contains idValue,
      noNestingLimit := known.contains idDeep, spreadsExpanded := known.contains idBomb }
  match parse case, parse impl with
  | some c, some i =>
    match c with
    | .list [.atom "marker", .atom _, .str s, .atom n, .atom _] =>
      let n := n.toNat?.getD 0
      let f (D : Defects) : String := render (outcomeSexp (markerRun D s n))
      triage impl (f Defects.none) (f D)
        [(idParse, f { D with parseUnwrap := false }), (idValue, f { D with valueIndex := false })]
    | .list (.atom "doc" :: .atom mode :: restC) =>
      match docParts restC with
      | none => .viol "bad-case" "bad-case"
      | some (cfg, .list [.atom "nest", .atom kind, .atom n]) =>
        let n := n.toNat?.getD 0
        let exec := mode.startsWith "exec"
        let deep := deepKind kind && n ≥ abortFloor
        let refused (D : Defects) : Bool := !D.noNestingLimit && nestTextDepth kind n > nestingLimit
        -- default configuration: the answer is predicted exactly; any other: only what every
        -- configuration must refuse (`mustErr`), the rest is configuration-dependent
        let exact := !exec || cfg.isDefault
        let expected (D : Defects) : Option String :=
          if exact then (nestAnswerD D exec kind n).map ansAtom
          else if refused D || mustErr cfg kind n then some "err" else none
        let modelS := match expected D with | some a => a | none => "ok | err"
        if isAbort i then
          if deep && D.noNestingLimit then .known idDeep impl specText else .viol modelS specText
        else if isTimeout i then
          if kind = "fragbomb" && exec && n ≥ bombFloor && D.spreadsExpanded then .known idBomb impl specText
          else .viol modelS specText
        else if !safe i then .viol modelS specText
        else if deep && D.noNestingLimit then .ok
        else if kind = "fragbomb" && exec && n ≥ bombFloor then .ok
        else if expected D = none || some impl = expected D || some impl = expected Defects.none then .ok
        else .tie modelS specText
      | some (_, .list [.atom "lit", .str t]) =>
        predicateOnly D i impl (D.noNestingLimit && nestingDepth t ≥ abortFloor) (hasMarker t)
      | some _ => .viol "bad-case" "bad-case"
    | .list [.atom "calib", .atom _, .atom _] =>
      match i with
      | .list [.atom "threshold", .atom "none"] => .ok
      | .list [.atom "threshold", .atom n] =>
        if D.noNestingLimit && n.toNat?.getD 0 ≥ abortFloor then .known idDeep impl "(threshold none)"
        else .viol "(threshold none)" "(threshold none)"
      | _ => .viol "(threshold none)" "(threshold none)"
    | .list [.atom "num", .atom ty, .atom _, .atom _, .str text] =>
      match AGV.Model.HostileNum.tyOfName ty with
      | none => .tie "a numeric type the source tables do not list" specText
      | some nty =>
        match numExpected nty text with
        | some a =>
          let m := render (numAnsSexp a)
          -- the prediction is computed from the table extracted from the tree under test, so it may
          -- itself say `crash` for a mutated source: a crash is a violation whatever the model says
          if !safe i then .viol m specText
          else if impl = m then .ok else .tie m specText
        | none => if safe i then .ok else .viol "ok | err" specText
    | .list [.atom "numtypes"] =>
      match i with
      | .list (.atom "types" :: ts) =>
        let have_ := strsOf ts
        let want := AGV.Model.HostileNum.allTypeNames
        if want.all have_.contains && have_.all want.contains then .ok
        else .tie (toString want) "the probe schema covers every numeric scalar of the source"
      | _ => if safe i then .tie "(types …)" specText else .viol "(types …)" specText
    | .list [.atom "body", _, .str b, .atom _] =>
      predicateOnly D i impl (D.noNestingLimit && rawDepth b ≥ abortFloor) (hasMarker b)
    | .list [.atom "qs", .str b] => predicateOnly D i impl (D.noNestingLimit && rawDepth b ≥ abortFloor) (hasMarker b)
    | .list [.atom "ws", .atom _, .list frames] =>
      predicateOnly D i impl (D.noNestingLimit && frames.any (fun fr =>
        match fr with
        | .str b => rawDepth b ≥ abortFloor
        | _ => false)) (frames.any (fun fr =>
        match fr with
        | .str b => hasMarker b
        | _ => false))
    | _ => .viol "bad-case" "bad-case"
  | _, _ => .viol "unparsable" "unparsable"

end AGV.Drive.C12

def main (args : List String) : IO UInt32 := AGV.runJudge AGV.Drive.C12.judge args
