import AGV.Util.Sexp
import AGV.Util.Judge
import AGV.Model.HttpGet
import AGV.Spec.HttpGet
import AGV.Model.HttpGetBody
import AGV.Spec.HttpGetBody

open AGV AGV.Sexp
open AGV.Spec.HttpGet
open AGV.Model.HttpGet
open AGV.Spec.HttpGetBody
open AGV.Model.HttpGetBody

namespace AGV.Drive.C35

-- ------------------------------------------------------------------ reading a case

def integOf : String → Option Integ
  | "axum" => some .axum | "actix" => some .actix | "poem" => some .poem
  | "warp" => some .warp | "rocket" => some .rocket | _ => none

def integName : Integ → String
  | .axum => "axum" | .actix => "actix" | .poem => "poem" | .warp => "warp" | .rocket => "rocket"

def routeOf : String → Option Route
  | "svc" => some .svc | "single" => some .single | "batch" => some .batch | _ => none

def fldOf : String → Option Fld
  | "a" => some .a | "b" => some .b | "fail" => some .fail | "inc" => some .inc
  | "set" => some .set | "boom" => some .boom | "nope" => some .nope | _ => none

def fldName : Fld → String
  | .a => "a" | .b => "b" | .fail => "fail" | .inc => "inc" | .set => "set" | .boom => "boom" | .nope => "nope"

def nameOf : Sexp → Option (Option String)
  | .atom "none" => some none
  | .list [.atom "some", .str s] => some (some (String.ofList s))
  | _ => none

def opOf : Sexp → Option Op
  | .list [.atom "op", .atom ty, n, .list fs] => do
    let name ← nameOf n
    let fields ← fs.mapM (fun f => match f with | .atom x => fldOf x | _ => none)
    match ty with
    | "query" => some ⟨.query, name, fields⟩
    | "short" => some ⟨.query, none, fields⟩
    | "mutation" => some ⟨.mutation, name, fields⟩
    | "subscription" => some ⟨.subscription, name, fields⟩
    | _ => none
  | _ => none

def docOf : Sexp → Option Doc
  | .list (.atom "doc" :: ops) => (ops.mapM opOf).map .ops
  | .list [.atom "raw", .str _] => some .raw
  | _ => none

def reqOf : Sexp → Option Req
  | .list [.atom "r", d, n, v, .atom q] => do
    let doc ← docOf d
    let opName ← nameOf n
    let v ← match v with
      | .atom "none" => some none
      | .list [.atom "v", x] => (asInt? x).map some
      | _ => none
    let quirk ← match q with
      | "ok" => some Quirk.ok | "noquery" => some .noquery | "badvars" => some .badvars | _ => none
    some ⟨doc, opName, v, quirk⟩
  | _ => none

def bodyOf : Sexp → Option Body
  | .list [.atom "single", r] => (reqOf r).map .single
  | .list (.atom "batch" :: rs) => (rs.mapM reqOf).map .batch
  | _ => none

structure Case where
  integ : Integ
  route : Route
  method : Method
  accept : Accept
  body : Body

def caseOf : Sexp → Option Case
  | .list [.atom "http", .atom i, .atom r, .atom _exec, .atom m, .atom a, b] => do
    let integ ← integOf i
    let route ← routeOf r
    let method ← match m with | "get" => some Method.get | "post" => some .post | _ => none
    let accept ← match a with | "plain" => some Accept.plain | "mixed" => some .mixed | _ => none
    let body ← bodyOf b
    some ⟨integ, route, method, accept, body⟩
  | _ => none

/-- a case of the stream `getbody` -/
structure CaseX where
  integ : Integ
  route : Route
  accept : Accept
  x : ReqX

def caseXOf : Sexp → Option CaseX
  | .list [.atom "httpb", .atom i, .atom r, .atom _exec, .atom m, .atom a, q, .atom ct, .atom cl, b] => do
    let integ ← integOf i
    let route ← routeOf r
    let method ← match m with
      | "get" => some MethodX.get | "post" => some .post | "head" => some .head | "put" => some .put
      | _ => none
    let accept ← match a with | "plain" => some Accept.plain | "mixed" => some .mixed | _ => none
    let qs ← match q with
      | .atom "noq" => some QS.noq
      | .atom "emptyq" => some .emptyq
      | .atom "junk" => some .junk
      | .list [.atom "qs", r] => (reqOf r).map .qs
      | _ => none
    let ct ← match ct with
      | "json" => some CT.json | "gqlresp" => some .gqlresp | "multipart" => some .multipart
      | "absent" => some .absent | _ => none
    let clen ← match cl with | "cl" => some true | "nocl" => some false | _ => none
    let payload ← match b with
      | .atom "empty" => some none
      | b => (bodyOf b).map some
    some ⟨integ, route, accept, ⟨method, qs, ct, clen, payload⟩⟩
  | _ => none

-- ------------------------------------------------------------------ printing / reading an output

def respSexp (r : Resp) : Sexp :=
  .list [.atom "r", .atom (if r.err then "err" else "noerr")]

def entrySexp : Entry → Sexp
  | .q f => .list [.atom "q", ofString (fldName f)]
  | .m f => .list [.atom "m", ofString (fldName f)]
  | .mset v => .list [.atom "m", ofString "set", match v with | some n => ofInt n | none => .atom "null"]

def outSexp (o : Out) : Sexp :=
  .list [.atom "resp", ofNat o.status,
    (match o.body with
      | .single r => .list [.atom "single", respSexp r]
      | .batch rs => .list (.atom "batch" :: rs.map respSexp)
      | .none => .atom "none"),
    .list (.atom "log" :: o.log.map entrySexp)]

def respOf : Sexp → Option Resp
  | .list [.atom "r", .atom e] => some ⟨e == "err"⟩
  | _ => none

def entryOfSexp : Sexp → Option Entry
  | .list [.atom "q", .str f] => (fldOf (String.ofList f)).map .q
  | .list [.atom "m", .str _, .atom "null"] => some (.mset none)
  | .list [.atom "m", .str _, x] => (asInt? x).map (fun n => .mset (some n))
  | .list [.atom "m", .str f] => (fldOf (String.ofList f)).map .m
  | _ => none

/-- the implementation's output, read back for the property predicate; `(multi …)` (several
    parts in a multipart/mixed answer) is read as a batch -/
def outOf : Sexp → Option Out
  | .list [.atom "resp", st, b, .list (.atom "log" :: es)] => do
    let status ← asNat? st
    let body ← match b with
      | .atom "none" => some BodyOut.none
      | .list [.atom "single", r] => (respOf r).map .single
      | .list (.atom "batch" :: rs) => (rs.mapM respOf).map .batch
      | .list (.atom "multi" :: rs) => (rs.mapM respOf).map .batch
      | _ => none
    let log ← es.mapM entryOfSexp
    some ⟨status, body, log⟩
  | _ => none

-- ------------------------------------------------------------------ judge

def findingId (i : Integ) : String := "C35-get-mutation-" ++ integName i

def defectsOf (known : List String) : Defects :=
  { axum := known.contains (findingId .axum), actix := known.contains (findingId .actix),
    poem := known.contains (findingId .poem), warp := known.contains (findingId .warp),
    rocket := known.contains (findingId .rocket) }

/-- stream `getbody`: same triage, the property is `getSafeX` -/
def judgeX (known : List String) (c : CaseX) (impl : String) : JudgeOut :=
  let spec := render (outSexp (handleX srcBranches Defects.none c.integ c.route c.accept c.x))
  let modelK := render (outSexp (handleX srcBranches (defectsOf known) c.integ c.route c.accept c.x))
  if impl = spec then .ok
  else
    let safe := match (parse impl).bind outOf with
      | some o => getSafeX c.x o
      | none => false
    if impl = modelK then
      if safe then .ok
      else if (defectsOf known).unmarked c.integ then .known (findingId c.integ) modelK spec
      else .viol modelK spec
    else if safe then .tie modelK spec
    else .viol modelK spec

def judge (known : List String) (case impl : String) : JudgeOut :=
  match (parse case).bind caseXOf with
  | some c => judgeX known c impl
  | none =>
  match (parse case).bind caseOf with
  | none => .viol "unreadable case" ""
  | some c =>
    let spec := render (outSexp (handle Defects.none c.integ c.route c.method c.accept c.body))
    let modelK := render (outSexp (handle (defectsOf known) c.integ c.route c.method c.accept c.body))
    if impl = spec then .ok
    else
      -- the property itself, evaluated on what the implementation did
      let safe := match (parse impl).bind outOf with
        | some o => getSafe c.method c.body o
        | none => false
      if impl = modelK then
        if safe then .ok
        else if (defectsOf known).unmarked c.integ then .known (findingId c.integ) modelK spec
        else .viol modelK spec
      else if safe then .tie modelK spec
      else .viol modelK spec

end AGV.Drive.C35

def main (args : List String) : IO UInt32 := AGV.runJudge AGV.Drive.C35.judge args
