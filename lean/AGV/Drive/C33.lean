import AGV.Util.Sexp
import AGV.Util.Judge
import AGV.Model.DynCheck
import AGV.Model.DynLookups
import AGV.Spec.TypeSystem

open AGV AGV.Sexp
open AGV.Model.DynCheck (TypeRef InputValue Field TypeDef TypeSystem Defects)

namespace AGV.Drive.C33

def str? : Sexp → Option String
  | .str cs => some (String.ofList cs)
  | _ => none

partial def tyOf : Sexp → Option TypeRef
  | .list [.atom "n", .str cs] => some (.named (String.ofList cs))
  | .list [.atom "nn", t] => (tyOf t).map .nonNull
  | .list [.atom "l", t] => (tyOf t).map .list
  | _ => none

def argOf : Sexp → Option InputValue
  | .list [.atom "a", .str n, t, .atom d] => (tyOf t).map (fun ty => { name := String.ofList n, ty := ty, hasDefault := d == "def" })
  | _ => none

def fieldOf : Sexp → Option Field
  | .list [.atom "f", .str n, t, .list (.atom "args" :: as)] => do
    let ty ← tyOf t
    let args ← as.mapM argOf
    pure { name := String.ofList n, ty := ty, args := args }
  | _ => none

def defOf : Sexp → Option TypeDef
  | .list [.atom "obj", .str n, .list (.atom "impl" :: is), .list (.atom "fields" :: fs)] => do
    pure (.object (String.ofList n) (← is.mapM str?) (← fs.mapM fieldOf))
  | .list [.atom "iface", .str n, .list (.atom "impl" :: is), .list (.atom "fields" :: fs)] => do
    pure (.interface (String.ofList n) (← is.mapM str?) (← fs.mapM fieldOf))
  | .list [.atom "union", .str n, .list (.atom "members" :: ms)] => do pure (.union (String.ofList n) (← ms.mapM str?))
  | .list [.atom "enum", .str n, .list (.atom "items" :: ms)] => do pure (.enum (String.ofList n) (← ms.mapM str?))
  | .list [.atom "input", .str n, .atom o, .list (.atom "fields" :: fs)] => do
    pure (.inputObject (String.ofList n) (o == "oneof") (← fs.mapM argOf))
  | .list [.atom "scalar", .str n] => some (.scalar (String.ofList n))
  | .list [.atom "sub", .str n, .list (.atom "fields" :: fs)] => do pure (.subscription (String.ofList n) (← fs.mapM fieldOf))
  | .list [.atom "upload"] => some .upload
  | _ => none

def optOf : Sexp → Option (Option String)
  | .atom "none" => some none
  | .list [.atom "some", .str cs] => some (some (String.ofList cs))
  | _ => none

def tsOf : Sexp → Option TypeSystem
  | .list [.atom "ts", .atom _, .list [.atom "roots", .str q, m, s], .list (.atom "types" :: ds)] => do
    pure { query := String.ofList q, mutation := ← optOf m, subscription := ← optOf s, types := ← ds.mapM defOf }
  | _ => none

def renderRun : Except String (List String) → String
  | .error e => render (.list [.atom "err", .str e.toList])
  | .ok ps => render (.list (.atom "ok" :: ps.map (fun p => .list [.atom "panic", .atom p])))

def idReversed := "C33-field-subtype-reversed"
def idNamed := "C33-abstract-covariant-return-rejected"
def idNullArg := "C33-nullable-interface-argument-omittable"
def idArgCov := "C33-argument-type-not-invariant"
def idExtra := "C33-extra-required-argument-accepted"
def idSubRoot := "C33-missing-subscription-root-accepted"
def idSubFields := "C33-subscription-fields-unchecked"
def idIfaceLoop := "C33-fieldless-interface-implementations-unchecked"

def defectsOf (known : List String) : Defects :=
  { subtypeReversed := known.contains idReversed, noNamedCovariance := known.contains idNamed,
    nullableArgOmittable := known.contains idNullArg, argCovariant := known.contains idArgCov,
    extraRequiredArgs := known.contains idExtra, subscriptionRootUnchecked := known.contains idSubRoot,
    subscriptionFieldsUnchecked := known.contains idSubFields, ifaceImplInsideFieldLoop := known.contains idIfaceLoop }

def allIds : List String := [idReversed, idNamed, idNullArg, idArgCov, idExtra, idSubRoot, idSubFields, idIfaceLoop]

/-- The property as a predicate on the observed behaviour:
    accepted ⇒ the required rules hold; all of §3 holds ⇒ accepted; accepted ⇒ nothing panicked.
    Between the two (required rules hold, another §3 rule does not) either verdict satisfies it. -/
def satisfies (T : TypeSystem) (impl : String) : Bool :=
  let accepted := impl.startsWith "(ok"
  let req := Spec.TypeSystem.required? T
  let full := req && Spec.TypeSystem.extra? T
  (!accepted || req) && (!full || accepted) && (!accepted || impl == "(ok)")

def specText (T : TypeSystem) : String :=
  if Spec.TypeSystem.required? T then
    (if Spec.TypeSystem.extra? T then "must-accept" else "either (a rule the statement does not list fails)")
  else "must-reject"

def judge (known : List String) (case impl : String) : JudgeOut :=
  match (parse case).bind tsOf with
  | none => .viol "bad-case" "bad-case"
  | some T =>
    let DK := defectsOf known
    let modelK := renderRun (Model.DynLookups.run DK T)
    let spec := specText T
    if satisfies T impl then
      if impl = modelK then .ok else .tie modelK spec
    else if impl = modelK then
      -- a listed finding manifests: name the first whose removal changes the model's output
      let mine := allIds.filter known.contains
      let off (id : String) : Defects := defectsOf (known.filter (· ≠ id))
      match mine.find? (fun id => renderRun (Model.DynLookups.run (off id) T) ≠ modelK) with
      | some id => .known id modelK spec
      | none => match mine with
        | id :: _ => .known id modelK spec
        | [] => .viol modelK spec
    else .viol modelK spec

end AGV.Drive.C33

def main (args : List String) : IO UInt32 := AGV.runJudge AGV.Drive.C33.judge args
