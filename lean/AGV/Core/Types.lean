/-
  Shared data types of the executor / validation family (C01–C06, C09, C10, C20–C22, C30):
  values, type references, schema descriptions, executable documents, data worlds.
  Import-free apart from the wire format.
-/
import AGV.Util.Sexp

namespace AGV.Core
open AGV

/-- GraphQL / JSON values.  Floats are opaque canonical tokens (never compared numerically). -/
inductive GValue where
  | null
  | int (i : Int)
  | float (tok : String)
  | str (s : String)
  | bool (b : Bool)
  | enum (n : String)
  | list (xs : List GValue)
  | obj (fs : List (String × GValue))
  deriving Repr, Inhabited, BEq

inductive TypeRef where
  | named (n : String)
  | list (t : TypeRef)
  | nonNull (t : TypeRef)
  deriving Repr, Inhabited, BEq, DecidableEq

namespace TypeRef
def base : TypeRef → String
  | named n => n
  | list t => t.base
  | nonNull t => t.base
def isNonNull : TypeRef → Bool
  | nonNull _ => true
  | _ => false
/-- strip one outer `!` -/
def nullable : TypeRef → TypeRef
  | nonNull t => t
  | t => t
def render : TypeRef → String
  | named n => n
  | list t => "[" ++ t.render ++ "]"
  | nonNull t => t.render ++ "!"
end TypeRef

structure ArgDef where
  name : String
  ty : TypeRef
  default : Option GValue
  deriving Repr, Inhabited, BEq

structure FieldDef where
  name : String
  ty : TypeRef
  args : List ArgDef
  deriving Repr, Inhabited, BEq

inductive Kind where
  | scalar | object | interface | union | enum | input
  deriving Repr, Inhabited, BEq, DecidableEq

structure TypeDef where
  name : String
  kind : Kind
  fields : List FieldDef := []
  /-- interfaces this object / interface implements (as registered) -/
  implements : List String := []
  /-- union members -/
  members : List String := []
  /-- enum values -/
  values : List String := []
  deriving Repr, Inhabited, BEq

structure Schema where
  types : List TypeDef
  query : String
  mutation : Option String := none
  subscription : Option String := none
  deriving Repr, Inhabited

namespace Schema
def find? (S : Schema) (n : String) : Option TypeDef := S.types.find? (·.name = n)
def kindOf (S : Schema) (n : String) : Option Kind := (S.find? n).map (·.kind)
def field? (S : Schema) (ty fname : String) : Option FieldDef :=
  match S.find? ty with
  | some t => t.fields.find? (·.name = fname)
  | none => none
/-- object types that are possible runtime types of `n` -/
def possibleTypes (S : Schema) (n : String) : List String :=
  match S.find? n with
  | none => []
  | some t =>
    match t.kind with
    | .object => [n]
    | .interface => (S.types.filter (fun o => o.kind == .object && o.implements.contains n)).map (·.name)
    | .union => t.members
    | _ => []
def isComposite (S : Schema) (n : String) : Bool :=
  match S.kindOf n with
  | some .object => true
  | some .interface => true
  | some .union => true
  | _ => false
end Schema

/-- values as written in documents (may contain variables) -/
inductive DValue where
  | var (n : String)
  | null
  | int (i : Int)
  | float (tok : String)
  | str (s : String)
  | bool (b : Bool)
  | enum (n : String)
  | list (xs : List DValue)
  | obj (fs : List (String × DValue))
  deriving Repr, Inhabited, BEq

structure Dir where
  name : String
  args : List (String × DValue)
  deriving Repr, Inhabited, BEq

structure Pos where
  line : Nat
  col : Nat
  deriving Repr, Inhabited, BEq, DecidableEq

inductive Sel where
  | field (alias : Option String) (name : String) (args : List (String × DValue)) (dirs : List Dir)
      (sels : List Sel) (pos : Pos)
  | spread (name : String) (dirs : List Dir) (pos : Pos)
  | inline (cond : Option String) (dirs : List Dir) (sels : List Sel) (pos : Pos)
  deriving Repr, Inhabited, BEq

structure VarDef where
  name : String
  ty : TypeRef
  default : Option GValue
  deriving Repr, Inhabited, BEq

structure FragDef where
  name : String
  cond : String
  dirs : List Dir
  sels : List Sel
  deriving Repr, Inhabited, BEq

inductive OpType where
  | query | mutation | subscription
  deriving Repr, Inhabited, BEq, DecidableEq

structure OpDef where
  ty : OpType
  name : Option String
  vars : List VarDef
  dirs : List Dir
  sels : List Sel
  deriving Repr, Inhabited, BEq

structure Doc where
  ops : List OpDef
  frags : List FragDef
  deriving Repr, Inhabited, BEq

namespace Doc
def frag? (d : Doc) (n : String) : Option FragDef := d.frags.find? (·.name = n)
end Doc

/-- what a data-driven resolver returns -/
inductive RVal where
  | null
  | leaf (v : GValue)
  | obj (ty : String) (id : Nat)
  | list (xs : List RVal)
  | fail (msg : String)
  /-- the resolver echoes the coerced value of its argument `name` -/
  | arg (name : String)
  deriving Repr, Inhabited, BEq

/-- a data world: the value of field `f` of the object with identity `id` -/
structure World where
  entries : List ((Nat × String) × RVal)
  deriving Repr, Inhabited

namespace World
def get (w : World) (id : Nat) (f : String) : RVal :=
  match w.entries.find? (fun e => e.1.1 = id && e.1.2 = f) with
  | some e => e.2
  | none => .null
end World

inductive PathSeg where
  | key (s : String)
  | idx (n : Nat)
  deriving Repr, Inhabited, BEq, DecidableEq

structure GErr where
  path : List PathSeg
  pos : Pos
  deriving Repr, Inhabited, BEq, DecidableEq

/-- one resolver invocation: parent object identity, field name, response key -/
structure Inv where
  parent : Nat
  field : String
  key : String
  deriving Repr, Inhabited, BEq, DecidableEq

/-- result of executing a selection set or completing a value:
    `val = none` means a field error is propagating upwards (at top level: `"data": null`) -/
structure Res where
  val : Option GValue
  errs : List GErr := []
  log : List Inv := []
  deriving Repr, Inhabited

def Inv.toSexp (i : Inv) : Sexp := .list [.atom (toString i.parent), .str i.field.toList, .str i.key.toList]

-- ------------------------------------------------------------------ printing (canonical, same as harness)

namespace GValue
partial def toSexp : GValue → Sexp
  | null => .atom "null"
  | int i => .atom (toString i)
  | float t => .list [.atom "f", .str t.toList]
  | str s => .str s.toList
  | bool b => .atom (if b then "true" else "false")
  | enum n => .list [.atom "e", .str n.toList]
  | list xs => .list (.atom "list" :: xs.map toSexp)
  | obj fs => .list (.atom "obj" :: fs.map (fun p => .list [.str p.1.toList, toSexp p.2]))
end GValue

def PathSeg.toSexp : PathSeg → Sexp
  | .key s => .str s.toList
  | .idx n => .atom (toString n)

def GErr.toSexp (e : GErr) : Sexp :=
  .list [.list (e.path.map PathSeg.toSexp), .atom (toString e.pos.line), .atom (toString e.pos.col)]

-- ------------------------------------------------------------------ decoding from the wire

namespace Decode
open Sexp

def str? : Sexp → Option String
  | .str cs => some (String.ofList cs)
  | _ => none

def optStr? : Sexp → Option (Option String)
  | .atom "none" => some none
  | .str cs => some (some (String.ofList cs))
  | _ => none

partial def gvalue? : Sexp → Option GValue
  | .atom "null" => some .null
  | .atom "true" => some (.bool true)
  | .atom "false" => some (.bool false)
  | .atom a => a.toInt?.map .int
  | .str cs => some (.str (String.ofList cs))
  | .list [.atom "f", .str t] => some (.float (String.ofList t))
  | .list [.atom "e", .str t] => some (.enum (String.ofList t))
  | .list (.atom "list" :: xs) => (xs.mapM gvalue?).map .list
  | .list (.atom "obj" :: fs) =>
    (fs.mapM (fun (f : Sexp) => match f with
      | .list [.str k, v] => (gvalue? v).map (fun v' => (String.ofList k, v'))
      | _ => none)).map .obj
  | _ => none

partial def typeRef? : Sexp → Option TypeRef
  | .str cs => some (.named (String.ofList cs))
  | .list [.atom "list", t] => (typeRef? t).map .list
  | .list [.atom "nn", t] => (typeRef? t).map .nonNull
  | _ => none

partial def dvalue? : Sexp → Option DValue
  | .atom "null" => some .null
  | .atom "true" => some (.bool true)
  | .atom "false" => some (.bool false)
  | .atom a => a.toInt?.map .int
  | .str cs => some (.str (String.ofList cs))
  | .list [.atom "var", .str n] => some (.var (String.ofList n))
  | .list [.atom "f", .str t] => some (.float (String.ofList t))
  | .list [.atom "e", .str t] => some (.enum (String.ofList t))
  | .list (.atom "list" :: xs) => (xs.mapM dvalue?).map .list
  | .list (.atom "obj" :: fs) =>
    (fs.mapM (fun (f : Sexp) => match f with
      | .list [.str k, v] => (dvalue? v).map (fun v' => (String.ofList k, v'))
      | _ => none)).map .obj
  | _ => none

def args? (xs : List Sexp) : Option (List (String × DValue)) :=
  xs.mapM (fun (f : Sexp) => match f with
    | .list [.str k, v] => (dvalue? v).map (fun v' => (String.ofList k, v'))
    | _ => none)

def dir? : Sexp → Option Dir
  | .list (.atom "dir" :: .str n :: as) => (args? as).map (fun a => { name := String.ofList n, args := a })
  | _ => none

def pos? : Sexp → Option Pos
  | .list [l, c] => do some { line := ← asNat? l, col := ← asNat? c }
  | _ => none

/-- `(field ALIAS NAME (args…) (dirs…) (sels…) (l c))`, `(spread NAME (dirs…) (l c))`,
    `(inline COND (dirs…) (sels…) (l c))` -/
partial def sel? : Sexp → Option Sel
  | .list [.atom "field", al, .str n, .list as, .list ds, .list ss, p] => do
    some (.field (← optStr? al) (String.ofList n) (← args? as) (← ds.mapM dir?) (← ss.mapM sel?) (← pos? p))
  | .list [.atom "spread", .str n, .list ds, p] => do
    some (.spread (String.ofList n) (← ds.mapM dir?) (← pos? p))
  | .list [.atom "inline", c, .list ds, .list ss, p] => do
    some (.inline (← optStr? c) (← ds.mapM dir?) (← ss.mapM sel?) (← pos? p))
  | _ => none

def optG? : Sexp → Option (Option GValue)
  | .atom "none" => some none
  | .list [.atom "some", v] => (gvalue? v).map some
  | _ => none

def varDef? : Sexp → Option VarDef
  | .list [.atom "vardef", .str n, t, d] => do
    some { name := String.ofList n, ty := ← typeRef? t, default := ← optG? d }
  | _ => none

def opType? : Sexp → Option OpType
  | .atom "query" => some .query
  | .atom "mutation" => some .mutation
  | .atom "subscription" => some .subscription
  | _ => none

/-- `(op TYPE NAME (vardefs…) (dirs…) (sels…))` -/
def op? : Sexp → Option OpDef
  | .list [.atom "op", t, n, .list vs, .list ds, .list ss] => do
    some { ty := ← opType? t, name := ← optStr? n, vars := ← vs.mapM varDef?, dirs := ← ds.mapM dir?,
           sels := ← ss.mapM sel? }
  | _ => none

/-- `(frag NAME COND (dirs…) (sels…))` -/
def frag? : Sexp → Option FragDef
  | .list [.atom "frag", .str n, .str c, .list ds, .list ss] => do
    some { name := String.ofList n, cond := String.ofList c, dirs := ← ds.mapM dir?, sels := ← ss.mapM sel? }
  | _ => none

/-- `(doc (ops…) (frags…))` -/
def doc? : Sexp → Option Doc
  | .list [.atom "doc", .list os, .list fs] => do some { ops := ← os.mapM op?, frags := ← fs.mapM frag? }
  | _ => none

def argDef? : Sexp → Option ArgDef
  | .list [.atom "arg", .str n, t, d] => do
    some { name := String.ofList n, ty := ← typeRef? t, default := ← optG? d }
  | _ => none

def fieldDef? : Sexp → Option FieldDef
  | .list [.atom "fd", .str n, t, .list as] => do
    some { name := String.ofList n, ty := ← typeRef? t, args := ← as.mapM argDef? }
  | _ => none

def kind? : Sexp → Option Kind
  | .atom "scalar" => some .scalar
  | .atom "object" => some .object
  | .atom "interface" => some .interface
  | .atom "union" => some .union
  | .atom "enum" => some .enum
  | .atom "input" => some .input
  | _ => none

def strs? (xs : List Sexp) : Option (List String) := xs.mapM str?

/-- `(type NAME KIND (fields…) (implements…) (members…) (values…))` -/
def typeDef? : Sexp → Option TypeDef
  | .list [.atom "type", .str n, k, .list fs, .list is, .list ms, .list vs] => do
    some { name := String.ofList n, kind := ← kind? k, fields := ← fs.mapM fieldDef?, implements := ← strs? is,
           members := ← strs? ms, values := ← strs? vs }
  | _ => none

/-- `(schema QUERY MUTATION SUBSCRIPTION (types…))` -/
def schema? : Sexp → Option Schema
  | .list [.atom "schema", .str q, m, s, .list ts] => do
    some { types := ← ts.mapM typeDef?, query := String.ofList q, mutation := ← optStr? m,
           subscription := ← optStr? s }
  | _ => none

partial def rval? : Sexp → Option RVal
  | .atom "null" => some .null
  | .list [.atom "leaf", v] => (gvalue? v).map .leaf
  | .list [.atom "o", .str t, id] => do some (.obj (String.ofList t) (← asNat? id))
  | .list (.atom "l" :: xs) => (xs.mapM rval?).map .list
  | .list [.atom "fail", .str m] => some (.fail (String.ofList m))
  | .list [.atom "arg", .str m] => some (.arg (String.ofList m))
  | _ => none

/-- `(world ((ID FIELD) RVAL) …)` -/
def world? : Sexp → Option World
  | .list (.atom "world" :: es) => do
    let es ← es.mapM (fun (e : Sexp) => match e with
      | .list [.list [id, .str f], v] => do some ((← asNat? id, String.ofList f), ← rval? v)
      | _ => none)
    some { entries := es }
  | _ => none

/-- `(vars (NAME VALUE) …)` -/
def vars? : Sexp → Option (List (String × GValue))
  | .list (.atom "vars" :: es) =>
    es.mapM (fun (e : Sexp) => match e with
      | .list [.str k, v] => (gvalue? v).map (fun v' => (String.ofList k, v'))
      | _ => none)
  | _ => none

end Decode

end AGV.Core
