/-
  C20: data shared by the model and the specification of the cache policy: a policy value, the
  address of a hint in the registry, the table of hints.  Import-free.
-/
namespace AGV.Core.Cache

/-- `CacheControl { public, max_age }` -/
structure CC where
  isPublic : Bool
  maxAge : Int
  deriving Repr, Inhabited, DecidableEq

/-- the address of a cache hint in the registry: an object type, or a field of a type -/
structure Key where
  ty : String
  field : Option String
  deriving Repr, Inhabited, DecidableEq

/-- hints as declared (`#[graphql(cache_control(...))]`); everything not listed is "no hint" -/
abbrev Hints := List (Key × CC)

/-- "no hint": `public`, max_age 0 -/
def noHint : CC := ⟨true, 0⟩

def hintOf (H : Hints) (k : Key) : CC :=
  match H.find? (·.1 = k) with
  | some p => p.2
  | none => noHint

end AGV.Core.Cache
