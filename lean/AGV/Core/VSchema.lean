/-
  C09: description of a registry for validation — types (Core.Schema; `members` holds the POSSIBLE
  TYPES of interfaces and unions), directive definitions, input-object definitions.
-/
import AGV.Core.Types

namespace AGV.Core

structure DirDef where
  name : String
  repeatable : Bool
  locs : List String
  args : List ArgDef
  deriving Repr, Inhabited

structure InputDef where
  name : String
  oneof : Bool
  fields : List ArgDef
  deriving Repr, Inhabited

structure VSchema where
  base : Schema
  dirs : List DirDef
  inputs : List InputDef
  /-- names of the object types registered with `is_subscription: true` (C09: the flag by which
      `visit_selection` recognises a subscription root; it never looks at `subscription_type`) -/
  subFlag : List String := []
  deriving Repr, Inhabited

end AGV.Core
