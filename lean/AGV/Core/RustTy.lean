/-
  The declared Rust type language of arguments, input fields and field results (C17 / C18,
  derive-built schemas): named GraphQL types (scalars, enums, objects …: whatever implements
  `InputType` / `OutputType` with a fixed `type_name`), the built-in list containers, the two
  nullable wrappers and the transparent pointers.  Core-only; the wire decoder is used by the
  drivers only.
-/
import AGV.Util.Sexp

namespace AGV.Core.RustTy
open AGV

/-- `Vec<T>`, `VecDeque<T>`, `LinkedList<T>`, `HashSet<T>`, `BTreeSet<T>`, `[T; N]`, `&[T]`,
    `Box<[T]>`, `Arc<[T]>` (src/types/external/list/*.rs) -/
inductive ListKind where
  | vec | vecDeque | linkedList | hashSet | btreeSet | array | slice | boxSlice | arcSlice
  deriving Repr, Inhabited, DecidableEq

/-- `Box<T>`, `Arc<T>`, `&T` (src/base.rs) -/
inductive PtrKind where
  | box | arc | ref
  deriving Repr, Inhabited, DecidableEq

inductive RTy where
  /-- a type whose `type_name()` is `n` and which keeps the default `qualified_type_name` -/
  | leaf (n : String)
  | list (k : ListKind) (t : RTy)
  /-- `Option<T>` -/
  | option (t : RTy)
  /-- `MaybeUndefined<T>` -/
  | undef (t : RTy)
  | ptr (k : PtrKind) (t : RTy)
  deriving Repr, Inhabited, DecidableEq

/-- a GraphQL type reference (the shape of the registry's type strings: `format!("[{}]", x)` is
    `list x`, `format!("{}!", x)` is `nonNull x`) -/
inductive RRef where
  | named (n : String)
  | list (t : RRef)
  | nonNull (t : RRef)
  deriving Repr, Inhabited, DecidableEq

namespace RRef
def render : RRef → String
  | named n => n
  | list t => "[" ++ t.render ++ "]"
  | nonNull t => t.render ++ "!"
/-- strip one outer `!` -/
def nullable : RRef → RRef
  | nonNull t => t
  | t => t
end RRef

def listKind? : String → Option ListKind
  | "vec" => some .vec
  | "vecDeque" => some .vecDeque
  | "linkedList" => some .linkedList
  | "hashSet" => some .hashSet
  | "btreeSet" => some .btreeSet
  | "array" => some .array
  | "slice" => some .slice
  | "boxSlice" => some .boxSlice
  | "arcSlice" => some .arcSlice
  | _ => none

def ptrKind? : String → Option PtrKind
  | "box" => some .box
  | "arc" => some .arc
  | "ref" => some .ref
  | _ => none

/-- wire form: `(leaf "Int")`, `(vec R)` …, `(option R)`, `(undef R)`, `(box R)` … -/
partial def decode? : Sexp → Option RTy
  | .list [.atom "leaf", .str n] => some (.leaf (String.ofList n))
  | .list [.atom "option", r] => (decode? r).map .option
  | .list [.atom "undef", r] => (decode? r).map .undef
  | .list [.atom k, r] =>
    match listKind? k, ptrKind? k with
    | some lk, _ => (decode? r).map (.list lk)
    | none, some pk => (decode? r).map (.ptr pk)
    | none, none => none
  | _ => none

end AGV.Core.RustTy
