/-
  Type-system side of property C17: the abstract schema a case describes (what was registered),
  the export options, and the type-system document a piece of SDL denotes (`SDef`), with its
  canonical printed form (the same text the harness prints from the crate's `ServiceDocument`).
  Names and texts are `List Char`.  Core-only.
-/
import AGV.Core.PAst
import AGV.Core.LValue

namespace AGV.Core.Sdl
open AGV.Core.PAst AGV.Sexp

abbrev Text := List Char

/-- constant values a schema can carry as defaults / directive arguments (floats are not generated:
    their text is opaque, property C15) -/
inductive SValue where
  | null
  | int (i : Int)
  | str (s : Text)
  | bool (b : Bool)
  | enum (n : Text)
  | list (xs : List SValue)
  | obj (fs : List (Text × SValue))
  deriving Repr, Inhabited, BEq

mutual
/-- as a printable literal value (C15's printer) -/
def SValue.toL : SValue → AGV.Core.LValue
  | .null => .null
  | .int i => .int i
  | .str s => .str s
  | .bool b => .bool b
  | .enum n => .enum n
  | .list xs => .list (SValue.toLs xs)
  | .obj fs => .obj (SValue.toLf fs)
def SValue.toLs : List SValue → List AGV.Core.LValue
  | [] => []
  | x :: r => x.toL :: SValue.toLs r
def SValue.toLf : List (Text × SValue) → List (Text × AGV.Core.LValue)
  | [] => []
  | (k, v) :: r => (k, v.toL) :: SValue.toLf r
end

mutual
/-- as a parsed value -/
def SValue.toP : SValue → PValue
  | .null => .null
  | .int i => .int i
  | .str s => .str s
  | .bool b => .bool b
  | .enum n => .enum n
  | .list xs => .list (SValue.toPs xs)
  | .obj fs => .obj (SValue.toPf fs)
def SValue.toPs : List SValue → List PValue
  | [] => []
  | x :: r => x.toP :: SValue.toPs r
def SValue.toPf : List (Text × SValue) → List (Text × PValue)
  | [] => []
  | (k, v) :: r => (k, v.toP) :: SValue.toPf r
end

structure DirApp where
  name : Text
  args : List (Text × SValue)
  deriving Repr, Inhabited, BEq

inductive Dep where
  | no
  | yes (reason : Option Text)
  deriving Repr, Inhabited, BEq

structure Attrs where
  desc : Option Text := none
  dep : Dep := .no
  inacc : Bool := false
  tags : List Text := []
  dirs : List DirApp := []
  deriving Repr, Inhabited, BEq

structure InputVal where
  name : Text
  a : Attrs
  ty : PType
  default : Option SValue
  deriving Repr, Inhabited, BEq

structure FieldDef where
  name : Text
  a : Attrs
  ty : PType
  args : List InputVal
  deriving Repr, Inhabited, BEq

inductive TypeDef where
  | scalar (name : Text) (a : Attrs) (url : Option Text)
  | object (name : Text) (a : Attrs) (ext : Bool) (impls : List Text) (fields : List FieldDef)
  | interface (name : Text) (a : Attrs) (ext : Bool) (impls : List Text) (fields : List FieldDef)
  | union (name : Text) (a : Attrs) (members : List Text)
  | enum (name : Text) (a : Attrs) (values : List (Text × Attrs))
  | input (name : Text) (a : Attrs) (oneof : Bool) (fields : List InputVal)
  deriving Repr, Inhabited, BEq

def TypeDef.name : TypeDef → Text
  | .scalar n .. | .object n .. | .interface n .. | .union n .. | .enum n .. | .input n .. => n

structure DirDef where
  name : Text
  desc : Option Text
  args : List InputVal
  repeatable : Bool
  locs : List Text
  composable : Option Text
  deriving Repr, Inhabited, BEq

structure Schema where
  query : Text
  mutation : Option Text
  types : List TypeDef
  /-- custom directive definitions (the five built-in ones are always registered) -/
  ddefs : List DirDef
  deriving Repr, Inhabited, BEq

structure Opts where
  sortedFields : Bool := false
  sortedArgs : Bool := false
  sortedEnum : Bool := false
  singleLine : Bool := false
  specifiedBy : Bool := false
  federation : Bool := false
  compose : Bool := false
  useSpace : Bool := false
  width : Nat := 2
  deriving Repr, Inhabited, BEq

-- ------------------------------------------------------------------ what a piece of SDL denotes

structure SIv where
  name : Text
  desc : Option Text
  ty : PType
  default : Option PValue
  dirs : List PDirective
  deriving Repr, Inhabited, BEq

structure SField where
  name : Text
  desc : Option Text
  args : List SIv
  ty : PType
  dirs : List PDirective
  deriving Repr, Inhabited, BEq

structure SEnumVal where
  name : Text
  desc : Option Text
  dirs : List PDirective
  deriving Repr, Inhabited, BEq

inductive SBody where
  | scalar
  | object (impls : List Text) (fields : List SField)
  | interface (impls : List Text) (fields : List SField)
  | union (members : List Text)
  | enum (values : List SEnumVal)
  | input (fields : List SIv)
  deriving Repr, Inhabited, BEq

inductive SDef where
  | schema (ext : Bool) (dirs : List PDirective) (q m s : Option Text)
  | type (ext : Bool) (name : Text) (desc : Option Text) (dirs : List PDirective) (body : SBody)
  | directive (name : Text) (desc : Option Text) (args : List SIv) (repeatable : Bool) (locs : List Text)
  deriving Repr, Inhabited, BEq

-- ------------------------------------------------------------------ canonical printing

def typeText : PType → Text
  | .named n nl => n ++ (if nl then [] else ['!'])
  | .listOf t nl => '[' :: typeText t ++ ']' :: (if nl then [] else ['!'])

/-- directive applications are compared up to the order of differently named directives
    (stable sort by name: repeated applications keep their order) -/
def normDirs (ds : List PDirective) : List PDirective :=
  ds.mergeSort (fun a b => nameLe a.name b.name)

def cDirs (ds : List PDirective) : Sexp :=
  .list ((normDirs ds).map (fun d => .list (.str d.name :: d.args.map (fun p => .list [.str p.1, sValue p.2]))))

def cDesc : Option Text → Sexp
  | some d => .str d
  | none => .atom "-"

def cIv (x : SIv) : Sexp :=
  .list [.atom "iv", .str x.name, cDesc x.desc, .str (typeText x.ty),
    (match x.default with | some v => sValue v | none => .atom "-"), cDirs x.dirs]

def cField (x : SField) : Sexp :=
  .list [.atom "f", .str x.name, cDesc x.desc, .list (x.args.map cIv), .str (typeText x.ty), cDirs x.dirs]

def cNames (ns : List Text) : Sexp := .list (ns.map .str)

def cBody : SBody → String × Sexp
  | .scalar => ("scalar", .list [])
  | .object is fs => ("object", .list [cNames is, .list (fs.map cField)])
  | .interface is fs => ("interface", .list [cNames is, .list (fs.map cField)])
  | .union ms => ("union", cNames ms)
  | .enum vs => ("enum", .list (vs.map (fun v => .list [.str v.name, cDesc v.desc, cDirs v.dirs])))
  | .input fs => ("input", .list (fs.map cIv))

def cDef : SDef → Sexp
  | .schema ext ds q m s => .list [.atom "schema", ofBool ext, cDirs ds, cDesc q, cDesc m, cDesc s]
  | .type ext n d ds body =>
    .list [.atom "type", .atom (cBody body).1, ofBool ext, .str n, cDesc d, cDirs ds, (cBody body).2]
  | .directive n d as r ls =>
    .list [.atom "directive", .str n, cDesc d, .list (as.map cIv), ofBool r, .list (ls.map (fun l => .atom (String.ofList l)))]

def cDoc (ds : List SDef) : Sexp := .list (.atom "doc" :: ds.map cDef)

def cResult : Option (List SDef) → Sexp
  | some ds => cDoc ds
  | none => .atom "err"

end AGV.Core.Sdl
