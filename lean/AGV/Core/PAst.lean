/-
  The syntax tree of an executable document as the parser returns it (property C13), and its
  canonical printed form (the same text the harness prints from the Rust `ExecutableDocument`:
  hash maps sorted by name).  Names and strings are `List Char`.  Core-only.
-/
import AGV.Util.Sexp

namespace AGV.Core.PAst
open AGV.Sexp

abbrev Name := List Char

inductive PValue where
  | var (n : Name)
  | int (i : Int)
  | float (bits : Nat)          -- IEEE-754 binary64 bit pattern
  | str (s : List Char)
  | bool (b : Bool)
  | null
  | enum (n : Name)
  | list (xs : List PValue)
  | obj (fs : List (Name × PValue))
  deriving Repr, Inhabited, BEq

inductive PType where
  | named (n : Name) (nullable : Bool)
  | listOf (t : PType) (nullable : Bool)
  deriving Repr, Inhabited, BEq, DecidableEq

structure PDirective where
  name : Name
  args : List (Name × PValue)
  deriving Repr, Inhabited, BEq

inductive PSel where
  | field (alias : Option Name) (name : Name) (args : List (Name × PValue)) (dirs : List PDirective)
      (sels : List PSel)
  | spread (name : Name) (dirs : List PDirective)
  | inline (tc : Option Name) (dirs : List PDirective) (sels : List PSel)
  deriving Repr, Inhabited, BEq

structure PVarDef where
  name : Name
  ty : PType
  dirs : List PDirective
  default : Option PValue
  deriving Repr, Inhabited, BEq

inductive OpType where
  | query | mutation | subscription
  deriving Repr, Inhabited, BEq, DecidableEq

structure POp where
  ty : OpType
  vars : List PVarDef
  dirs : List PDirective
  sels : List PSel
  deriving Repr, Inhabited, BEq

structure PFrag where
  tc : Name
  dirs : List PDirective
  sels : List PSel
  deriving Repr, Inhabited, BEq

/-- a definition in document order -/
inductive PDef where
  | op (name : Option Name) (o : POp)
  | frag (name : Name) (f : PFrag)
  deriving Repr, Inhabited, BEq

inductive POps where
  | single (o : POp)
  | multi (ops : List (Name × POp))
  deriving Repr, Inhabited, BEq

structure PDoc where
  ops : POps
  frags : List (Name × PFrag)
  deriving Repr, Inhabited, BEq

/-- outcome of parsing, error kinds as the harness prints them -/
inductive PErr where
  | syntax | number | depth | multipleOps | missingOp
  | dupOp (n : Name) | dupFrag (n : Name)
  | oof
  deriving Repr, Inhabited, BEq

-- ------------------------------------------------------------------ canonical printing

def sName (n : Name) : Sexp := .str n
def sOptName : Option Name → Sexp
  | some n => .str n
  | none => .atom "-"

/-- an `IndexMap` cannot hold a key twice: a repeated key keeps its first position and takes the
    last value (observation abstraction applied to both sides) -/
def imInsert {β : Type} (k : Name) (v : β) : List (Name × β) → List (Name × β)
  | [] => [(k, v)]
  | (k', v') :: r => if k' = k then (k', v) :: r else (k', v') :: imInsert k v r

def imCollect {β : Type} (fs : List (Name × β)) : List (Name × β) :=
  fs.foldl (fun m p => imInsert p.1 p.2 m) []

mutual
/-- an object literal is printed as the `IndexMap` it is stored in (`imCollect` only looks at the
    keys, so collecting before or after printing the member values is the same) -/
def sValue : PValue → Sexp
  | .var n => .list [.atom "v", sName n]
  | .int i => .list [.atom "i", ofInt i]
  | .float b => .list [.atom "fl", ofNat b]
  | .str s => .list [.atom "s", .str s]
  | .bool b => .list [.atom "b", ofBool b]
  | .null => .atom "null"
  | .enum n => .list [.atom "e", sName n]
  | .list xs => .list (.atom "l" :: sValues xs)
  | .obj fs => .list (.atom "o" :: (imCollect (sFields fs)).map (fun p => .list [sName p.1, p.2]))
def sValues : List PValue → List Sexp
  | [] => []
  | x :: xs => sValue x :: sValues xs
def sFields : List (Name × PValue) → List (Name × Sexp)
  | [] => []
  | (k, v) :: fs => (k, sValue v) :: sFields fs
end

def sArgs (as : List (Name × PValue)) : Sexp := .list (as.map (fun p => .list [sName p.1, sValue p.2]))

def sType : PType → Sexp
  | .named n nl => .list [.atom "named", sName n, .atom (if nl then "n" else "nn")]
  | .listOf t nl => .list [.atom "listof", sType t, .atom (if nl then "n" else "nn")]

def sDirs (ds : List PDirective) : Sexp := .list (ds.map (fun d => .list [sName d.name, sArgs d.args]))

mutual
def sSel : PSel → Sexp
  | .field a n as ds ss => .list [.atom "f", sOptName a, sName n, sArgs as, sDirs ds, .list (sSelList ss)]
  | .spread n ds => .list [.atom "spread", sName n, sDirs ds]
  | .inline tc ds ss => .list [.atom "inline", sOptName tc, sDirs ds, .list (sSelList ss)]
def sSelList : List PSel → List Sexp
  | [] => []
  | s :: ss => sSel s :: sSelList ss
end

def sSels (ss : List PSel) : Sexp := .list (sSelList ss)

def sVarDef (v : PVarDef) : Sexp :=
  .list [.atom "var", sName v.name, sType v.ty, sDirs v.dirs,
    match v.default with
    | some d => sValue d
    | none => .atom "-"]

def sOp (o : POp) : Sexp :=
  .list [.atom "op",
    .atom (match o.ty with | .query => "query" | .mutation => "mutation" | .subscription => "subscription"),
    .list (o.vars.map sVarDef), sDirs o.dirs, sSels o.sels]

def nameLe (a b : Name) : Bool := !(decide (b < a))

def sDoc (d : PDoc) : Sexp :=
  let ops := match d.ops with
    | .single o => Sexp.list [.atom "single", sOp o]
    | .multi m => .list (.atom "multi" :: (m.mergeSort (fun a b => nameLe a.1 b.1)).map (fun p => .list [sName p.1, sOp p.2]))
  let fr := (d.frags.mergeSort (fun a b => nameLe a.1 b.1)).map
    (fun p => Sexp.list [sName p.1, sName p.2.tc, sDirs p.2.dirs, sSels p.2.sels])
  .list [.atom "doc", ops, .list (.atom "frags" :: fr)]

def sErr : PErr → Sexp
  | .syntax => .list [.atom "err", .atom "syntax"]
  | .number => .list [.atom "err", .atom "number"]
  | .depth => .list [.atom "err", .atom "depth"]
  | .multipleOps => .list [.atom "err", .atom "multiple-ops"]
  | .missingOp => .list [.atom "err", .atom "missing-op"]
  | .dupOp n => .list [.atom "err", .atom "dup-op", sName n]
  | .dupFrag n => .list [.atom "err", .atom "dup-frag", sName n]
  | .oof => .list [.atom "err", .atom "out-of-fuel"]

def sResult : Except PErr PDoc → String
  | .ok d => render (.list [.atom "ok", sDoc d])
  | .error e => render (sErr e)

end AGV.Core.PAst
