/-
  Constant GraphQL values at character level (property C15; reusable by the printers of C17/C32):
  strings and names are `List Char` (Unicode scalar values) so that theorems can quantify over all
  of Unicode; floats are opaque printed tokens.  Core-only.
-/
namespace AGV.Core

/-- A constant GraphQL value (`ConstValue` without `Binary`).  `float` carries the printed token;
    `obj` is the `IndexMap` in insertion order (keys pairwise distinct). -/
inductive LValue where
  | null
  | int (i : Int)
  | float (tok : List Char)
  | str (s : List Char)
  | bool (b : Bool)
  | enum (n : List Char)
  | list (xs : List LValue)
  | obj (fs : List (List Char × LValue))
  deriving Repr, Inhabited, BEq

end AGV.Core
