import AGV.Model.DynCheck
/-
  C33 — reference: the GraphQL specification's type validation (October 2021, §3 "Type System":
  §3.3 root operation types, §3.6 Objects / IsValidImplementation, §3.7 Interfaces, §3.8 Unions,
  §3.9 Enums, §3.10 Input Objects), over the abstract type system of `Model/DynCheck.lean` (only
  its data types are used here: none of the model's functions).

  `Required` are the rules the property statement lists:
     roots exist and are objects (the subscription root: a `Subscription` type, the library's
     representation of that object); every field has an output type and every argument / input
     field an input type; IsValidImplementation for every declared implementation (every interface
     field present, every interface argument present with the same type, additional arguments not
     required, covariant return type); union members are objects; no cycle of required
     (non-null, non-list) input object references.
  `Extra` are the remaining rules of §3, each a separately named clause, which the statement does
  not list: a missing check for one of them is not a violation of C33.
  `ValidTypeSystem = Required ∧ Extra`.

  Every clause is a decidable (`Bool`) function so that the judge can evaluate it.
-/
namespace AGV.Spec.TypeSystem
open AGV.Model.DynCheck (TypeRef InputValue Field TypeDef TypeSystem)

def systemScalars : List String := ["Int", "Float", "String", "Boolean", "ID"]

/-- the type a name denotes: a registered type, else a system scalar -/
def lookup (T : TypeSystem) (n : String) : Option TypeDef :=
  match T.types.find? (fun t => t.name == n) with
  | some t => some t
  | none => if systemScalars.contains n then some (.scalar n) else none

/-- IsOutputType on the named type -/
def isOutput : TypeDef → Bool
  | .scalar _ | .object .. | .interface .. | .union .. | .enum .. => true
  | _ => false

/-- IsInputType on the named type (`Upload` is the library's input-only scalar) -/
def isInput : TypeDef → Bool
  | .scalar _ | .enum .. | .inputObject .. | .upload => true
  | _ => false

def namesOutput (T : TypeSystem) (ty : TypeRef) : Bool := (lookup T ty.typeName).any isOutput
def namesInput (T : TypeSystem) (ty : TypeRef) : Bool := (lookup T ty.typeName).any isInput

-- ------------------------------------------------------------------ §3.3 roots

def isObjectNamed (T : TypeSystem) (n : String) : Bool :=
  match lookup T n with
  | some (.object ..) => true
  | _ => false

def isSubscriptionNamed (T : TypeSystem) (n : String) : Bool :=
  match lookup T n with
  | some (.subscription ..) => true
  | _ => false

/-- the query root exists and is an object; so do the mutation and subscription roots if named -/
def rootsOk (T : TypeSystem) : Bool :=
  isObjectNamed T T.query && T.mutation.all (isObjectNamed T) && T.subscription.all (isSubscriptionNamed T)

-- ------------------------------------------------------------------ fields and arguments are typed

def fieldsOf : TypeDef → List Field
  | .object _ _ fs | .interface _ _ fs | .subscription _ fs => fs
  | _ => []

def inputFieldsOf : TypeDef → List InputValue
  | .inputObject _ _ fs => fs
  | _ => []

/-- every field returns an output type, every argument and input field accepts an input type -/
def positionsTyped (T : TypeSystem) : Bool :=
  T.types.all fun t =>
    (fieldsOf t).all (fun f => namesOutput T f.ty && f.args.all (fun a => namesInput T a.ty)) &&
    (inputFieldsOf t).all (fun f => namesInput T f.ty)

-- ------------------------------------------------------------------ IsValidImplementation

/-- the named-type cases of IsValidImplementationFieldType -/
def namedCovariant (T : TypeSystem) (fieldType implementedType : String) : Bool :=
  fieldType == implementedType ||
  match lookup T fieldType, lookup T implementedType with
  | some (.object ..), some (.union _ members) => members.contains fieldType
  | some (.object _ impls _), some (.interface ..) => impls.contains implementedType
  | some (.interface _ impls _), some (.interface ..) => impls.contains implementedType
  | _, _ => false

/-- IsValidImplementationFieldType(fieldType, implementedFieldType) -/
def validImplFieldType (nm : String → String → Bool) : TypeRef → TypeRef → Bool
  | .nonNull f, .nonNull i => validImplFieldType nm f i
  | .nonNull f, i => validImplFieldType nm f i
  | .list f, .list i => validImplFieldType nm f i
  | .named f, .named i => nm f i
  | _, _ => false

def required (a : InputValue) : Bool := !a.ty.isNullable && !a.hasDefault

/-- one implemented field against the implementing type's fields -/
def fieldImplemented (T : TypeSystem) (implFields : List Field) (ifaceField : Field) : Bool :=
  match implFields.find? (fun f => f.name == ifaceField.name) with
  | none => false
  | some f =>
    -- every argument of the implemented field, with the same type
    ifaceField.args.all (fun a => (f.args.find? (fun b => b.name == a.name)).any (fun b => b.ty == a.ty)) &&
    -- additional arguments are not required
    f.args.all (fun b => (ifaceField.args.find? (fun a => a.name == b.name)).isSome || !required b) &&
    -- covariant return type
    validImplFieldType (namedCovariant T) f.ty ifaceField.ty

def implementsOf : TypeDef → List String
  | .object _ is _ | .interface _ is _ => is
  | _ => []

/-- every declared implementation of an interface provides its fields -/
def implementationsOk (T : TypeSystem) : Bool :=
  T.types.all fun t =>
    (implementsOf t).all fun i =>
      match lookup T i with
      | some (.interface _ _ ifs) => ifs.all (fieldImplemented T (fieldsOf t))
      | _ => true

-- ------------------------------------------------------------------ §3.8 unions

def unionMembersObjects (T : TypeSystem) : Bool :=
  T.types.all fun t => match t with
    | .union _ ms => ms.all (isObjectNamed T)
    | _ => true

-- ------------------------------------------------------------------ §3.10 required input cycles

/-- the input objects a given input object requires (non-null, non-list field) -/
def requiredRefs (T : TypeSystem) (n : String) : List String :=
  match lookup T n with
  | some (.inputObject _ _ fs) =>
    fs.filterMap fun f => match f.ty with
      | .nonNull (.named m) => (match lookup T m with
        | some (.inputObject ..) => some m
        | _ => none)
      | _ => none
  | _ => []

/-- one round: everything required by something already reached -/
def grow (T : TypeSystem) (s : List String) : List String :=
  (s ++ s.flatMap (requiredRefs T)).eraseDups

def reached (T : TypeSystem) (n : String) : Nat → List String
  | 0 => requiredRefs T n
  | k + 1 => grow T (reached T n k)

/-- `n` requires itself through a chain of required references (after `|types|` rounds the set
    of reached names is closed) -/
def requiresItself (T : TypeSystem) (n : String) : Bool := (reached T n T.types.length).contains n

def noRequiredInputCycle (T : TypeSystem) : Bool :=
  T.types.all fun t => match t with
    | .inputObject n _ _ => !requiresItself T n
    | _ => true

/-- chains of required references, as a relation (the meaning of `requiresItself`) -/
inductive Requires (T : TypeSystem) : String → String → Prop where
  | step {a b : String} : b ∈ requiredRefs T a → Requires T a b
  | trans {a b c : String} : b ∈ requiredRefs T a → Requires T b c → Requires T a c

-- ------------------------------------------------------------------ Required

/-- the rules the property statement lists -/
def required? (T : TypeSystem) : Bool :=
  rootsOk T && positionsTyped T && implementationsOk T && unionMembersObjects T && noRequiredInputCycle T

def Required (T : TypeSystem) : Prop := required? T = true

-- ------------------------------------------------------------------ Extra (named separately, not listed by the statement)

def reservedName (s : String) : Bool := s.toList.take 2 == ['_', '_']

/-- objects, interfaces, unions, enums, input objects (and subscriptions) are not empty -/
def nonEmpty (T : TypeSystem) : Bool :=
  T.types.all fun t => match t with
    | .object _ _ fs | .interface _ _ fs | .subscription _ fs => !fs.isEmpty
    | .union _ ms => !ms.isEmpty
    | .enum _ items => !items.isEmpty
    | .inputObject _ _ fs => !fs.isEmpty
    | _ => true

/-- no field, argument or input field name begins with `__` -/
def noReservedMemberNames (T : TypeSystem) : Bool :=
  T.types.all fun t =>
    (fieldsOf t).all (fun f => !reservedName f.name && f.args.all (fun a => !reservedName a.name)) &&
    (inputFieldsOf t).all (fun f => !reservedName f.name)

/-- no type or enum value name begins with `__` -/
def noReservedTypeNames (T : TypeSystem) : Bool :=
  T.types.all fun t => !reservedName t.name && (match t with
    | .enum _ items => items.all (fun i => !reservedName i)
    | _ => true)

/-- everything listed under `implements` is an interface, and not the type itself -/
def implementsInterfaces (T : TypeSystem) : Bool :=
  T.types.all fun t => (implementsOf t).all fun i =>
    i != t.name && (match lookup T i with
      | some (.interface ..) => true
      | _ => false)

/-- a type implementing an interface also declares the interfaces that interface implements -/
def implementsTransitive (T : TypeSystem) : Bool :=
  T.types.all fun t => (implementsOf t).all fun i =>
    match lookup T i with
    | some (.interface _ is _) => is.all (fun j => (implementsOf t).contains j)
    | _ => true

/-- OneOf input objects: every field nullable and without default -/
def oneOfOk (T : TypeSystem) : Bool :=
  T.types.all fun t => match t with
    | .inputObject _ true fs => fs.all (fun f => f.ty.isNullable && !f.hasDefault)
    | _ => true

def pairwiseDistinct : List String → Bool
  | [] => true
  | x :: xs => !xs.contains x && pairwiseDistinct xs

/-- type names are unique and do not redefine a system scalar; member names are unique -/
def namesUnique (T : TypeSystem) : Bool :=
  pairwiseDistinct (systemScalars ++ T.types.map (·.name)) &&
  T.types.all fun t =>
    pairwiseDistinct ((fieldsOf t).map (·.name)) && (fieldsOf t).all (fun f => pairwiseDistinct (f.args.map (·.name))) &&
    pairwiseDistinct ((inputFieldsOf t).map (·.name))

/-- the root operation types are different types -/
def rootsDistinct (T : TypeSystem) : Bool :=
  T.mutation != some T.query && T.subscription != some T.query &&
  (T.mutation.isNone || T.mutation != T.subscription)

def extra? (T : TypeSystem) : Bool :=
  nonEmpty T && noReservedMemberNames T && noReservedTypeNames T && implementsInterfaces T &&
  implementsTransitive T && oneOfOk T && namesUnique T && rootsDistinct T

def Extra (T : TypeSystem) : Prop := extra? T = true

def ValidTypeSystem (T : TypeSystem) : Prop := Required T ∧ Extra T

end AGV.Spec.TypeSystem
