/-
  C27 — what the property requires of the responses of a subscription request, stated without any
  reference to schedules or to how the implementation collects errors.

  A subscription request has several root fields; each root field has a stream of events; the
  resolution of one event is a sequence of POLLS (it may be suspended between two polls), each poll
  may capture errors at nullable positions; at the end the event has a value, or an error that
  propagated to the top.

  `Owned fields out`: every response produced for an event holds exactly `{key ↦ value}` of that
  event and exactly the errors raised while resolving that event (`ownErrs`), and the responses of
  one root field are, in order, those of a prefix of its events (no event answered twice, none
  skipped, none out of order).  Import-free.
-/
import AGV.Core.Types

namespace AGV.Spec.Subscr
open AGV.Core

/-- one poll of an event's resolution: the errors captured into an error list and the resolvers
    started during that poll -/
structure Poll where
  caps : List GErr := []
  starts : List Inv := []
  deriving Repr, Inhabited

/-- the resolution of one event: at least one poll (`first`), finished by the last one -/
structure EventRun where
  /-- the completed value; `none` = a field error propagated to the top (`data: null`) -/
  val : Option GValue
  /-- that error -/
  up : Option GErr := none
  first : Poll := {}
  rest : List Poll := []
  deriving Repr, Inhabited

inductive Src where
  /-- the subscription resolver itself failed: one error response, no events -/
  | fail (e : GErr)
  | events (es : List EventRun)
  deriving Repr, Inhabited

structure Field where
  key : String
  src : Src
  deriving Repr, Inhabited

def Field.events (f : Field) : List EventRun :=
  match f.src with
  | .events es => es
  | .fail _ => []

/-- a response; `field` and `ev` are ghost annotations (which root field, which event) -/
structure Resp where
  field : Nat
  ev : Option EventRun
  data : Option GValue
  errs : List GErr
  deriving Repr, Inhabited

def EventRun.polls (e : EventRun) : List Poll := e.first :: e.rest

/-- all errors captured while resolving the event, in the order of capture -/
def EventRun.caps (e : EventRun) : List GErr := (e.polls.map (·.caps)).flatten

/-- the data the response for event `e` of the root field with response key `k` must carry -/
def ownData (k : String) (e : EventRun) : Option GValue := e.val.map (fun v => .obj [(k, v)])

/-- the errors the response for event `e` must carry: exactly those raised while resolving it -/
def ownErrs (e : EventRun) : List GErr := e.up.toList ++ e.caps

/-- the events answered for root field `i`, in the order of the responses -/
def answered (i : Nat) (out : List Resp) : List EventRun :=
  (out.filter (fun r => r.field == i)).filterMap (·.ev)

/-- every event response carries its own event's data and nothing else -/
def OwnData (fields : List Field) (out : List Resp) : Prop :=
  ∀ r ∈ out, ∀ e, r.ev = some e → ∃ f, fields[r.field]? = some f ∧ r.data = ownData f.key e

/-- every event response carries exactly its own event's errors -/
def OwnErrors (out : List Resp) : Prop :=
  ∀ r ∈ out, ∀ e, r.ev = some e → r.errs = ownErrs e

/-- each root field answers a prefix of its events, once each, in order -/
def InOrder (fields : List Field) (out : List Resp) : Prop :=
  ∀ i f, fields[i]? = some f → answered i out <+: f.events

def Owned (fields : List Field) (out : List Resp) : Prop :=
  OwnData fields out ∧ OwnErrors out ∧ InOrder fields out

end AGV.Spec.Subscr
