/-
  Reference semantics of a GraphQL request carried over HTTP (property C23), after the
  transport libraries have done their part (percent-decoding, JSON text, multipart framing):

    * a request is a JSON *object* with the members `query`, `operationName`, `variables`,
      `extensions` (GraphQL-over-HTTP names); unknown members are ignored; a known member that
      occurs twice, or has the wrong type, makes the request malformed;
    * a GET query string carries the same four names as parameters, `variables` and
      `extensions` holding JSON text;
    * a body is one request object or a non-empty array of request objects, kept in order;
    * a multipart body carries the same JSON in its `operations` part and needs a `map` part;
    * executing a batch answers every request, in the order of the batch.

  Import-free.  Strings are `List Char` (Unicode scalar values).
-/
namespace AGV.Spec.Http

abbrev Str := List Char

/-- a JSON document as the text parser hands it over: object members keep their order and may
    repeat a key -/
inductive J where
  | null
  | bool (b : Bool)
  | num (n : Int)
  | str (s : Str)
  | arr (xs : List J)
  | obj (kvs : List (Str × J))
  deriving Repr, Inhabited

abbrev Members := List (Str × J)

/-- a decoded request (`variables`/`extensions`: the members of the object that was sent) -/
structure Req where
  query : Str
  operationName : Option Str
  variables : Members
  extensions : Members
  deriving Repr, Inhabited

inductive BatchReq where
  | single (r : Req)
  | batch (rs : List Req)
  deriving Repr, Inhabited

inductive Err where
  | queryString | variables | extensions          -- GET
  | invalidRequest | unsupportedBatch             -- body
  | invalidMultipart | missingOperations | missingMap
  | invalidFilesMap | missingFiles
  | panic                                         -- never required; only a defective model produces it
  deriving Repr, DecidableEq, Inhabited

def kQuery : Str := ['q','u','e','r','y']
def kOperationName : Str := ['o','p','e','r','a','t','i','o','n','N','a','m','e']
def kVariables : Str := ['v','a','r','i','a','b','l','e','s']
def kExtensions : Str := ['e','x','t','e','n','s','i','o','n','s']

/-- the value of member `k`: absent (`some none`), present once (`some (some v)`), or
    ambiguous because it is repeated (`none`) -/
def member {α : Type} (k : Str) (kvs : List (Str × α)) : Option (Option α) :=
  match kvs.filter (fun p => p.1 = k) with
  | [] => some none
  | [p] => some (some p.2)
  | _ => none

def queryOf : Option J → Option Str
  | none => some []
  | some (.str s) => some s
  | some _ => none

def operationNameOf : Option J → Option (Option Str)
  | none => some none
  | some .null => some none
  | some (.str s) => some (some s)
  | some _ => none

/-- `variables` / `extensions`: absent, `null` or an object -/
def membersOf : Option J → Option Members
  | none => some []
  | some .null => some []
  | some (.obj kvs) => some kvs
  | some _ => none

def reqOfObject (kvs : Members) : Option Req := do
  let q ← queryOf (← member kQuery kvs)
  let o ← operationNameOf (← member kOperationName kvs)
  let v ← membersOf (← member kVariables kvs)
  let e ← membersOf (← member kExtensions kvs)
  pure ⟨q, o, v, e⟩

def reqOfJson : J → Option Req
  | .obj kvs => reqOfObject kvs
  | _ => none

def allSome {α β : Type} (f : α → Option β) : List α → Option (List β)
  | [] => some []
  | a :: as => match f a, allSome f as with
    | some b, some bs => some (b :: bs)
    | _, _ => none

/-- a request body -/
def decodeBody : J → Except Err BatchReq
  | .obj kvs => match reqOfObject kvs with
    | some r => .ok (.single r)
    | none => .error .invalidRequest
  | .arr [] => .error .invalidRequest
  | .arr xs => match allSome reqOfJson xs with
    | some rs => .ok (.batch rs)
    | none => .error .invalidRequest
  | _ => .error .invalidRequest

/-- a server that does not accept batches -/
def intoSingle : Except Err BatchReq → Except Err Req
  | .ok (.single r) => .ok r
  | .ok (.batch _) => .error .unsupportedBatch
  | .error e => .error e

/-- a parameter holding JSON text for `variables` / `extensions` -/
def textMembers (parse : Str → Option J) : Option Str → Option Members
  | none => some []
  | some t => match parse t with
    | none => none
    | some j => membersOf (some j)

/-- a GET query string, as decoded parameter pairs; `parse` is the JSON text parser -/
def decodeGet (parse : Str → Option J) (ps : List (Str × Str)) : Except Err Req :=
  match member kQuery ps, member kOperationName ps, member kVariables ps, member kExtensions ps with
  | some q, some o, some v, some e =>
    match textMembers parse v with
    | none => .error .variables
    | some vars =>
      match textMembers parse e with
      | none => .error .extensions
      | some exts => .ok ⟨q.getD [], o, vars, exts⟩
  | _, _, _, _ => .error .queryString

/-- parts of a multipart body that matter here -/
inductive Part where
  | ops (contentType : Option Str) (j : J)
  | map
  | other
  deriving Repr, Inhabited

def isMultipartType : Option Str → Bool
  | some ct => ['m','u','l','t','i','p','a','r','t','/'].isPrefixOf ct
  | none => false

/-- every `operations` part must decode (its own content type cannot be multipart again);
    the last one is the request; a `map` part is required -/
def decodeMultipartAux : List Part → Option BatchReq → Bool → Except Err BatchReq
  | [], none, _ => .error .missingOperations
  | [], some _, false => .error .missingMap
  | [], some r, true => .ok r
  | .ops ct j :: rest, _, m =>
    if isMultipartType ct then .error .invalidRequest
    else match decodeBody j with
      | .ok r => decodeMultipartAux rest (some r) m
      | .error e => .error e
  | .map :: rest, req, _ => decodeMultipartAux rest req true
  | .other :: rest, req, m => decodeMultipartAux rest req m

def decodeMultipart (parts : List Part) : Except Err BatchReq := decodeMultipartAux parts none false

-- ------------------------------------------------------------------ the byte layer
/-
  At the transport boundary a request is bytes.  JSON text is UTF-8 (RFC 8259 §8.1) whatever a
  content type's `charset` parameter or a `Content-Transfer-Encoding` header of a multipart part
  says, and there is no byte order mark to strip; GET values are UTF-8 after percent-decoding.
  Decoding is STRICT: a byte sequence that is not the UTF-8 form of a sequence of scalar values
  (overlong forms, surrogates, values above U+10FFFF, stray or missing continuation bytes) is a
  malformed encoding and is refused, never repaired.  "The same request from every transport"
  therefore means: every transport applies `utf8Decode` to the bytes it received (GET: to the
  percent-decoded bytes of every key and value; body, batch element and `operations` part: to
  the document) and then the text-level reference decoder; bytes one transport refuses, all refuse.
-/

abbrev Bytes := List UInt8

def inRange (lo hi x : Nat) : Bool := decide (lo ≤ x) && decide (x ≤ hi)

/-- one step of UTF-8 decoding on byte values: the scalar value at the front and the rest, or
    the rest behind the maximal ill-formed prefix (Unicode §3.9, table 3-7) -/
inductive Utf8Step where
  | char (n : Nat) (rest : List Nat)
  | bad (rest : List Nat)
  deriving Repr

def utf8Step (b0 : Nat) (tl : List Nat) : Utf8Step :=
  if b0 < 0x80 then .char b0 tl
  else if b0 < 0xC2 then .bad tl
  else if b0 < 0xE0 then
    match tl with
    | b1 :: r1 => if inRange 0x80 0xBF b1 then .char ((b0 - 0xC0) * 64 + (b1 - 0x80)) r1 else .bad tl
    | [] => .bad tl
  else if b0 < 0xF0 then
    match tl with
    | b1 :: r1 =>
      if inRange (if b0 = 0xE0 then 0xA0 else 0x80) (if b0 = 0xED then 0x9F else 0xBF) b1 then
        match r1 with
        | b2 :: r2 =>
          if inRange 0x80 0xBF b2 then .char ((b0 - 0xE0) * 4096 + (b1 - 0x80) * 64 + (b2 - 0x80)) r2
          else .bad r1
        | [] => .bad r1
      else .bad tl
    | [] => .bad tl
  else if b0 < 0xF5 then
    match tl with
    | b1 :: r1 =>
      if inRange (if b0 = 0xF0 then 0x90 else 0x80) (if b0 = 0xF4 then 0x8F else 0xBF) b1 then
        match r1 with
        | b2 :: r2 =>
          if inRange 0x80 0xBF b2 then
            match r2 with
            | b3 :: r3 =>
              if inRange 0x80 0xBF b3 then
                .char ((b0 - 0xF0) * 262144 + (b1 - 0x80) * 4096 + (b2 - 0x80) * 64 + (b3 - 0x80)) r3
              else .bad r2
            | [] => .bad r2
          else .bad r1
        | [] => .bad r1
      else .bad tl
    | [] => .bad tl
  else .bad tl

def Utf8Step.rest : Utf8Step → List Nat
  | .char _ r => r
  | .bad r => r

theorem utf8Step_rest_le (b0 : Nat) (tl : List Nat) : (utf8Step b0 tl).rest.length ≤ tl.length := by
  unfold utf8Step
  repeat' split
  all_goals simp [Utf8Step.rest] <;> omega

set_option linter.unusedVariables false in
/-- strict UTF-8 decoding of byte values -/
def utf8DecodeN : List Nat → Option (List Char)
  | [] => some []
  | b0 :: tl =>
    match h : utf8Step b0 tl with
    | .char n rest =>
      match utf8DecodeN rest with
      | some cs => some (Char.ofNat n :: cs)
      | none => none
    | .bad _ => none
termination_by l => l.length
decreasing_by
  have := utf8Step_rest_le b0 tl
  rw [h] at this
  simp [Utf8Step.rest] at this
  simp; omega

/-- strict UTF-8 decoding: total, no repair, no byte order mark handling -/
def utf8Decode (bs : Bytes) : Option (List Char) := utf8DecodeN (bs.map UInt8.toNat)

/-- the UTF-8 form of a scalar value, as byte values -/
def utf8EncodeCharN (c : Char) : List Nat :=
  let n := c.toNat
  if n < 0x80 then [n]
  else if n < 0x800 then [0xC0 + n / 64, 0x80 + n % 64]
  else if n < 0x10000 then [0xE0 + n / 4096, 0x80 + n / 64 % 64, 0x80 + n % 64]
  else [0xF0 + n / 262144, 0x80 + n / 4096 % 64, 0x80 + n / 64 % 64, 0x80 + n % 64]

def utf8EncodeN : List Char → List Nat
  | [] => []
  | c :: cs => utf8EncodeCharN c ++ utf8EncodeN cs

def utf8Encode (cs : List Char) : Bytes := (utf8EncodeN cs).map Nat.toUInt8

/-- a body (or batch element, or `operations` part): UTF-8, then JSON text, then the request shape -/
def decodeBodyBytes (parse : Str → Option J) (bs : Bytes) : Except Err BatchReq :=
  match utf8Decode bs with
  | none => .error .invalidRequest
  | some t => match parse t with
    | none => .error .invalidRequest
    | some j => decodeBody j

def utf8Pair (p : Bytes × Bytes) : Option (Str × Str) :=
  match utf8Decode p.1, utf8Decode p.2 with
  | some k, some v => some (k, v)
  | _, _ => none

/-- GET: every percent-decoded key and value must be UTF-8 -/
def decodeGetBytes (parse : Str → Option J) (ps : List (Bytes × Bytes)) : Except Err Req :=
  match allSome utf8Pair ps with
  | none => .error .queryString
  | some tps => decodeGet parse tps

/-- the `map` part of a multipart body: a JSON object from names of file parts to lists of
    variable paths -/
def filesMapOf : J → Option (List (Str × List Str))
  | .obj kvs => allSome (fun (p : Str × J) => match p.2 with
      | .arr xs => (allSome (fun (x : J) => match x with | .str s => some s | _ => none) xs).map (fun ss => (p.1, ss))
      | _ => none) kvs
  | _ => none

/-- parts of a multipart body, as bytes -/
inductive BPart where
  | ops (contentType : Option Str) (body : Bytes)
  | map (body : Bytes)
  | other
  deriving Repr, Inhabited

/-- as `decodeMultipartAux`, from bytes; `files` = the map read so far.  There are no file parts
    here, so a map that names one refers to a missing file. -/
def decodeMultipartBytesAux (parse : Str → Option J) :
    List BPart → Option BatchReq → Option (List (Str × List Str)) → Except Err BatchReq
  | [], none, _ => .error .missingOperations
  | [], some _, none => .error .missingMap
  | [], some r, some m => if m.isEmpty then .ok r else .error .missingFiles
  | .ops ct bs :: rest, _, m =>
    if isMultipartType ct then .error .invalidRequest
    else match decodeBodyBytes parse bs with
      | .ok r => decodeMultipartBytesAux parse rest (some r) m
      | .error e => .error e
  | .map bs :: rest, req, _ =>
    match (utf8Decode bs).bind parse |>.bind filesMapOf with
    | some m => decodeMultipartBytesAux parse rest req (some m)
    | none => .error .invalidFilesMap
  | .other :: rest, req, m => decodeMultipartBytesAux parse rest req m

def decodeMultipartBytes (parse : Str → Option J) (parts : List BPart) : Except Err BatchReq :=
  decodeMultipartBytesAux parse parts none none

inductive BatchResp (ρ : Type) where
  | single (r : ρ)
  | batch (rs : List ρ)
  deriving Repr

/-- responses come in the order of the requests -/
def executeBatch {ρ : Type} (exec : Req → ρ) : BatchReq → BatchResp ρ
  | .single r => .single (exec r)
  | .batch rs => .batch (rs.map exec)

end AGV.Spec.Http
