/-
  Reference semantics of a GraphQL request carried over HTTP (property C23), after the
  transport libraries have done their part (percent-decoding, JSON text, multipart framing):

    * a request is a JSON *object* with the members `query`, `operationName`, `variables`,
      `extensions` (GraphQL-over-HTTP names); unknown members are ignored; a known member that
      occurs twice, or has the wrong type, makes the request malformed;
    * a GET query string carries the same four names as parameters, `variables` and
      `extensions` holding JSON text;
    * a body is one request object or a non-empty array of request objects, kept in order;
    * a multipart body carries the same JSON in its `operations` part and needs a `map` part;
    * executing a batch answers every request, in the order of the batch.

  Import-free.  Strings are `List Char` (Unicode scalar values).
-/
namespace AGV.Spec.Http

abbrev Str := List Char

/-- a JSON document as the text parser hands it over: object members keep their order and may
    repeat a key -/
inductive J where
  | null
  | bool (b : Bool)
  | num (n : Int)
  | str (s : Str)
  | arr (xs : List J)
  | obj (kvs : List (Str × J))
  deriving Repr, Inhabited

abbrev Members := List (Str × J)

/-- a decoded request (`variables`/`extensions`: the members of the object that was sent) -/
structure Req where
  query : Str
  operationName : Option Str
  variables : Members
  extensions : Members
  deriving Repr, Inhabited

inductive BatchReq where
  | single (r : Req)
  | batch (rs : List Req)
  deriving Repr, Inhabited

inductive Err where
  | queryString | variables | extensions          -- GET
  | invalidRequest | unsupportedBatch             -- body
  | invalidMultipart | missingOperations | missingMap
  | panic                                         -- never required; only a defective model produces it
  deriving Repr, DecidableEq, Inhabited

def kQuery : Str := ['q','u','e','r','y']
def kOperationName : Str := ['o','p','e','r','a','t','i','o','n','N','a','m','e']
def kVariables : Str := ['v','a','r','i','a','b','l','e','s']
def kExtensions : Str := ['e','x','t','e','n','s','i','o','n','s']

/-- the value of member `k`: absent (`some none`), present once (`some (some v)`), or
    ambiguous because it is repeated (`none`) -/
def member {α : Type} (k : Str) (kvs : List (Str × α)) : Option (Option α) :=
  match kvs.filter (fun p => p.1 = k) with
  | [] => some none
  | [p] => some (some p.2)
  | _ => none

def queryOf : Option J → Option Str
  | none => some []
  | some (.str s) => some s
  | some _ => none

def operationNameOf : Option J → Option (Option Str)
  | none => some none
  | some .null => some none
  | some (.str s) => some (some s)
  | some _ => none

/-- `variables` / `extensions`: absent, `null` or an object -/
def membersOf : Option J → Option Members
  | none => some []
  | some .null => some []
  | some (.obj kvs) => some kvs
  | some _ => none

def reqOfObject (kvs : Members) : Option Req := do
  let q ← queryOf (← member kQuery kvs)
  let o ← operationNameOf (← member kOperationName kvs)
  let v ← membersOf (← member kVariables kvs)
  let e ← membersOf (← member kExtensions kvs)
  pure ⟨q, o, v, e⟩

def reqOfJson : J → Option Req
  | .obj kvs => reqOfObject kvs
  | _ => none

def allSome {α β : Type} (f : α → Option β) : List α → Option (List β)
  | [] => some []
  | a :: as => match f a, allSome f as with
    | some b, some bs => some (b :: bs)
    | _, _ => none

/-- a request body -/
def decodeBody : J → Except Err BatchReq
  | .obj kvs => match reqOfObject kvs with
    | some r => .ok (.single r)
    | none => .error .invalidRequest
  | .arr [] => .error .invalidRequest
  | .arr xs => match allSome reqOfJson xs with
    | some rs => .ok (.batch rs)
    | none => .error .invalidRequest
  | _ => .error .invalidRequest

/-- a server that does not accept batches -/
def intoSingle : Except Err BatchReq → Except Err Req
  | .ok (.single r) => .ok r
  | .ok (.batch _) => .error .unsupportedBatch
  | .error e => .error e

/-- a parameter holding JSON text for `variables` / `extensions` -/
def textMembers (parse : Str → Option J) : Option Str → Option Members
  | none => some []
  | some t => match parse t with
    | none => none
    | some j => membersOf (some j)

/-- a GET query string, as decoded parameter pairs; `parse` is the JSON text parser -/
def decodeGet (parse : Str → Option J) (ps : List (Str × Str)) : Except Err Req :=
  match member kQuery ps, member kOperationName ps, member kVariables ps, member kExtensions ps with
  | some q, some o, some v, some e =>
    match textMembers parse v with
    | none => .error .variables
    | some vars =>
      match textMembers parse e with
      | none => .error .extensions
      | some exts => .ok ⟨q.getD [], o, vars, exts⟩
  | _, _, _, _ => .error .queryString

/-- parts of a multipart body that matter here -/
inductive Part where
  | ops (contentType : Option Str) (j : J)
  | map
  | other
  deriving Repr, Inhabited

def isMultipartType : Option Str → Bool
  | some ct => ['m','u','l','t','i','p','a','r','t','/'].isPrefixOf ct
  | none => false

/-- every `operations` part must decode (its own content type cannot be multipart again);
    the last one is the request; a `map` part is required -/
def decodeMultipartAux : List Part → Option BatchReq → Bool → Except Err BatchReq
  | [], none, _ => .error .missingOperations
  | [], some _, false => .error .missingMap
  | [], some r, true => .ok r
  | .ops ct j :: rest, _, m =>
    if isMultipartType ct then .error .invalidRequest
    else match decodeBody j with
      | .ok r => decodeMultipartAux rest (some r) m
      | .error e => .error e
  | .map :: rest, req, _ => decodeMultipartAux rest req true
  | .other :: rest, req, m => decodeMultipartAux rest req m

def decodeMultipart (parts : List Part) : Except Err BatchReq := decodeMultipartAux parts none false

inductive BatchResp (ρ : Type) where
  | single (r : ρ)
  | batch (rs : List ρ)
  deriving Repr

/-- responses come in the order of the requests -/
def executeBatch {ρ : Type} (exec : Req → ρ) : BatchReq → BatchResp ρ
  | .single r => .single (exec r)
  | .batch rs => .batch (rs.map exec)

end AGV.Spec.Http
