/-
  Reference semantics of a source location (property C14): the 1-based line and column of a
  character offset, where LF, CR LF and a lone CR each end a line and columns count Unicode
  scalar values.  Import-free.
-/
namespace AGV.Spec.Pos

/-- scan a prefix, `l`/`c` = line and column of its first character -/
def lineColAux : List Char → Nat → Nat → Nat × Nat
  | [], l, c => (l, c)
  | a :: r, l, c =>
    if a = '\n' then lineColAux r (l + 1) 1
    else if a = '\r' then
      match r with
      | b :: r' => if b = '\n' then lineColAux r' (l + 1) 1 else lineColAux (b :: r') (l + 1) 1
      | [] => (l + 1, 1)
    else lineColAux r l (c + 1)
termination_by cs => cs.length

/-- line and column of the character at offset `off` of `text` -/
def lineCol (text : List Char) (off : Nat) : Nat × Nat :=
  lineColAux (text.take off) 1 1

end AGV.Spec.Pos
