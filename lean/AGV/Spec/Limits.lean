/-
  C10 — reference measures of a request document, on the document with its named fragments
  written inline: depth (field nesting), complexity (1 per field plus its children, or the
  field's own rule), nesting (selection-set levels: a field with sub-selections and every
  fragment count one) and the largest number of directives on one field; and the decision
  "rejected exactly when a measure exceeds its configured limit".

  Written independently of the model: fragments are expanded FIRST (`inlineSels`), then the
  measures are plain structural recursions over a spread-free tree.
-/
import AGV.Core.Types

namespace AGV.Spec.Limits
open AGV.Core

-- ------------------------------------------------------------------ complexity rules

/-- the expression language of `#[graphql(complexity = "…")]` as used by the schemas under test -/
inductive CExpr where
  | const (n : Nat)
  /-- an argument of the field (its declared default is part of the rule) -/
  | arg (name : String) (default : Option Nat)
  | child
  | add (a b : CExpr)
  | mul (a b : CExpr)
  deriving Repr, Inhabited

/-- value of a rule; `none` when one of its arguments has no usable value -/
def CExpr.eval (ρ : String → Option Nat → Option Nat) (child : Nat) : CExpr → Option Nat
  | .const n => some n
  | .arg a d => ρ a d
  | .child => some child
  | .add a b =>
    match a.eval ρ child, b.eval ρ child with
    | some x, some y => some (x + y)
    | _, _ => none
  | .mul a b =>
    match a.eval ρ child, b.eval ρ child with
    | some x, some y => some (x * y)
    | _, _ => none

structure Rule where
  ty : String
  field : String
  expr : CExpr
  deriving Repr, Inhabited

abbrev Rules := List Rule

/-- How the arguments written on a field occurrence become numbers (argument coercion is the
    subject of C06; here it is a parameter): variable definitions of the enclosing operation,
    written arguments, argument name, declared default. -/
abbrev ArgEnv := List VarDef → List (String × DValue) → String → Option Nat → Option Nat

-- ------------------------------------------------------------------ schema look-ups

def known (S : Schema) (n : String) : Option String :=
  if (S.find? n).isSome then some n else none

/-- the (named) type of field `name` selected on `cur` -/
def fieldType (S : Schema) (cur : Option String) (name : String) : Option String :=
  match cur with
  | none => none
  | some t =>
    match S.field? t name with
    | some f => known S f.ty.base
    | none => none

/-- the type inside a fragment with type condition `cond` -/
def condType (S : Schema) (cur : Option String) : Option String → Option String
  | none => cur
  | some c => known S c

/-- the rule declared by object type `cur` for its field `name` -/
def rule? (S : Schema) (R : Rules) (cur : Option String) (name : String) : Option CExpr :=
  match cur with
  | none => none
  | some t =>
    if S.kindOf t = some Kind.object then
      match R.find? (fun r => r.ty = t ∧ r.field = name) with
      | some r => some r.expr
      | none => none
    else none

def rootType (S : Schema) : OpType → Option String
  | .query => some S.query
  | .mutation => S.mutation
  | .subscription => S.subscription

-- ------------------------------------------------------------------ fragments written inline

/-- Replace every spread of a defined fragment by an inline fragment carrying the fragment's
    type condition and body, to `fuel` levels of selection sets (deeper levels are cut off; see
    `c10_inline_stable`: for a document within the recursion limit `r`, every `fuel ≥ r + 2`
    gives the same, complete, expansion). -/
def inlineSels (frags : List FragDef) : Nat → List Sel → List Sel
  | 0, _ => []
  | f + 1, sels => sels.map fun s =>
    match s with
    | .field a n args dirs sub pos => .field a n args dirs (inlineSels frags f sub) pos
    | .spread n dirs pos =>
      match frags.find? (fun fr => fr.name = n) with
      | some fr => .inline (some fr.cond) dirs (inlineSels frags f fr.sels) pos
      | none => .spread n dirs pos
    | .inline c dirs sub pos => .inline c dirs (inlineSels frags f sub) pos

def inlineDoc (fuel : Nat) (d : Doc) : Doc :=
  { ops := d.ops.map fun o => { o with sels := inlineSels d.frags fuel o.sels }, frags := [] }

-- ------------------------------------------------------------------ measures of a spread-free tree

mutual
/-- field nesting -/
def depthSel : Sel → Nat
  | .field _ _ _ _ sub _ => 1 + depthSels sub
  | .spread _ _ _ => 0
  | .inline _ _ sub _ => depthSels sub
def depthSels : List Sel → Nat
  | [] => 0
  | s :: ss => max (depthSel s) (depthSels ss)
end

mutual
/-- 1 per field plus its children, or the field's own rule (a rule that cannot be evaluated
    contributes nothing: such a request is invalid and is never executed) -/
def cxSel (S : Schema) (R : Rules) (ρ : ArgEnv) (vds : List VarDef) (cur : Option String) : Sel → Nat
  | .field _ name args _ sub _ =>
    match rule? S R cur name with
    | some e => ((e.eval (ρ vds args) (cxSels S R ρ vds (fieldType S cur name) sub))).getD 0
    | none => 1 + cxSels S R ρ vds (fieldType S cur name) sub
  | .spread _ _ _ => 0
  | .inline c _ sub _ => cxSels S R ρ vds (condType S cur c) sub
def cxSels (S : Schema) (R : Rules) (ρ : ArgEnv) (vds : List VarDef) (cur : Option String) : List Sel → Nat
  | [] => 0
  | s :: ss => cxSel S R ρ vds cur s + cxSels S R ρ vds cur ss
end

mutual
/-- levels of selection sets below this one: a field with sub-selections, an inline fragment
    (and hence an expanded spread) open a level -/
def nestSel : Sel → Nat
  | .field _ _ _ _ sub _ => if sub.isEmpty then 0 else 1 + nestSels sub
  | .spread _ _ _ => 0
  | .inline _ _ sub _ => 1 + nestSels sub
def nestSels : List Sel → Nat
  | [] => 0
  | s :: ss => max (nestSel s) (nestSels ss)
end

mutual
/-- the largest number of directives on one field -/
def dirSel : Sel → Nat
  | .field _ _ _ dirs sub _ => max dirs.length (dirSels sub)
  | .spread _ _ _ => 0
  | .inline _ _ sub _ => dirSels sub
def dirSels : List Sel → Nat
  | [] => 0
  | s :: ss => max (dirSel s) (dirSels ss)
end

def maxList : List Nat → Nat
  | [] => 0
  | x :: xs => max x (maxList xs)

-- ------------------------------------------------------------------ measures of a document (all its operations)

/-- operations on a root type the schema does not have are not measured (the request is invalid) -/
def depth (S : Schema) (d : Doc) : Nat :=
  maxList (d.ops.map fun o => match rootType S o.ty with
    | some _ => depthSels o.sels
    | none => 0)

def complexity (S : Schema) (R : Rules) (ρ : ArgEnv) (d : Doc) : Nat :=
  (d.ops.map fun o => match rootType S o.ty with
    | some r => cxSels S R ρ o.vars (some r) o.sels
    | none => 0).sum

def nesting (d : Doc) : Nat := maxList (d.ops.map fun o => nestSels o.sels)

def maxDirectives (d : Doc) : Nat := maxList (d.ops.map fun o => dirSels o.sels)

-- ------------------------------------------------------------------ the decision

structure Config where
  /-- `limit_recursive_depth` (always in force; the schema builder's default when not set) -/
  recursion : Nat
  directives : Option Nat := none
  complexity : Option Nat := none
  depth : Option Nat := none
  deriving Repr, Inhabited

inductive Verdict where
  | accept | recursion | directives | complexity | depth
  deriving Repr, Inhabited, DecidableEq

def exceeds (m : Nat) : Option Nat → Bool
  | none => false
  | some l => decide (m > l)

/-- rejected exactly when a measure exceeds its limit (the first exceeded limit, in the order
    recursion, directives, complexity, depth, names the error) -/
def verdict (cfg : Config) (nest dirs cx dp : Nat) : Verdict :=
  if nest > cfg.recursion then .recursion
  else if exceeds dirs cfg.directives then .directives
  else if exceeds cx cfg.complexity then .complexity
  else if exceeds dp cfg.depth then .depth
  else .accept

/-- the required verdict for document `d` (expanded with `fuel`) -/
def required (cfg : Config) (S : Schema) (R : Rules) (ρ : ArgEnv) (fuel : Nat) (d : Doc) : Verdict :=
  let d' := inlineDoc fuel d
  verdict cfg (nesting d') (maxDirectives d') (complexity S R ρ d') (depth S d')

end AGV.Spec.Limits
