/-
  Reference semantics for property C08: which values of a declared Rust input type satisfy the
  built-in validators, under EXACT arithmetic.  Written from the property statement and the
  documentation of the validators (docs/en/src/input_value_validators.md), not from the code.

  * numbers are compared as exact dyadic rationals (`Dy`: ±m·2^e; every integer and every finite
    IEEE-754 number is one), never after a conversion to another machine type;
  * `multiple_of = n`: the value is a NONZERO integer multiple of `n` (the crate's own unit test
    `test_multiple_of` pins `multiple_of(0, n)` as rejected; the specification follows that
    documented behaviour);
  * `max_length`/`min_length` count UTF-8 bytes, `chars_*_length` count Unicode scalar values,
    `*_items` count list items;
  * `regex` is an uninterpreted predicate `re pattern text` (the `regex` crate is trusted);
  * under `Option` a null value carries no constraint; in a list every non-null item must satisfy
    the item validators and the list itself the `*_items` validators.

  The value a wire (JSON/GraphQL) number denotes for a float type is its IEEE-754 rounding to
  nearest, ties to even (`roundTo`) — that IS the value of the declared Rust type.
  Import-free.
-/
namespace AGV.Spec.Validators

-- ------------------------------------------------------------------ exact numbers

/-- finite dyadic rational `±m·2^e` -/
structure Dy where
  neg : Bool
  m : Nat
  e : Int
  deriving DecidableEq, Repr, Inhabited

namespace Dy

def num (d : Dy) : Int := if d.neg then -(d.m : Int) else d.m

def ofInt (i : Int) : Dy := ⟨decide (i < 0), i.natAbs, 0⟩

/-- numerator of `d` over the denominator `2^(-e0)`, for any `e0 ≤ d.e` -/
def scaled (d : Dy) (e0 : Int) : Int := d.num * 2 ^ (d.e - e0).toNat

/-- `a ≤ b` as rationals: compare numerators over a common power-of-two denominator -/
def le (a b : Dy) : Prop := a.scaled (min a.e b.e) ≤ b.scaled (min a.e b.e)

instance (a b : Dy) : Decidable (le a b) := by unfold le; infer_instance

def isZero (d : Dy) : Prop := d.m = 0

instance (d : Dy) : Decidable d.isZero := by unfold isZero; infer_instance

/-- `v = k·n` for some integer `k` -/
def dvd (n v : Dy) : Prop := n.scaled (min n.e v.e) ∣ v.scaled (min n.e v.e)

instance (a b : Dy) : Decidable (dvd a b) := by unfold dvd; infer_instance

/-- IEEE-754 round to nearest, ties to even, to `p` significant bits with least exponent `qmin`
    (subnormals); overflow is not represented (callers exclude it). -/
def roundTo (p : Nat) (qmin : Int) (d : Dy) : Dy :=
  if d.m = 0 then d else
  let len : Int := (Nat.log2 d.m + 1 : Nat)
  let q0 : Int := d.e + len - p
  let q : Int := if q0 < qmin then qmin else q0
  if q ≤ d.e then d
  else
    let sh := (q - d.e).toNat
    let fl := d.m >>> sh
    let rem := d.m % 2 ^ sh
    let half := 2 ^ (sh - 1)
    let sig := if rem > half ∨ (rem = half ∧ fl % 2 = 1) then fl + 1 else fl
    ⟨d.neg, sig, q⟩

def roundF64 (d : Dy) : Dy := roundTo 53 (-1074) d
def roundF32 (d : Dy) : Dy := roundTo 24 (-149) d

/-- the finite double with this bit pattern -/
def ofBits64 (b : Nat) : Dy :=
  let s := b / 2 ^ 63 % 2
  let ex : Nat := b / 2 ^ 52 % 2048
  let mant := b % 2 ^ 52
  if ex = 0 then ⟨s = 1, mant, -1074⟩ else ⟨s = 1, 2 ^ 52 + mant, (ex : Int) - 1075⟩

/-- `|d| < 2^k` -/
def absLtPow (d : Dy) (k : Nat) : Prop :=
  (⟨false, d.m, d.e⟩ : Dy).le ⟨false, 1, k⟩ ∧ ¬ (⟨false, 1, k⟩ : Dy).le ⟨false, d.m, d.e⟩

instance (d : Dy) (k : Nat) : Decidable (absLtPow d k) := by unfold absLtPow; infer_instance

end Dy

-- ------------------------------------------------------------------ types and values

inductive NumTy where
  | int (bits : Nat) (signed : Bool)
  | f32 | f64
  deriving DecidableEq, Repr

inductive Elem where
  | num (t : NumTy)
  | str
  deriving DecidableEq, Repr

/-- declared Rust type: `T`, `Option<T>`, `Vec<T>`, `Vec<Option<T>>`, `Option<Vec<…>>` -/
structure Shape where
  elem : Elem
  isList : Bool := false
  /-- items are `Option<T>` (lists only) -/
  elemOpt : Bool := false
  /-- the outermost type is `Option<…>` -/
  opt : Bool := false
  deriving DecidableEq, Repr

/-- value on the wire (`async_graphql::Value`); a float is its (finite) IEEE-754 double bit
    pattern; `other` stands for booleans, enums, objects, binaries -/
inductive W where
  | null
  | int (i : Int)
  | float (bits : Nat)
  | str (s : List Char)
  | list (xs : List W)
  | other
  deriving Repr, Inhabited

/-- a non-null scalar value of the declared element type -/
inductive Sv where
  | int (i : Int)
  | flt (d : Dy)
  | str (s : List Char)
  deriving DecidableEq, Repr

abbrev Item := Option Sv

/-- value of the declared type -/
inductive Tv where
  | scalar (x : Item)
  | list (xs : Option (List Item))
  deriving DecidableEq, Repr

/-- literal bound of a numeric validator: integer literal or float literal -/
inductive Num where
  | i (n : Int)
  | f (x : Dy)
  deriving DecidableEq, Repr

def Num.dy : Num → Dy
  | .i n => Dy.ofInt n
  | .f x => x

structure Cfg where
  multipleOf : Option Num := none
  maximum : Option Num := none
  minimum : Option Num := none
  maxLength : Option Nat := none
  minLength : Option Nat := none
  charsMax : Option Nat := none
  charsMin : Option Nat := none
  regex : Option (List Char) := none
  maxItems : Option Nat := none
  minItems : Option Nat := none
  deriving DecidableEq, Repr

-- ------------------------------------------------------------------ which wire values denote a value of the type

def minOf (bits : Nat) (signed : Bool) : Int := if signed then -((2 : Int) ^ (bits - 1)) else 0
def maxOf (bits : Nat) (signed : Bool) : Int :=
  if signed then (2 : Int) ^ (bits - 1) - 1 else (2 : Int) ^ bits - 1

/-- the double a wire number denotes (an integer is rounded to the nearest double) -/
def wireNum : W → Option Dy
  | .int i => some (Dy.ofInt i).roundF64
  | .float b => some (Dy.ofBits64 b)
  | _ => none

/-- a non-null wire value denotes this scalar -/
def denoteScalar : Elem → W → Option Sv
  | .num (.int bits signed), .int i =>
    if minOf bits signed ≤ i ∧ i ≤ maxOf bits signed then some (.int i) else none
  | .num .f64, w => (wireNum w).map .flt
  | .num .f32, w => (wireNum w).map (fun d => .flt d.roundF32)
  | .str, .str s => some (.str s)
  | _, _ => none

def denoteItem (e : Elem) (nullable : Bool) : W → Option Item
  | .null => if nullable then some none else none
  | w => (denoteScalar e w).map some

/-- GraphQL input coercion: a non-list value given for a list type denotes the one-item list -/
def denote (sh : Shape) : W → Option Tv
  | .null => if sh.opt then some (if sh.isList then .list none else .scalar none) else none
  | .list xs =>
    if sh.isList then (xs.mapM (denoteItem sh.elem sh.elemOpt)).map (fun l => .list (some l)) else none
  | w =>
    if sh.isList then (denoteScalar sh.elem w).map (fun v => .list (some [some v]))
    else (denoteScalar sh.elem w).map (fun v => .scalar (some v))

-- ------------------------------------------------------------------ the predicates

def Sv.dy : Sv → Option Dy
  | .int i => some (Dy.ofInt i)
  | .flt d => some d
  | .str _ => none

def utf8Len (s : List Char) : Nat := (s.map Char.utf8Size).sum

def numSat (v : Sv) (p : Dy → Prop) : Prop :=
  match v.dy with
  | some d => p d
  | none => False

def strSat (v : Sv) (p : List Char → Prop) : Prop :=
  match v with
  | .str s => p s
  | _ => False

def optSat {α} (o : Option α) (p : α → Prop) : Prop :=
  match o with
  | some a => p a
  | none => True

instance {α} (o : Option α) (p : α → Prop) [DecidablePred p] : Decidable (optSat o p) := by
  unfold optSat; split <;> infer_instance
instance (v : Sv) (p : Dy → Prop) [DecidablePred p] : Decidable (numSat v p) := by
  unfold numSat; split <;> infer_instance
instance (v : Sv) (p : List Char → Prop) [DecidablePred p] : Decidable (strSat v p) := by
  unfold strSat; split <;> infer_instance

/-- every item validator holds of the non-null scalar `v` -/
def elemSat (re : List Char → List Char → Bool) (c : Cfg) (v : Sv) : Prop :=
  optSat c.multipleOf (fun n => numSat v (fun d => ¬ d.isZero ∧ Dy.dvd n.dy d)) ∧
  optSat c.maximum (fun n => numSat v (fun d => Dy.le d n.dy)) ∧
  optSat c.minimum (fun n => numSat v (fun d => Dy.le n.dy d)) ∧
  optSat c.maxLength (fun n => strSat v (fun s => utf8Len s ≤ n)) ∧
  optSat c.minLength (fun n => strSat v (fun s => n ≤ utf8Len s)) ∧
  optSat c.charsMax (fun n => strSat v (fun s => s.length ≤ n)) ∧
  optSat c.charsMin (fun n => strSat v (fun s => n ≤ s.length)) ∧
  optSat c.regex (fun p => strSat v (fun s => re p s = true))

instance (re) (c : Cfg) (v : Sv) : Decidable (elemSat re c v) := by
  unfold elemSat; infer_instance

def itemsSat (c : Cfg) (n : Nat) : Prop :=
  optSat c.maxItems (fun k => n ≤ k) ∧ optSat c.minItems (fun k => k ≤ n)

instance (c : Cfg) (n : Nat) : Decidable (itemsSat c n) := by unfold itemsSat; infer_instance

/-- the value satisfies every stated validator -/
def satisfiesAll (re : List Char → List Char → Bool) (c : Cfg) : Tv → Prop
  | .scalar none => True
  | .scalar (some v) => elemSat re c v
  | .list none => True
  | .list (some xs) => itemsSat c xs.length ∧ ∀ it ∈ xs, optSat it (elemSat re c)

instance (re) (c : Cfg) (v : Tv) : Decidable (satisfiesAll re c v) := by
  unfold satisfiesAll; split <;> infer_instance

/-- What the property requires: the resolver is reached iff the wire value denotes a value of the
    declared type which satisfies all validators (otherwise the request reports an error). -/
def mustReach (re : List Char → List Char → Bool) (sh : Shape) (c : Cfg) (w : W) : Prop :=
  match denote sh w with
  | some v => satisfiesAll re c v
  | none => False

instance (re) (sh : Shape) (c : Cfg) (w : W) : Decidable (mustReach re sh c w) := by
  unfold mustReach; split <;> infer_instance

end AGV.Spec.Validators
