/-
  Reference reader for a `multipart/mixed` body with boundary `graphql` (RFC 2046 §5.1.1),
  written independently of the model, and what the property requires of the body of a
  subscription.

      multipart-body := [preamble CRLF] dash-boundary CRLF body-part
                        *(delimiter CRLF body-part) close-delimiter [CRLF epilogue]
      dash-boundary  := "--graphql"        delimiter := CRLF dash-boundary
      close-delimiter:= delimiter "--"     body-part := headers [CRLF body]   (blank line between)

  The reader is strict where a composer has no freedom (no transport padding, which RFC 2046
  forbids composers to generate).  A body part ends at the FIRST following delimiter, which is
  why RFC 2046 demands that the delimiter does not occur in the encapsulated data (`Safe`).
  One deliberate leniency: a body that closes before any part (`--graphql--`) is read as the
  multipart with zero parts, although the grammar asks for at least one body part (this is what
  a subscription that ends without ever producing a response looks like).
  Core-only imports.
-/
namespace AGV.Spec.Multipart

def crlf : List Char := ['\r', '\n']
def dashBoundary : List Char := "--graphql".toList
def delimiter : List Char := crlf ++ dashBoundary

/-- does `pat` occur in `s` (as a contiguous block)? -/
def occurs (pat : List Char) : List Char → Bool
  | [] => pat.isPrefixOf []
  | c :: t => pat.isPrefixOf (c :: t) || occurs pat t

/-- split `s` at the first occurrence of `pat`: (text before, text after) -/
def splitFirst (pat : List Char) : List Char → Option (List Char × List Char)
  | [] => if pat.isPrefixOf [] then some ([], []) else none
  | c :: t =>
    if pat.isPrefixOf (c :: t) then some ([], (c :: t).drop pat.length)
    else match splitFirst pat t with
      | some (a, b) => some (c :: a, b)
      | none => none

structure Part where
  /-- the header block, without the blank line that ends it -/
  headers : List Char
  body : List Char
  deriving Repr, DecidableEq, Inhabited

structure Parsed where
  preamble : List Char
  parts : List Part
  /-- a close delimiter was reached -/
  closed : Bool
  /-- after the close delimiter: the epilogue; otherwise: whatever follows the last complete
      part's delimiter (an unterminated part, or a malformed boundary line) -/
  rest : List Char
  deriving Repr, DecidableEq, Inhabited

/-- text between two delimiters → headers and body -/
def mkPart (p : List Char) : Part :=
  if crlf.isPrefixOf p then { headers := [], body := p.drop 2 }
  else match splitFirst (crlf ++ crlf) p with
    | some (h, b) => { headers := h, body := b }
    | none => { headers := p, body := [] }

/-- reads what follows a dash-boundary -/
def afterBoundary : Nat → List Char → List Part × Bool × List Char
  | 0, s => ([], false, s)
  | fuel + 1, s =>
    if ['-', '-'].isPrefixOf s then
      let r := s.drop 2
      ([], true, if crlf.isPrefixOf r then r.drop 2 else r)
    else if crlf.isPrefixOf s then
      match splitFirst delimiter (s.drop 2) with
      | none => ([], false, s)
      | some (p, r) =>
        let (ps, c, e) := afterBoundary fuel r
        (mkPart p :: ps, c, e)
    else ([], false, s)

def parseMixed (s : List Char) : Parsed :=
  if dashBoundary.isPrefixOf s then
    let (ps, c, e) := afterBoundary (s.length + 1) (s.drop dashBoundary.length)
    { preamble := [], parts := ps, closed := c, rest := e }
  else match splitFirst delimiter s with
    | none => { preamble := s, parts := [], closed := false, rest := [] }
    | some (pre, r) =>
      let (ps, c, e) := afterBoundary (s.length + 1) r
      { preamble := pre, parts := ps, closed := c, rest := e }

/-- RFC 2046: "the boundary delimiter MUST NOT appear inside any of the encapsulated parts, on a
    line by itself or as the prefix of any line" — no line of `j` starts with `--graphql` -/
def Safe (j : List Char) : Prop := occurs delimiter (crlf ++ j) = false

instance (j : List Char) : Decidable (Safe j) := by unfold Safe; infer_instance

-- ------------------------------------------------------------------ what the property requires

/-- what the environment did, as far as the property is concerned -/
inductive Item where
  | response (json : List Char)
  | heartbeat
  deriving Repr, DecidableEq

def jsonHeaders : List Char := "Content-Type: application/json".toList

def partOf : Item → Part
  | .response j => { headers := jsonHeaders, body := j }
  | .heartbeat => { headers := jsonHeaders, body := ['{', '}'] }

/-- the body of a subscription whose response stream has ended: every response once, in order,
    as a JSON part; every heartbeat an empty-object part; closed exactly once, at the very end
    (nothing before the first boundary, nothing after the close delimiter's line) -/
def expectedClosed (items : List Item) : Parsed :=
  { preamble := [], parts := items.map partOf, closed := true, rest := [] }

/-- the bytes produced so far by a subscription whose response stream has not ended: all parts
    but the last are complete, no close delimiter; the last part is still open (its delimiter
    has not been written), its text is `rest` -/
def expectedOpen (items : List Item) : Parsed :=
  let ps := items.map partOf
  { preamble := [], parts := ps.dropLast, closed := false,
    rest := match ps.getLast? with
      | none => []
      | some p => crlf ++ p.headers ++ crlf ++ crlf ++ p.body ++ crlf }

end AGV.Spec.Multipart
