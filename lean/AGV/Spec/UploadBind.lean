/-
  Reference semantics for property C24: what a multipart upload request must decode to.

  Input: the parts of the body in arrival order (`Part`), the options, the byte length of the
  body.  The property speaks about bodies with exactly one decodable `operations` part and one
  valid `map` part whose keys are pairwise distinct and name at most one file part each;
  about anything else (`unspecified`) it is silent (missing parts are property C23).

    * a file part is a part with a name (other than operations/map) and a filename;
    * REJECT when there are more file parts than `max_num_files`, when a file part is larger
      than `max_file_size`, when a map key names no file part, or when a path of the map
      addresses no node of the variables it points into (`variables.` + dot-separated object
      keys / list indices; in a batch prefixed by the index of the request) — a file cannot be
      "bound exactly to the paths its entry assigns" if one of them does not exist;
    * otherwise ACCEPT with exactly these bindings: every addressed node holds the file of its
      entry (name, content type, content), every other node is unchanged.  Two entries that
      address the same node, or a node inside another addressed node, contradict each other:
      `unspecified`;
    * `resourceBound`: the implementation may additionally refuse bodies for size reasons that
      the options imply for non-file data (a non-file part larger than `max_file_size`, the
      whole body larger than `max_file_size × max_num_files`); refusing those is not a violation.

  Import-free.  The data types are shared with the model.
-/
namespace AGV.Spec.UploadBind

abbrev Str := List Char

/-- JSON-like tree with an extra leaf -/
inductive T (α : Type) where
  | null
  | bool (b : Bool)
  | num (n : Int)
  | str (s : Str)
  | arr (xs : List (T α))
  | obj (kvs : List (Str × T α))
  | ext (a : α)
  deriving Repr, Inhabited

abbrev Members (α : Type) := List (Str × T α)

/-- a file part (`name` = form field name; `size` = content length in bytes; `pid` = position
    of the part in the body, which identifies the underlying temporary file) -/
structure File where
  name : Str
  filename : Str
  ctype : Option Str
  content : Str
  size : Nat
  pid : Nat
  deriving Repr, Inhabited, DecidableEq

/-- a decoded request: variables and `uploads` -/
structure Req where
  vars : Members Nat
  uploads : List File
  deriving Repr, Inhabited

inductive Batch where
  | single (r : Req)
  | batch (rs : List Req)
  deriving Repr, Inhabited

abbrev FileMap := List (Str × List Str)

inductive Part where
  | ops (b : Option Batch) (size : Nat)      -- `none`: the text is not a request (InvalidRequest)
  | map (m : Option FileMap) (size : Nat)    -- `none`: not a JSON map of string lists
  | file (f : File)
  | other (size : Nat)                       -- no name or no filename: skipped
  deriving Repr, Inhabited

def Part.size : Part → Nat
  | .ops _ n => n
  | .map _ n => n
  | .file f => f.size
  | .other n => n

structure Opts where
  maxFileSize : Option Nat
  maxNumFiles : Option Nat
  deriving Repr, Inhabited, DecidableEq


mutual
/-- replace the extra leaves -/
def mapExt {α β : Type} (g : α → β) : T α → T β
  | .null => .null
  | .bool b => .bool b
  | .num n => .num n
  | .str s => .str s
  | .arr xs => .arr (mapExtL g xs)
  | .obj kvs => .obj (mapExtM g kvs)
  | .ext a => .ext (g a)
def mapExtL {α β : Type} (g : α → β) : List (T α) → List (T β)
  | [] => []
  | x :: xs => mapExt g x :: mapExtL g xs
def mapExtM {α β : Type} (g : α → β) : List (Str × T α) → List (Str × T β)
  | [] => []
  | (k, v) :: r => (k, mapExt g v) :: mapExtM g r
end

-- ------------------------------------------------------------------ addresses

inductive Step where
  | key (k : Str)
  | idx (i : Nat)
  deriving Repr, DecidableEq

abbrev Addr := List Step

/-- the segments of a dotted path -/
def segments (s : Str) : List Str :=
  s.foldr (fun c acc => if c = '.' then [] :: acc else match acc with
    | [] => [[c]]
    | h :: t => (c :: h) :: t) [[]]

/-- a list index as a path may spell it: decimal digits, optionally after `+`, below 2^bits -/
def index? (bits : Nat) (s : Str) : Option Nat :=
  let ds := if s.head? = some '+' then s.drop 1 else s
  if ds ≠ [] ∧ ds.all (fun c => '0' ≤ c ∧ c ≤ '9') then
    let n := ds.foldl (fun a c => a * 10 + (c.toNat - '0'.toNat)) 0
    if n < 2 ^ bits then some n else none
  else none

/-- the node a list of segments addresses below `t` -/
def resolve {α : Type} : T α → List Str → Option Addr
  | _, [] => some []
  | .arr xs, p :: ps => do
    let i ← index? 32 p
    let v ← xs[i]?
    let a ← resolve v ps
    pure (.idx i :: a)
  | .obj kvs, p :: ps => do
    let kv ← kvs.find? (fun kv => kv.1 = p)
    let a ← resolve kv.2 ps
    pure (.key p :: a)
  | _, _ :: _ => none

/-- put `x` at an address -/
def put {α : Type} (x : T α) : T α → Addr → T α
  | _, [] => x
  | .arr xs, .idx i :: a =>
    match xs[i]? with
    | some v => .arr (xs.set i (put x v a))
    | none => .arr xs
  | .obj kvs, .key k :: a => .obj (kvs.map (fun kv => if kv.1 = k then (kv.1, put x kv.2 a) else kv))
  | t, _ :: _ => t

def prefixVariables : Str := ['v','a','r','i','a','b','l','e','s']

/-- (request index, address below that request's variables object) of a map path -/
def target (single : Bool) (reqs : List (Members Nat)) (path : Str) : Option (Nat × Addr) :=
  match single, segments path with
  | true, v :: k :: ps =>
    if v = prefixVariables then (reqs[0]?.bind (fun m => resolve (.obj m) (k :: ps))).map (fun a => (0, a)) else none
  | false, i :: v :: k :: ps =>
    if v = prefixVariables then
      (index? 64 i).bind (fun n => (reqs[n]?.bind (fun m => resolve (.obj m) (k :: ps))).map (fun a => (n, a)))
    else none
  | _, _ => none

-- ------------------------------------------------------------------ the parts

def fileParts : List Part → List File
  | [] => []
  | .file f :: r => f :: fileParts r
  | _ :: r => fileParts r

def opsParts : List Part → List (Option Batch)
  | [] => []
  | .ops b _ :: r => b :: opsParts r
  | _ :: r => opsParts r

def mapParts : List Part → List (Option FileMap)
  | [] => []
  | .map m _ :: r => m :: mapParts r
  | _ :: r => mapParts r

def Batch.isSingle : Batch → Bool
  | .single _ => true
  | .batch _ => false

def Batch.reqs : Batch → List Req
  | .single r => [r]
  | .batch rs => rs

def Batch.vars : Batch → List (Members Nat)
  | .single r => [r.vars]
  | .batch rs => rs.map (·.vars)

def distinct {β : Type} [DecidableEq β] : List β → Bool
  | [] => true
  | x :: xs => decide (x ∉ xs) && distinct xs

/-- neither address lies on the path to the other -/
def independent (a b : Addr) : Bool := !(a.isPrefixOf b) && !(b.isPrefixOf a)

def pairwise {β : Type} (r : β → β → Bool) : List β → Bool
  | [] => true
  | x :: xs => xs.all (r x) && pairwise r xs

inductive Verdict where
  | unspecified
  | reject
  | accept (single : Bool) (reqs : List (Members (Option File)))
  deriving Inhabited

/-- (file, path) pairs of the map, for the entries that name a file part -/
def assignments (m : FileMap) (files : List File) : List (File × Str) :=
  m.flatMap (fun e => match files.find? (fun f => f.name = e.1) with
    | some f => e.2.map (fun p => (f, p))
    | none => [])

def overCount (o : Opts) (files : List File) : Bool :=
  match o.maxNumFiles with
  | some n => decide (files.length > n)
  | none => false

def overSize (o : Opts) (files : List File) : Bool :=
  match o.maxFileSize with
  | some s => files.any (fun f => decide (f.size > s))
  | none => false

def missingFile (m : FileMap) (files : List File) : Bool :=
  m.any (fun e => !(files.any (fun f => f.name = e.1)))

def require (o : Opts) (parts : List Part) : Verdict :=
  match opsParts parts, mapParts parts with
  | [some b], [some m] =>
    let files := fileParts parts
    if !(distinct (m.map (·.1))) || !(distinct (files.map (·.name))) then .unspecified
    else if overCount o files || overSize o files || missingFile m files then .reject
    else
      let asg := assignments m files
      let tgts := asg.map (fun fp => (fp.1, target (Batch.isSingle b) (Batch.vars b) fp.2))
      if tgts.any (fun t => t.2.isNone) then .reject
      else
        let ts : List (File × Nat × Addr) := tgts.filterMap (fun t => t.2.map (fun a => (t.1, a)))
        if !(pairwise (fun x y => x.2.1 ≠ y.2.1 || independent x.2.2 y.2.2) ts) then .unspecified
        else
          let orig : List (T (Option File)) := (Batch.vars b).map (fun m => mapExt (fun _ => none) (.obj m))
          let bound := ts.foldl (fun (acc : List (T (Option File))) t =>
            match acc[t.2.1]? with
            | some v => acc.set t.2.1 (put (.ext (some t.1)) v t.2.2)
            | none => acc) orig
          .accept (Batch.isSingle b) (bound.map (fun t => match t with | .obj kvs => kvs | _ => []))
  | _, _ => .unspecified

/-- size reasons for which refusing an otherwise acceptable body is not a violation -/
def resourceBound (o : Opts) (bodyLen : Nat) (parts : List Part) : Bool :=
  match o.maxFileSize with
  | none => false
  | some s =>
    parts.any (fun p => match p with
      | .file _ => false
      | p => decide (p.size > s))
    || (match o.maxNumFiles with
        | some n => decide (bodyLen > s * n)
        | none => false)

end AGV.Spec.UploadBind
