/-
  Reference semantics of property C16: converting a value to a GraphQL value and back returns an
  equal value.  Independent of the model; import-free.

  An observed (or modelled) run of `to_value` followed by `from_value` has three possible outcomes:
    none            `to_value` returned an error
    some none       `from_value` returned an error
    some (some w)   both succeeded, `w` came back
-/
namespace AGV.Spec.Serde

/-- what the property requires of the outcome for the input value `v` -/
def Lossless {V : Type} (v : V) (outcome : Option (Option V)) : Prop :=
  outcome = some (some v)

end AGV.Spec.Serde
