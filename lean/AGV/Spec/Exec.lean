/-
  Reference execution semantics: a transcription of the GraphQL specification (October 2021)
  §6.2–6.4: CoerceVariableValues (defaults only; type coercion is C06's business),
  CollectFields with visitedFragments and @skip/@include, DoesFragmentTypeApply,
  ExecuteSelectionSet, ExecuteField, CompleteValue, MergeSelectionSets, and the handling of
  field errors (null at the nearest nullable position).  Import-free.

  Recursion into object values and fragment definitions is by `fuel`; drivers run with
  `Doc.fuelBound` and re-run with more fuel to confirm the result does not depend on it.
-/
import AGV.Core.Types

namespace AGV.Spec.Exec
open AGV.Core

structure Ctx where
  S : Schema
  d : Doc
  /-- coerced variable values (defaults applied) -/
  vars : List (String × GValue)
  w : World

/-- §6.1.2 CoerceVariableValues, restricted to the presence/default logic -/
def coerceVars (defs : List VarDef) (raw : List (String × GValue)) : List (String × GValue) :=
  defs.filterMap (fun vd =>
    match raw.find? (·.1 = vd.name) with
    | some p => some (vd.name, p.2)
    | none => vd.default.map (fun dv => (vd.name, dv)))

def lookupVar (vars : List (String × GValue)) (n : String) : Option GValue :=
  (vars.find? (·.1 = n)).map (·.2)

/-- value of a directive's `if` argument -/
def dirIf (vars : List (String × GValue)) (d : Dir) : Option Bool :=
  match d.args.find? (·.1 = "if") with
  | some (_, .bool b) => some b
  | some (_, .var n) =>
    match lookupVar vars n with
    | some (.bool b) => some b
    | _ => none
  | _ => none

/-- §3.13: excluded when `@skip(if: true)` or `@include(if: false)` -/
def excluded (vars : List (String × GValue)) (dirs : List Dir) : Bool :=
  dirs.any (fun d => (d.name = "skip" && dirIf vars d == some true) ||
                     (d.name = "include" && dirIf vars d == some false))

/-- DoesFragmentTypeApply(objectType, fragmentType) -/
def doesApply (S : Schema) (rt cond : String) : Bool :=
  match S.find? cond with
  | none => false
  | some t =>
    match t.kind with
    | .object => cond = rt
    | .interface => match S.find? rt with
      | some o => o.implements.contains cond
      | none => false
    | .union => t.members.contains rt
    | _ => false

structure FieldOcc where
  key : String
  name : String
  args : List (String × DValue)
  sels : List Sel
  pos : Pos
  /-- (model only) the static type parameter under which the occurrence was collected -/
  st : String := ""
  deriving Repr, Inhabited, BEq

def Sel.key (al : Option String) (n : String) : String := al.getD n

/-- CollectFields, flat (document order) with the visitedFragments set threaded through -/
def collect (c : Ctx) (rt : String) : Nat → List Sel → List String → List FieldOcc × List String
  | 0, _, vis => ([], vis)
  | fuel + 1, sels, vis =>
    sels.foldl (fun (acc : List FieldOcc × List String) sel =>
      match sel with
      | .field al n args dirs ss pos =>
        if excluded c.vars dirs then acc
        else (acc.1 ++ [{ key := Sel.key al n, name := n, args := args, sels := ss, pos := pos }], acc.2)
      | .spread n dirs _ =>
        if excluded c.vars dirs then acc
        else if acc.2.contains n then acc
        else
          let vis := n :: acc.2
          match c.d.frag? n with
          | none => (acc.1, vis)
          | some f =>
            if !doesApply c.S rt f.cond then (acc.1, vis)
            else
              let r := collect c rt fuel f.sels vis
              (acc.1 ++ r.1, r.2)
      | .inline cond dirs ss _ =>
        if excluded c.vars dirs then acc
        else
          match cond with
          | some t =>
            if !doesApply c.S rt t then acc
            else
              let r := collect c rt fuel ss acc.2
              (acc.1 ++ r.1, r.2)
          | none =>
            let r := collect c rt fuel ss acc.2
            (acc.1 ++ r.1, r.2)) ([], vis)

/-- group by response key, groups in order of first occurrence -/
def group (occs : List FieldOcc) : List (String × List FieldOcc) :=
  occs.foldl (fun gs o =>
    if gs.any (·.1 = o.key) then gs.map (fun g => if g.1 = o.key then (g.1, g.2 ++ [o]) else g)
    else gs ++ [(o.key, [o])]) []

/-- value of an argument at a field occurrence: literal, variable, or the declared default -/
partial def constOf (vars : List (String × GValue)) : DValue → Option GValue
  | .var n => lookupVar vars n
  | .null => some .null
  | .int i => some (.int i)
  | .float t => some (.float t)
  | .str s => some (.str s)
  | .bool b => some (.bool b)
  | .enum n => some (.enum n)
  | .list xs => (xs.mapM (constOf vars)).map .list
  | .obj fs => (fs.mapM (fun p => (constOf vars p.2).map (fun v => (p.1, v)))).map .obj

def argValue (c : Ctx) (fd : FieldDef) (occ : FieldOcc) (a : String) : GValue :=
  match occ.args.find? (·.1 = a) with
  | some (_, dv) =>
    match constOf c.vars dv with
    | some v => v
    | none => match fd.args.find? (·.name = a) with
      | some ad => ad.default.getD .null
      | none => .null
  | none => match fd.args.find? (·.name = a) with
    | some ad => ad.default.getD .null
    | none => .null

/-- leaf serialisation according to the declared type (result coercion §3.5), JSON view:
    enum values become strings -/
def serializeLeaf (S : Schema) (tn : String) (v : GValue) : Option GValue :=
  match tn, v with
  | "Int", .int i => some (.int i)
  | "Float", .float t => if t = "NaN" ∨ t = "inf" ∨ t = "-inf" then none else some (.float t)
  | "Float", .int i => some (.int i)
  | "String", .str s => some (.str s)
  | "Boolean", .bool b => some (.bool b)
  | "ID", .str s => some (.str s)
  | tn, .enum e =>
    match S.find? tn with
    | some t => if t.kind == .enum && t.values.contains e then some (.str e) else none
    | none => none
  | _, _ => none

def mapIdx {α β} (f : Nat → α → β) : List α → Nat → List β
  | [], _ => []
  | x :: xs, i => f i x :: mapIdx f xs (i + 1)

/-- CompleteValue.  `rec rt id sels path` executes a merged selection set on an object value.
    A field error is recorded with the response path and the location of the field; `val = none`
    lets it propagate to the parent; a nullable position turns it into `null`. -/
def complete (S : Schema) (rec : String → Nat → List Sel → List PathSeg → Res) :
    TypeRef → RVal → List Sel → List PathSeg → Pos → Res
  | .nonNull t, rv, ss, path, pos =>
    match rv with
    | .null => { val := none, errs := [⟨path, pos⟩] }
    | _ => complete S rec t rv ss path pos |> fun r =>
      match r.val with
      | some .null => if r.errs.isEmpty then { val := none, errs := [⟨path, pos⟩], log := r.log } else { r with val := none }
      | _ => r
  | .list t, rv, ss, path, pos =>
    match rv with
    | .null => { val := some .null }
    | .fail _ => { val := some .null, errs := [⟨path, pos⟩] }
    | .list xs =>
      let rs := mapIdx (fun i x => complete S rec t x ss (path ++ [.idx i]) pos) xs 0
      let errs := (rs.map (·.errs)).flatten
      let log := (rs.map (·.log)).flatten
      if rs.all (·.val.isSome) then { val := some (.list (rs.filterMap (·.val))), errs := errs, log := log }
      else { val := some .null, errs := errs, log := log }
    | _ => { val := some .null, errs := [⟨path, pos⟩] }
  | .named n, rv, ss, path, pos =>
    match rv with
    | .null => { val := some .null }
    | .fail _ => { val := some .null, errs := [⟨path, pos⟩] }
    | .obj ty id =>
      if (S.possibleTypes n).contains ty then
        let r := rec ty id ss path
        match r.val with
        | some v => { r with val := some v }
        | none => { r with val := some .null }
      else { val := some .null, errs := [⟨path, pos⟩] }
    | .leaf v =>
      if S.isComposite n then { val := some .null, errs := [⟨path, pos⟩] }
      else match serializeLeaf S n v with
        | some v' => { val := some v' }
        | none => { val := some .null, errs := [⟨path, pos⟩] }
    | _ => { val := some .null, errs := [⟨path, pos⟩] }

/-
  Reading of `complete`: the result for a *nullable* type is always `some _` (errors were turned
  into null there), and `.nonNull t` turns a null produced by an error below, or a plain null,
  into propagation (`none`).  A `null` that completion of `t` produced *without* error for a
  non-null position is itself a field error ("null for non-null"), recorded once.
-/

/-- ExecuteSelectionSet on the object `(rt, id)` -/
def execSet (c : Ctx) : Nat → String → Nat → List Sel → List PathSeg → Res
  | 0, _, _, _, _ => { val := none }
  | fuel + 1, rt, id, sels, path =>
    let groups := group (collect c rt (fuel + 1) sels []).1
    let step := fun (acc : List (String × GValue) × List GErr × List Inv × Bool) (g : String × List FieldOcc) =>
      match g.2 with
      | [] => acc
      | occ :: _ =>
        if occ.name = "__typename" then (acc.1 ++ [(g.1, .str rt)], acc.2.1, acc.2.2.1, acc.2.2.2)
        else
          match c.S.field? rt occ.name with
          | none => acc
          | some fd =>
            let rv := match c.w.get id occ.name with
              | .arg a => .leaf (argValue c fd occ a)
              | rv => rv
            let merged := (g.2.map (·.sels)).flatten
            let r := complete c.S (execSet c fuel) fd.ty rv merged (path ++ [.key g.1]) occ.pos
            let log := acc.2.2.1 ++ [⟨id, occ.name, g.1⟩] ++ r.log
            match r.val with
            | some v => (acc.1 ++ [(g.1, v)], acc.2.1 ++ r.errs, log, acc.2.2.2)
            | none => (acc.1, acc.2.1 ++ r.errs, log, true)
    let out := groups.foldl step ([], [], [], false)
    if out.2.2.2 then { val := none, errs := out.2.1, log := out.2.2.1 }
    else { val := some (.obj out.1), errs := out.2.1, log := out.2.2.1 }

def selCount : List Sel → Nat
  | [] => 0
  | .field _ _ _ _ ss _ :: r => 1 + selCount ss + selCount r
  | .spread _ _ _ :: r => 1 + selCount r
  | .inline _ _ ss _ :: r => 1 + selCount ss + selCount r

/-- enough fuel for every acyclic document: the total number of selections plus one per level -/
def fuelBound (d : Doc) : Nat :=
  2 + (d.ops.map (fun o => selCount o.sels)).sum + (d.frags.map (fun f => 1 + selCount f.sels)).sum

def selectOp (d : Doc) (opName : Option String) : Option OpDef :=
  match opName with
  | some n => d.ops.find? (·.name = some n)
  | none => match d.ops with
    | [o] => some o
    | _ => none

/-- ExecuteRequest for a query or mutation (root value has identity 0) -/
def run (S : Schema) (d : Doc) (opName : Option String) (raw : List (String × GValue)) (w : World)
    (fuel : Nat) : Res :=
  match selectOp d opName with
  | none => { val := none }
  | some op =>
    let c : Ctx := { S := S, d := d, vars := coerceVars op.vars raw, w := w }
    let root := match op.ty with
      | .query => S.query
      | .mutation => S.mutation.getD ""
      | .subscription => S.subscription.getD ""
    execSet c fuel root 0 op.sels []

end AGV.Spec.Exec
