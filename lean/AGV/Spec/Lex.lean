/-
  The lexical grammar of the GraphQL specification (October 2021, §2.1): source text → tokens
  (property C13).  Ignored tokens (UnicodeBOM, WhiteSpace, LineTerminator, Comment, Comma),
  Punctuator, Name, IntValue, FloatValue (with the lookahead restriction: not followed by a Digit,
  `.` or NameStart), StringValue with its escape semantics (`Spec/Literal.lean`, C15) and block
  strings with `BlockStringValue()`.  Written from the specification text, independently of the
  pest grammar.  SourceCharacter is any Unicode scalar value; `\uXXXX` must denote a scalar value
  (documented deviation of the parser, and inherent to `Char`).  Core-only.
-/
import AGV.Spec.Literal
import AGV.Util.F64

namespace AGV.Spec.Lex
open AGV.Spec.Literal

inductive Tok where
  | punct (c : Char)            -- ! $ & ( ) : = @ [ ] { | }
  | spread                      -- ...
  | name (n : List Char)
  | int (negative : Bool) (digits : List Char)
  | float (negative : Bool) (ip fr : List Char) (expNeg : Bool) (ex : List Char)
  | str (v : List Char)
  deriving Repr, Inhabited, BEq, DecidableEq

def isLineTerm (c : Char) : Bool := c = '\n' || c = '\r'

/-- Ignored tokens other than comments -/
def isIgnoredChar (c : Char) : Bool :=
  c.toNat = 0xFEFF || c = '\t' || c = ' ' || isLineTerm c || c = ','

def isPunct (c : Char) : Bool :=
  c = '!' || c = '$' || c = '&' || c = '(' || c = ')' || c = ':' || c = '=' || c = '@' || c = '[' ||
  c = ']' || c = '{' || c = '|' || c = '}'

def dropComment : List Char → List Char
  | [] => []
  | c :: r => if isLineTerm c then c :: r else dropComment r

-- ------------------------------------------------------------------ block strings (§2.9.4)

/-- split at LineTerminator (`\r\n` is one) -/
def lines : List Char → List Char → List (List Char)
  | acc, [] => [acc.reverse]
  | acc, '\r' :: '\n' :: r => acc.reverse :: lines [] r
  | acc, c :: r => if isLineTerm c then acc.reverse :: lines [] r else lines (c :: acc) r

def isWsChar (c : Char) : Bool := c = ' ' || c = '\t'

def leadingWs : List Char → Nat
  | [] => 0
  | c :: r => if isWsChar c then leadingWs r + 1 else 0

def onlyWs (l : List Char) : Bool := l.all isWsChar

/-- the smallest indent of the lines that are not only whitespace -/
def commonIndent : List (List Char) → Option Nat
  | [] => none
  | l :: ls =>
    let rest := commonIndent ls
    if leadingWs l < l.length then
      match rest with
      | some m => some (min (leadingWs l) m)
      | none => some (leadingWs l)
    else rest

def dropTrailingBlank (ls : List (List Char)) : List (List Char) :=
  (ls.reverse.dropWhile onlyWs).reverse

def join : List (List Char) → List Char
  | [] => []
  | [l] => l
  | l :: ls => l ++ '\n' :: join ls

/-- `BlockStringValue(rawValue)` -/
def blockStringValue (raw : List Char) : List Char :=
  let ls := lines [] raw
  let ls := match ls with
    | [] => []
    | first :: rest =>
      match commonIndent rest with
      | some ci => first :: rest.map (List.drop ci)
      | none => first :: rest
  join (dropTrailingBlank (ls.dropWhile onlyWs))

/-- BlockStringCharacter* up to the closing `"""`: raw value (with `\"""` standing for `"""`) -/
def lexBlock : List Char → Option (List Char × List Char)
  | [] => none
  | '"' :: '"' :: '"' :: r => some ([], r)
  | '\\' :: '"' :: '"' :: '"' :: r =>
    match lexBlock r with
    | some (v, rest) => some ('"' :: '"' :: '"' :: v, rest)
    | none => none
  | c :: r =>
    match lexBlock r with
    | some (v, rest) => some (c :: v, rest)
    | none => none

-- ------------------------------------------------------------------ numbers (§2.9.1, §2.9.2)

def isDig (c : Char) : Bool := 48 ≤ c.toNat && c.toNat ≤ 57

def digitsOf : List Char → List Char × List Char
  | [] => ([], [])
  | c :: r => if isDig c then ((digitsOf r).1.cons c, (digitsOf r).2) else ([], c :: r)

/-- the character after a number token must not be a Digit, `.` or NameStart -/
def numFollowOk : List Char → Bool
  | [] => true
  | c :: _ => !(isDig c || c = '.' || nameStart c)

/-- IntValue / FloatValue at the head of the input (longest match), then the lookahead restriction -/
def lexNumber (cs : List Char) : Option (Tok × List Char) :=
  let negative := cs.head? = some '-'
  let body := if negative then cs.tail else cs
  let ip := (digitsOf body).1
  let r1 := (digitsOf body).2
  -- IntegerPart :: -? 0 | -? NonZeroDigit Digit*
  if ip.isEmpty || (ip.head? = some '0' && ip.length > 1) then
    -- `0` followed by digits: the token is `0`, followed by a Digit
    none
  else
    -- FractionalPart :: . Digit+
    let (fr, r2, hasFr) := match r1 with
      | '.' :: r => if (digitsOf r).1.isEmpty then ([], r1, false) else ((digitsOf r).1, (digitsOf r).2, true)
      | _ => ([], r1, false)
    -- ExponentPart :: ExponentIndicator Sign? Digit+
    let (exNeg, ex, r3, hasEx) := match r2 with
      | c :: r =>
        if c = 'e' || c = 'E' then
          (match r with
           | '+' :: r' => if (digitsOf r').1.isEmpty then (false, [], r2, false) else (false, (digitsOf r').1, (digitsOf r').2, true)
           | '-' :: r' => if (digitsOf r').1.isEmpty then (false, [], r2, false) else (true, (digitsOf r').1, (digitsOf r').2, true)
           | r' => if (digitsOf r').1.isEmpty then (false, [], r2, false) else (false, (digitsOf r').1, (digitsOf r').2, true))
        else (false, [], r2, false)
      | [] => (false, [], r2, false)
    if !numFollowOk r3 then none
    else if hasFr || hasEx then some (.float negative ip fr exNeg ex, r3)
    else some (.int negative ip, r3)

def natOf (ds : List Char) : Nat := ds.foldl (fun a c => a * 10 + (c.toNat - 48)) 0

-- ------------------------------------------------------------------ the lexer

def nameOf : List Char → List Char × List Char
  | [] => ([], [])
  | c :: r => if nameChar c then ((nameOf r).1.cons c, (nameOf r).2) else ([], c :: r)

/-- one token at the head (ignored tokens already skipped) -/
def lexToken : List Char → Option (Tok × List Char)
  | [] => none
  | c :: r =>
    if isPunct c then some (.punct c, r)
    else if c = '.' then
      (match r with
       | '.' :: '.' :: r' => some (.spread, r')
       | _ => none)
    else if nameStart c then some (.name (c :: (nameOf r).1), (nameOf r).2)
    else if c = '-' || isDig c then lexNumber (c :: r)
    else if c = '"' then
      (match r with
       | '"' :: '"' :: r' =>
         (match lexBlock r' with
          | some (raw, rest) => some (.str (blockStringValue raw), rest)
          | none => none)
       | _ =>
         (match lexString r with
          | some (v, rest) => some (.str v, rest)
          | none => none))
    else none

/-- all tokens of a source text (`none`: some character sequence is not a token) -/
def lexAll : Nat → List Char → Option (List Tok)
  | 0, _ => none
  | _ + 1, [] => some []
  | f + 1, c :: r =>
    if isIgnoredChar c then lexAll f r
    else if c = '#' then lexAll f (dropComment r)
    else
      match lexToken (c :: r) with
      | some (t, rest) => (lexAll f rest).map (t :: ·)
      | none => none

def tokens (s : List Char) : Option (List Tok) := lexAll (s.length + 1) s

end AGV.Spec.Lex
