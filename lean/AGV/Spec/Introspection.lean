/-
  C19 — what the property requires of an observed response, independent of how it is produced.

  An observation lists, for every root field of the document, whether schema metadata came back,
  whether the user resolver belonging to that field was invoked, and the string `__typename`
  returned (if the field is `__typename`).  A request that is refused as a whole (validation
  error, unsupported transport) has no field observations; resolver invocations that belong to
  no listed field are counted in `strayRuns`.

    disabled (schema or request)            ⇒ no field returns metadata
    introspection-only (schema or request)  ⇒ no resolver is invoked at all
    every `__typename` root field that is answered names the operation's root type
  Import-free apart from the shared enumerations.
-/
import AGV.Model.Introspection

namespace AGV.Spec.Introspection
open AGV.Model.Introspection (Mode Op Kind)

structure FieldObs where
  kind : Kind
  gotMetadata : Bool
  resolverRan : Bool
  typeName : Option String
  deriving DecidableEq, Repr

structure Obs where
  fields : List FieldObs
  strayRuns : Nat
  deriving DecidableEq, Repr

/-- the root type names of the schemas under test -/
def rootTypeName : Op → String
  | .query => "Query"
  | .mutation => "Mutation"
  | .subscription => "Subscription"

/-- the three requirements on one root field -/
def fieldHolds (sm rm : Mode) (op : Op) (f : FieldObs) : Bool :=
  ((sm != .disabled && rm != .disabled) || !f.gotMetadata)
  && ((sm != .only && rm != .only) || !f.resolverRan)
  && (f.kind != .typename || f.typeName == some (rootTypeName op))

def holds (sm rm : Mode) (op : Op) (o : Obs) : Bool :=
  o.fields.all (fieldHolds sm rm op)
  && ((sm != .only && rm != .only) || o.strayRuns == 0)

end AGV.Spec.Introspection
