/-
  Reference reading of a type-system document (GraphQL specification October 2021, §3) for the
  subset of the grammar an SDL exporter can emit, as a recursive-descent parser over the tokens
  of `Spec/Lex.lean` (C13's lexer: string escapes, block strings with `BlockStringValue`), and
  `describe`: the type-system document the property requires for a schema and export options.
  Written independently of the exporter model.  Core-only.

    TypeSystemDocument   : TypeSystemDefinitionOrExtension+
    SchemaDefinition     : Description? schema Directives? { RootOperationTypeDefinition+ }
    SchemaExtension      : extend schema Directives? { RootOp+ } | extend schema Directives
    ScalarTypeDefinition : Description? scalar Name Directives?
    ObjectTypeDefinition : Description? type Name ImplementsInterfaces? Directives? FieldsDefinition?
    InterfaceTypeDef.    : Description? interface Name ImplementsInterfaces? Directives? FieldsDefinition?
    UnionTypeDefinition  : Description? union Name Directives? (= |? NamedType (| NamedType)*)?
    EnumTypeDefinition   : Description? enum Name Directives? { EnumValueDefinition+ }?
    InputObjectTypeDef.  : Description? input Name Directives? { InputValueDefinition+ }?
    DirectiveDefinition  : Description? directive @ Name ArgumentsDefinition? repeatable? on |? Loc (| Loc)*
    extend type / extend interface (object and interface extensions; an extension has no Description)
-/
import AGV.Spec.Parse
import AGV.Core.Sdl

namespace AGV.Spec.SdlParse
open AGV.Spec.Lex AGV.Spec.Parse AGV.Core.PAst AGV.Core.Sdl

def P : Params := { maxDepth := none, finiteFloats := false, needOperation := false }

/-- `Description?` -/
def pDesc : List Tok → Option Text × List Tok
  | .str d :: r => (some d, r)
  | ts => (none, ts)

def constDirs (ts : List Tok) : Option (List PDirective × List Tok) := pDirs P true ts

/-- `InputValueDefinition : Description? Name : Type DefaultValue? Directives[Const]?` -/
def pInputValue (ts : List Tok) : Option (SIv × List Tok) :=
  let (d, r) := pDesc ts
  match r with
  | .name n :: .punct ':' :: r1 =>
    (match pType (r1.length + 1) r1 with
     | some (t, r2) =>
       let dv : Option (Option PValue × List Tok) :=
         match r2 with
         | .punct '=' :: r3 => (pValue P true (valueFuel r3) r3).map (fun x => (some x.1, x.2))
         | _ => some (none, r2)
       (match dv with
        | some (v, r4) =>
          (match constDirs r4 with
           | some (ds, r5) => some (⟨n, d, t, v, ds⟩, r5)
           | none => none)
        | none => none)
     | none => none)
  | _ => none

/-- `InputValueDefinition+` up to the closing token -/
def pInputValues (close : Char) : Nat → List Tok → Option (List SIv × List Tok)
  | 0, _ => none
  | g + 1, ts =>
    match pInputValue ts with
    | some (iv, r) =>
      (match r with
       | .punct c :: r' =>
         if c = close then some ([iv], r') else (pInputValues close g r).map (fun x => (iv :: x.1, x.2))
       | _ => (pInputValues close g r).map (fun x => (iv :: x.1, x.2)))
    | none => none

/-- `ArgumentsDefinition?` -/
def pArgsDef : List Tok → Option (List SIv × List Tok)
  | .punct '(' :: r => pInputValues ')' (r.length + 1) r
  | ts => some ([], ts)

/-- `FieldDefinition : Description? Name ArgumentsDefinition? : Type Directives[Const]?` -/
def pField (ts : List Tok) : Option (SField × List Tok) :=
  let (d, r) := pDesc ts
  match r with
  | .name n :: r1 =>
    (match pArgsDef r1 with
     | some (as, .punct ':' :: r2) =>
       (match pType (r2.length + 1) r2 with
        | some (t, r3) =>
          (match constDirs r3 with
           | some (ds, r4) => some (⟨n, d, as, t, ds⟩, r4)
           | none => none)
        | none => none)
     | _ => none)
  | _ => none

/-- `FieldDefinition+ }` -/
def pFields : Nat → List Tok → Option (List SField × List Tok)
  | 0, _ => none
  | g + 1, ts =>
    match pField ts with
    | some (f, .punct '}' :: r) => some ([f], r)
    | some (f, r) => (pFields g r).map (fun x => (f :: x.1, x.2))
    | none => none

/-- `FieldsDefinition?` -/
def pFieldsDef : List Tok → Option (List SField × List Tok)
  | .punct '{' :: r => pFields (r.length + 1) r
  | ts => some ([], ts)

/-- `NamedType (sep NamedType)*` -/
def pSepNames (sep : Char) : Nat → List Tok → Option (List Text × List Tok)
  | 0, _ => none
  | g + 1, ts =>
    match ts with
    | .name n :: .punct c :: r =>
      if c = sep then (pSepNames sep g r).map (fun x => (n :: x.1, x.2)) else some ([n], .punct c :: r)
    | .name n :: r => some ([n], r)
    | _ => none

/-- an optional leading separator, then the separated names -/
def pNamesAfter (sep : Char) (ts : List Tok) : Option (List Text × List Tok) :=
  match ts with
  | .punct c :: r => if c = sep then pSepNames sep (r.length + 1) r else none
  | _ => pSepNames sep (ts.length + 1) ts

/-- `ImplementsInterfaces?` -/
def pImplements : List Tok → Option (List Text × List Tok)
  | .name k :: r => if k = kw "implements" then pNamesAfter '&' r else some ([], .name k :: r)
  | ts => some ([], ts)

/-- `EnumValueDefinition+ }` (an enum value is a Name other than true, false, null) -/
def pEnumValues : Nat → List Tok → Option (List SEnumVal × List Tok)
  | 0, _ => none
  | g + 1, ts =>
    let (d, r) := pDesc ts
    match r with
    | .name n :: r1 =>
      if n = kw "true" || n = kw "false" || n = kw "null" then none
      else
        (match constDirs r1 with
         | some (ds, .punct '}' :: r2) => some ([⟨n, d, ds⟩], r2)
         | some (ds, r2) => (pEnumValues g r2).map (fun x => (⟨n, d, ds⟩ :: x.1, x.2))
         | none => none)
    | _ => none

/-- `RootOperationTypeDefinition+ }` -/
def pRootOps : Nat → (Option Text × Option Text × Option Text) → List Tok →
    Option ((Option Text × Option Text × Option Text) × List Tok)
  | 0, _, _ => none
  | g + 1, acc, ts =>
    match ts with
    | .name k :: .punct ':' :: .name t :: r =>
      let acc' : Option (Option Text × Option Text × Option Text) :=
        if k = kw "query" then (if acc.1.isSome then none else some (some t, acc.2.1, acc.2.2))
        else if k = kw "mutation" then (if acc.2.1.isSome then none else some (acc.1, some t, acc.2.2))
        else if k = kw "subscription" then (if acc.2.2.isSome then none else some (acc.1, acc.2.1, some t))
        else none
      (match acc' with
       | some a =>
         (match r with
          | .punct '}' :: r' => some (a, r')
          | _ => pRootOps g a r)
       | none => none)
    | _ => none

def directiveLocations : List Text :=
  ["QUERY", "MUTATION", "SUBSCRIPTION", "FIELD", "FRAGMENT_DEFINITION", "FRAGMENT_SPREAD", "INLINE_FRAGMENT",
   "VARIABLE_DEFINITION", "SCHEMA", "SCALAR", "OBJECT", "FIELD_DEFINITION", "ARGUMENT_DEFINITION", "INTERFACE",
   "UNION", "ENUM", "ENUM_VALUE", "INPUT_OBJECT", "INPUT_FIELD_DEFINITION"].map String.toList

/-- the definition after its optional description; `ext`: the keyword `extend` was read -/
def pTypeDef (ext : Bool) (d : Option Text) (ts : List Tok) : Option (SDef × List Tok) :=
  match ts with
  | .name k :: .name n :: r =>
    if k = kw "scalar" then
      (constDirs r).map (fun x => (.type ext n d x.1 .scalar, x.2))
    else if k = kw "type" || k = kw "interface" then
      (match pImplements r with
       | some (is, r1) =>
         (match constDirs r1 with
          | some (ds, r2) =>
            (pFieldsDef r2).map (fun x =>
              (.type ext n d ds (if k = kw "type" then .object is x.1 else .interface is x.1), x.2))
          | none => none)
       | none => none)
    else if k = kw "union" then
      (match constDirs r with
       | some (ds, .punct '=' :: r1) => (pNamesAfter '|' r1).map (fun x => (.type ext n d ds (.union x.1), x.2))
       | some (ds, r1) => some (.type ext n d ds (.union []), r1)
       | none => none)
    else if k = kw "enum" then
      (match constDirs r with
       | some (ds, .punct '{' :: r1) =>
         (pEnumValues (r1.length + 1) r1).map (fun x => (.type ext n d ds (.enum x.1), x.2))
       | some (ds, r1) => some (.type ext n d ds (.enum []), r1)
       | none => none)
    else if k = kw "input" then
      (match constDirs r with
       | some (ds, .punct '{' :: r1) =>
         (pInputValues '}' (r1.length + 1) r1).map (fun x => (.type ext n d ds (.input x.1), x.2))
       | some (ds, r1) => some (.type ext n d ds (.input []), r1)
       | none => none)
    else none
  | _ => none

/-- one `TypeSystemDefinitionOrExtension` -/
def pDef (ts : List Tok) : Option (SDef × List Tok) :=
  let (d, r) := pDesc ts
  match r with
  | .name k :: r1 =>
    if k = kw "extend" then
      -- an extension carries no description
      if d.isSome then none
      else
        (match r1 with
         | .name k2 :: r2 =>
           if k2 = kw "schema" then
             (match constDirs r2 with
              | some (ds, .punct '{' :: r3) =>
                (pRootOps (r3.length + 1) (none, none, none) r3).map
                  (fun x => (.schema true ds x.1.1 x.1.2.1 x.1.2.2, x.2))
              | some (ds, r3) => if ds.isEmpty then none else some (.schema true ds none none none, r3)
              | none => none)
           else pTypeDef true none r1
         | _ => none)
    else if k = kw "schema" then
      (match constDirs r1 with
       | some (ds, .punct '{' :: r3) =>
         (pRootOps (r3.length + 1) (none, none, none) r3).map (fun x => (.schema false ds x.1.1 x.1.2.1 x.1.2.2, x.2))
       | _ => none)
    else if k = kw "directive" then
      (match r1 with
       | .punct '@' :: .name n :: r2 =>
         (match pArgsDef r2 with
          | some (as, r3) =>
            let (rep, r4) : Bool × List Tok := match r3 with
              | .name w :: r' => if w = kw "repeatable" then (true, r') else (false, r3)
              | _ => (false, r3)
            (match r4 with
             | .name w :: r5 =>
               if w = kw "on" then
                 (match pNamesAfter '|' r5 with
                  | some (ls, r6) =>
                    if ls.all directiveLocations.contains then some (.directive n d as rep ls, r6) else none
                  | none => none)
               else none
             | _ => none)
          | none => none)
       | _ => none)
    else pTypeDef false d r
  | _ => none

def pDefs : Nat → List Tok → Option (List SDef)
  | 0, _ => none
  | g + 1, ts =>
    match pDef ts with
    | some (d, []) => some [d]
    | some (d, r) => (pDefs g r).map (d :: ·)
    | none => none

/-- the type-system document a token sequence denotes -/
def parseTokens (ts : List Tok) : Option (List SDef) := pDefs (ts.length + 1) ts

/-- the type-system document a source text denotes, if it is one -/
def parseSchema (src : Text) : Option (List SDef) :=
  match tokens src with
  | some ts => parseTokens ts
  | none => none

-- ------------------------------------------------------------------ describe

def kwT (x : String) : Text := x.toList

def dDir (d : DirApp) : PDirective := ⟨d.name, d.args.map (fun kv => (kv.1, kv.2.toP))⟩

def dDeprecated : Dep → List PDirective
  | .no => []
  | .yes none => [⟨kwT "deprecated", []⟩]
  | .yes (some r) => [⟨kwT "deprecated", [(kwT "reason", .str r)]⟩]

/-- federation attributes appear as directives only in a federation export -/
def dFed (o : Opts) (a : Attrs) : List PDirective :=
  if o.federation then
    (if a.inacc then [⟨kwT "inaccessible", []⟩] else []) ++ a.tags.map (fun t => ⟨kwT "tag", [(kwT "name", .str t)]⟩)
  else []

/-- all directive applications of an item (compared up to `normDirs`) -/
def dDirs (o : Opts) (a : Attrs) : List PDirective := dDeprecated a.dep ++ dFed o a ++ a.dirs.map dDir

def sorted {α : Type} (on : Bool) (nm : α → Text) (xs : List α) : List α :=
  if on then xs.mergeSort (fun a b => nameLe (nm a) (nm b)) else xs

def dIv (o : Opts) (x : InputVal) : SIv := ⟨x.name, x.a.desc, x.ty, x.default.map SValue.toP, dDirs o x.a⟩

def dField (o : Opts) (f : FieldDef) : SField :=
  ⟨f.name, f.a.desc, (sorted o.sortedArgs (·.name) f.args).map (dIv o), f.ty, dDirs o f.a⟩

def dFields (o : Opts) (fs : List FieldDef) : List SField := (sorted o.sortedFields (·.name) fs).map (dField o)

def builtinScalars : List Text := ["Int", "Float", "String", "Boolean", "ID"].map String.toList

/-- the definition of one named type (`none`: not part of the document) -/
def dType (o : Opts) : TypeDef → Option SDef
  | .scalar n a url =>
    if builtinScalars.contains n then none
    else
      some (.type false n a.desc
        ((match o.specifiedBy, url with
          | true, some u => [⟨kwT "specifiedBy", [(kwT "url", .str u)]⟩]
          | _, _ => []) ++ dDirs o a) .scalar)
  -- a type extension (federation export of an `extends` type) cannot carry a description
  | .object n a ext is fs =>
    some (.type (o.federation && ext) n (if o.federation && ext then none else a.desc) (dDirs o a) (.object is (dFields o fs)))
  | .interface n a ext is fs =>
    some (.type (o.federation && ext) n (if o.federation && ext then none else a.desc) (dDirs o a) (.interface is (dFields o fs)))
  | .union n a ms => some (.type false n a.desc (dDirs o a) (.union ms))
  | .enum n a vs =>
    some (.type false n a.desc (dDirs o a)
      (.enum ((sorted o.sortedEnum (·.1) vs).map (fun v => ⟨v.1, v.2.desc, dDirs o v.2⟩))))
  | .input n a oneof fs =>
    some (.type false n a.desc ((if oneof then [⟨kwT "oneOf", []⟩] else []) ++ dDirs o a)
      (.input ((sorted o.sortedFields (·.name) fs).map (dIv o))))

/-- a directive definition (argument descriptions are not part of the description compared:
    `MetaDirective::argument_sdl` never writes them) -/
def dDirective (d : DirDef) : SDef :=
  .directive d.name d.desc (d.args.map (fun x => ⟨x.name, none, x.ty, x.default.map SValue.toP, []⟩)) d.repeatable d.locs

def federationImportNames : List Text :=
  ["@key", "@tag", "@shareable", "@inaccessible", "@override", "@external", "@provides", "@requires",
   "@composeDirective", "@interfaceObject", "@requiresScopes"].map String.toList

def linkDir (url : Text) (imports : List Text) : PDirective :=
  ⟨kwT "link", [(kwT "url", .str url), (kwT "import", .list (imports.map .str))]⟩

/-- the import name of a directive: `@name` -/
def importName (d : DirDef) : Text := '@' :: d.name

/-- the `@link`s the composable directives call for: one per distinct URL (order of first
    appearance), importing every directive registered with that URL -/
def linkGroups (ds : List DirDef) : List (Text × List Text) :=
  ((ds.filterMap (·.composable)).eraseDups).map
    (fun u => (u, (ds.filter (fun d => d.composable = some u)).map importName))

/-- the schema definition (plain export) or the schema extensions (federation export); `groups`:
    the link groups in the order the document lists them (a permutation of `linkGroups`: the
    order of schema extensions carries no meaning) -/
def dSchema (o : Opts) (S : Schema) (composeGroups : List (Text × List Text)) : List SDef :=
  if o.federation then
    .schema true [linkDir (kwT "https://specs.apollo.dev/federation/v2.5") federationImportNames] none none none ::
      (if o.compose then
        composeGroups.map (fun g =>
          .schema true (linkDir g.1 g.2 :: g.2.map (fun n => ⟨kwT "composeDirective", [(kwT "name", .str n)]⟩))
            none none none)
       else [])
  else [.schema false [] (some S.query) S.mutation none]

/-- the query root as a federation export describes it: without the fields `_service` /
    `_entities` (federation machinery every subgraph has, not part of the subgraph's own schema);
    a root with nothing else is not described -/
def dRoot (o : Opts) (q : Text) : TypeDef → Option TypeDef
  | .object n a ext is fs =>
    if o.federation && n = q then
      (let fs' := fs.filter (fun f => !(f.name = kwT "_service") && !(f.name = kwT "_entities"))
       if fs'.isEmpty then none else some (.object n a ext is fs'))
    else some (.object n a ext is fs)
  | t => some t

def builtinDirectiveNames : List Text := ["skip", "include", "deprecated", "specifiedBy", "oneOf"].map String.toList

def federationTypeNames : List Text := ["_Any", "_Entity", "_Service"].map String.toList

def startsDunder : Text → Bool
  | '_' :: '_' :: _ => true
  | _ => false

/-- The type-system document required for schema `S` under options `o`: every named type in name
    order (built-in scalars and introspection types are never defined; a federation export leaves
    the federation machinery out: the types `_Any` / `_Entity` / `_Service` and the root fields
    `_service` / `_entities`), every registered directive definition in name order — the
    built-in directives (§3.13: may be omitted) only as far as listed in `present` —, then the
    schema definition.  `registered` is the registry's directive table, `groups` the composable
    directives by URL (`linkGroups registered` in some order). -/
def describe (o : Opts) (S : Schema) (registered : List DirDef) (groups : List (Text × List Text))
    (present : List Text) : List SDef :=
  ((sorted true TypeDef.name S.types).filter
      (fun t => !startsDunder t.name && !(o.federation && federationTypeNames.contains t.name))).filterMap
        (fun t => (dRoot o S.query t).bind (dType o)) ++
  ((sorted true (·.name) registered).filter
      (fun d => !builtinDirectiveNames.contains d.name || present.contains d.name)).map dDirective ++
  dSchema o S groups

/-- names of the built-in directives a document defines -/
def presentBuiltins (doc : List SDef) : List Text :=
  doc.filterMap (fun d => match d with
    | .directive n _ _ _ _ => if builtinDirectiveNames.contains n then some n else none
    | _ => none)

end AGV.Spec.SdlParse
