/-
  C35, body dimension — vocabulary of an HTTP exchange in which method, query-string shape,
  content type, Content-Length and the content of the BODY vary independently, and the property
  on such an exchange: whatever a GET request carries in its body, no mutation resolver runs, and
  a GET whose query string designates a mutation is answered with an error.
  Independent of the pipeline model (Model/HttpGetBody.lean).
-/
import AGV.Spec.HttpGet

namespace AGV.Spec.HttpGetBody
open AGV.Spec.HttpGet

inductive MethodX where | get | post | head | put
  deriving DecidableEq, Repr, Inhabited

/-- shape of the request URI's query part -/
inductive QS where
  /-- no `?` at all: `GET /graphql` -/
  | noq
  /-- an empty query string: `GET /graphql?` -/
  | emptyq
  /-- a query string without any GraphQL key: `?foo=1&bar` -/
  | junk
  /-- a request rendered as query string (`Quirk.noquery`: without the `query=` key) -/
  | qs (r : Req)
  deriving DecidableEq, Repr, Inhabited

/-- Content-Type of the body: application/json, application/graphql-response+json,
    multipart/form-data (GraphQL multipart request), no header -/
inductive CT where | json | gqlresp | multipart | absent
  deriving DecidableEq, Repr, Inhabited

structure ReqX where
  method : MethodX
  qs : QS
  ct : CT
  /-- a Content-Length header is sent -/
  clen : Bool
  /-- what the body carries (`none`: an empty body), encoded as `ct` says -/
  payload : Option Body
  deriving DecidableEq, Repr, Inhabited

/-- the request a query string carries -/
def QS.request : QS → Option Req
  | .qs r => some r
  | _ => none

/-- the query part carries a `query` key -/
def QS.hasQuery : QS → Bool
  | .qs r => r.quirk != .noquery
  | _ => false

/-- C35 on one exchange: over GET no mutation resolver runs — whatever the body carries —, and a
    GET whose query string designates a mutation is answered with an error.  (A GET whose query
    string designates a query is answered normally; its body is none of the server's business.) -/
def getSafeX (x : ReqX) (o : Out) : Bool :=
  x.method != .get ||
    (noMutationRan o && (!(x.qs.request.any selectsMutation) || answeredWithError o))

end AGV.Spec.HttpGetBody
