/-
  Reference semantics for property C06: the GraphQL specification's input coercion
  (October 2021 §3.5 scalars, §3.9 enums, §3.10 input objects incl. field defaults, §3.11 lists
  incl. the single-value rule applied recursively, §3.13 non-null; the @oneOf RFC: exactly one
  key, not null), §6.1.2 CoerceVariableValues and §6.4.1 CoerceArgumentValues — and the Rust
  value a resolver declared with given Rust types must then hold (`view`).
  Written from the specification, independently of the code.  Import-free apart from the shared
  types and the integer domain of C07.

  All recursion is structural on the *value*: a non-list value met at a list type is coerced
  against the named base type and wrapped once per list level (§3.11 "this may apply
  recursively for nested lists").
-/
import AGV.Core.Types
import AGV.Spec.Scalars

namespace AGV.Spec.Coerce
open AGV.Core

/-- the Rust-side type of an argument or input field: `T`, `Option<T>`, `MaybeUndefined<T>`,
    `Vec<T>`; a named `T` is a scalar, an enum or an input object of the table -/
inductive RTy where
  | named (n : String)
  | opt (t : RTy)
  | mu (t : RTy)
  | vec (t : RTy)
  deriving Repr, Inhabited, BEq, DecidableEq

/-- the GraphQL type such a Rust type declares (what the SDL shows; cross-checked by the harness) -/
def RTy.gql : RTy → TypeRef
  | .named n => .nonNull (.named n)
  | .opt t => t.gql.nullable
  | .mu t => t.gql.nullable
  | .vec t => .nonNull (.list t.gql)

structure InField where
  name : String
  ty : RTy
  default : Option GValue
  deriving Repr, Inhabited

inductive NDef where
  | scalar
  | enum (values : List String)
  | input (oneOf : Bool) (fields : List InField)
  deriving Repr, Inhabited

structure FieldSig where
  name : String
  args : List InField
  deriving Repr, Inhabited

/-- the argument type table: named types, and the root fields with their arguments -/
structure Table where
  types : List (String × NDef)
  fields : List FieldSig
  deriving Repr, Inhabited

def Table.find? (T : Table) (n : String) : Option NDef := (T.types.find? (·.1 = n)).map (·.2)
def Table.field? (T : Table) (n : String) : Option FieldSig := T.fields.find? (·.name = n)

def lookup {α} (xs : List (String × α)) (k : String) : Option α := (xs.find? (·.1 = k)).map (·.2)

-- ------------------------------------------------------------------ §3.5 / §3.9 leaves

/-- `Float` result of an integer input (§3.5.2); the canonical token of the double, exact for
    the magnitudes the harness generates (|i| < 10^15) -/
def floatTokOfInt (i : Int) : String := toString i ++ ".0"

/-- built-in scalars; `Int` is the 32-bit domain of C07's specification -/
def coerceScalar (n : String) (v : GValue) : Option GValue :=
  match n, v with
  | "Int", .int i => if AGV.Spec.Scalars.inIntDomain "i32" i then some (.int i) else none
  | "Float", .float t => some (.float t)
  | "Float", .int i => some (.float (floatTokOfInt i))
  | "String", .str s => some (.str s)
  | "Boolean", .bool b => some (.bool b)
  | "ID", .str s => some (.str s)
  | "ID", .int i => some (.str (toString i))
  | _, _ => none

/-- §3.9: an enum literal naming a value; from JSON (variables) the name arrives as a string -/
def coerceEnum (json : Bool) (values : List String) : GValue → Option GValue
  | .enum n => if values.contains n then some (.enum n) else none
  | .str n => if json && values.contains n then some (.enum n) else none
  | _ => none

/-- a non-null, non-list, non-object value against a named type -/
def coerceLeaf (T : Table) (json : Bool) (n : String) (v : GValue) : Option GValue :=
  match T.find? n with
  | some .scalar => coerceScalar n v
  | some (.enum values) => coerceEnum json values v
  | _ => none

/-- §3.11: a value that is not a list, accepted for the item type, stands for the list of size one -/
def wrap : TypeRef → GValue → GValue
  | .named _, v => v
  | .nonNull t, v => wrap t v
  | .list t, v => .list [wrap t v]

/-- §3.10: after the provided entries are coerced: defaults for absent fields, absent non-null
    field without default is an error, other absent fields stay absent; declared order -/
def finishFields : List InField → List (String × GValue) → Option (List (String × GValue))
  | [], _ => some []
  | f :: fs, es =>
    match finishFields fs es with
    | none => none
    | some rest =>
      match lookup es f.name with
      | some v => some ((f.name, v) :: rest)
      | none =>
        match f.default with
        | some d => some ((f.name, d) :: rest)
        | none => if f.ty.gql.isNonNull then none else some rest

/-- @oneOf: exactly one entry, and it is not null -/
def finishOneOf : List (String × GValue) → Option (List (String × GValue))
  | [(_, .null)] => none
  | [(k, v)] => some [(k, v)]
  | _ => none

mutual
/-- input coercion of a constant value (variables already substituted) for a type -/
def coerce (T : Table) (json : Bool) : TypeRef → GValue → Option GValue
  | ty, .null => if ty.isNonNull then none else some .null
  | ty, .list xs =>
    match ty.nullable with
    | .list t => (coerceList T json t xs).map .list
    | _ => none
  | ty, .obj fs =>
    match T.find? ty.base with
    | some (.input oneOf fields) =>
      match coerceEntries T json fields fs with
      | none => none
      | some es =>
        ((if oneOf then finishOneOf es else finishFields fields es).map (fun r => wrap ty (.obj r)))
    | _ => none
  | ty, .int i => (coerceLeaf T json ty.base (.int i)).map (wrap ty)
  | ty, .float t => (coerceLeaf T json ty.base (.float t)).map (wrap ty)
  | ty, .str s => (coerceLeaf T json ty.base (.str s)).map (wrap ty)
  | ty, .bool b => (coerceLeaf T json ty.base (.bool b)).map (wrap ty)
  | ty, .enum n => (coerceLeaf T json ty.base (.enum n)).map (wrap ty)
def coerceList (T : Table) (json : Bool) (t : TypeRef) : List GValue → Option (List GValue)
  | [] => some []
  | x :: xs =>
    match coerce T json t x, coerceList T json t xs with
    | some a, some b => some (a :: b)
    | _, _ => none
/-- the provided entries of an input object, each against its declared field type; an
    undeclared key is an error -/
def coerceEntries (T : Table) (json : Bool) (fields : List InField) :
    List (String × GValue) → Option (List (String × GValue))
  | [] => some []
  | (k, v) :: rest =>
    match fields.find? (·.name = k) with
    | none => none
    | some f =>
      match coerce T json f.ty.gql v, coerceEntries T json fields rest with
      | some a, some b => some ((k, a) :: b)
      | _, _ => none
end

-- ------------------------------------------------------------------ §6.1.2 CoerceVariableValues

/-- `none` = the request fails before execution -/
def coerceVars (T : Table) : List VarDef → List (String × GValue) → Option (List (String × GValue))
  | [], _ => some []
  | d :: ds, raw =>
    match coerceVars T ds raw with
    | none => none
    | some rest =>
      match lookup raw d.name with
      | none =>
        match d.default with
        | some dv => (coerce T false d.ty dv).map (fun c => (d.name, c) :: rest)
        | none => if d.ty.isNonNull then none else some rest
      | some v => (coerce T true d.ty v).map (fun c => (d.name, c) :: rest)

-- ------------------------------------------------------------------ literals with variables

mutual
/-- a document value with its variables replaced by their (coerced) runtime values;
    `none` = the value is a variable without runtime value.  Inside an input object literal
    such a field counts as absent (§3.10), inside a list literal the item is null. -/
def subst (vars : List (String × GValue)) : DValue → Option GValue
  | .var n => lookup vars n
  | .null => some .null
  | .int i => some (.int i)
  | .float t => some (.float t)
  | .str s => some (.str s)
  | .bool b => some (.bool b)
  | .enum n => some (.enum n)
  | .list xs => some (.list (substList vars xs))
  | .obj fs => some (.obj (substFields vars fs))
def substList (vars : List (String × GValue)) : List DValue → List GValue
  | [] => []
  | x :: xs => (subst vars x).getD .null :: substList vars xs
def substFields (vars : List (String × GValue)) : List (String × DValue) → List (String × GValue)
  | [] => []
  | (k, v) :: rest =>
    match subst vars v with
    | some g => (k, g) :: substFields vars rest
    | none => substFields vars rest
end

-- ------------------------------------------------------------------ §6.4.1 CoerceArgumentValues

/-- value of an argument (or `none` = no entry in coercedValues); outer `none` = field error -/
def coerceArg (T : Table) (vars : List (String × GValue)) (provided : List (String × DValue))
    (a : InField) : Option (Option GValue) :=
  let absent : Option (Option GValue) :=
    match a.default with
    | some d => some (some d)
    | none => if a.ty.gql.isNonNull then none else some none
  match lookup provided a.name with
  | none => absent
  | some (.var n) =>
    match lookup vars n with
    | none => absent
    | some .null => if a.ty.gql.isNonNull then none else some (some .null)
    | some v => some (some v)
  | some lit =>
    match subst vars lit with
    | none => absent
    | some g => (coerce T false a.ty.gql g).map some

def coerceArgs (T : Table) (vars : List (String × GValue)) (provided : List (String × DValue)) :
    List InField → Option (List (String × Option GValue))
  | [] => some []
  | a :: as =>
    match coerceArg T vars provided a, coerceArgs T vars provided as with
    | some v, some rest => some ((a.name, v) :: rest)
    | _, _ => none

-- ------------------------------------------------------------------ the Rust value denoting a coerced value

/-- what a resolver holds: `undef` is `MaybeUndefined::Undefined`; `null` is `None` /
    `MaybeUndefined::Null`; an input object is printed with all its fields -/
inductive RV where
  | undef
  | null
  | int (i : Int)
  | float (tok : String)
  | str (s : String)
  | bool (b : Bool)
  | enum (n : String)
  | list (xs : List RV)
  | obj (fs : List (String × RV))
  deriving Repr, Inhabited, BEq

def RTy.base : RTy → String
  | .named n => n
  | .opt t => t.base
  | .mu t => t.base
  | .vec t => t.base

/-- item type of the outermost `Vec` -/
def RTy.item : RTy → RTy
  | .opt t => t.item
  | .mu t => t.item
  | .vec t => t
  | .named n => .named n

/-- an absent entry: `MaybeUndefined` keeps it apart from null, `Option` cannot -/
def viewAbsent : RTy → RV
  | .mu _ => .undef
  | _ => .null

def viewFields (fields : List InField) (es : List (String × RV)) : List (String × RV) :=
  fields.map (fun f => (f.name, (lookup es f.name).getD (viewAbsent f.ty)))

mutual
def view (T : Table) : RTy → GValue → RV
  | _, .null => .null
  | rty, .list xs => .list (viewList T rty.item xs)
  | rty, .obj fs =>
    match T.find? rty.base with
    | some (.input true fields) => .obj (viewEntries T fields fs)
    | some (.input false fields) => .obj (viewFields fields (viewEntries T fields fs))
    | _ => .null
  | _, .int i => .int i
  | _, .float t => .float t
  | _, .str s => .str s
  | _, .bool b => .bool b
  | _, .enum n => .enum n
def viewList (T : Table) (t : RTy) : List GValue → List RV
  | [] => []
  | x :: xs => view T t x :: viewList T t xs
def viewEntries (T : Table) (fields : List InField) : List (String × GValue) → List (String × RV)
  | [] => []
  | (k, v) :: rest =>
    match fields.find? (·.name = k) with
    | some f => (k, view T f.ty v) :: viewEntries T fields rest
    | none => viewEntries T fields rest
end

def viewArg (T : Table) (rty : RTy) : Option GValue → RV
  | none => viewAbsent rty
  | some v => view T rty v

/-- what the resolver of a field must receive; `none` = the field fails, it is not invoked -/
def fieldArgs (T : Table) (vars : List (String × GValue)) (provided : List (String × DValue))
    (sig : FieldSig) : Option (List (String × RV)) :=
  (coerceArgs T vars provided sig.args).map (fun cs =>
    sig.args.map (fun a => (a.name, viewArg T a.ty ((lookup cs a.name).getD none))))

/-- request level: `none` = variable coercion fails, nothing executes; otherwise per root
    field (response key) the required arguments or `none` -/
def request (T : Table) (op : OpDef) (raw : List (String × GValue)) :
    Option (List (String × Option (List (String × RV)))) :=
  match coerceVars T op.vars raw with
  | none => none
  | some vars =>
    some (op.sels.filterMap (fun s =>
      match s with
      | .field al n args _ _ _ =>
        some (al.getD n, (T.field? n).bind (fieldArgs T vars args))
      | _ => none))

-- ------------------------------------------------------------------ well-typed Rust values

def i32ok (i : Int) : Bool := decide (AGV.Spec.Scalars.inIntDomain "i32" i)

/-- a leaf Rust value of the named type -/
def leafTyped (T : Table) (n : String) : RV → Bool
  | .int i => n = "Int" && i32ok i
  | .float _ => n = "Float"
  | .str _ => n = "String" || n = "ID"
  | .bool _ => n = "Boolean"
  | .enum e => match T.find? n with
    | some (.enum vs) => vs.contains e
    | _ => false
  | _ => false

/-- `null`/`undef` are values of the type only under the matching wrapper -/
def nullTyped : RTy → Bool
  | .opt _ => true
  | .mu _ => true
  | _ => false

def undefTyped : RTy → Bool
  | .mu _ => true
  | _ => false

/-- strip `Option`/`MaybeUndefined` -/
def RTy.core : RTy → RTy
  | .opt t => t.core
  | .mu t => t.core
  | t => t

/-- neither `null` nor `undef`; a structural test, because the derived `BEq` of the nested
    inductive `RV` is opaque to the kernel (`v.solid = !(v == .null) && !(v == .undef)`) -/
def RV.solid : RV → Bool
  | .null => false
  | .undef => false
  | _ => true

mutual
/-- `rv` is a value of the Rust type `rty` -/
def typed (T : Table) : RTy → RV → Bool
  | rty, .undef => undefTyped rty
  | rty, .null => nullTyped rty
  | rty, .list xs =>
    match rty.core with
    | .vec t => typedList T t xs
    | _ => false
  | rty, .obj fs =>
    match rty.core with
    | .named n =>
      match T.find? n with
      | some (.input true fields) =>
        (match fs with
         | [(k, v)] => (match fields.find? (·.name = k) with
            | some _ => v.solid
            | none => false)
         | _ => false) && typedEntries T fields fs
      | some (.input false fields) => fs.map (·.1) == fields.map (·.name) && typedEntries T fields fs
      | _ => false
    | _ => false
  | rty, .int i => (match rty.core with | .named n => leafTyped T n (.int i) | _ => false)
  | rty, .float t => (match rty.core with | .named n => leafTyped T n (.float t) | _ => false)
  | rty, .str s => (match rty.core with | .named n => leafTyped T n (.str s) | _ => false)
  | rty, .bool b => (match rty.core with | .named n => leafTyped T n (.bool b) | _ => false)
  | rty, .enum e => (match rty.core with | .named n => leafTyped T n (.enum e) | _ => false)
def typedList (T : Table) (t : RTy) : List RV → Bool
  | [] => true
  | x :: xs => typed T t x && typedList T t xs
def typedEntries (T : Table) (fields : List InField) : List (String × RV) → Bool
  | [] => true
  | (k, v) :: rest =>
    (match fields.find? (·.name = k) with
     | some f => typed T f.ty v
     | none => false) && typedEntries T fields rest
end

-- ------------------------------------------------------------------ VariablesInAllowedPosition (§5.8.5)

/-- AreTypesCompatible(variableType, locationType) -/
def compatible : TypeRef → TypeRef → Bool
  | .nonNull v, .nonNull l => compatible v l
  | _, .nonNull _ => false
  | .nonNull v, l => compatible v l
  | .list v, .list l => compatible v l
  | .named a, .named b => a = b
  | _, _ => false

/-- IsVariableUsageAllowed -/
def usageAllowed (vd : VarDef) (loc : TypeRef) (locHasDefault : Bool) : Bool :=
  match loc, vd.ty with
  | .nonNull l, .nonNull _ => compatible vd.ty (.nonNull l)
  | .nonNull l, v =>
    let hasNonNullVarDefault := match vd.default with
      | some .null => false
      | some _ => true
      | none => false
    (hasNonNullVarDefault || locHasDefault) && compatible v l
  | l, v => compatible v l

end AGV.Spec.Coerce
