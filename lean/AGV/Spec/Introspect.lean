/-
  C18 — what the property statement requires of an introspection result, independently of how
  the server computes it:

    * `closed`      every type name referenced anywhere is listed in `types`;
    * `decodeRef`   what a client reads from an `ofType` chain;
    * `buildClient` what a client does with the standard introspection result
                    (graphql-js `buildClientSchema`: fails on unknown type names and on
                    possible types that are not OBJECTs);
    * `restrict`    the served description restricted to the visible part.

  Shares only the data types with the model.
-/
import AGV.Model.Introspect

namespace AGV.Spec.Introspect
open AGV AGV.Core AGV.Model.Introspect

def decodeRef : RefT → TypeRef
  | .named _ n => .named n
  | .list t => .list (decodeRef t)
  | .nonNull t => .nonNull (decodeRef t)

def refBase (r : RefT) : String := (decodeRef r).base

def refKind : RefT → String
  | .named k _ => k
  | .list _ => "LIST"
  | .nonNull _ => "NON_NULL"

def inputRefs (as : List InputT) : List String := as.map (fun a => refBase a.ty)

def fieldRefs (fs : List FieldT) : List String := fs.flatMap (fun f => refBase f.ty :: inputRefs f.args)

/-- every type name a `__Type` entry mentions -/
def typeRefs (t : TypeT) : List String :=
  fieldRefs (t.fields.getD []) ++ inputRefs (t.inputFields.getD []) ++ (t.interfaces.getD []).map refBase
    ++ (t.possible.getD []).map refBase

def listed (s : SchemaT) : List String := s.types.filterMap (·.name)

/-- every type name the whole result mentions -/
def schemaRefs (s : SchemaT) : List String :=
  s.query.2 :: (s.mutation.toList.map (·.2) ++ s.subscription.toList.map (·.2)) ++ s.types.flatMap typeRefs
    ++ s.dirs.flatMap (fun d => inputRefs d.args)

def closed (s : SchemaT) : Bool := (schemaRefs s).all (listed s).contains

def clientKind : String → Option Kind
  | "SCALAR" => some .scalar
  | "OBJECT" => some .object
  | "INTERFACE" => some .interface
  | "UNION" => some .union
  | "ENUM" => some .enum
  | "INPUT_OBJECT" => some .input
  | _ => none

def clientInput (a : InputT) : IInput :=
  { name := a.name, desc := a.desc, ty := decodeRef a.ty, default := a.default,
    dep := if a.isDep then .yes a.reason else .no, vis := .always }

def clientField (f : FieldT) : IField :=
  { name := f.name, desc := f.desc, ty := decodeRef f.ty, dep := if f.isDep then .yes f.reason else .no,
    vis := .always, args := f.args.map clientInput }

def clientType (t : TypeT) : Option IType := do
  let kind ← clientKind t.kind
  let name ← t.name
  if (t.possible.getD []).any (fun r => refKind r != "OBJECT") then none
  else
    some { name := name, kind := kind, desc := t.desc, vis := .always,
           fields := (t.fields.getD []).map clientField,
           inputs := (t.inputFields.getD []).map clientInput,
           values := (t.enumValues.getD []).map (fun v =>
             { name := v.name, desc := v.desc, dep := if v.isDep then .yes v.reason else .no, vis := .always }),
           implements := (t.interfaces.getD []).map refBase,
           members := if kind == .union then (t.possible.getD []).map refBase else [],
           specBy := t.specBy, oneOf := t.oneOf.getD false,
           possible := if kind == .interface then (t.possible.getD []).map refBase else [] }

def buildClient (s : SchemaT) : Option Desc :=
  if closed s then
    (s.types.mapM clientType).map (fun ts =>
      { query := s.query.2, mutation := s.mutation.map (·.2), subscription := s.subscription.map (·.2), types := ts })
  else none

-- ------------------------------------------------------------------ the restricted description

def restrictInputs (vn : List String) (c : Nat) (as : List IInput) : List IInput :=
  (as.filter (fun a => a.vis.holds c && vn.contains a.ty.base)).map (fun a => { a with vis := .always })

def restrictFields (vn : List String) (c : Nat) (fs : List IField) : List IField :=
  (fs.filter (fun f => f.vis.holds c && !dunder f.name && vn.contains f.ty.base)).map
    (fun f => { f with vis := .always, args := restrictInputs vn c f.args })

/-- object types among `all` that declare `i` -/
def implementors (all : List IType) (i : String) : List String :=
  sortNames ((all.filter (fun u => u.kind == .object && u.implements.contains i)).map (·.name))

def restrictType (all : List IType) (vn : List String) (c : Nat) (t : IType) : IType :=
  { name := t.name, kind := t.kind, desc := t.desc, vis := .always,
    fields := if t.kind == .object || t.kind == .interface then restrictFields vn c t.fields else [],
    inputs := if t.kind == .input then restrictInputs vn c t.inputs else [],
    values := if t.kind == .enum then (t.values.filter (fun v => v.vis.holds c)).map (fun v => { v with vis := .always }) else [],
    implements := if t.kind == .object || t.kind == .interface then t.implements.filter vn.contains else [],
    members := if t.kind == .union then t.members.filter vn.contains else [],
    specBy := if t.kind == .scalar then t.specBy else none,
    oneOf := if t.kind == .input then t.oneOf else false,
    possible := if t.kind == .interface then (implementors all t.name).filter vn.contains else [] }

/-- the description `d` restricted to the visible names `vn` in context `c` (deprecated elements kept) -/
def restrict (d : Desc) (vn : List String) (c : Nat) : Desc :=
  let all := allTypes d
  { query := d.query, mutation := d.mutation.filter vn.contains, subscription := d.subscription.filter vn.contains,
    types := ((sortTypes all).filter (fun t => vn.contains t.name)).map (restrictType all vn c) }

end AGV.Spec.Introspect
