/-
  C35 — vocabulary (requests, responses, resolver log) and the property itself:
  an HTTP GET request never executes a mutation; it is answered with an error and no mutation
  resolver runs.  Independent of the pipeline model (Model/HttpGet.lean).
-/
namespace AGV.Spec.HttpGet


inductive Integ where | axum | actix | poem | warp | rocket
  deriving DecidableEq, Repr, Inhabited
inductive Route where | svc | single | batch
  deriving DecidableEq, Repr, Inhabited
inductive Method where | get | post
  deriving DecidableEq, Repr, Inhabited
inductive Accept where | plain | mixed
  deriving DecidableEq, Repr, Inhabited
inductive Exec where | static | dynamic
  deriving DecidableEq, Repr, Inhabited
inductive OpType where | query | mutation | subscription
  deriving DecidableEq, Repr, Inhabited
inductive Fld where | a | b | fail | inc | set | boom | nope
  deriving DecidableEq, Repr, Inhabited

structure Op where
  ty : OpType
  name : Option String
  fields : List Fld
  deriving DecidableEq, Repr, Inhabited

/-- a query text: a list of operations, or text the parser rejects -/
inductive Doc where
  | ops (l : List Op)
  | raw
  deriving DecidableEq, Repr, Inhabited

/-- malformed GET parameters: no `query` key; `variables` that is not JSON -/
inductive Quirk where | ok | noquery | badvars
  deriving DecidableEq, Repr, Inhabited

/-- a request as the client means it -/
structure Req where
  doc : Doc
  opName : Option String
  v : Option Int
  quirk : Quirk := .ok
  deriving DecidableEq, Repr, Inhabited

inductive Body where
  | single (r : Req)
  | batch (rs : List Req)
  deriving DecidableEq, Repr, Inhabited

inductive Entry where
  | q (f : Fld)
  | m (f : Fld)
  | mset (v : Option Int)
  deriving DecidableEq, Repr, Inhabited

def Entry.isMutation : Entry → Bool
  | .q _ => false
  | _ => true

structure Resp where
  err : Bool
  deriving DecidableEq, Repr, Inhabited

/-- request-level failure: `Response::from_errors` -/
def Resp.failed : Resp := ⟨true⟩

inductive BodyOut where
  | single (r : Resp)
  | batch (rs : List Resp)
  | none
  deriving DecidableEq, Repr, Inhabited

structure Out where
  status : Nat          -- status / 100
  body : BodyOut
  log : List Entry
  deriving DecidableEq, Repr, Inhabited


-- ------------------------------------------------------------------ the property

/-- GraphQL spec, GetOperation(document, operationName): the operation a request designates -/
def selected (ops : List Op) : Option String → Option Op
  | none => if ops.length = 1 then ops.head? else none
  | some n => ops.find? (fun o => o.name == some n)

/-- the request asks for a mutation operation (a request without `query` asks for nothing) -/
def selectsMutation (r : Req) : Bool :=
  r.quirk != .noquery &&
    match r.doc with
    | .ops l => (selected l r.opName).any (fun o => o.ty == .mutation)
    | .raw => false

/-- what a GET request carries: one request -/
def getRequest : Body → Option Req
  | .single r => some r
  | .batch (r :: _) => some r
  | .batch [] => none

def noMutationRan (o : Out) : Bool := o.log.all (fun e => !e.isMutation)

/-- answered with an error: a non-success status, or errors in (every) response -/
def answeredWithError (o : Out) : Bool :=
  o.status != 2 ||
    match o.body with
    | .single r => r.err
    | .batch rs => !rs.isEmpty && rs.all (·.err)
    | .none => false

/-- C35 on one exchange -/
def getSafe (m : Method) (b : Body) (o : Out) : Bool :=
  m != .get ||
    (noMutationRan o && (!(getRequest b).any selectsMutation || answeredWithError o))

end AGV.Spec.HttpGet
