/-
  Reference semantics for property C07: which GraphQL input values denote a value of each
  built-in scalar type, and which Rust value they denote.  Written from the property statement
  and the GraphQL specification (§3.5 scalars, input coercion), independently of the code; the
  integer domains are the standard MIN/MAX of each width (64-bit target for isize/usize).
  Import-free.
-/
namespace AGV.Spec.Scalars

/-- An `async_graphql::Value` as far as a scalar can tell values apart.  A JSON number is either
    an integer (`serde_json` `N::PosInt`/`N::NegInt`) or a float (`N::Float`, always finite),
    the float being an opaque 64-bit token (its IEEE-754 bit pattern).  The payload of lists,
    objects and binaries is irrelevant to every scalar. -/
inductive GValue where
  | null
  | int (i : Int)
  | float (bits : Nat)
  | str (s : List Char)
  | bool (b : Bool)
  | binary
  | enum (n : List Char)
  | list
  | object
  deriving DecidableEq, Repr, Inhabited

/-- the integers a `serde_json::Number` can hold (`i64` ∪ `u64`); every `Value` built by the
    library's parsers or deserialisers satisfies this -/
def GValue.representable : GValue → Prop
  | .int i => -9223372036854775808 ≤ i ∧ i ≤ 18446744073709551615
  | _ => True

/-- A Rust value of one of the scalar types.  Floats are bit patterns; an enum value is the
    number the harness gives to the variant. -/
inductive RVal where
  | int (i : Int)
  | f64 (bits : Nat)
  | f32 (bits : Nat)
  | bool (b : Bool)
  | str (s : List Char)
  | char (c : Char)
  | id (s : List Char)
  | enumV (v : Nat)
  deriving DecidableEq, Repr, Inhabited

/-- width, signedness, zero excluded — by Rust type name -/
def intKind : String → Option (Nat × Bool × Bool)
  | "i8" => some (8, true, false)
  | "i16" => some (16, true, false)
  | "i32" => some (32, true, false)
  | "i64" => some (64, true, false)
  | "isize" => some (64, true, false)
  | "u8" => some (8, false, false)
  | "u16" => some (16, false, false)
  | "u32" => some (32, false, false)
  | "u64" => some (64, false, false)
  | "usize" => some (64, false, false)
  | "NonZeroI8" => some (8, true, true)
  | "NonZeroI16" => some (16, true, true)
  | "NonZeroI32" => some (32, true, true)
  | "NonZeroI64" => some (64, true, true)
  | "NonZeroIsize" => some (64, true, true)
  | "NonZeroU8" => some (8, false, true)
  | "NonZeroU16" => some (16, false, true)
  | "NonZeroU32" => some (32, false, true)
  | "NonZeroU64" => some (64, false, true)
  | "NonZeroUsize" => some (64, false, true)
  | _ => none

/-- every integer scalar the library maps to GraphQL `Int`, in source order -/
def intTypeNames : List String :=
  ["i8", "i16", "i32", "i64", "u8", "u16", "u32", "u64", "usize", "isize",
   "NonZeroI8", "NonZeroI16", "NonZeroI32", "NonZeroI64", "NonZeroIsize",
   "NonZeroU8", "NonZeroU16", "NonZeroU32", "NonZeroU64", "NonZeroUsize"]

def minOf (bits : Nat) (signed : Bool) : Int := if signed then -((2 : Int) ^ (bits - 1)) else 0
def maxOf (bits : Nat) (signed : Bool) : Int :=
  if signed then (2 : Int) ^ (bits - 1) - 1 else (2 : Int) ^ bits - 1

/-- `i` is a value of the integer type called `name` -/
def inIntDomain (name : String) (i : Int) : Prop :=
  match intKind name with
  | some (bits, signed, nz) => minOf bits signed ≤ i ∧ i ≤ maxOf bits signed ∧ (nz = true → i ≠ 0)
  | none => False

instance (name : String) (i : Int) : Decidable (inIntDomain name i) := by
  unfold inIntDomain; split <;> infer_instance

/-- the scalar types of the property -/
inductive STy where
  | int (name : String)
  | f64 | f32
  | bool
  | string
  | char
  | id
  /-- derived enum: `(GraphQL name, variant number)` per item -/
  | enum (items : List (List Char × Nat))
  deriving Repr

/-- What the property requires of input coercion. -/
inductive Req where
  /-- the value does not denote a value of the type: coercion must fail with an error -/
  | reject
  /-- the value denotes exactly this Rust value -/
  | accept (r : RVal)
  /-- the value denotes a value of the type; which one is not fixed here (number → float
      rounding) -/
  | acceptSome
  deriving DecidableEq, Repr

def decimal (i : Int) : List Char := (toString i).toList

/-- Input coercion required by the property.
    * integers: exactly the integer numbers of the type's range (0 excluded for NonZero); a float
      with an integral value, a string of digits, … do not denote an integer;
    * floats: every number (GraphQL `Float` accepts integer and float literals);
    * `Boolean`, `String`: exactly the values of that kind; `char`: strings of exactly one
      Unicode scalar value;
    * `ID`: every string, and every integer (denoting its decimal representation);
    * enums: the enum value — or, because variables arrive as JSON, the string — spelling the
      name of an item. -/
def coerce : STy → GValue → Req
  | .int name, .int i => if inIntDomain name i then .accept (.int i) else .reject
  | .f64, .float b => .accept (.f64 b)
  | .f64, .int _ => .acceptSome
  | .f32, .float _ => .acceptSome
  | .f32, .int _ => .acceptSome
  | .bool, .bool b => .accept (.bool b)
  | .string, .str s => .accept (.str s)
  | .char, .str [c] => .accept (.char c)
  | .id, .str s => .accept (.id s)
  | .id, .int i => .accept (.id (decimal i))
  | .enum items, .enum n =>
    match items.find? (fun it => it.1 = n) with
    | some it => .accept (.enumV it.2)
    | none => .reject
  | .enum items, .str n =>
    match items.find? (fun it => it.1 = n) with
    | some it => .accept (.enumV it.2)
    | none => .reject
  | _, _ => .reject

/-- `r` is a value of the Rust type -/
def isValueOf : STy → RVal → Prop
  | .int name, .int i => inIntDomain name i
  | .f64, .f64 b => b < 2 ^ 64
  | .f32, .f32 b => b < 2 ^ 32
  | .bool, .bool _ => True
  | .string, .str _ => True
  | .char, .char _ => True
  | .id, .id _ => True
  | .enum items, .enumV v => v ∈ items.map (·.2)
  | _, _ => False

end AGV.Spec.Scalars
