/-
  C22 — reference meaning of "the sub-fields a view may list".

  A view of a field shows sub-fields by name, alias and *resolved* arguments (variables replaced
  by their coerced values — supplied value, else the variable's default; an argument whose
  variable has no value is absent).  The property brackets every view between

    lower bound  the sub-fields execution resolves beneath the field (Spec.Exec / the executor's
                 own invocation log), and
    upper bound  `visible`: the fields reachable from the field's selection set through inline
                 fragments and fragment spreads (type conditions NOT evaluated — a resolver has
                 not produced its object yet), leaving out everything that @skip/@include
                 exclude under the specification's evaluation (`Spec.Exec.excluded`, variable
                 defaults applied).
  Import-free apart from the shared types.
-/
import AGV.Core.Types
import AGV.Spec.Exec

namespace AGV.Spec.Lookahead
open AGV.Core
open AGV.Spec.Exec (excluded lookupVar)

/-- a field of the document as a view hands it out -/
structure Node where
  alias : Option String
  name : String
  args : List (String × DValue)
  sels : List Sel
  pos : Pos
  deriving Repr, Inhabited, BEq

def Node.key (n : Node) : String := n.alias.getD n.name

mutual
/-- an argument value with its variables replaced; `none` = no value at all (the variable is
    neither supplied nor defaulted).  Inside a list such a slot is `null`, inside an object the
    entry is absent. -/
def subst (vars : List (String × GValue)) : DValue → Option GValue
  | .var n => lookupVar vars n
  | .null => some .null
  | .int i => some (.int i)
  | .float t => some (.float t)
  | .str s => some (.str s)
  | .bool b => some (.bool b)
  | .enum n => some (.enum n)
  | .list xs => some (.list (substList vars xs))
  | .obj fs => some (.obj (substObj vars fs))
def substList (vars : List (String × GValue)) : List DValue → List GValue
  | [] => []
  | x :: xs => (subst vars x).getD .null :: substList vars xs
def substObj (vars : List (String × GValue)) : List (String × DValue) → List (String × GValue)
  | [] => []
  | (k, v) :: fs =>
    match subst vars v with
    | some g => (k, g) :: substObj vars fs
    | none => substObj vars fs
end

/-- the resolved arguments of a field: those that have a value, in document order -/
def resolvedArgs (vars : List (String × GValue)) (args : List (String × DValue)) : List (String × GValue) :=
  args.filterMap (fun p => (subst vars p.2).map (fun v => (p.1, v)))

def dirsOf : Sel → List Dir
  | .field _ _ _ ds _ _ => ds
  | .spread _ ds _ => ds
  | .inline _ ds _ _ => ds

/-- upper bound of a view: fields reachable through fragments, minus what @skip/@include exclude
    (`vars` = coerced variable values, defaults applied) -/
def visible (vars : List (String × GValue)) (d : Doc) : Nat → List Sel → List Node
  | 0, _ => []
  | fuel + 1, sels =>
    (sels.map (fun sel =>
      if excluded vars (dirsOf sel) then []
      else
        match sel with
        | .field al n args _ ss pos => [{ alias := al, name := n, args := args, sels := ss, pos := pos }]
        | .spread n _ _ =>
          match d.frag? n with
          | none => []
          | some f => visible vars d fuel f.sels
        | .inline _ _ ss _ => visible vars d fuel ss)).flatten

end AGV.Spec.Lookahead
