/-
  C20 — what the property requires of a response's cache policy.

  * `noLooser p h`  : policy `p` is not less restrictive than hint `h` (the statement's three
                      clauses: private, no-cache, max-age not above a positive max-age)
  * `combine hs`    : "exactly that combination" of a set of hints
  * `reach`         : every object type and every field whose data the response to the executed
                      operation can contain.  It follows `Spec.Exec.execSet` step by step
                      (`collect` with the request's variables, `group`, the field definition of the
                      RUNTIME type), but instead of one data world it follows every possible runtime
                      object type of each composite field — the policy is fixed before execution,
                      so it has to be right for every world.
  * `touched`       : the same walk for ONE world (exactly the objects `execSet` visits);
                      `touched ⊆ reach` is proved in Lemmas/Cache.lean.
  * `objOnly`       : "selections made only on object types" (and nothing conditionally excluded)

  Written without reference to the model.  Import-free apart from Core and Spec.Exec.
-/
import AGV.Core.Types
import AGV.Core.Cache
import AGV.Spec.Exec

namespace AGV.Spec.Cache
open AGV.Core AGV.Core.Cache AGV.Spec.Exec

/-- `p` is no looser than `h`.  Third clause: a positive max-age in the data bounds the policy's
    max-age, and the policy may not drop the max-age altogether (`max_age = 0` renders as no
    `max-age` directive at all; reading "0 does not exceed it" literally would make the order
    non-monotone: (public, 0) merged with (public, 100) is (public, 100)). -/
def noLooser (p h : CC) : Prop :=
  (h.isPublic = false → p.isPublic = false) ∧
  (h.maxAge = -1 → p.maxAge = -1) ∧
  (0 < h.maxAge → p.maxAge ≠ 0 ∧ p.maxAge ≤ h.maxAge)

instance (p h : CC) : Decidable (noLooser p h) := by unfold noLooser; exact inferInstance

/-- the combination of a collection of hints: private if any is private, no-cache if any is
    no-cache, otherwise the least positive max-age (0 = none) -/
def combine (hs : List CC) : CC :=
  { isPublic := hs.all (·.isPublic)
    maxAge :=
      if hs.any (·.maxAge = -1) then -1
      else (hs.filter (0 < ·.maxAge)).foldl (fun (m : Int) h => if m = 0 then h.maxAge else min m h.maxAge) 0 }

/-- object types and fields the response can contain when `sels` is executed on an object of
    runtime type `rt` (any world) -/
def reach (c : Ctx) : Nat → String → List Sel → List Key
  | 0, _, _ => []
  | fuel + 1, rt, sels =>
    ⟨rt, none⟩ ::
    (group (collect c rt (fuel + 1) sels []).1).flatMap (fun g =>
      match g.2 with
      | [] => []
      | occ :: _ =>
        if occ.name = "__typename" then []
        else
          match c.S.field? rt occ.name with
          | none => []
          | some fd =>
            ⟨rt, some occ.name⟩ ::
            (c.S.possibleTypes fd.ty.base).flatMap (fun rt' => reach c fuel rt' (g.2.map (·.sels)).flatten))

/-- runtime objects inside a resolver result -/
def touchedVal (S : Schema) (rec : String → Nat → List Key) (base : String) : RVal → List Key
  | .obj ty id => if (S.possibleTypes base).contains ty then rec ty id else []
  | .list xs => xs.attach.flatMap (fun x => touchedVal S rec base x.1)
  | _ => []
termination_by rv => sizeOf rv
decreasing_by
  have := List.sizeOf_lt_of_mem x.2
  simp_wf
  omega

/-- object types and fields visited by `execSet` in the world `c.w` -/
def touched (c : Ctx) : Nat → String → Nat → List Sel → List Key
  | 0, _, _, _ => []
  | fuel + 1, rt, id, sels =>
    ⟨rt, none⟩ ::
    (group (collect c rt (fuel + 1) sels []).1).flatMap (fun g =>
      match g.2 with
      | [] => []
      | occ :: _ =>
        if occ.name = "__typename" then []
        else
          match c.S.field? rt occ.name with
          | none => []
          | some fd =>
            ⟨rt, some occ.name⟩ ::
            touchedVal c.S (fun ty id' => touched c fuel ty id' (g.2.map (·.sels)).flatten) fd.ty.base
              (c.w.get id occ.name))

def rootName (S : Schema) (op : OpDef) : String :=
  match op.ty with
  | .query => S.query
  | .mutation => S.mutation.getD ""
  | .subscription => S.subscription.getD ""

/-- everything the response to the selected operation can contain (`Spec.Exec.run`, any world) -/
def reachRequest (S : Schema) (d : Doc) (opName : Option String) (raw : List (String × GValue)) (fuel : Nat) : List Key :=
  match selectOp d opName with
  | none => []
  | some op =>
    let c : Ctx := { S := S, d := d, vars := coerceVars op.vars raw, w := ⟨[]⟩ }
    reach c fuel (rootName S op) op.sels

def isObject (S : Schema) (n : String) : Bool := S.kindOf n == some Kind.object

def hasCond (dirs : List Dir) : Bool := dirs.any (fun d => d.name = "skip" || d.name = "include")

/-- selections made only on object types, nothing conditionally excluded, static type `t` -/
def objOnlySels (S : Schema) (d : Doc) : Nat → String → List Sel → Bool
  | 0, _, _ => false
  | fuel + 1, t, sels =>
    isObject S t && sels.all (fun sel =>
      match sel with
      | .field _ name _ dirs ss _ =>
        !hasCond dirs &&
        (name = "__typename" ||
          match S.field? t name with
          | none => false
          | some fd => ss.isEmpty || objOnlySels S d fuel fd.ty.base ss)
      | .spread name dirs _ =>
        !hasCond dirs &&
        (match d.frag? name with
         | none => false
         | some fr => fr.cond = t && objOnlySels S d fuel t fr.sels)
      | .inline cond dirs ss _ =>
        !hasCond dirs && (cond = none || cond = some t) && objOnlySels S d fuel t ss)

/-- the request is a single operation whose selections are only on object types -/
def objOnly (S : Schema) (d : Doc) (fuel : Nat) : Bool :=
  match d.ops with
  | [op] => objOnlySels S d fuel (rootName S op) op.sels
  | _ => false

end AGV.Spec.Cache
