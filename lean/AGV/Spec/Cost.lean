/-
  C11 — what the property requires: the selection visits of the pre-execution checks are bounded
  by a fixed, small polynomial in the size of the document.  The size is counted in syntax nodes
  (every selection, every operation, every fragment definition); the text is at least that long.
-/
import AGV.Core.Types
import AGV.Core.VSchema

namespace AGV.Spec.Cost
open AGV.Core

mutual
/-- number of selection nodes -/
def selSize : Sel → Nat
  | .field _ _ _ _ sub _ => 1 + selsSize sub
  | .spread _ _ _ => 1
  | .inline _ _ sub _ => 1 + selsSize sub
def selsSize : List Sel → Nat
  | [] => 0
  | s :: ss => selSize s + selsSize ss
end

def fragsSize : List FragDef → Nat
  | [] => 0
  | f :: fs => (1 + selsSize f.sels) + fragsSize fs

def opsSize : List OpDef → Nat
  | [] => 0
  | o :: os => (1 + selsSize o.sels) + opsSize os

/-- syntax nodes of the document: operations, fragment definitions, selections -/
def size (d : Doc) : Nat := opsSize d.ops + fragsSize d.frags

def numFragments (d : Doc) : Nat := d.frags.length

/-- walks over the document a request may perform before execution: the recursion check, the
    directive check, and the validation passes (two in strict mode, one in fast mode) -/
def passes (strict : Bool) : Nat := if strict then 4 else 3

/-- the polynomial the selection visits of all walkers must stay under: every pass may look at
    every selection once per fragment (a walker that handles each fragment once needs only
    `passes * size`, see `c11_poly`; the slack keeps documents that merely reuse a fragment a
    few times inside the bound, so that only super-polynomial growth is reported) -/
def visitBound (strict : Bool) (d : Doc) : Nat := (size d + 1) * (numFragments d + 1) * passes strict

/-- the bound on the selections `OverlappingFieldsCanBeMerged` looks at: it is run from every
    selection set, each run is linear -/
def overlapBound (d : Doc) : Nat := 2 * size d * size d

/-- the property on the observed counters -/
def within (strict : Bool) (d : Doc) (visits overlapSel : Nat) : Bool :=
  visits ≤ visitBound strict d && overlapSel ≤ overlapBound d

-- ------------------------------------------------------------------ input values (value checking work)

mutual
/-- syntax nodes of a constant input value (a list or an object counts itself and its members) -/
def gsize : GValue → Nat
  | .list xs => 1 + gsizeList xs
  | .obj fs => 1 + gsizeFields fs
  | _ => 1
def gsizeList : List GValue → Nat
  | [] => 0
  | x :: xs => gsize x + gsizeList xs
def gsizeFields : List (String × GValue) → Nat
  | [] => 0
  | (_, x) :: xs => gsize x + gsizeFields xs
end

/-- list / non-null layers of a type (`[[Int!]]!` has 4) -/
def wraps : TypeRef → Nat
  | .named _ => 0
  | .list t => 1 + wraps t
  | .nonNull t => 1 + wraps t

/-- what the property requires of checking ONE input value `v` against a type with `w` list /
    non-null layers, when no input-object field type of the schema has more than `W` layers:
    every node of the value is looked at once per layer of the type it is checked against -/
def valueBound (W w : Nat) (v : GValue) : Nat := (1 + max w W) * gsize v

def maxl (l : List Nat) : Nat := l.foldr max 0

def argsWraps (as : List ArgDef) : Nat := maxl (as.map fun a => wraps a.ty)

/-- the most list / non-null layers of any input type the schema mentions (input-object fields,
    field arguments, directive arguments) -/
def schemaWraps (S : VSchema) : Nat :=
  max (maxl (S.inputs.map fun i => argsWraps i.fields))
    (max (maxl (S.base.types.map fun t => maxl (t.fields.map fun f => argsWraps f.args)))
      (maxl (S.dirs.map fun d => argsWraps d.args)))

/-- … of any variable type written in the document -/
def docWraps (d : Doc) : Nat := maxl (d.ops.map fun o => maxl (o.vars.map fun v => wraps v.ty))

mutual
/-- nodes of a value as written, a variable counting as the value supplied for it (1 if none) -/
def dsize (vars : List (String × GValue)) : DValue → Nat
  | .var n => (match vars.find? (·.1 = n) with
      | some p => gsize p.2
      | none => 1)
  | .list xs => 1 + dsizeList vars xs
  | .obj fs => 1 + dsizeFields vars fs
  | _ => 1
def dsizeList (vars : List (String × GValue)) : List DValue → Nat
  | [] => 0
  | x :: xs => dsize vars x + dsizeList vars xs
def dsizeFields (vars : List (String × GValue)) : List (String × DValue) → Nat
  | [] => 0
  | (_, x) :: xs => dsize vars x + dsizeFields vars xs
end

def argsSize (vars : List (String × GValue)) : List (String × DValue) → Nat
  | [] => 0
  | a :: as => dsize vars a.2 + argsSize vars as

def dirsSize (vars : List (String × GValue)) : List Dir → Nat
  | [] => 0
  | d :: ds => argsSize vars d.args + dirsSize vars ds

mutual
/-- value nodes of all arguments (of fields and directives) below a selection -/
def selValues (vars : List (String × GValue)) : Sel → Nat
  | .field _ _ args dirs sub _ => argsSize vars args + dirsSize vars dirs + selsValues vars sub
  | .spread _ dirs _ => dirsSize vars dirs
  | .inline _ dirs sub _ => dirsSize vars dirs + selsValues vars sub
def selsValues (vars : List (String × GValue)) : List Sel → Nat
  | [] => 0
  | s :: ss => selValues vars s + selsValues vars ss
end

def optSize : Option GValue → Nat
  | some d => gsize d
  | none => 0

def defaultsSize : List VarDef → Nat
  | [] => 0
  | v :: vs => optSize v.default + defaultsSize vs

/-- value nodes of the request: every argument value of the document (variables replaced by the
    values the request supplies) and every variable default -/
def docValues (vars : List (String × GValue)) (d : Doc) : Nat :=
  (d.frags.map fun f => dirsSize vars f.dirs + selsValues vars f.sels).sum
    + (d.ops.map fun o => dirsSize vars o.dirs + selsValues vars o.sels + defaultsSize o.vars).sum

/-- the bound on the value checks of ONE walk over the document: every value node once per layer -/
def valueBoundDoc (S : VSchema) (vars : List (String × GValue)) (d : Doc) : Nat :=
  (1 + max (schemaWraps S) (docWraps d)) * docValues vars d

end AGV.Spec.Cost
