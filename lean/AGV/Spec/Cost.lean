/-
  C11 — what the property requires: the selection visits of the pre-execution checks are bounded
  by a fixed, small polynomial in the size of the document.  The size is counted in syntax nodes
  (every selection, every operation, every fragment definition); the text is at least that long.
-/
import AGV.Core.Types

namespace AGV.Spec.Cost
open AGV.Core

mutual
/-- number of selection nodes -/
def selSize : Sel → Nat
  | .field _ _ _ _ sub _ => 1 + selsSize sub
  | .spread _ _ _ => 1
  | .inline _ _ sub _ => 1 + selsSize sub
def selsSize : List Sel → Nat
  | [] => 0
  | s :: ss => selSize s + selsSize ss
end

def fragsSize : List FragDef → Nat
  | [] => 0
  | f :: fs => (1 + selsSize f.sels) + fragsSize fs

def opsSize : List OpDef → Nat
  | [] => 0
  | o :: os => (1 + selsSize o.sels) + opsSize os

/-- syntax nodes of the document: operations, fragment definitions, selections -/
def size (d : Doc) : Nat := opsSize d.ops + fragsSize d.frags

def numFragments (d : Doc) : Nat := d.frags.length

/-- walks over the document a request may perform before execution: the recursion check, the
    directive check, and the validation passes (two in strict mode, one in fast mode) -/
def passes (strict : Bool) : Nat := if strict then 4 else 3

/-- the polynomial the selection visits of all walkers must stay under: every pass may look at
    every selection once per fragment (a walker that handles each fragment once needs only
    `passes * size`, see `c11_poly`; the slack keeps documents that merely reuse a fragment a
    few times inside the bound, so that only super-polynomial growth is reported) -/
def visitBound (strict : Bool) (d : Doc) : Nat := (size d + 1) * (numFragments d + 1) * passes strict

/-- the bound on the selections `OverlappingFieldsCanBeMerged` looks at: it is run from every
    selection set, each run is linear -/
def overlapBound (d : Doc) : Nat := 2 * size d * size d

/-- the property on the observed counters -/
def within (strict : Bool) (d : Doc) (visits overlapSel : Nat) : Bool :=
  visits ≤ visitBound strict d && overlapSel ≤ overlapBound d

end AGV.Spec.Cost
