/-
  C28 — what the property requires of an observed run, as a checker over
  (configuration, schedule, observed events per step).  It does not know how the DataLoader
  decides to batch (no pending set, no tasks, no dispatch decision): it only relates the loader
  calls and the request results that were observed.

    B1  no loader call contains a key twice;
    B2  a loader call has at most `max - 1 + (largest request issued so far)` keys;
    R1  a request completes at most once, only while it is live (issued, not cancelled), and only
        (a) in the step that issued it — then every requested key is answered by a value the
            cache could hold (fed or returned by the loader earlier) and the cache was consultable,
        (b) in the step that answers a loader call made at or after the request was issued (the
            batch it joined) — then every requested key is answered either by exactly what the
            loader returned for it in that call (nothing if the loader returned nothing) or, if
            the cache was consultable when the request was issued, by a value the cache could
            hold; the result has no other key; an error answer is delivered as that error;
    R2  hence every requested key is either in the joined call or was served from the cache;
    L   after a `drain` step (all tasks run, all timers fired, all calls answered) no request is
        still live.
  Shares only the wire-level types (`Act`, `Ev`, `Resp`) with the model.
-/
import AGV.Model.Loader

namespace AGV.Spec.Loader
open AGV.Model.Loader (Key Val KV Resp Act Ev)

structure Req where
  rid : Nat
  keys : List Key
  cacheOn : Bool
  issued : Nat
  live : Bool := true

structure Call where
  tid : Nat
  keys : List Key
  made : Nat
  answered : Bool := false

structure S where
  hasCache : Bool
  max : Nat
  disAll : Bool := false
  disType : Bool := false
  known : KV := []
  reqs : List Req := []
  calls : List Call := []
  maxReq : Nat := 0
  good : Bool := true

def nodup : List Nat → Bool
  | [] => true
  | k :: ks => !ks.contains k && nodup ks

def hasPair (m : KV) (k : Key) (v : Val) : Bool := m.any (fun p => p.1 == k && p.2 == v)

/-- key `k` of a result `m` is a value the cache could have held -/
def fromCache (known m : KV) (k : Key) : Bool :=
  match m.lookup k with
  | some v => hasPair known k v
  | none => false

def domWithin (m : KV) (ks : List Key) : Bool := nodup (m.map (·.1)) && m.all (fun p => ks.contains p.1)

/-- request `q` completes with `ev` as a member of call `c` answered with `resp` -/
def joined (known : KV) (c : Call) (resp : Resp) (q : Req) (ev : Ev) : Bool :=
  q.issued ≤ c.made && q.keys.any (fun k => c.keys.contains k) &&
  match resp.values c.keys, ev with
  | .ok vals, .ok _ m =>
    domWithin m q.keys &&
    q.keys.all (fun k =>
      (c.keys.contains k && m.lookup k == vals.lookup k) || (q.cacheOn && fromCache known m k))
  | .error e, .err _ e' => e == e'
  | _, _ => false

def fail (s : S) : S := { s with good := false }

def retire (s : S) (r : Nat) : S :=
  { s with reqs := s.reqs.map (fun q => if q.rid = r then { q with live := false } else q) }

def onEvent (n : Nat) (a : Act) (s : S) (ev : Ev) : S :=
  match ev with
  | .timer _ _ => s
  | .call i ks =>
    let okB := nodup ks && ks.length ≤ s.max - 1 + s.maxReq && !s.calls.any (fun c => c.tid == i)
    let s := { s with calls := s.calls ++ [{ tid := i, keys := ks, made := n }] }
    if okB then s else fail s
  | .ok r _ | .err r _ =>
    match s.reqs.find? (fun q => q.rid == r && q.live) with
    | none => fail s
    | some q =>
      let fine : Bool :=
        match a, ev with
        | .load r' ks, .ok _ m =>
          r' == r && domWithin m ks && ks.all (fromCache s.known m) && (ks.isEmpty || q.cacheOn)
        | .done i resp, _ =>
          s.calls.any (fun c => c.tid == i && !c.answered && joined s.known c resp q ev)
        | .drain, _ =>
          s.calls.any (fun c => !c.answered && joined s.known c (.okall 1000) q ev)
        | _, _ => false
      let s := retire s r
      if fine then s else fail s

def valuesOf (resp : Resp) (c : Call) : KV :=
  match resp.values c.keys with
  | .ok v => v
  | .error _ => []

def before (n : Nat) (a : Act) (s : S) : S :=
  match a with
  | .load r ks =>
    if s.reqs.any (fun q => q.rid == r) then s else
    let ks' := ks.eraseDups
    { s with reqs := s.reqs ++ [{ rid := r, keys := ks', cacheOn := s.hasCache && !s.disAll && !s.disType, issued := n }],
             maxReq := Nat.max s.maxReq ks'.length }
  | .cancel r => retire s r
  | .enall b => { s with disAll := !b }
  | .entype b => { s with disType := !b }
  | .feed kv => { s with known := s.known ++ kv }
  | _ => s

def after (a : Act) (s : S) : S :=
  match a with
  | .done i resp =>
    { s with known := s.known ++ (s.calls.filter (fun c => c.tid == i && !c.answered)).flatMap (valuesOf resp),
             calls := s.calls.map (fun c => if c.tid = i then { c with answered := true } else c) }
  | .drain =>
    let s := { s with known := s.known ++ (s.calls.filter (fun c => !c.answered)).flatMap (valuesOf (.okall 1000)),
                      calls := s.calls.map (fun c => { c with answered := true }) }
    if s.reqs.any (·.live) then fail s else s
  | _ => s

def walk (n : Nat) (s : S) : List Act → List (List Ev) → S
  | a :: as, evs :: rest => walk (n + 1) (after a ((evs.foldl (onEvent n a) (before n a s)))) as rest
  | [], [] => s
  | _, _ => fail s

def check (max : Nat) (hasCache : Bool) (feed : KV) (acts : List Act) (trace : List (List Ev)) : Bool :=
  (walk 0 { hasCache := hasCache, max := max, known := feed } acts trace).good

end AGV.Spec.Loader
