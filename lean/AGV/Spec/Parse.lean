/-
  The syntactic grammar of the GraphQL specification (October 2021, §2.2–2.12) for EXECUTABLE
  documents, as a recursive-descent parser over the tokens of `Spec/Lex.lean`, producing the tree
  the document denotes (property C13), plus the document-level rules `parse_query` enforces:
  operation name uniqueness (§5.2.1.1), lone anonymous operation (§5.2.2.1), fragment name
  uniqueness (§5.5.1.1), at least one operation.  Parameters: the documented deviations
  (selection sets nest at most `maxDepth` levels below the top-level one; float values must be
  finite doubles).  Type-system documents are not covered.  Core-only.
-/
import AGV.Spec.Lex
import AGV.Core.PAst

namespace AGV.Spec.Parse
open AGV.Spec.Lex AGV.Core.PAst

structure Params where
  /-- nesting limit of selection sets below the top-level one (`none`: the plain grammar) -/
  maxDepth : Option Nat := some 64
  /-- a FloatValue must denote a finite binary64 -/
  finiteFloats : Bool := true
  /-- a document must contain an operation -/
  needOperation : Bool := true

abbrev Rd (α : Type) := List Tok → Option (α × List Tok)

def expectPunct (c : Char) : List Tok → Option (List Tok)
  | .punct d :: r => if c = d then some r else none
  | _ => none

def pName : Rd Name
  | .name n :: r => some (n, r)
  | _ => none

def kw (s : String) : List Char := s.toList

/-- the double a FloatValue denotes: nearest, ties to even -/
def floatBits (negative : Bool) (ip fr : List Char) (exNeg : Bool) (ex : List Char) : Nat :=
  let m := natOf (ip ++ fr)
  let e : Int := (if exNeg then -(natOf ex : Int) else (natOf ex : Int)) - (fr.length : Int)
  let b :=
    if m = 0 then 0
    else if e > 400 then AGV.F64.infBits
    else if e < -400 - ((ip.length + fr.length : Nat) : Int) then 0
    else AGV.F64.ofDecimal m e
  if negative && b < AGV.F64.infBits then AGV.F64.neg b else b

/-- `Value[Const]` -/
def pValue (P : Params) (const : Bool) : Nat → Rd PValue
  | 0, _ => none
  | f + 1, ts =>
    match ts with
    | .punct '$' :: r =>
      if const then none else (pName r).map (fun x => (.var x.1, x.2))
    | .int neg ds :: r => some (.int (if neg then -(natOf ds : Int) else natOf ds), r)
    | .float neg ip fr en ex :: r =>
      let b := floatBits neg ip fr en ex
      if P.finiteFloats && b == AGV.F64.infBits then none else some (.float b, r)
    | .str v :: r => some (.str v, r)
    | .name n :: r =>
      if n = kw "true" then some (.bool true, r)
      else if n = kw "false" then some (.bool false, r)
      else if n = kw "null" then some (.null, r)
      else some (.enum n, r)
    | .punct '[' :: r =>
      let rec items : Nat → List Tok → Option (List PValue × List Tok)
        | 0, _ => none
        | g + 1, ts =>
          match ts with
          | .punct ']' :: r => some ([], r)
          | _ =>
            match pValue P const f ts with
            | some (v, r) => (items g r).map (fun x => (v :: x.1, x.2))
            | none => none
      (items (r.length + 1) r).map (fun x => (.list x.1, x.2))
    | .punct '{' :: r =>
      let rec fields : Nat → List Tok → Option (List (Name × PValue) × List Tok)
        | 0, _ => none
        | g + 1, ts =>
          match ts with
          | .punct '}' :: r => some ([], r)
          | .name n :: .punct ':' :: r =>
            (match pValue P const f r with
             | some (v, r) => (fields g r).map (fun x => ((n, v) :: x.1, x.2))
             | none => none)
          | _ => none
      (fields (r.length + 1) r).map (fun x => (.obj x.1, x.2))
    | _ => none

def valueFuel (ts : List Tok) : Nat := ts.length + 1

/-- `Argument+` up to `)` (after the opening parenthesis) -/
def pArgList (P : Params) (const : Bool) : Nat → Rd (List (Name × PValue))
  | 0, _ => none
  | g + 1, ts =>
    match ts with
    | .name n :: .punct ':' :: r =>
      (match pValue P const (valueFuel r) r with
       | some (v, r) =>
         (match r with
          | .punct ')' :: r' => some ([(n, v)], r')
          | _ => (pArgList P const g r).map (fun x => ((n, v) :: x.1, x.2)))
       | none => none)
    | _ => none

/-- `Arguments?` -/
def pOptArgs (P : Params) (const : Bool) : Rd (List (Name × PValue))
  | .punct '(' :: r => pArgList P const (r.length + 1) r
  | ts => some ([], ts)

/-- `Directives?` -/
def pDirectives (P : Params) (const : Bool) : Nat → Rd (List PDirective)
  | 0, _ => none
  | g + 1, ts =>
    match ts with
    | .punct '@' :: .name n :: r =>
      (match pOptArgs P const r with
       | some (as, r) => (pDirectives P const g r).map (fun x => (⟨n, as⟩ :: x.1, x.2))
       | none => none)
    | .punct '@' :: _ => none
    | ts => some ([], ts)

def pDirs (P : Params) (const : Bool) (ts : List Tok) := pDirectives P const (ts.length + 1) ts

/-- `Type` -/
def pType : Nat → Rd PType
  | 0, _ => none
  | f + 1, ts =>
    let bang (mk : Bool → PType) (r : List Tok) : Option (PType × List Tok) :=
      match r with
      | .punct '!' :: r' => some (mk false, r')
      | _ => some (mk true, r)
    match ts with
    | .name n :: r => bang (.named n) r
    | .punct '[' :: r =>
      (match pType f r with
       | some (t, .punct ']' :: r') => bang (.listOf t) r'
       | _ => none)
    | _ => none

/-- `SelectionSet` (after `{`): `Selection+ }` -/
def pSelections (P : Params) : Nat → Rd (List PSel)
  | 0, _ => none
  | f + 1, ts =>
    let more (s : PSel) (r : List Tok) : Option (List PSel × List Tok) :=
      match r with
      | .punct '}' :: r' => some ([s], r')
      | _ => (pSelections P f r).map (fun x => (s :: x.1, x.2))
    let optSet (r : List Tok) : Option (List PSel × List Tok) :=
      match r with
      | .punct '{' :: r' => pSelections P f r'
      | _ => some ([], r)
    match ts with
    | .spread :: r =>
      (match r with
       | .name n :: r1 =>
         if n = kw "on" then
           -- InlineFragment with a TypeCondition
           (match r1 with
            | .name t :: r2 =>
              (match pDirs P false r2 with
               | some (ds, .punct '{' :: r3) =>
                 (match pSelections P f r3 with
                  | some (ss, r4) => more (.inline (some t) ds ss) r4
                  | none => none)
               | _ => none)
            | _ => none)
         else
           (match pDirs P false r1 with
            | some (ds, r2) => more (.spread n ds) r2
            | none => none)
       | _ =>
         (match pDirs P false r with
          | some (ds, .punct '{' :: r3) =>
            (match pSelections P f r3 with
             | some (ss, r4) => more (.inline none ds ss) r4
             | none => none)
          | _ => none))
    | .name a :: .punct ':' :: .name n :: r =>
      (match pOptArgs P false r with
       | some (as, r1) =>
         (match pDirs P false r1 with
          | some (ds, r2) =>
            (match optSet r2 with
             | some (ss, r3) => more (.field (some a) n as ds ss) r3
             | none => none)
          | none => none)
       | none => none)
    | .name n :: r =>
      (match pOptArgs P false r with
       | some (as, r1) =>
         (match pDirs P false r1 with
          | some (ds, r2) =>
            (match optSet r2 with
             | some (ss, r3) => more (.field none n as ds ss) r3
             | none => none)
          | none => none)
       | none => none)
    | _ => none

def pSelectionSet (P : Params) : Rd (List PSel)
  | .punct '{' :: r => pSelections P (r.length + 1) r
  | _ => none

/-- `VariableDefinition+ )` -/
def pVarDefs (P : Params) : Nat → Rd (List PVarDef)
  | 0, _ => none
  | g + 1, ts =>
    match ts with
    | .punct '$' :: .name v :: .punct ':' :: r =>
      (match pType (r.length + 1) r with
       | some (t, r1) =>
         let dv : Option (Option PValue × List Tok) :=
           match r1 with
           | .punct '=' :: r2 => (pValue P true (valueFuel r2) r2).map (fun x => (some x.1, x.2))
           | _ => some (none, r1)
         (match dv with
          | some (d, r3) =>
            (match pDirs P true r3 with
             | some (ds, r4) =>
               let vd : PVarDef := ⟨v, t, ds, d⟩
               (match r4 with
                | .punct ')' :: r5 => some ([vd], r5)
                | _ => (pVarDefs P g r4).map (fun x => (vd :: x.1, x.2)))
             | none => none)
          | none => none)
       | none => none)
    | _ => none

def opTypeOf (n : Name) : Option OpType :=
  if n = kw "query" then some .query
  else if n = kw "mutation" then some .mutation
  else if n = kw "subscription" then some .subscription
  else none

/-- `ExecutableDefinition` -/
def pDefinition (P : Params) : Rd PDef
  | .punct '{' :: r => (pSelectionSet P (.punct '{' :: r)).map (fun x => (.op none ⟨.query, [], [], x.1⟩, x.2))
  | .name k :: r =>
    if k = kw "fragment" then
      match r with
      | .name n :: .name o :: .name t :: r1 =>
        if n = kw "on" || o ≠ kw "on" then none
        else
          (match pDirs P false r1 with
           | some (ds, r2) => (pSelectionSet P r2).map (fun x => (.frag n ⟨t, ds, x.1⟩, x.2))
           | none => none)
      | _ => none
    else
      match opTypeOf k with
      | none => none
      | some ty =>
        let (name, r1) : Option Name × List Tok := match r with
          | .name n :: r' => (some n, r')
          | _ => (none, r)
        let vars : Option (List PVarDef × List Tok) := match r1 with
          | .punct '(' :: r2 => pVarDefs P (r2.length + 1) r2
          | _ => some ([], r1)
        (match vars with
         | some (vs, r3) =>
           (match pDirs P false r3 with
            | some (ds, r4) => (pSelectionSet P r4).map (fun x => (.op name ⟨ty, vs, ds, x.1⟩, x.2))
            | none => none)
         | none => none)
  | _ => none

/-- `Document :: Definition+` -/
def pDefinitions (P : Params) : Nat → List Tok → Option (List PDef)
  | 0, _ => none
  | g + 1, ts =>
    match pDefinition P ts with
    | some (d, []) => some [d]
    | some (d, r) => (pDefinitions P g r).map (d :: ·)
    | none => none

-- ------------------------------------------------------------------ document-level rules

/-- levels of selection sets below this one -/
def selDepth : Nat → List PSel → Nat
  | 0, _ => 0
  | f + 1, ss => ss.foldl (fun m s =>
      match s with
      | .field _ _ _ _ sub => if sub.isEmpty then m else max m (selDepth f sub + 1)
      | .inline _ _ sub => max m (selDepth f sub + 1)
      | .spread _ _ => m) 0

def defSels : PDef → List PSel
  | .op _ o => o.sels
  | .frag _ f => f.sels

def opNames (defs : List PDef) : List Name :=
  defs.filterMap (fun d => match d with | .op (some n) _ => some n | _ => none)
def anonOps (defs : List PDef) : List POp :=
  defs.filterMap (fun d => match d with | .op none o => some o | _ => none)
def namedOps (defs : List PDef) : List (Name × POp) :=
  defs.filterMap (fun d => match d with | .op (some n) o => some (n, o) | _ => none)
def fragDefs (defs : List PDef) : List (Name × PFrag) :=
  defs.filterMap (fun d => match d with | .frag n f => some (n, f) | _ => none)

def nodup : List Name → Bool
  | [] => true
  | a :: r => !r.contains a && nodup r

/-- the document-level rules -/
def validDefs (P : Params) (defs : List PDef) : Bool :=
  nodup (opNames defs) &&
  nodup ((fragDefs defs).map (·.1)) &&
  ((anonOps defs).isEmpty || ((anonOps defs).length = 1 && (opNames defs).isEmpty)) &&
  (!P.needOperation || !(anonOps defs).isEmpty || !(opNames defs).isEmpty)

def mkDoc (defs : List PDef) : Option PDoc :=
  match anonOps defs with
  | o :: _ => some ⟨.single o, fragDefs defs⟩
  | [] => some ⟨.multi (namedOps defs), fragDefs defs⟩

/-- the executable document a source text denotes, if it is one -/
def parseDocument (P : Params) (s : List Char) : Option PDoc :=
  match tokens s with
  | none => none
  | some ts =>
    match pDefinitions P (ts.length + 1) ts with
    | none => none
    | some defs =>
      let depthOk := match P.maxDepth with
        | some lim => defs.all (fun d => decide (selDepth (s.length + 1) (defSels d) ≤ lim))
        | none => true
      if depthOk && validDefs P defs then mkDoc defs else none

end AGV.Spec.Parse
