/-
  C21 — what "secret values never reach the logged query text" requires.

  1. The registry view shared with the model (which types exist, their fields / arguments /
     input fields, which arguments and input fields are marked secret) and the GraphQL scoping
     rules: which type's fields are in scope inside a field's selection set, inside an inline
     fragment with / without a type condition, inside a fragment definition.
  2. `EqualOutsideSecrets`: two requests (document + variables) that differ only in values
     flowing to a secret argument or a secret input-object field.  Non-interference (Props/C21)
     says the logged text of two such requests is the same string.
  3. `secretStrings`: the strings a request places at secret positions (used by the judge for the
     sentinel clause on the output of the real code).
  Core-only imports; nothing here refers to the model.
-/
import AGV.Core.Types

namespace AGV.Spec.Stringify
open AGV.Core

-- ------------------------------------------------------------------ registry view

/-- the `is_secret` flags of the registry: `(type, field, argument)` and `(input type, field)` -/
structure Secrets where
  args : List (String × String × String) := []
  inputs : List (String × String) := []
  deriving Repr, Inhabited

structure Reg where
  schema : Schema
  secrets : Secrets
  deriving Inhabited

/-- what is known about an argument / input field: its type and whether it is secret -/
structure Meta where
  ty : TypeRef
  secret : Bool
  deriving Repr, Inhabited

def typeGet (R : Reg) (n : String) : Option TypeDef := R.schema.find? n

/-- only objects and interfaces have fields -/
def fieldByName (t : TypeDef) (f : String) : Option FieldDef :=
  match t.kind with
  | .object => t.fields.find? (·.name = f)
  | .interface => t.fields.find? (·.name = f)
  | _ => none

def argMeta (R : Reg) (parent : Option TypeDef) (field arg : String) : Option Meta :=
  match parent with
  | none => none
  | some t =>
    match fieldByName t field with
    | none => none
    | some fd =>
      match fd.args.find? (·.name = arg) with
      | none => none
      | some a => some { ty := a.ty, secret := R.secrets.args.contains (t.name, field, arg) }

def inputFieldMeta (R : Reg) (t : TypeDef) (key : String) : Option Meta :=
  match t.fields.find? (·.name = key) with
  | none => none
  | some f => some { ty := f.ty, secret := R.secrets.inputs.contains (t.name, key) }

/-- the input-object type a position expects (lists and `!` stripped), if it is one -/
def inputTypeOf (R : Reg) (m : Option Meta) : Option TypeDef :=
  match m with
  | none => none
  | some m =>
    match typeGet R m.ty.base with
    | none => none
    | some t => match t.kind with
      | .input => some t
      | _ => none

def isSecret (m : Option Meta) : Bool :=
  match m with
  | some m => m.secret
  | none => false

/-- scope inside the selection set of field `name` selected on `parent` -/
def childType (R : Reg) (parent : Option TypeDef) (name : String) : Option TypeDef :=
  match parent with
  | none => none
  | some t =>
    match fieldByName t name with
    | none => none
    | some fd => typeGet R fd.ty.base

/-- scope inside an inline fragment: its type condition, or the enclosing scope when it has none -/
def inlineScope (R : Reg) (parent : Option TypeDef) (cond : Option String) : Option TypeDef :=
  match cond with
  | some c => typeGet R c
  | none => parent

def rootType (R : Reg) : OpType → Option TypeDef
  | .query => typeGet R R.schema.query
  | .mutation => match R.schema.mutation with
    | some n => typeGet R n
    | none => none
  | .subscription => match R.schema.subscription with
    | some n => typeGet R n
    | none => none

-- ------------------------------------------------------------------ the value that flows to a position

abbrev Vars := List (String × GValue)

mutual
/-- variable substitution; `none` when a variable has no supplied value -/
def resolve (vars : Vars) : DValue → Option GValue
  | .var n => vars.lookup n
  | .null => some .null
  | .int i => some (.int i)
  | .float t => some (.float t)
  | .str s => some (.str s)
  | .bool b => some (.bool b)
  | .enum n => some (.enum n)
  | .list xs => match resolveL vars xs with
    | some ys => some (.list ys)
    | none => none
  | .obj fs => match resolveF vars fs with
    | some gs => some (.obj gs)
    | none => none
def resolveL (vars : Vars) : List DValue → Option (List GValue)
  | [] => some []
  | x :: xs => match resolve vars x with
    | none => none
    | some y => match resolveL vars xs with
      | none => none
      | some ys => some (y :: ys)
def resolveF (vars : Vars) : List (String × DValue) → Option (List (String × GValue))
  | [] => some []
  | (k, x) :: xs => match resolve vars x with
    | none => none
    | some y => match resolveF vars xs with
      | none => none
      | some ys => some ((k, y) :: ys)
end

/-- the constant an argument is logged from: variables substituted; an argument mentioning an
    unsupplied variable is logged as `null` -/
def argValue (vars : Vars) (a : DValue) : GValue := (resolve vars a).getD .null

-- ------------------------------------------------------------------ equality outside secrets

mutual
/-- two constants at a position described by `m` differ at most inside secret positions -/
def VRel (R : Reg) (m : Option Meta) : GValue → GValue → Prop
  | .obj fs, g' =>
    isSecret m = true ∨
      match g' with
      | .obj fs' =>
        (match inputTypeOf R m with
         | some t => FRel R t fs fs'
         | none => fs = fs')
      | _ => False
  | .list xs, g' =>
    isSecret m = true ∨
      match g' with
      | .list xs' => LRel R m xs xs'
      | _ => False
  | .null, g' => isSecret m = true ∨ g' = .null
  | .int i, g' => isSecret m = true ∨ g' = .int i
  | .float t, g' => isSecret m = true ∨ g' = .float t
  | .str s, g' => isSecret m = true ∨ g' = .str s
  | .bool b, g' => isSecret m = true ∨ g' = .bool b
  | .enum n, g' => isSecret m = true ∨ g' = .enum n
/-- same keys in the same order, values related at the input field's description -/
def FRel (R : Reg) (t : TypeDef) : List (String × GValue) → List (String × GValue) → Prop
  | [], fs' => fs' = []
  | (k, v) :: rest, fs' =>
    match fs' with
    | (k', v') :: rest' => k = k' ∧ VRel R (inputFieldMeta R t k) v v' ∧ FRel R t rest rest'
    | [] => False
/-- same length, items related at the same description (a list of T at a position of T) -/
def LRel (R : Reg) (m : Option Meta) : List GValue → List GValue → Prop
  | [], xs' => xs' = []
  | x :: rest, xs' =>
    match xs' with
    | x' :: rest' => VRel R m x x' ∧ LRel R m rest rest'
    | [] => False
end

/-- same argument names in the same order; the values flowing to them related -/
def ARel (R : Reg) (vars vars' : Vars) (parent : Option TypeDef) (field : String) :
    List (String × DValue) → List (String × DValue) → Prop
  | [], as' => as' = []
  | (k, a) :: rest, as' =>
    match as' with
    | (k', a') :: rest' =>
      k = k' ∧ VRel R (argMeta R parent field k) (argValue vars a) (argValue vars' a') ∧
        ARel R vars vars' parent field rest rest'
    | [] => False

mutual
/-- same selection up to argument values at secret positions (directives and source positions
    are not constrained: they are never logged) -/
def SRel (R : Reg) (vars vars' : Vars) (parent : Option TypeDef) : Sel → Sel → Prop
  | .field al n args _ sels _, s' =>
    match s' with
    | .field al' n' args' _ sels' _ =>
      al = al' ∧ n = n' ∧ ARel R vars vars' parent n args args' ∧
        SsRel R vars vars' (childType R parent n) sels sels'
    | _ => False
  | .spread n _ _, s' =>
    match s' with
    | .spread n' _ _ => n = n'
    | _ => False
  | .inline c _ sels _, s' =>
    match s' with
    | .inline c' _ sels' _ => c = c' ∧ SsRel R vars vars' (inlineScope R parent c) sels sels'
    | _ => False
def SsRel (R : Reg) (vars vars' : Vars) (parent : Option TypeDef) : List Sel → List Sel → Prop
  | [], ss' => ss' = []
  | s :: rest, ss' =>
    match ss' with
    | s' :: rest' => SRel R vars vars' parent s s' ∧ SsRel R vars vars' parent rest rest'
    | [] => False
end

/-- variable definitions: same names and types; the DEFAULT VALUES ARE NOT CONSTRAINED (this
    contains the case "default of a variable used at a secret position") -/
def VdRel : List VarDef → List VarDef → Prop
  | [], vs' => vs' = []
  | v :: rest, vs' =>
    match vs' with
    | v' :: rest' => v.name = v'.name ∧ v.ty = v'.ty ∧ VdRel rest rest'
    | [] => False

def OpRel (R : Reg) (vars vars' : Vars) (o o' : OpDef) : Prop :=
  o.ty = o'.ty ∧ o.name = o'.name ∧ VdRel o.vars o'.vars ∧
    SsRel R vars vars' (rootType R o.ty) o.sels o'.sels

def FragRel (R : Reg) (vars vars' : Vars) (f f' : FragDef) : Prop :=
  f.name = f'.name ∧ f.cond = f'.cond ∧ SsRel R vars vars' (typeGet R f.cond) f.sels f'.sels

def OpsRel (R : Reg) (vars vars' : Vars) : List OpDef → List OpDef → Prop
  | [], os' => os' = []
  | o :: rest, os' =>
    match os' with
    | o' :: rest' => OpRel R vars vars' o o' ∧ OpsRel R vars vars' rest rest'
    | [] => False

def FragsRel (R : Reg) (vars vars' : Vars) : List FragDef → List FragDef → Prop
  | [], fs' => fs' = []
  | f :: rest, fs' =>
    match fs' with
    | f' :: rest' => FragRel R vars vars' f f' ∧ FragsRel R vars vars' rest rest'
    | [] => False

/-- the two requests `(d, vars)` and `(d', vars')` differ only in values flowing to an argument
    or input-object field marked secret — written as a literal or through variables, directly or
    inside lists and nested input objects, under inline fragments with or without a type
    condition, in named fragments, or as default values of variables -/
def EqualOutsideSecrets (R : Reg) (r r' : Doc × Vars) : Prop :=
  FragsRel R r.2 r'.2 r.1.frags r'.1.frags ∧ OpsRel R r.2 r'.2 r.1.ops r'.1.ops

-- ------------------------------------------------------------------ strings placed at secret positions

mutual
def strsG : GValue → List String
  | .str s => [s]
  | .list xs => strsGL xs
  | .obj fs => strsGF fs
  | _ => []
def strsGL : List GValue → List String
  | [] => []
  | x :: r => strsG x ++ strsGL r
def strsGF : List (String × GValue) → List String
  | [] => []
  | (_, x) :: r => strsG x ++ strsGF r
end

mutual
/-- string literals and variable names of a document value -/
def strsD : DValue → List String × List String
  | .str s => ([s], [])
  | .var n => ([], [n])
  | .list xs => strsDL xs
  | .obj fs => strsDF fs
  | _ => ([], [])
def strsDL : List DValue → List String × List String
  | [] => ([], [])
  | x :: r => ((strsD x).1 ++ (strsDL r).1, (strsD x).2 ++ (strsDL r).2)
def strsDF : List (String × DValue) → List String × List String
  | [] => ([], [])
  | (_, x) :: r => ((strsD x).1 ++ (strsDF r).1, (strsD x).2 ++ (strsDF r).2)
end

mutual
/-- strings of a constant that sit at secret positions, the constant being at position `m` -/
def secG (R : Reg) (m : Option Meta) : GValue → List String
  | .obj fs =>
    if isSecret m then strsGF fs else
    match inputTypeOf R m with
    | some t => secGF R t fs
    | none => []
  | .list xs => if isSecret m then strsGL xs else secGL R m xs
  | .str s => if isSecret m then [s] else []
  | _ => []
def secGF (R : Reg) (t : TypeDef) : List (String × GValue) → List String
  | [] => []
  | (k, v) :: r => secG R (inputFieldMeta R t k) v ++ secGF R t r
def secGL (R : Reg) (m : Option Meta) : List GValue → List String
  | [] => []
  | x :: r => secG R m x ++ secGL R m r
end

/-- result of scanning a document value: strings at secret positions, variables used at secret
    positions -/
structure Scan where
  strs : List String := []
  svars : List String := []

def Scan.app (a b : Scan) : Scan := ⟨a.strs ++ b.strs, a.svars ++ b.svars⟩

def lookupStrs (vars : Vars) (ns : List String) : List String :=
  ns.flatMap (fun n => match vars.lookup n with
    | some g => strsG g
    | none => [])

mutual
def secD (R : Reg) (vars : Vars) (m : Option Meta) : DValue → Scan
  | .obj fs =>
    if isSecret m then ⟨(strsDF fs).1 ++ lookupStrs vars (strsDF fs).2, (strsDF fs).2⟩ else
    match inputTypeOf R m with
    | some t => secDF R vars t fs
    | none => {}
  | .list xs =>
    if isSecret m then ⟨(strsDL xs).1 ++ lookupStrs vars (strsDL xs).2, (strsDL xs).2⟩
    else secDL R vars m xs
  | .str s => if isSecret m then ⟨[s], []⟩ else {}
  | .var n =>
    if isSecret m then ⟨lookupStrs vars [n], [n]⟩
    else match vars.lookup n with
      | some g => ⟨secG R m g, []⟩
      | none => {}
  | _ => {}
def secDF (R : Reg) (vars : Vars) (t : TypeDef) : List (String × DValue) → Scan
  | [] => {}
  | (k, v) :: r => (secD R vars (inputFieldMeta R t k) v).app (secDF R vars t r)
def secDL (R : Reg) (vars : Vars) (m : Option Meta) : List DValue → Scan
  | [] => {}
  | x :: r => (secD R vars m x).app (secDL R vars m r)
end

def secArgs (R : Reg) (vars : Vars) (parent : Option TypeDef) (field : String) :
    List (String × DValue) → Scan
  | [] => {}
  | (k, a) :: r => (secD R vars (argMeta R parent field k) a).app (secArgs R vars parent field r)

mutual
def secSel (R : Reg) (vars : Vars) (parent : Option TypeDef) : Sel → Scan
  | .field _ n args _ sels _ =>
    (secArgs R vars parent n args).app (secSels R vars (childType R parent n) sels)
  | .spread _ _ _ => {}
  | .inline c _ sels _ => secSels R vars (inlineScope R parent c) sels
def secSels (R : Reg) (vars : Vars) (parent : Option TypeDef) : List Sel → Scan
  | [] => {}
  | s :: r => (secSel R vars parent s).app (secSels R vars parent r)
end

def secDoc (R : Reg) (vars : Vars) (d : Doc) : Scan :=
  let fs := d.frags.foldl (fun acc f => acc.app (secSels R vars (typeGet R f.cond) f.sels)) {}
  d.ops.foldl (fun acc o => acc.app (secSels R vars (rootType R o.ty) o.sels)) fs

/-- strings of default values that are secret: the whole default of a variable used at a secret
    position; inside any default, what sits at secret input fields of the declared type -/
def secDefaults (R : Reg) (svars : List String) (d : Doc) : List String :=
  d.ops.flatMap (fun o => o.vars.flatMap (fun v =>
    match v.default with
    | none => []
    | some g => if svars.contains v.name then strsG g else secG R (some { ty := v.ty, secret := false }) g))

/-- every string the request places at a secret position -/
def secretStrings (R : Reg) (vars : Vars) (d : Doc) : List String :=
  let s := secDoc R vars d
  s.strs ++ secDefaults R s.svars d

end AGV.Spec.Stringify
