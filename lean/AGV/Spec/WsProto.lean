/-
  C25 — reference semantics of a GraphQL-over-WebSocket *server session*, written as a trace
  monitor, independently of how `WebSocket::poll_next` is organised (no polls, no queues, no
  futures, no timers).

  Two protocols (the names are confusingly crossed in the ecosystem):
    * `legacy` = subscriptions-transport-ws, sub-protocol header `graphql-ws`
                 (apollographql/subscriptions-transport-ws PROTOCOL.md)
    * `new`    = graphql-ws, sub-protocol header `graphql-transport-ws`
                 (enisdenjo/graphql-ws PROTOCOL.md)

  A session is the sequence of events seen at the server's edge: `recv m` (the server took
  client message `m` from the socket) and `out o` (what the server handed to the socket:
  a text message, a close frame, "nothing now" or "end of session").

  Close-code table (graphql-transport-ws PROTOCOL.md):
     4400 bad request (message that cannot be parsed / unknown type)
     4401 unauthorized (subscribe before the connection is acknowledged)
     4409 subscriber for <id> already exists
     4429 too many initialisation requests
  The legacy protocol defines no close codes: a violating client is answered with
  `connection_error` and/or the socket is closed — any close frame is accepted there, and
  re-using a live id replaces the operation (what the reference server does).
-/
namespace AGV.Spec.WsProto

inductive Proto where
  | legacy | new
  deriving DecidableEq, Repr, Inhabited

/-- client → server messages (`bad` = bytes that are not a message of the protocol,
    `eof` = the client's half of the socket ended) -/
inductive CMsg where
  | init | start (id : Nat) | stop (id : Nat) | term | ping | pong | bad | eof
  deriving DecidableEq, Repr, Inhabited

/-- reason texts, as a small enum (never compared by the spec) -/
inductive Reason where
  | timeout | tooMany | handshake | cb | dupId | unauth | other
  deriving DecidableEq, Repr, Inhabited

/-- what one poll of the server hands to the socket -/
inductive Out where
  | pending                                -- nothing now
  | done                                   -- end of the session (stream finished)
  | ack
  | next (id inst val : Nat)               -- graphql-transport-ws `next`
  | data (id inst val : Nat)               -- legacy `data`
  | complete (id : Nat)
  | pong
  | connErr (r : Reason)                   -- legacy `connection_error`
  | close (code : Nat) (r : Reason)        -- close frame
  deriving DecidableEq, Repr, Inhabited

inductive Ev where
  | recv (m : CMsg) | out (o : Out)
  deriving DecidableEq, Repr, Inhabited

inductive Violation where
  | invalidMessage | subscribeBeforeAck | duplicateId | tooManyInit
  deriving DecidableEq, Repr

inductive Expect where
  | code (n : Nat)      -- a close frame with exactly this code
  | anyClose            -- `connection_error` or a close frame with any code
  deriving DecidableEq, Repr

/-- THE CODE TABLE (from the two protocol documents). -/
def expected : Proto → Violation → Expect
  | .new, .invalidMessage => .code 4400
  | .new, .subscribeBeforeAck => .code 4401
  | .new, .duplicateId => .code 4409
  | .new, .tooManyInit => .code 4429
  | .legacy, _ => .anyClose

/-- codes reserved for client violations: a server may not use them for anything else -/
def violationCodes : List Nat := [4400, 4401, 4409, 4429]

def Expect.admits (p : Proto) : Expect → Out → Bool
  | .code n, .close c _ => c == n
  | .anyClose, .close _ _ => true
  | .anyClose, .connErr _ => p == .legacy
  | _, _ => false

structure M where
  initSeen : Bool := false
  acked : Bool := false
  live : List Nat := []            -- ids of running operations
  stopped : List Nat := []         -- ids the client completed: one `complete` may still come
  pings : Nat := 0                 -- pings not yet answered
  expect : Option Expect := none   -- a violation was received: the next event must be its close
  closed : Bool := false
  deriving DecidableEq, Repr

def rm (id : Nat) (l : List Nat) : List Nat := l.filter (· != id)

/-- Which client messages are protocol violations in monitor state `m`. -/
def violation (p : Proto) (m : M) : CMsg → Option Violation
  | .bad => some .invalidMessage
  | .init => if m.initSeen then some .tooManyInit else none
  | .start id =>
    if !m.acked then some .subscribeBeforeAck
    else if p == .new && m.live.contains id then some .duplicateId
    else none
  | _ => none

/-- Effect of a client message that is not a violation. -/
def accept (m : M) : CMsg → M
  | .init => { m with initSeen := true }
  | .start id =>
    if m.live.contains id then { m with live := id :: rm id m.live }      -- legacy: replaced
    else { m with live := id :: m.live, stopped := rm id m.stopped }
  | .stop id =>
    if m.live.contains id then { m with live := rm id m.live, stopped := id :: m.stopped } else m
  | .term => { m with closed := true }
  | .eof => { m with closed := true }
  | .ping => { m with pings := m.pings + 1 }
  | .pong => m
  | .bad => m

/-- What the server may hand to the socket in state `m` (no violation outstanding, not closed). -/
def emit (p : Proto) (m : M) : Out → Option M
  | .pending => some m
  | .done => some { m with closed := true }
  | .ack => if m.initSeen && !m.acked then some { m with acked := true } else none
  | .next id _ _ => if p == .new && m.live.contains id then some m else none
  | .data id _ _ => if p == .legacy && m.live.contains id then some m else none
  | .complete id =>
    if m.live.contains id then some { m with live := rm id m.live }
    else if m.stopped.contains id then some { m with stopped := rm id m.stopped }
    else none
  | .pong => if m.pings > 0 then some { m with pings := m.pings - 1 } else none
  | .connErr _ => if p == .legacy then some { m with closed := true } else none
  | .close c _ =>
    -- server-initiated close (rejected init, keep-alive timeout, …): any code that is not
    -- reserved for a client violation
    if violationCodes.contains c then none else some { m with closed := true }

/-- One event of a conforming session; `none` = the event is not allowed here. -/
def step (p : Proto) (m : M) (ev : Ev) : Option M :=
  match m.expect with
  | some x =>
    -- a violation was received: the very next event is its close
    match ev with
    | .out o => if x.admits p o then some { m with expect := none, closed := true } else none
    | .recv _ => none
  | none =>
    if m.closed then
      -- nothing is taken from or sent to a closed session
      match ev with
      | .out .done => some m
      | .out .pending => some m
      | _ => none
    else
      match ev with
      | .recv msg =>
        match violation p m msg with
        | some v => some { m with expect := some (expected p v) }
        | none => some (accept m msg)
      | .out o => emit p m o

def steps (p : Proto) : M → List Ev → Option M
  | m, [] => some m
  | m, e :: es => match step p m e with
    | some m' => steps p m' es
    | none => none

/-- the property as a predicate on a session trace -/
def conforms (p : Proto) (tr : List Ev) : Bool := (steps p {} tr).isSome

end AGV.Spec.WsProto
