/-
  Reference reading of a constant GraphQL value literal (property C15): what a piece of GraphQL
  text denotes, following the GraphQL specification's lexical grammar (Ignored tokens, Name,
  IntValue, FloatValue, StringValue with its escape semantics, BooleanValue, NullValue,
  EnumValue, ListValue, ObjectValue).  Written independently of the model; core-only imports.

  Deliberately a *fragment*: it rejects (answers `none` on) variables, block strings and comments,
  and reads a number as the longest run of `[0-9.eE+-]` which must then be a well-formed
  IntValue or FloatValue not followed by a NameStart — stricter than the grammar on junk such as
  `1-2`.  Rejecting more can only make the round-trip statement harder to satisfy, never easier.
  A FloatValue token denotes itself (opaque); an object literal denotes the list of its fields.
-/
import AGV.Util.Digits
import AGV.Core.LValue

namespace AGV.Spec.Literal
open AGV.Digits AGV.Core

/-- Ignored: space, comma, tab, BOM, line terminators -/
def isWs (c : Char) : Bool := c = ' ' || c = ',' || c = '\t' || c.toNat = 0xFEFF || c = '\n' || c = '\r'

def isAlpha (c : Char) : Bool := (65 ≤ c.toNat && c.toNat ≤ 90) || (97 ≤ c.toNat && c.toNat ≤ 122)
def nameStart (c : Char) : Bool := isAlpha c || c = '_'
def nameChar (c : Char) : Bool := nameStart c || isDigit c
def numChar (c : Char) : Bool := isDigit c || c = '.' || c = 'e' || c = 'E' || c = '+' || c = '-'

def skipWs : List Char → List Char
  | [] => []
  | c :: r => if isWs c then skipWs r else c :: r

/-- longest prefix satisfying `p`, and the rest -/
def spanP (p : Char → Bool) : List Char → List Char × List Char
  | [] => ([], [])
  | c :: r => if p c then ((spanP p r).1.cons c, (spanP p r).2) else ([], c :: r)

/-- does the first character (if any) satisfy `p`? -/
def headIs (p : Char → Bool) : List Char → Bool
  | d :: _ => p d
  | [] => false

/-- `Name :: NameStart NameContinue*` -/
def isName : List Char → Bool
  | [] => false
  | c :: r => nameStart c && r.all nameChar

/-- `IntegerPart` without the sign: `0` or a non-zero digit followed by digits -/
def intBodyOk : List Char → Bool
  | [] => false
  | [c] => isDigit c
  | c :: r => isDigit c && c != '0' && r.all isDigit

def isIntTok : List Char → Bool
  | '-' :: ds => intBodyOk ds
  | ds => intBodyOk ds

def digits1 (cs : List Char) : Bool := !cs.isEmpty && cs.all isDigit

/-- `ExponentPart :: [eE] [+-]? Digit+` (the whole remaining token) -/
def isExp : List Char → Bool
  | c :: r =>
    (c = 'e' || c = 'E') &&
      (match r with
       | s :: r' => if s = '+' || s = '-' then digits1 r' else digits1 (s :: r')
       | [] => false)
  | [] => false

/-- `FloatValue :: IntegerPart FractionalPart ExponentPart? | IntegerPart ExponentPart` -/
def isFloatTok (tok : List Char) : Bool :=
  let body := match tok with
    | '-' :: ds => ds
    | ds => ds
  let ip := (spanP isDigit body).1
  let rest := (spanP isDigit body).2
  intBodyOk ip &&
    (match rest with
     | c :: r =>
       if c = '.' then
         let fr := (spanP isDigit r).1
         let ex := (spanP isDigit r).2
         !fr.isEmpty && (ex.isEmpty || isExp ex)
       else isExp (c :: r)
     | [] => false)

def hexVal? (c : Char) : Option Nat :=
  if 48 ≤ c.toNat && c.toNat ≤ 57 then some (c.toNat - 48)
  else if 97 ≤ c.toNat && c.toNat ≤ 102 then some (c.toNat - 87)
  else if 65 ≤ c.toNat && c.toNat ≤ 70 then some (c.toNat - 55)
  else none

/-- `EscapedCharacter` semantics -/
def escaped (e : Char) : Option Char :=
  if e = '"' then some '"'
  else if e = '\\' then some '\\'
  else if e = '/' then some '/'
  else if e = 'b' then some (Char.ofNat 8)
  else if e = 'f' then some (Char.ofNat 12)
  else if e = 'n' then some '\n'
  else if e = 'r' then some '\r'
  else if e = 't' then some '\t'
  else none

/-- the text after an opening `"`: StringCharacter* up to the closing quote, decoded
    (`\uXXXX` must denote a Unicode scalar value) -/
def lexString : List Char → Option (List Char × List Char)
  | [] => none
  | c :: r =>
    if c = '"' then some ([], r)
    else if c = '\n' || c = '\r' then none
    else if c = '\\' then
      match r with
      | [] => none
      | e :: r' =>
        if e = 'u' then
          match r' with
          | h1 :: h2 :: h3 :: h4 :: r'' =>
            match hexVal? h1, hexVal? h2, hexVal? h3, hexVal? h4 with
            | some a, some b, some c', some d =>
              let n := ((a * 16 + b) * 16 + c') * 16 + d
              if n.isValidChar then
                match lexString r'' with
                | some (s, rest) => some (Char.ofNat n :: s, rest)
                | none => none
              else none
            | _, _, _, _ => none
          | _ => none
        else
          match escaped e with
          | some x =>
            match lexString r' with
            | some (s, rest) => some (x :: s, rest)
            | none => none
          | none => none
    else
      match lexString r with
      | some (s, rest) => some (c :: s, rest)
      | none => none

/-- after an opening `"`: two more quotes open a block string -/
def isBlockStart : List Char → Bool
  | a :: b :: _ => a = '"' && b = '"'
  | _ => false

/-- items up to the closing bracket; `p` reads one item, ignored tokens may separate items -/
def many {α : Type} (p : List Char → Option (α × List Char)) (close : Char) :
    Nat → List Char → Option (List α × List Char)
  | 0, _ => none
  | n + 1, cs =>
    match cs with
    | [] => none
    | c :: r =>
      if c = close then some ([], r)
      else
        match p (c :: r) with
        | none => none
        | some (a, r') =>
          match many p close n (skipWs r') with
          | none => none
          | some (as, r'') => some (a :: as, r'')

/-- `ObjectField :: Name : Value` -/
def field (pv : List Char → Option (LValue × List Char)) (cs : List Char) :
    Option ((List Char × LValue) × List Char) :=
  let k := (spanP nameChar cs).1
  if isName k then
    match skipWs (spanP nameChar cs).2 with
    | c :: r =>
      if c = ':' then
        match pv (skipWs r) with
        | some (v, rest) => some ((k, v), rest)
        | none => none
      else none
    | [] => none
  else none

/-- number, `true`/`false`/`null`, enum value -/
def scalar (cs : List Char) : Option (LValue × List Char) :=
  match cs with
  | [] => none
  | c :: _ =>
    if isDigit c || c = '-' then
      let tok := (spanP numChar cs).1
      let rest := (spanP numChar cs).2
      if headIs nameStart rest then none
      else if isIntTok tok then some (.int (parseInt tok), rest)
      else if isFloatTok tok then some (.float tok, rest)
      else none
    else if nameStart c then
      let tok := (spanP nameChar cs).1
      let rest := (spanP nameChar cs).2
      if tok = "true".toList then some (.bool true, rest)
      else if tok = "false".toList then some (.bool false, rest)
      else if tok = "null".toList then some (.null, rest)
      else some (.enum tok, rest)
    else none

/-- a value at the head of `cs` (no leading ignored tokens); `fuel` bounds the nesting depth -/
def parseVal : Nat → List Char → Option (LValue × List Char)
  | 0, _ => none
  | f + 1, cs =>
    match cs with
    | [] => none
    | c :: r =>
      if c = '[' then
        match many (parseVal f) ']' (r.length + 1) (skipWs r) with
        | some (xs, rest) => some (.list xs, rest)
        | none => none
      else if c = '{' then
        match many (field (parseVal f)) '}' (r.length + 1) (skipWs r) with
        | some (fs, rest) => some (.obj fs, rest)
        | none => none
      else if c = '"' then
        if isBlockStart r then none        -- block string: outside this fragment
        else
          match lexString r with
          | some (s, rest) => some (.str s, rest)
          | none => none
      else scalar (c :: r)

/-- the whole text is one value, surrounded by ignored tokens only -/
def parseValue (cs : List Char) : Option LValue :=
  match parseVal (cs.length + 1) (skipWs cs) with
  | some (v, rest) => if (skipWs rest).isEmpty then some v else none
  | none => none

/-- The values the round-trip statement is about (what a `ConstValue` must satisfy to be a
    GraphQL value at all): enum values and object keys are Names, an enum value is none of
    `true`/`false`/`null`, a float's printed token is a FloatValue token (made of number
    characters, starting like a number, well-formed, and — true of every FloatValue token, kept as
    an explicit conjunct — not also an IntValue token).  Strings and integers are unrestricted. -/
def wellFormed : LValue → Bool
  | .float tok =>
    tok.all numChar && isFloatTok tok && !isIntTok tok && headIs (fun c => isDigit c || c = '-') tok
  | .enum n => isName n && n != "true".toList && n != "false".toList && n != "null".toList
  | .list xs => xs.attach.all (fun x => wellFormed x.1)
  | .obj fs => fs.attach.all (fun kv => isName kv.1.1 && wellFormed kv.1.2)
  | _ => true
termination_by x => sizeOf x
decreasing_by
  · have := List.sizeOf_lt_of_mem x.2; simp; omega
  · have := List.sizeOf_lt_of_mem kv.2
    have : sizeOf kv.1.2 < sizeOf kv.1 := by cases kv.1; simp; omega
    simp; omega

end AGV.Spec.Literal
