/-
  Reference semantics for C34, independent of the renderer:

  (a) ECMA-262 (§12.9.4) evaluation of the body of a single-quoted string literal in strict
      (module) code to its sequence of UTF-16 code units — `jsEval`;
  (b) what the HTML parser does to the text of a <script> element before JavaScript sees it
      (input-stream preprocessing: CR LF / CR → LF; script data state: U+0000 → U+FFFD) and
      when the element ends early (`</script` ASCII-case-insensitively; `<!--` opens the escaped
      states) — `htmlPre`, `scriptSafe`;
  (c) HTML character-reference decoding in RCDATA (<title>) — `htmlDecode`.

  Core-only imports.
-/
namespace AGV.Spec.JsString

-- ------------------------------------------------------------------ (a) string literal evaluation

def hexVal (c : Char) : Option Nat :=
  let n := c.toNat
  if 48 ≤ n ∧ n ≤ 57 then some (n - 48)
  else if 97 ≤ n ∧ n ≤ 102 then some (n - 87)
  else if 65 ≤ n ∧ n ≤ 70 then some (n - 55)
  else none

/-- UTF-16 code units of a code point -/
def unitsN (n : Nat) : List Nat :=
  if n < 0x10000 then [n] else [0xD800 + (n - 0x10000) / 0x400, 0xDC00 + (n - 0x10000) % 0x400]

def units (c : Char) : List Nat := unitsN c.toNat

/-- the string value JavaScript should see for a configured string -/
def utf16 (s : List Char) : List Nat := (s.map units).flatten

/-- `\u{ HexDigits }`: value and the text after the closing brace -/
def braceHex (acc cnt : Nat) : List Char → Option (Nat × List Char)
  | [] => none
  | c :: r =>
    if c = '}' then (if cnt = 0 then none else some (acc, r))
    else
      match hexVal c with
      | some d => braceHex (acc * 16 + d) (cnt + 1) r
      | none => none

def isDecDigit (c : Char) : Bool := 48 ≤ c.toNat && c.toNat ≤ 57

/-- SV of the body of a single-quoted literal (strict code: legacy octal and `\8` `\9` are
    errors); `none` = not the body of one literal (unescaped quote, raw LF/CR, malformed
    escape, backslash at the end).  The first argument bounds the recursion. -/
def jsEvalF : Nat → List Char → Option (List Nat)
  | 0, _ => none
  | _ + 1, [] => some []
  | f + 1, c :: r =>
    if c = '\'' then none
    else if c = '\n' ∨ c = '\r' then none
    else if c ≠ '\\' then (jsEvalF f r).map (units c ++ ·)
    else
      match r with
      | [] => none
      | e :: r' =>
        if e = 'u' then
          match r' with
          | [] => none
          | a :: r1 =>
            if a = '{' then
              match braceHex 0 0 r1 with
              | some (v, rest) => if v ≤ 0x10FFFF then (jsEvalF f rest).map (unitsN v ++ ·) else none
              | none => none
            else
              match r1 with
              | b :: c' :: d :: rest =>
                match hexVal a, hexVal b, hexVal c', hexVal d with
                | some x, some y, some z, some w => (jsEvalF f rest).map ((x * 4096 + y * 256 + z * 16 + w) :: ·)
                | _, _, _, _ => none
              | _ => none
        else if e = 'x' then
          match r' with
          | a :: b :: rest =>
            match hexVal a, hexVal b with
            | some x, some y => (jsEvalF f rest).map ((x * 16 + y) :: ·)
            | _, _ => none
          | _ => none
        else if e = '0' then
          match r' with
          | d :: _ => if isDecDigit d then none else (jsEvalF f r').map (0 :: ·)
          | [] => (jsEvalF f r').map (0 :: ·)
        else if isDecDigit e then none
        else if e = '\r' then
          match r' with
          | d :: rest => if d = '\n' then jsEvalF f rest else jsEvalF f r'
          | [] => jsEvalF f r'
        else if e = '\n' ∨ e.toNat = 0x2028 ∨ e.toNat = 0x2029 then jsEvalF f r'
        else if e = 'n' then (jsEvalF f r').map (10 :: ·)
        else if e = 't' then (jsEvalF f r').map (9 :: ·)
        else if e = 'r' then (jsEvalF f r').map (13 :: ·)
        else if e = 'b' then (jsEvalF f r').map (8 :: ·)
        else if e = 'f' then (jsEvalF f r').map (12 :: ·)
        else if e = 'v' then (jsEvalF f r').map (11 :: ·)
        else (jsEvalF f r').map (units e ++ ·)

def jsEval (body : List Char) : Option (List Nat) := jsEvalF (body.length + 1) body

-- ------------------------------------------------------------------ (b) the HTML side of a script

/-- input-stream preprocessing and the script data state: CR LF and CR become LF, U+0000
    becomes U+FFFD -/
def htmlPreAux (prevCR : Bool) : List Char → List Char
  | [] => []
  | c :: r =>
    if c = '\r' then '\n' :: htmlPreAux true r
    else if c = '\n' ∧ prevCR = true then htmlPreAux false r
    else (if c.toNat = 0 then Char.ofNat 0xFFFD else c) :: htmlPreAux false r

def htmlPre (s : List Char) : List Char := htmlPreAux false s

/-- what the page's script evaluates a literal with this body to -/
def scriptValue (body : List Char) : Option (List Nat) := jsEval (htmlPre body)

/-- `c` matches the lowercase pattern character `p` ASCII-case-insensitively -/
def matchCI (p c : Char) : Bool := c = p || (65 ≤ c.toNat && c.toNat ≤ 90 && c.toNat + 32 = p.toNat)

def prefixCI : List Char → List Char → Bool
  | [], _ => true
  | _ :: _, [] => false
  | p :: ps, c :: cs => matchCI p c && prefixCI ps cs

/-- the (lowercase) pattern occurs somewhere, ASCII-case-insensitively -/
def containsCI (pat : List Char) : List Char → Bool
  | [] => prefixCI pat []
  | c :: cs => prefixCI pat (c :: cs) || containsCI pat cs

/-- the text cannot end the script element or switch the tokenizer into the escaped states -/
def scriptSafe (body : List Char) : Bool :=
  !containsCI ['<', '/', 's', 'c', 'r', 'i', 'p', 't'] body && !containsCI ['<', '!', '-', '-'] body

/-- lexically one literal body: no unescaped quote, no raw LF/CR, no backslash left over at the end -/
def literalClosed : List Char → Bool
  | [] => true
  | c :: r =>
    if c = '\\' then
      match r with
      | [] => false
      | _ :: r' => literalClosed r'
    else c ≠ '\'' && c ≠ '\n' && c ≠ '\r' && literalClosed r

/-- ECMA-262 object literal: the property definitions are separated by commas (a trailing comma
    is allowed): every property except the last must be followed by one -/
def wellSeparated {α : Type} : List (α × Bool) → Bool
  | [] => true
  | [_] => true
  | p :: q :: r => p.2 && wellSeparated (q :: r)

-- ------------------------------------------------------------------ (c) RCDATA character references

def decDigits (acc cnt : Nat) : List Char → Nat × Nat × List Char
  | [] => (acc, cnt, [])
  | c :: r => if isDecDigit c then decDigits (acc * 10 + (c.toNat - 48)) (cnt + 1) r else (acc, cnt, c :: r)

def hexDigits (acc cnt : Nat) : List Char → Nat × Nat × List Char
  | [] => (acc, cnt, [])
  | c :: r =>
    match hexVal c with
    | some d => hexDigits (acc * 16 + d) (cnt + 1) r
    | none => (acc, cnt, c :: r)

def dropSemi : List Char → List Char
  | ';' :: r => r
  | r => r

def named : List (List Char × Char) :=
  [(['a', 'm', 'p', ';'], '&'), (['l', 't', ';'], '<'), (['g', 't', ';'], '>'), (['q', 'u', 'o', 't', ';'], '"'),
   (['a', 'p', 'o', 's', ';'], '\''), (['a', 'm', 'p'], '&'), (['l', 't'], '<'), (['g', 't'], '>'),
   (['q', 'u', 'o', 't'], '"')]

def numericChar (n : Nat) : Char :=
  if n = 0 ∨ n > 0x10FFFF ∨ (0xD800 ≤ n ∧ n ≤ 0xDFFF) then Char.ofNat 0xFFFD else Char.ofNat n

/-- text of an RCDATA element after character-reference decoding (decimal and hexadecimal
    numeric references, the five predefined named ones; other `&` stay literal) -/
def htmlDecodeF : Nat → List Char → List Char
  | 0, s => s
  | _ + 1, [] => []
  | f + 1, c :: r =>
    if c ≠ '&' then c :: htmlDecodeF f r
    else
      match r with
      | '#' :: r1 =>
        match r1 with
        | x :: r2 =>
          if x = 'x' ∨ x = 'X' then
            match hexDigits 0 0 r2 with
            | (v, cnt, rest) => if cnt = 0 then c :: htmlDecodeF f r else numericChar v :: htmlDecodeF f (dropSemi rest)
          else
            match decDigits 0 0 r1 with
            | (v, cnt, rest) => if cnt = 0 then c :: htmlDecodeF f r else numericChar v :: htmlDecodeF f (dropSemi rest)
        | [] => c :: htmlDecodeF f r
      | _ =>
        match named.find? (fun p => p.1.isPrefixOf r) with
        | some (nm, ch) => ch :: htmlDecodeF f (r.drop nm.length)
        | none => c :: htmlDecodeF f r

def htmlDecode (s : List Char) : List Char := htmlDecodeF (s.length + 1) s

end AGV.Spec.JsString
