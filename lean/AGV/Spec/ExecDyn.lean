/-
  The reference semantics for run-time assembled schemas IS `Spec.Exec` (GraphQL October 2021
  §6.2–6.4).  This file only says how the values a dynamic resolver can hand to the library are
  read as "internal values" of the specification, so that `Spec.Exec.run` can be used as the oracle:

  * CompleteValue: "if result is null (or another internal value similar to null), return null":
    `Value::Null` is null (`leaf null` ↦ `null`);
  * an enum's internal value may be given as `Value::Enum(name)` or `Value::String(name)` (both are
    documented inputs of the dynamic API): `leaf (str s)` at an enum-typed field ↦ `leaf (enum s)`;
  * a custom scalar registered with a validator is its carrier built-in type restricted by the
    validator (the description carries `values = [carrier, predicate]`): a value the validator
    rejects cannot be serialised (↦ an unserialisable leaf), an accepted one is serialised as the
    carrier type.
  The family invariant "a field name has the same type wherever it occurs" makes the base type of a
  world entry a function of its field name.  Import-free.
-/
import AGV.Core.Types
import AGV.Spec.Exec

namespace AGV.Spec.ExecDyn
open AGV.Core

def customScalar? (S : Schema) (n : String) : Option TypeDef :=
  match S.find? n with
  | some t => if t.kind == .scalar && !t.values.isEmpty then some t else none
  | none => none

/-- the registered validator, read from the description -/
def accepts (t : TypeDef) (v : GValue) : Bool :=
  match t.values with
  | [_, "even"] => (match v with | .int i => i % 2 == 0 | _ => false)
  | [_, "nonempty"] => (match v with | .str s => s != "" | _ => false)
  | _ => false

def renameBase (S : Schema) : TypeRef → TypeRef
  | .named n => match customScalar? S n with
    | some t => .named (t.values.headD n)
    | none => .named n
  | .list t => .list (renameBase S t)
  | .nonNull t => .nonNull (renameBase S t)

/-- custom scalars replaced by their carrier type -/
def specSchema (S : Schema) : Schema :=
  { S with types := S.types.map (fun t =>
      { t with fields := t.fields.map (fun f => { f with ty := renameBase S f.ty }) }) }

def fieldBase (S : Schema) (f : String) : Option String :=
  S.types.findSome? (fun t => (t.fields.find? (·.name = f)).map (·.ty.base))

def normLeaf (S : Schema) (base : String) (v : GValue) : RVal :=
  match v with
  | .null => .null
  | v =>
    match customScalar? S base with
    | some t => if accepts t v then .leaf v else .leaf (.obj [])
    | none =>
      match S.kindOf base, v with
      | some .enum, .str s => .leaf (.enum s)
      | _, v => .leaf v

mutual
def normRV (S : Schema) (base : String) : RVal → RVal
  | .leaf v => normLeaf S base v
  | .list xs => .list (normRVs S base xs)
  | .null => .null
  | .obj ty id => .obj ty id
  | .fail m => .fail m
  | .arg a => .arg a
def normRVs (S : Schema) (base : String) : List RVal → List RVal
  | [] => []
  | x :: xs => normRV S base x :: normRVs S base xs
end

def specWorld (S : Schema) (w : World) : World :=
  { entries := w.entries.map (fun e =>
      (e.1, match fieldBase S e.1.2 with
            | some b => normRV S b e.2
            | none => e.2)) }

def run (S : Schema) (d : Doc) (opName : Option String) (raw : List (String × GValue)) (w : World)
    (fuel : Nat) : Res :=
  AGV.Spec.Exec.run (specSchema S) d opName raw (specWorld S w) fuel

end AGV.Spec.ExecDyn
