/-
  Reference semantics for C32, written without looking at the model.

  * which strings denote which integer of a given type (syntax: optional sign, one or more ASCII
    digits, value in range) — `decodeInt`;
  * what the pagination helper must do: an error and NO closure call when `first` or `last` is
    negative or a supplied cursor does not decode; otherwise exactly one call with the decoded
    values — `query`;
  * page info: start/end cursor = encoding of the first/last edge cursor.

  Core-only imports.
-/
import AGV.Util.Digits

namespace AGV.Spec.Cursor
open AGV.Digits

/-- the values of a Rust integer type -/
def InRange (signed : Bool) (bits : Nat) (n : Int) : Prop :=
  if signed then -(2 ^ (bits - 1) : Int) ≤ n ∧ n < 2 ^ (bits - 1) else 0 ≤ n ∧ n < 2 ^ bits

instance (signed : Bool) (bits : Nat) (n : Int) : Decidable (InRange signed bits n) := by
  unfold InRange; infer_instance

/-- sign and digit part of a numeral; a minus sign exists only for signed types -/
def splitSign (signed : Bool) : List Char → Option (Bool × List Char)
  | '+' :: r => some (false, r)
  | '-' :: r => if signed then some (true, r) else none
  | s => some (false, s)

/-- value of a sign and a digit string: at least one digit, only ASCII digits, in range -/
def readDigits (signed : Bool) (bits : Nat) (neg : Bool) (ds : List Char) : Option Int :=
  if ds = [] ∨ ds.all isDigit = false then none
  else
    let v : Int := if neg then -(parseNat ds : Int) else (parseNat ds : Int)
    if InRange signed bits v then some v else none

/-- the integer a string denotes for the given type, if any -/
def decodeInt (signed : Bool) (bits : Nat) (s : List Char) : Option Int :=
  match splitSign signed s with
  | none => none
  | some (neg, ds) => readDigits signed bits neg ds

/-- outcome of the pagination helper: the closure calls made and whether it failed -/
inductive Outcome (C : Type) where
  | rejected                      -- an error is returned, the closure was not called
  | called (after before : Option C) (first last : Option Nat)
  deriving Repr, DecidableEq

/-- decoded optional cursor: `none` = undecodable -/
def decOpt {C : Type} (dec : List Char → Option C) : Option (List Char) → Option (Option C)
  | none => some none
  | some s => (dec s).map some

def query {C : Type} (dec : List Char → Option C) (after before : Option (List Char))
    (first last : Option Int) : Outcome C :=
  if first.any (· < 0) || last.any (· < 0) then .rejected
  else
    match decOpt dec after, decOpt dec before with
    | some a, some b => .called a b (first.map Int.toNat) (last.map Int.toNat)
    | _, _ => .rejected

/-- required page info cursors, from the list of edge cursors -/
def pageCursors {C : Type} (enc : C → List Char) (edges : List C) : Option (List Char) × Option (List Char) :=
  match edges with
  | [] => (none, none)
  | e :: es => (some (enc e), some (enc ((e :: es).getLast (by simp))))

end AGV.Spec.Cursor
