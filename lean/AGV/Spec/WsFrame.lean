/-
  C25 — what ONE client frame of the two GraphQL-over-WebSocket protocols is, written as a
  grammar (RFC 8259 JSON text) plus the message table of the protocol documents, independently of
  how serde_json / serde read it.  Import-free.

  A frame is well formed when its text is

        ws  value  ws                 (exactly one JSON value, nothing but white space around it)

  the value is an object, and the object is a message of the table

        type                                   members
        connection_init                        payload?   (any JSON value, `null` = absent)
        start | subscribe                      id : string,  payload : request object
        stop  | complete                       id : string
        connection_terminate                   —
        ping, pong                             payload?   (any JSON value, `null` = absent)

  request object = { query? : string, operationName? : string|null, variables? : object|null,
                     extensions? : object|null }.
  `type` occurs exactly once; a member of the table occurs at most once; members outside the
  table are ignored (however often they occur).  Both protocols' spellings are accepted on both
  protocols (assumption listed in props/C25.json).  Every other frame — not JSON, JSON followed
  by anything but white space, an array, a scalar, a wrong member type, a repeated member — is
  a protocol violation (`Spec.WsProto.CMsg.bad`).

  Two limits a server is allowed to have are parameters of the grammar: numbers must denote a
  finite IEEE double after rounding to nearest (`finite64`) and containers may be nested at most
  `maxDepth` deep.
-/
namespace AGV.Spec.WsFrame

abbrev Str := List Char

/-- a JSON document: members keep their order and may repeat a key; a number keeps its token -/
inductive J where
  | null
  | bool (b : Bool)
  | num (tok : Str)
  | str (s : Str)
  | arr (xs : List J)
  | obj (kvs : List (Str × J))
  deriving Repr, Inhabited

-- ------------------------------------------------------------------ characters

def isWs (c : Char) : Bool := c == ' ' || c == '\t' || c == '\n' || c == '\r'
def isDigit (c : Char) : Bool := 48 ≤ c.toNat && c.toNat ≤ 57

def AllWs (w : Str) : Prop := ∀ c ∈ w, isWs c = true
def AllDigits (w : Str) : Prop := ∀ c ∈ w, isDigit c = true

def hexVal (c : Char) : Option Nat :=
  let n := c.toNat
  if 48 ≤ n && n ≤ 57 then some (n - 48)
  else if 97 ≤ n && n ≤ 102 then some (n - 87)
  else if 65 ≤ n && n ≤ 70 then some (n - 55)
  else none

def hex4 (a b c d : Char) : Option Nat :=
  match hexVal a, hexVal b, hexVal c, hexVal d with
  | some a, some b, some c, some d => some (((a * 16 + b) * 16 + c) * 16 + d)
  | _, _, _, _ => none

/-- the two-character escapes -/
def simpleEsc (c : Char) : Option Char :=
  if c = '"' then some '"' else if c = '\\' then some '\\' else if c = '/' then some '/'
  else if c = 'b' then some (Char.ofNat 8) else if c = 'f' then some (Char.ofNat 12)
  else if c = 'n' then some '\n' else if c = 'r' then some '\r' else if c = 't' then some '\t'
  else none

def isHigh (n : Nat) : Bool := 0xD800 ≤ n && n ≤ 0xDBFF
def isLow (n : Nat) : Bool := 0xDC00 ≤ n && n ≤ 0xDFFF
def pairVal (hi lo : Nat) : Nat := 0x10000 + (hi - 0xD800) * 0x400 + (lo - 0xDC00)

-- ------------------------------------------------------------------ strings

/-- `StrBody t s`: the text `t` between two quotes denotes the string `s` -/
inductive StrBody : Str → Str → Prop
  | nil : StrBody [] []
  | plain {t s : Str} (c : Char) : 0x20 ≤ c.toNat → c ≠ '"' → c ≠ '\\' → StrBody t s → StrBody (c :: t) (c :: s)
  | esc {t s : Str} (e c : Char) : simpleEsc e = some c → StrBody t s → StrBody ('\\' :: e :: t) (c :: s)
  | uni {t s : Str} (a b c d : Char) (n : Nat) : hex4 a b c d = some n → isHigh n = false → isLow n = false →
      StrBody t s → StrBody ('\\' :: 'u' :: a :: b :: c :: d :: t) (Char.ofNat n :: s)
  | pair {t s : Str} (a b c d e f g h : Char) (hi lo : Nat) : hex4 a b c d = some hi → isHigh hi = true →
      hex4 e f g h = some lo → isLow lo = true → StrBody t s →
      StrBody ('\\' :: 'u' :: a :: b :: c :: d :: '\\' :: 'u' :: e :: f :: g :: h :: t) (Char.ofNat (pairVal hi lo) :: s)

-- ------------------------------------------------------------------ numbers

inductive IntPart : Str → Prop
  | zero : IntPart ['0']
  | pos (d : Char) (ds : Str) : isDigit d = true → d ≠ '0' → AllDigits ds → IntPart (d :: ds)

inductive FracPart : Str → Prop
  | none : FracPart []
  | some (ds : Str) : ds ≠ [] → AllDigits ds → FracPart ('.' :: ds)

inductive ExpPart : Str → Prop
  | none : ExpPart []
  | some (e : Char) (sg ds : Str) : (e = 'e' ∨ e = 'E') → (sg = [] ∨ sg = ['+'] ∨ sg = ['-']) → ds ≠ [] → AllDigits ds →
      ExpPart (e :: sg ++ ds)

/-- `-? int frac? exp?` -/
def NumTok (tok : Str) : Prop :=
  ∃ sg ip fp ep, tok = sg ++ (ip ++ (fp ++ ep)) ∧ (sg = [] ∨ sg = ['-']) ∧ IntPart ip ∧ FracPart fp ∧ ExpPart ep

def digitsVal (ds : Str) : Nat := ds.foldl (fun a c => a * 10 + (c.toNat - 48)) 0

def isExpChar (c : Char) : Bool := c == 'e' || c == 'E'

/-- the digits of the token before the exponent mark (sign and point dropped) -/
def mantissa (tok : Str) : Nat := digitsVal ((tok.takeWhile (fun c => !isExpChar c)).filter isDigit)

/-- number of digits after the point -/
def fracLen (tok : Str) : Nat :=
  (((tok.takeWhile (fun c => !isExpChar c)).dropWhile (fun c => c != '.')).filter isDigit).length

/-- the written exponent -/
def expVal (tok : Str) : Int :=
  match tok.dropWhile (fun c => !isExpChar c) with
  | _ :: '-' :: ds => - (digitsVal ds : Int)
  | _ :: '+' :: ds => (digitsVal ds : Int)
  | _ :: ds => (digitsVal ds : Int)
  | [] => 0

/-- the largest magnitude that still rounds (to nearest, ties to even) to a finite double is
    just below `(2^54 − 1) · 2^970` -/
def overflowBound : Nat := (2 ^ 54 - 1) * 2 ^ 970

/-- `m · 10^e` rounds to a finite double (the guards keep the powers of ten small) -/
def finiteDec (m : Nat) (e : Int) : Bool :=
  if m = 0 then true
  else
    let nd : Int := ((Nat.toDigits 10 m).length : Nat)
    if nd + e > 310 then false
    else if nd + e < 300 then true
    else if e ≥ 0 then decide (m * 10 ^ e.toNat < overflowBound)
    else decide (m < overflowBound * 10 ^ (-e).toNat)

/-- the number token denotes a finite double -/
def finite64 (tok : Str) : Bool := finiteDec (mantissa tok) (expVal tok - (fracLen tok : Nat))

-- ------------------------------------------------------------------ values

/-- one element of an array with the white space around it -/
structure Item where
  w1 : Str
  t : Str
  w2 : Str
  v : J

def Item.text (i : Item) : Str := i.w1 ++ (i.t ++ i.w2)

/-- one member of an object: ws "key" ws : ws value ws -/
structure Memb where
  w1 : Str
  kt : Str
  k : Str
  w2 : Str
  w3 : Str
  t : Str
  w4 : Str
  v : J

def Memb.text (m : Memb) : Str := m.w1 ++ ('"' :: (m.kt ++ ('"' :: (m.w2 ++ (':' :: (m.w3 ++ (m.t ++ m.w4)))))))

def joinComma : List Str → Str
  | [] => []
  | [x] => x
  | x :: y :: r => x ++ (',' :: joinComma (y :: r))

/-- `Val d t v`: the text `t` (no white space at either end) is a JSON value denoting `v`,
    with containers nested at most `d` deep -/
inductive Val : Nat → Str → J → Prop
  | null (d : Nat) : Val d ['n', 'u', 'l', 'l'] .null
  | tru (d : Nat) : Val d ['t', 'r', 'u', 'e'] (.bool true)
  | fls (d : Nat) : Val d ['f', 'a', 'l', 's', 'e'] (.bool false)
  | num (d : Nat) (tok : Str) : NumTok tok → finite64 tok = true → Val d tok (.num tok)
  | str (d : Nat) (t s : Str) : StrBody t s → Val d ('"' :: (t ++ ['"'])) (.str s)
  | arr0 (d : Nat) (w : Str) : AllWs w → Val (d + 1) ('[' :: (w ++ [']'])) (.arr [])
  | arr (d : Nat) (its : List Item) : its ≠ [] → (∀ i ∈ its, AllWs i.w1 ∧ AllWs i.w2) →
      (∀ i ∈ its, Val d i.t i.v) →
      Val (d + 1) ('[' :: (joinComma (its.map Item.text) ++ [']'])) (.arr (its.map (·.v)))
  | obj0 (d : Nat) (w : Str) : AllWs w → Val (d + 1) ('{' :: (w ++ ['}'])) (.obj [])
  | obj (d : Nat) (ms : List Memb) : ms ≠ [] →
      (∀ m ∈ ms, AllWs m.w1 ∧ AllWs m.w2 ∧ AllWs m.w3 ∧ AllWs m.w4 ∧ StrBody m.kt m.k) →
      (∀ m ∈ ms, Val d m.t m.v) →
      Val (d + 1) ('{' :: (joinComma (ms.map Memb.text) ++ ['}'])) (.obj (ms.map (fun m => (m.k, m.v))))

/-- nesting a server may refuse beyond (serde_json: `remaining_depth` 128, i.e. 127 levels) -/
def maxDepth : Nat := 127

/-- the frame text is exactly one JSON value surrounded by white space only -/
def FrameDoc (cs : Str) (v : J) : Prop :=
  ∃ w1 t w2, cs = w1 ++ (t ++ w2) ∧ AllWs w1 ∧ AllWs w2 ∧ Val maxDepth t v

-- ------------------------------------------------------------------ messages

/-- a decoded GraphQL request (`variables`/`extensions`: the members that were sent) -/
structure Req where
  query : Str
  operationName : Option Str
  variables : List (Str × J)
  extensions : List (Str × J)
  deriving Repr, Inhabited

/-- a client message of either protocol -/
inductive WMsg where
  | init (payload : Option J)
  | start (id : Str) (req : Req)
  | stop (id : Str)
  | term
  | ping (payload : Option J)
  | pong (payload : Option J)
  deriving Repr, Inhabited

inductive Kind where
  | init | start | stop | term | ping | pong
  deriving DecidableEq, Repr

def tConnectionInit : Str := ['c','o','n','n','e','c','t','i','o','n','_','i','n','i','t']
def tStart : Str := ['s','t','a','r','t']
def tSubscribe : Str := ['s','u','b','s','c','r','i','b','e']
def tStop : Str := ['s','t','o','p']
def tComplete : Str := ['c','o','m','p','l','e','t','e']
def tConnectionTerminate : Str := ['c','o','n','n','e','c','t','i','o','n','_','t','e','r','m','i','n','a','t','e']
def tPing : Str := ['p','i','n','g']
def tPong : Str := ['p','o','n','g']

/-- THE MESSAGE TABLE: `type` strings of the two protocol documents -/
def kindOf (t : Str) : Option Kind :=
  if t = tConnectionInit then some .init
  else if t = tStart ∨ t = tSubscribe then some .start
  else if t = tStop ∨ t = tComplete then some .stop
  else if t = tConnectionTerminate then some .term
  else if t = tPing then some .ping
  else if t = tPong then some .pong
  else none

/-- member `k`: absent (`some none`), present once (`some (some v)`), repeated (`none`) -/
def member (k : Str) (kvs : List (Str × J)) : Option (Option J) :=
  match kvs.filter (fun p => p.1 = k) with
  | [] => some none
  | [p] => some (some p.2)
  | _ => none

def kType : Str := ['t','y','p','e']
def kId : Str := ['i','d']
def kPayload : Str := ['p','a','y','l','o','a','d']
def kQuery : Str := ['q','u','e','r','y']
def kOperationName : Str := ['o','p','e','r','a','t','i','o','n','N','a','m','e']
def kVariables : Str := ['v','a','r','i','a','b','l','e','s']
def kExtensions : Str := ['e','x','t','e','n','s','i','o','n','s']

/-- an optional payload: `null` is the same as leaving it out -/
def optPayload (kvs : List (Str × J)) : Option (Option J) :=
  match member kPayload kvs with
  | none => none
  | some none => some none
  | some (some .null) => some none
  | some (some v) => some (some v)

def idOf (kvs : List (Str × J)) : Option Str :=
  match member kId kvs with
  | some (some (.str s)) => some s
  | _ => none

def queryOf : Option (Option J) → Option Str
  | some none => some []
  | some (some (.str s)) => some s
  | _ => none

def opNameOf : Option (Option J) → Option (Option Str)
  | some none => some none
  | some (some .null) => some none
  | some (some (.str s)) => some (some s)
  | _ => none

def membersOf : Option (Option J) → Option (List (Str × J))
  | some none => some []
  | some (some .null) => some []
  | some (some (.obj kvs)) => some kvs
  | _ => none

/-- the payload of `start`/`subscribe` -/
def reqOf : J → Option Req
  | .obj kvs =>
    match queryOf (member kQuery kvs), opNameOf (member kOperationName kvs),
          membersOf (member kVariables kvs), membersOf (member kExtensions kvs) with
    | some q, some o, some v, some e => some ⟨q, o, v, e⟩
    | _, _, _, _ => none
  | _ => none

/-- the message a JSON document is, if any -/
def msgOf : J → Option WMsg
  | .obj kvs =>
    match member kType kvs with
    | some (some (.str t)) =>
      match kindOf t with
      | some .init => (optPayload kvs).map .init
      | some .start =>
        match idOf kvs, member kPayload kvs with
        | some id, some (some p) => (reqOf p).map (.start id)
        | _, _ => none
      | some .stop => (idOf kvs).map .stop
      | some .term => some .term
      | some .ping => (optPayload kvs).map .ping
      | some .pong => (optPayload kvs).map .pong
      | none => none
    | _ => none
  | _ => none

/-- THE PROPERTY'S NOTION OF A DECODABLE FRAME -/
def WellFormed (cs : Str) (m : WMsg) : Prop := ∃ v, FrameDoc cs v ∧ msgOf v = some m

end AGV.Spec.WsFrame
