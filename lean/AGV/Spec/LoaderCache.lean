/-
  C29 — reference semantics of the DataLoader cache ("the documented cache").

  The cache is a finite map `Key → Option Val` kept as an association list in recency order
  (most recently used first) with an optional capacity:
    * `cap = none`    unbounded cache (HashMapCache): recency is kept but never matters,
    * `cap = some c`  LRU cache of capacity `c`: writing a new key into a full cache drops the
                      least recently used one; reading or writing a key makes it the most recent,
    * `cap = some 0`  no cache (NoCache): nothing is ever held.
  Caching is on when both the global switch and the key type's switch are on.  A load answers
  from the cache exactly for the keys the cache holds while caching is on, asks the loader for
  the other keys (once per distinct key) and, while caching is on, writes what the loader
  returned into the cache.  While caching is off a load neither reads nor writes the cache.
  Feeding, clearing and removing one key act on the cache whatever the switches say.
  No operation fails; in particular every operation is defined on a loader that has never been
  used.

  This file also fixes the vocabulary shared with the model (operations, observable outputs,
  the loader behind the DataLoader, canonical orders).  Import-free.
-/
namespace AGV.Spec.LoaderCache

abbrev Key := Nat
abbrev Val := Nat

/-- The loader behind the DataLoader: on its `g`-th call (g ≥ 1) key `k` has the value
    `1000·k + g` (so a stale cached value is distinguishable from a fresh one); keys `≡ 3 mod 4`
    do not exist. -/
def loaderVal (g : Nat) (k : Key) : Option Val :=
  if k % 4 = 3 then none else some (k * 1000 + g)

inductive Op where
  /-- `load_many(ks)`; `ord` = the order in which the loader's answer (a hash map) enumerates
      its keys — an environment choice the cache write order depends on -/
  | load (ks : List Key) (ord : List Key)
  /-- `load_one(k)` -/
  | loadOne (k : Key)
  /-- `feed_many(kvs)` -/
  | feed (kvs : List (Key × Val))
  /-- `clear::<K>()` -/
  | clear
  /-- `clear_one(&k)` -/
  | clearOne (k : Key)
  /-- `enable_cache::<K>(b)` -/
  | enable (b : Bool)
  /-- `enable_all_cache(b)` -/
  | enableAll (b : Bool)
  /-- `get_cached_values::<K>()` restricted to the keys `0 … n-1` -/
  | cached (n : Nat)
  /-- environment: from now on the loader answers `Err` (b = true) / answers normally -/
  | setFail (b : Bool)
  deriving DecidableEq, Repr

inductive Out where
  | unit
  /-- cached pairs, ascending keys -/
  | vals (kvs : List (Key × Val))
  /-- result map (ascending keys), keys the loader was called with (ascending, `[]` = not
      called), order in which the answer enumerated its keys -/
  | loaded (res : List (Key × Val)) (call : List Key) (ins : List Key)
  /-- the loader was called with `call` and answered `Err` -/
  | failed (call : List Key)
  /-- `load_one`: value, keys the loader was called with -/
  | one (v : Option Val) (call : List Key)
  | panic
  deriving DecidableEq, Repr

-- ---------------------------------------------------------------- canonical orders

def insKey (k : Key) : List Key → List Key
  | [] => [k]
  | a :: r => if k < a then k :: a :: r else if k = a then a :: r else a :: insKey k r

/-- ascending, duplicate-free (how a `HashSet` of keys is printed) -/
def normKeys (ks : List Key) : List Key := ks.foldr insKey []

def insKV (p : Key × Val) : List (Key × Val) → List (Key × Val)
  | [] => [p]
  | a :: r => if p.1 < a.1 then p :: a :: r else if p.1 = a.1 then a :: r else a :: insKV p r

/-- ascending keys, one pair per key (how a `HashMap` is printed) -/
def normKVs (kvs : List (Key × Val)) : List (Key × Val) := kvs.foldr insKV []

/-- the keys `ks` in the order `ord` names them (keys `ord` does not name keep their order at
    the end): always a rearrangement of `ks`, whatever `ord` is -/
def arrange (ord ks : List Key) : List Key :=
  (ord.eraseDups.filter (fun k => ks.contains k)) ++ ks.filter (fun k => !ord.contains k)

/-- `load_one(k)` is `load_many([k])` followed by taking `k` out of the result -/
def oneOf (k : Key) : Out → Out
  | .loaded res call _ => .one (res.lookup k) call
  | o => o

-- ---------------------------------------------------------------- the documented cache

structure State where
  /-- most recently used first -/
  held : List (Key × Val) := []
  cap : Option Nat
  onAll : Bool := true
  onType : Bool := true
  /-- number of loader calls so far -/
  gen : Nat := 0
  fail : Bool := false
  deriving DecidableEq, Repr

def init (cap : Option Nat) : State := { cap := cap }

def drop (h : List (Key × Val)) (k : Key) : List (Key × Val) := h.filter (fun p => p.1 != k)

/-- reading a held key makes it the most recent -/
def touch (h : List (Key × Val)) (k : Key) : List (Key × Val) :=
  match h.lookup k with
  | some v => (k, v) :: drop h k
  | none => h

/-- writing a key makes it the most recent; beyond capacity the least recent are dropped -/
def put (cap : Option Nat) (h : List (Key × Val)) (k : Key) (v : Val) : List (Key × Val) :=
  let h' := (k, v) :: drop h k
  match cap with
  | none => h'
  | some c => h'.take c

def load (s : State) (ks ord : List Key) : State × Out :=
  let on := s.onAll && s.onType
  let hits := if on then ks.filterMap (fun k => (s.held.lookup k).map (fun v => (k, v))) else []
  let miss := normKeys (if on then ks.filter (fun k => (s.held.lookup k).isNone) else ks)
  let held1 := if on then ks.foldl touch s.held else s.held
  if miss = [] then ({ s with held := held1 }, .loaded (normKVs hits) [] [])
  else
    let g := s.gen + 1
    if s.fail then ({ s with held := held1, gen := g }, .failed miss)
    else
      let got := miss.filterMap (fun k => (loaderVal g k).map (fun v => (k, v)))
      let ins := arrange ord (got.map (·.1))
      let held2 :=
        if on then
          ins.foldl (fun h k => match loaderVal g k with
            | some v => put s.cap h k v
            | none => h) held1
        else held1
      ({ s with held := held2, gen := g }, .loaded (normKVs (hits ++ got)) miss ins)

def step (s : State) : Op → State × Out
  | .load ks ord => load s ks ord
  | .loadOne k => let r := load s [k] []; (r.1, oneOf k r.2)
  | .feed kvs => ({ s with held := kvs.foldl (fun h p => put s.cap h p.1 p.2) s.held }, .unit)
  | .clear => ({ s with held := [] }, .unit)
  | .clearOne k => ({ s with held := drop s.held k }, .unit)
  | .enable b => ({ s with onType := b }, .unit)
  | .enableAll b => ({ s with onAll := b }, .unit)
  | .cached n => (s, .vals ((List.range n).filterMap (fun k => (s.held.lookup k).map (fun v => (k, v)))))
  | .setFail b => ({ s with fail := b }, .unit)

/-- outputs of a whole history -/
def run (s : State) : List Op → List Out
  | [] => []
  | op :: ops => let r := step s op; r.2 :: run r.1 ops

end AGV.Spec.LoaderCache
