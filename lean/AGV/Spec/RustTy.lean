/-
  What a declared Rust type MEANS as a GraphQL type reference (C17 / C18): a container is a list
  of its element type, `Option` / `MaybeUndefined` make the position nullable, every other
  position is non-null, pointers are transparent.  Written without looking at `type_name` /
  `qualified_type_name`.
-/
import AGV.Core.RustTy
import AGV.Core.PAst

namespace AGV.Spec.RustTy
open AGV.Core.RustTy AGV.Core.PAst

/-- may the position hold `null`? -/
def nullable : RTy → Bool
  | .option _ => true
  | .undef _ => true
  | .ptr _ t => nullable t
  | _ => false

/-- the reference without its outer `!` -/
def core : RTy → RRef
  | .leaf n => .named n
  | .list _ t => .list (if nullable t then core t else .nonNull (core t))
  | .option t => core t
  | .undef t => core t
  | .ptr _ t => core t

/-- the GraphQL type reference of a position declared with Rust type `t` -/
def ref (t : RTy) : RRef := if nullable t then core t else .nonNull (core t)

-- ------------------------------------------------------------------ the same in the SDL's type syntax (C17)

def setNullable : PType → PType
  | .named n _ => .named n true
  | .listOf t _ => .listOf t true

def ptype : RTy → PType
  | .leaf n => .named n.toList false
  | .list _ t => .listOf (ptype t) false
  | .option t => setNullable (ptype t)
  | .undef t => setNullable (ptype t)
  | .ptr _ t => ptype t

end AGV.Spec.RustTy
