/-
  What C31 requires, as a reference acceptor of observed histories, written independently of
  the model's store.  The only state is the list of REGISTRATIONS seen so far: requests that
  carried a non-empty query text `q` together with a version-1 `persistedQuery` whose hash is
  `H q`, and whose text parses.  Nothing else ever registers anything.

    * a registration executes `parse q`;
    * a hash-only request (empty query, version 1, hash h) executes the document of the LATEST
      registration under h, or fails with PersistedQueryNotFound (a cache may forget);
      if nothing was ever registered under h it must fail with PersistedQueryNotFound;
    * mismatching hash, version ≠ 1, malformed payload: an error, nothing executed — and since
      they are not registrations, nothing changes for any later request;
    * a request without the extension is outside the property (it executes its own text).
  Core-only imports.
-/
import AGV.Model.PQ

namespace AGV.Spec.PQ
open AGV.Model.PQ (Text Ext Req Err Outcome)

section
variable {Hash Doc : Type} [DecidableEq Hash] [DecidableEq Doc]

/-- the latest registration under `h` (registrations are kept latest first) -/
def latest (h : Hash) : List (Hash × Doc) → Option Doc
  | [] => none
  | (k, d) :: r => if k = h then some d else latest h r

def isErr : Outcome Doc → Bool
  | .err _ => true
  | .exec _ => false

/-- is `o` an allowed answer to `r` after the registrations `regs`? -/
def allowed (H : Text → Hash) (parse : Text → Option Doc) (regs : List (Hash × Doc)) (r : Req Hash)
    (o : Outcome Doc) : Bool :=
  match r.ext with
  | .none => true
  | .bad => isErr o
  | .pq v h =>
    if v ≠ 1 then isErr o
    else if r.query = [] then
      o = .err .notFound || (match latest h regs with | some d => o = .exec d | none => false)
    else if H r.query ≠ h then isErr o
    else match parse r.query with
      | some d => o = .exec d
      | none => isErr o

/-- the registration a request performs, if it is one -/
def registers (H : Text → Hash) (parse : Text → Option Doc) (r : Req Hash) : Option (Hash × Doc) :=
  match r.ext with
  | .pq v h =>
    if v = 1 ∧ r.query ≠ [] ∧ H r.query = h then (parse r.query).map (fun d => (h, d)) else none
  | _ => none

/-- accepts a history of (request, observed outcome) pairs -/
def accepts (H : Text → Hash) (parse : Text → Option Doc) (regs : List (Hash × Doc)) :
    List (Req Hash × Outcome Doc) → Bool
  | [] => true
  | (r, o) :: rest =>
    allowed H parse regs r o &&
      accepts H parse (match registers H parse r with | some hd => hd :: regs | none => regs) rest

end
end AGV.Spec.PQ
