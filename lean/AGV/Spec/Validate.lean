/-
  C09 — reference validator: GraphQL (October 2021) §5 "Validation", one function per rule, written
  against the specification text and independently of the implementation's visitor.  The only
  async-graphql specific part is the documented restriction `uploadOnlyInMutations`.
  Also `CoerceVariableValues` (§6.1.2) for the supplied variables of the selected operation, since
  the property speaks of "the schema and supplied variables".

  A violated rule is reported by its section name; `violations` lists them, `Valid` = none.
-/
import AGV.Core.Types
import AGV.Core.VSchema

namespace AGV.Spec.Validate
open AGV.Core

structure Params where
  /-- async-graphql: variables of type Upload may only be declared by mutations -/
  uploadOnlyInMutations : Bool := true
  deriving Repr, Inhabited

-- ------------------------------------------------------------------ type system look-ups

def tyDef (S : VSchema) (n : String) : Option TypeDef := S.base.types.find? (·.name = n)
def kindIs (S : VSchema) (n : String) (k : Kind) : Bool := match tyDef S n with | some t => t.kind == k | none => false
def composite (S : VSchema) (n : String) : Bool := kindIs S n .object || kindIs S n .interface || kindIs S n .union
def inputType (S : VSchema) (n : String) : Bool := kindIs S n .scalar || kindIs S n .enum || kindIs S n .input
def leafType (S : VSchema) (n : String) : Bool := kindIs S n .scalar || kindIs S n .enum

/-- the type of field `f` selected on type `t`: `__typename` exists on every composite type -/
def fieldType (S : VSchema) (t f : String) : Option (TypeRef × List ArgDef) :=
  if f = "__typename" then (if composite S t then some (.nonNull (.named "String"), []) else none)
  else match tyDef S t with
    | some td => if td.kind == .object || td.kind == .interface then (td.fields.find? (·.name = f)).map (fun fd => (fd.ty, fd.args)) else none
    | none => none

/-- GetPossibleTypes -/
def possibleTypes (S : VSchema) (n : String) : List String :=
  match tyDef S n with
  | some t => if t.kind == .object then [n] else if t.kind == .interface || t.kind == .union then t.members else []
  | none => []

def rootType (S : VSchema) : OpType → Option String
  | .query => some S.base.query
  | .mutation => S.base.mutation
  | .subscription => S.base.subscription

-- ------------------------------------------------------------------ flattening a document into typed nodes

/-- a selection together with the type its enclosing selection set applies to (when known) -/
inductive Node where
  | field (parent : Option String) (alias : Option String) (name : String) (args : List (String × DValue)) (dirs : List Dir) (sels : List Sel)
  | spread (parent : Option String) (name : String) (dirs : List Dir)
  | inline (parent : Option String) (cond : Option String) (dirs : List Dir) (sels : List Sel)
  deriving Inhabited

mutual
def nodesOf (S : VSchema) (parent : Option String) : Sel → List Node
  | .field al n args ds ss _ =>
    .field parent al n args ds ss ::
      nodesOfL S ((parent.bind (fun p => fieldType S p n)).bind (fun ft => if (tyDef S ft.1.base).isSome then some ft.1.base else none)) ss
  | .spread n ds _ => [.spread parent n ds]
  | .inline c ds ss _ =>
    .inline parent c ds ss :: nodesOfL S (match c with | some t => (if (tyDef S t).isSome then some t else none) | none => parent) ss
def nodesOfL (S : VSchema) (parent : Option String) : List Sel → List Node
  | [] => []
  | s :: ss => nodesOf S parent s ++ nodesOfL S parent ss
end

def opNodes (S : VSchema) (o : OpDef) : List Node := nodesOfL S (rootType S o.ty) o.sels
def fragNodes (S : VSchema) (f : FragDef) : List Node := nodesOfL S (if (tyDef S f.cond).isSome then some f.cond else none) f.sels
def allNodes (S : VSchema) (d : Doc) : List Node := d.ops.flatMap (opNodes S) ++ d.frags.flatMap (fragNodes S)

def hasDup : List String → Bool
  | [] => false
  | x :: xs => xs.contains x || hasDup xs

-- ------------------------------------------------------------------ §5.2 operations

def violates_OperationNameUniqueness (d : Doc) : Bool := hasDup (d.ops.filterMap (·.name))
def violates_LoneAnonymousOperation (d : Doc) : Bool := d.ops.length > 1 && d.ops.any (·.name.isNone)

mutual
/-- CollectFields restricted to what §5.2.3.1 needs: the response keys (with field names) of a root selection set -/
def rootFields (d : Doc) : Nat → List Sel → List (String × String)
  | 0, _ => []
  | fuel + 1, sels => sels.flatMap (fun s => match s with
      | .field al n _ _ _ _ => [(al.getD n, n)]
      | .spread n _ _ => (match d.frags.find? (·.name = n) with | some f => rootFields d fuel f.sels | none => [])
      | .inline _ _ ss _ => rootFields d fuel ss)
end

def violates_SingleRootField (d : Doc) (fuel : Nat) : Bool :=
  d.ops.any (fun o => o.ty == .subscription &&
    (let fs := rootFields d fuel o.sels
     (fs.map (·.1)).eraseDups.length != 1 || fs.any (fun p => p.2.startsWith "__")))

-- ------------------------------------------------------------------ §5.3 fields

def violates_FieldSelections (S : VSchema) (d : Doc) : Bool :=
  (allNodes S d).any (fun n => match n with
    | .field (some p) _ f _ _ _ => (fieldType S p f).isNone
    | _ => false)

def violates_LeafFieldSelections (S : VSchema) (d : Doc) : Bool :=
  (allNodes S d).any (fun n => match n with
    | .field (some p) _ f _ _ ss =>
      (match fieldType S p f with
       | some (t, _) => if leafType S t.base then !ss.isEmpty else if composite S t.base then ss.isEmpty else false
       | none => false)
    | _ => false)

/-- a field of a selection set after fragments are expanded, with the type it was selected on -/
structure FInfo where
  key : String
  parent : Option String
  name : String
  args : List (String × DValue)
  ty : Option TypeRef
  sels : List Sel
  deriving Inhabited

/-- the "fields in set" of §5.3.2, fragments expanded (a fragment is expanded once per set) -/
def fieldsInSet (S : VSchema) (d : Doc) : Nat → Option String → List Sel → List String → List FInfo × List String
  | 0, _, _, seen => ([], seen)
  | fuel + 1, parent, sels, seen =>
    sels.foldl (fun acc s =>
      match s with
      | .field al n args _ ss _ =>
        (acc.1 ++ [{ key := al.getD n, parent, name := n, args, ty := (parent.bind (fun p => fieldType S p n)).map (·.1), sels := ss }], acc.2)
      | .inline c _ ss _ =>
        let r := fieldsInSet S d fuel (match c with | some t => some t | none => parent) ss acc.2
        (acc.1 ++ r.1, r.2)
      | .spread n _ _ =>
        if acc.2.contains n then acc else
        match d.frags.find? (·.name = n) with
        | some f => let r := fieldsInSet S d fuel (some f.cond) f.sels (n :: acc.2); (acc.1 ++ r.1, r.2)
        | none => acc) ([], seen)

/-- SameResponseShape on the two declared types (sub-selections are compared by the caller) -/
def sameShape (S : VSchema) : TypeRef → TypeRef → Bool
  | .nonNull a, .nonNull b => sameShape S a b
  | .nonNull _, _ => false
  | _, .nonNull _ => false
  | .list a, .list b => sameShape S a b
  | .list _, _ => false
  | _, .list _ => false
  | .named a, .named b => if leafType S a || leafType S b then a == b else composite S a && composite S b

mutual
/-- structural equality of literals (object fields compared in order) -/
def dvEq : DValue → DValue → Bool
  | .var a, .var b => a == b
  | .null, .null => true
  | .int a, .int b => a == b
  | .float a, .float b => a == b
  | .str a, .str b => a == b
  | .bool a, .bool b => a == b
  | .enum a, .enum b => a == b
  | .list a, .list b => dvEqL a b
  | .obj a, .obj b => dvEqF a b
  | _, _ => false
def dvEqL : List DValue → List DValue → Bool
  | [], [] => true
  | x :: xs, y :: ys => dvEq x y && dvEqL xs ys
  | _, _ => false
def dvEqF : List (String × DValue) → List (String × DValue) → Bool
  | [], [] => true
  | (k, x) :: xs, (l, y) :: ys => k == l && dvEq x y && dvEqF xs ys
  | _, _ => false
end

def argsEqual (a b : List (String × DValue)) : Bool :=
  a.length == b.length && a.all (fun x => match b.find? (·.1 = x.1) with | some y => dvEq x.2 y.2 | none => false)

def isObjectType (S : VSchema) (p : Option String) : Bool := match p with | some t => kindIs S t .object | none => false

/-- FieldsInSetCanMerge + SameResponseShape over an expanded set; `strict = false` below two fields
    that can never apply to the same object (then only the shapes must agree) -/
def setCanMerge (S : VSchema) (d : Doc) : Nat → Bool → List FInfo → Bool
  | 0, _, _ => true
  | fuel + 1, strict, fs =>
    fs.all (fun a => fs.all (fun b =>
      if a.key != b.key then true else
      let shapeOk := match a.ty, b.ty with
        | some ta, some tb => sameShape S ta tb
        | _, _ => true
      let strictAB := strict && (a.parent == b.parent || !isObjectType S a.parent || !isObjectType S b.parent)
      let sameField := !strictAB || (a.name == b.name && argsEqual a.args b.args)
      let subA := (fieldsInSet S d fuel (a.ty.map (·.base)) a.sels []).1
      let subB := (fieldsInSet S d fuel (b.ty.map (·.base)) b.sels []).1
      shapeOk && sameField && (if a.sels.isEmpty && b.sels.isEmpty then true else setCanMerge S d fuel strictAB (subA ++ subB))))

mutual
def selSize : Sel → Nat
  | .field _ _ _ _ ss _ => 1 + selsSize ss
  | .spread _ _ _ => 1
  | .inline _ _ ss _ => 1 + selsSize ss
def selsSize : List Sel → Nat
  | [] => 0
  | s :: ss => selSize s + selsSize ss
end

def docFuel (d : Doc) : Nat :=
  d.ops.foldl (fun n o => n + selsSize o.sels + 1) (d.frags.foldl (fun n f => n + selsSize f.sels + 1) 2)

/-- §5.3.2 for every selection set of the document: the root sets and the set of every field -/
def violates_FieldSelectionMerging (S : VSchema) (d : Doc) : Bool :=
  let fuel := docFuel d
  let check (parent : Option String) (ss : List Sel) : Bool := !(setCanMerge S d fuel true (fieldsInSet S d fuel parent ss []).1)
  d.ops.any (fun o => check (rootType S o.ty) o.sels)
  || d.frags.any (fun f => check (some f.cond) f.sels)
  || (allNodes S d).any (fun n => match n with
      | .field p _ f _ _ ss => !ss.isEmpty && check (((p.bind (fun p => fieldType S p f))).map (·.1.base)) ss
      | .inline p c _ ss => check (match c with | some t => some t | none => p) ss
      | _ => false)

-- ------------------------------------------------------------------ §5.4 arguments, §5.6 values

def i32Min : Int := -2147483648
def i32Max : Int := 2147483647

/-- §5.6.1 Values of Correct Type for a literal (variables are judged by §5.8.5 instead) -/
def litOk (S : VSchema) : Nat → TypeRef → DValue → Bool
  | 0, _, _ => true
  | fuel + 1, ty, v =>
    match v with
    | .var _ => true
    | _ =>
    match ty with
    | .nonNull t => (match v with | .null => false | _ => litOk S fuel t v)
    | .list t => (match v with
        | .null => true
        | .list xs => xs.all (litOk S fuel t)
        | _ => litOk S fuel t v)
    | .named n =>
      match v with
      | .null => true
      | _ =>
        if kindIs S n .enum then
          (match v with | .enum e => (match tyDef S n with | some t => t.values.contains e | none => false) | _ => false)
        else if kindIs S n .input then
          (match S.inputs.find? (·.name = n), v with
           | some idef, .obj fs =>
             fs.all (fun p => match idef.fields.find? (·.name = p.1) with
                | some f => litOk S fuel f.ty p.2
                | none => false)                                                     -- §5.6.2
             && !hasDup (fs.map (·.1))                                              -- §5.6.3
             && idef.fields.all (fun f => !(f.ty.isNonNull && f.default.isNone) || fs.any (·.1 = f.name))  -- §5.6.4
             && (!idef.oneof || (fs.length == 1 && fs.all (fun p => match p.2 with | .null => false | _ => true)))
           | _, _ => false)
        else if n = "Int" then (match v with | .int i => i32Min ≤ i && i ≤ i32Max | _ => false)
        else if n = "Float" then (match v with | .int _ => true | .float _ => true | _ => false)
        else if n = "String" then (match v with | .str _ => true | _ => false)
        else if n = "Boolean" then (match v with | .bool _ => true | _ => false)
        else if n = "ID" then (match v with | .str _ => true | .int _ => true | _ => false)
        else true

mutual
/-- the default value of a variable definition is a constant LITERAL of the document: read the
    parsed constant back as the literal it was written as, so that §5.6.1 judges it like any other
    literal (in particular: an enum needs an enum token, a string is not one) -/
def litOf : GValue → DValue
  | .null => .null
  | .int i => .int i
  | .float t => .float t
  | .str s => .str s
  | .bool b => .bool b
  | .enum e => .enum e
  | .list xs => .list (litOfL xs)
  | .obj fs => .obj (litOfF fs)
def litOfL : List GValue → List DValue
  | [] => []
  | x :: xs => litOf x :: litOfL xs
def litOfF : List (String × GValue) → List (String × DValue)
  | [] => []
  | (k, x) :: xs => (k, litOf x) :: litOfF xs
end

/-- input coercion of a variable VALUE supplied with the request (§3: there enums arrive as strings
    or enum tokens).  NOT used for literals of the document — default values included. -/
def coerceOk (S : VSchema) : Nat → TypeRef → GValue → Bool
  | 0, _, _ => true
  | fuel + 1, ty, v =>
    match ty with
    | .nonNull t => (match v with | .null => false | _ => coerceOk S fuel t v)
    | .list t => (match v with
        | .null => true
        | .list xs => xs.all (coerceOk S fuel t)
        | _ => coerceOk S fuel t v)
    | .named n =>
      match v with
      | .null => true
      | _ =>
        if kindIs S n .enum then
          (match v, tyDef S n with
           | .enum e, some t => t.values.contains e
           | .str e, some t => t.values.contains e
           | _, _ => false)
        else if kindIs S n .input then
          (match S.inputs.find? (·.name = n), v with
           | some idef, .obj fs =>
             fs.all (fun p => match idef.fields.find? (·.name = p.1) with
                | some f => coerceOk S fuel f.ty p.2
                | none => false)
             && idef.fields.all (fun f => !(f.ty.isNonNull && f.default.isNone) || fs.any (·.1 = f.name))
             && (!idef.oneof || (fs.length == 1 && fs.all (fun p => match p.2 with | .null => false | _ => true)))
           | _, _ => false)
        else if n = "Int" then (match v with | .int i => i32Min ≤ i && i ≤ i32Max | _ => false)
        else if n = "Float" then (match v with | .int _ => true | .float _ => true | _ => false)
        else if n = "String" then (match v with | .str _ => true | _ => false)
        else if n = "Boolean" then (match v with | .bool _ => true | _ => false)
        else if n = "ID" then (match v with | .str _ => true | .int _ => true | _ => false)
        else true

def valueFuel : Nat := 64

/-- every (argument definitions, given arguments) pair of the document: fields and directives -/
def argSites (S : VSchema) (d : Doc) : List (Option (List ArgDef) × List (String × DValue)) :=
  let dirSites (ds : List Dir) := ds.map (fun dr => ((S.dirs.find? (·.name = dr.name)).map (·.args), dr.args))
  (allNodes S d).flatMap (fun n => match n with
    | .field p _ f args ds _ => ((p.bind (fun p => fieldType S p f)).map (·.2), args) :: dirSites ds
    | .spread _ _ ds => dirSites ds
    | .inline _ _ ds _ => dirSites ds)
  ++ d.ops.flatMap (fun o => dirSites o.dirs) ++ d.frags.flatMap (fun f => dirSites f.dirs)

def violates_ArgumentNames (S : VSchema) (d : Doc) : Bool :=
  (argSites S d).any (fun s => match s.1 with
    | some defs => s.2.any (fun a => !(defs.any (·.name = a.1)))
    | none => false)
def violates_ArgumentUniqueness (S : VSchema) (d : Doc) : Bool := (argSites S d).any (fun s => hasDup (s.2.map (·.1)))
def violates_RequiredArguments (S : VSchema) (d : Doc) : Bool :=
  (argSites S d).any (fun s => match s.1 with
    | some defs => defs.any (fun a => a.ty.isNonNull && a.default.isNone && !(s.2.any (·.1 = a.name)))
    | none => false)
def violates_ValuesOfCorrectType (S : VSchema) (d : Doc) : Bool :=
  (argSites S d).any (fun s => match s.1 with
    | some defs => s.2.any (fun a => match defs.find? (·.name = a.1) with
        | some ad => !(litOk S valueFuel ad.ty a.2)
        | none => false)
    | none => false)
  || d.ops.any (fun o => o.vars.any (fun v => match v.default with
        | some dv => (tyDef S v.ty.base).isSome && !(litOk S valueFuel v.ty (litOf dv)) | none => false))

-- ------------------------------------------------------------------ §5.5 fragments

def violates_FragmentNameUniqueness (d : Doc) : Bool := hasDup (d.frags.map (·.name))
def violates_FragmentSpreadTypeExistence (S : VSchema) (d : Doc) : Bool :=
  d.frags.any (fun f => (tyDef S f.cond).isNone)
  || (allNodes S d).any (fun n => match n with | .inline _ (some c) _ _ => (tyDef S c).isNone | _ => false)
def violates_FragmentsOnCompositeTypes (S : VSchema) (d : Doc) : Bool :=
  d.frags.any (fun f => (tyDef S f.cond).isSome && !composite S f.cond)
  || (allNodes S d).any (fun n => match n with | .inline _ (some c) _ _ => (tyDef S c).isSome && !composite S c | _ => false)

mutual
def spreadsOf : Sel → List String
  | .field _ _ _ _ ss _ => spreadsOfL ss
  | .spread n _ _ => [n]
  | .inline _ _ ss _ => spreadsOfL ss
def spreadsOfL : List Sel → List String
  | [] => []
  | s :: ss => spreadsOf s ++ spreadsOfL ss
end

/-- fragments reachable through spreads from a list of fragment names -/
def closure (d : Doc) : Nat → List String → List String → List String
  | 0, _, seen => seen
  | _, [], seen => seen
  | fuel + 1, n :: todo, seen =>
    if seen.contains n then closure d fuel todo seen
    else match d.frags.find? (·.name = n) with
      | some f => closure d fuel (spreadsOfL f.sels ++ todo) (seen ++ [n])
      | none => closure d fuel todo seen

def closureFuel (d : Doc) : Nat := docFuel d * 2 + 2
def usedFrags (d : Doc) (ss : List Sel) : List String := closure d (closureFuel d) (spreadsOfL ss) []

def violates_FragmentsMustBeUsed (d : Doc) : Bool :=
  d.frags.any (fun f => !(d.ops.any (fun o => (usedFrags d o.sels).contains f.name)))
def violates_FragmentSpreadTargetDefined (d : Doc) : Bool :=
  (d.ops.flatMap (fun o => spreadsOfL o.sels) ++ d.frags.flatMap (fun f => spreadsOfL f.sels)).any
    (fun n => !(d.frags.any (·.name = n)))
def violates_FragmentSpreadsMustNotFormCycles (d : Doc) : Bool :=
  d.frags.any (fun f => (usedFrags d f.sels).contains f.name)

def typesOverlap (S : VSchema) (a b : String) : Bool := (possibleTypes S a).any (fun t => (possibleTypes S b).contains t)

def violates_FragmentSpreadIsPossible (S : VSchema) (d : Doc) : Bool :=
  (allNodes S d).any (fun n => match n with
    | .spread (some p) n _ => (match d.frags.find? (·.name = n) with
        | some f => composite S p && composite S f.cond && !typesOverlap S p f.cond
        | none => false)
    | .inline (some p) (some c) _ _ => composite S p && composite S c && !typesOverlap S p c
    | _ => false)

-- ------------------------------------------------------------------ §5.7 directives

/-- every directive use with its location -/
def dirUses (S : VSchema) (d : Doc) : List (String × List Dir) :=
  (allNodes S d).map (fun n => match n with
    | .field _ _ _ _ ds _ => ("FIELD", ds)
    | .spread _ _ ds => ("FRAGMENT_SPREAD", ds)
    | .inline _ _ ds _ => ("INLINE_FRAGMENT", ds))
  ++ d.ops.map (fun o => ((match o.ty with | .query => "QUERY" | .mutation => "MUTATION" | .subscription => "SUBSCRIPTION"), o.dirs))
  ++ d.frags.map (fun f => ("FRAGMENT_DEFINITION", f.dirs))

def violates_DirectivesAreDefined (S : VSchema) (d : Doc) : Bool :=
  (dirUses S d).any (fun u => u.2.any (fun dr => !(S.dirs.any (·.name = dr.name))))
def violates_DirectivesInValidLocations (S : VSchema) (d : Doc) : Bool :=
  (dirUses S d).any (fun u => u.2.any (fun dr => match S.dirs.find? (·.name = dr.name) with
    | some dd => !(dd.locs.contains u.1) | none => false))
def violates_DirectivesUniquePerLocation (S : VSchema) (d : Doc) : Bool :=
  (dirUses S d).any (fun u => hasDup ((u.2.filter (fun dr => match S.dirs.find? (·.name = dr.name) with
    | some dd => !dd.repeatable | none => false)).map (·.name)))

-- ------------------------------------------------------------------ §5.8 variables

mutual
def varsIn : DValue → List String
  | .var n => [n]
  | .list xs => varsInL xs
  | .obj fs => varsInF fs
  | _ => []
def varsInL : List DValue → List String
  | [] => []
  | x :: xs => varsIn x ++ varsInL xs
def varsInF : List (String × DValue) → List String
  | [] => []
  | (_, x) :: xs => varsIn x ++ varsInF xs
end

def dirVars (ds : List Dir) : List String := ds.flatMap (fun dr => dr.args.flatMap (fun a => varsIn a.2))

mutual
/-- variables used directly in a selection set (arguments of fields and of directives) -/
def selVars : Sel → List String
  | .field _ _ args ds ss _ => args.flatMap (fun a => varsIn a.2) ++ dirVars ds ++ selsVars ss
  | .spread _ ds _ => dirVars ds
  | .inline _ ds ss _ => dirVars ds ++ selsVars ss
def selsVars : List Sel → List String
  | [] => []
  | s :: ss => selVars s ++ selsVars ss
end

/-- variables used by an operation, transitively through the fragments it spreads -/
def opVars (d : Doc) (o : OpDef) : List String :=
  dirVars o.dirs ++ selsVars o.sels
  ++ (usedFrags d o.sels).flatMap (fun n => match d.frags.find? (·.name = n) with
      | some f => dirVars f.dirs ++ selsVars f.sels | none => [])

def violates_VariableUniqueness (d : Doc) : Bool := d.ops.any (fun o => hasDup (o.vars.map (·.name)))
def violates_VariablesAreInputTypes (S : VSchema) (d : Doc) : Bool :=
  d.ops.any (fun o => o.vars.any (fun v => !(inputType S v.ty.base)))
def violates_AllVariableUsesDefined (d : Doc) : Bool :=
  d.ops.any (fun o => (opVars d o).any (fun v => !(o.vars.any (·.name = v))))
def violates_AllVariablesUsed (d : Doc) : Bool :=
  d.ops.any (fun o => o.vars.any (fun v => !((opVars d o).contains v.name)))

/-- AreTypesCompatible(variableType, locationType) -/
def typesCompatible : TypeRef → TypeRef → Bool
  | .nonNull v, .nonNull l => typesCompatible v l
  | _, .nonNull _ => false
  | .nonNull v, l => typesCompatible v l
  | .list v, .list l => typesCompatible v l
  | _, .list _ => false
  | .list _, _ => false
  | .named v, .named l => v == l

/-- IsVariableUsageAllowed -/
def usageAllowed (v : VarDef) (loc : TypeRef) (locHasDefault : Bool) : Bool :=
  match loc with
  | .nonNull l =>
    if v.ty.isNonNull then typesCompatible v.ty loc
    else
      let hasNonNullDefault := match v.default with | some .null => false | some _ => true | none => false
      if !hasNonNullDefault && !locHasDefault then false else typesCompatible v.ty l
  | _ => typesCompatible v.ty loc

/-- variable usages inside a literal at a location of type `loc` -/
def usagesIn (S : VSchema) : Nat → TypeRef → Bool → DValue → List (String × TypeRef × Bool)
  | 0, _, _, _ => []
  | fuel + 1, loc, locDef, v =>
    match v with
    | .var n => [(n, loc, locDef)]
    | .list xs => (match loc.nullable with
        | .list item => xs.flatMap (usagesIn S fuel item false)
        | _ => [])
    | .obj fs => (match loc.nullable with
        | .named n => (match S.inputs.find? (·.name = n) with
            | some idef => fs.flatMap (fun p => match idef.fields.find? (·.name = p.1) with
                | some f => usagesIn S fuel f.ty f.default.isSome p.2
                | none => [])
            | none => [])
        | _ => [])
    | _ => []

def siteUsages (S : VSchema) (defs : Option (List ArgDef)) (args : List (String × DValue)) : List (String × TypeRef × Bool) :=
  match defs with
  | some ds => args.flatMap (fun a => match ds.find? (·.name = a.1) with
      | some ad => usagesIn S valueFuel ad.ty ad.default.isSome a.2
      | none => [])
  | none => []

def nodeUsages (S : VSchema) (ns : List Node) : List (String × TypeRef × Bool) :=
  let dirU (ds : List Dir) := ds.flatMap (fun dr => siteUsages S ((S.dirs.find? (·.name = dr.name)).map (·.args)) dr.args)
  ns.flatMap (fun n => match n with
    | .field p _ f args ds _ => siteUsages S ((p.bind (fun p => fieldType S p f)).map (·.2)) args ++ dirU ds
    | .spread _ _ ds => dirU ds
    | .inline _ _ ds _ => dirU ds)

def violates_AllVariableUsagesAllowed (S : VSchema) (d : Doc) : Bool :=
  d.ops.any (fun o =>
    let dirU (ds : List Dir) := ds.flatMap (fun dr => siteUsages S ((S.dirs.find? (·.name = dr.name)).map (·.args)) dr.args)
    let us := dirU o.dirs ++ nodeUsages S (opNodes S o)
      ++ (usedFrags d o.sels).flatMap (fun n => match d.frags.find? (·.name = n) with
          | some f => dirU f.dirs ++ nodeUsages S (fragNodes S f) | none => [])
    us.any (fun u => match o.vars.find? (·.name = u.1) with
      | some v => !(usageAllowed v u.2.1 u.2.2)
      | none => false))

-- ------------------------------------------------------------------ the documented restriction, and the supplied variables

def violates_UploadOnlyInMutations (P : Params) (d : Doc) : Bool :=
  P.uploadOnlyInMutations && d.ops.any (fun o => o.ty != .mutation && o.vars.any (·.ty.base = "Upload"))

def selectedOp (d : Doc) (opName : Option String) : Option OpDef :=
  match opName with
  | some n => d.ops.find? (·.name = some n)
  | none => match d.ops with | [o] => some o | _ => none

/-- CoerceVariableValues fails -/
def violates_VariableValues (S : VSchema) (d : Doc) (vars : List (String × GValue)) (opName : Option String) : Bool :=
  match selectedOp d opName with
  | some o => o.vars.any (fun v =>
      (tyDef S v.ty.base).isSome && inputType S v.ty.base &&
      (match vars.find? (·.1 = v.name) with
       | some (_, x) => !(coerceOk S valueFuel v.ty x)
       | none => v.ty.isNonNull && v.default.isNone))
  | none => false

def violates_OperationTypeExists (S : VSchema) (d : Doc) : Bool := d.ops.any (fun o => (rootType S o.ty).isNone)

-- ------------------------------------------------------------------ all rules

def violations (P : Params) (S : VSchema) (d : Doc) (vars : List (String × GValue)) (opName : Option String) : List String :=
  let r (name : String) (b : Bool) : List String := if b then [name] else []
  r "5.2.1.1 Operation Name Uniqueness" (violates_OperationNameUniqueness d)
  ++ r "5.2.2.1 Lone Anonymous Operation" (violates_LoneAnonymousOperation d)
  ++ r "5.2.3.1 Single Root Field" (violates_SingleRootField d (closureFuel d))
  ++ r "5.3.1 Field Selections" (violates_FieldSelections S d)
  ++ r "5.3.2 Field Selection Merging" (violates_FieldSelectionMerging S d)
  ++ r "5.3.3 Leaf Field Selections" (violates_LeafFieldSelections S d)
  ++ r "5.4.1 Argument Names" (violates_ArgumentNames S d)
  ++ r "5.4.2 Argument Uniqueness" (violates_ArgumentUniqueness S d)
  ++ r "5.4.2.1 Required Arguments" (violates_RequiredArguments S d)
  ++ r "5.5.1.1 Fragment Name Uniqueness" (violates_FragmentNameUniqueness d)
  ++ r "5.5.1.2 Fragment Spread Type Existence" (violates_FragmentSpreadTypeExistence S d)
  ++ r "5.5.1.3 Fragments On Composite Types" (violates_FragmentsOnCompositeTypes S d)
  ++ r "5.5.1.4 Fragments Must Be Used" (violates_FragmentsMustBeUsed d)
  ++ r "5.5.2.1 Fragment Spread Target Defined" (violates_FragmentSpreadTargetDefined d)
  ++ r "5.5.2.2 Fragment Spreads Must Not Form Cycles" (violates_FragmentSpreadsMustNotFormCycles d)
  ++ r "5.5.2.3 Fragment Spread Is Possible" (violates_FragmentSpreadIsPossible S d)
  ++ r "5.6 Values Of Correct Type" (violates_ValuesOfCorrectType S d)
  ++ r "5.7.1 Directives Are Defined" (violates_DirectivesAreDefined S d)
  ++ r "5.7.2 Directives Are In Valid Locations" (violates_DirectivesInValidLocations S d)
  ++ r "5.7.3 Directives Are Unique Per Location" (violates_DirectivesUniquePerLocation S d)
  ++ r "5.8.1 Variable Uniqueness" (violates_VariableUniqueness d)
  ++ r "5.8.2 Variables Are Input Types" (violates_VariablesAreInputTypes S d)
  ++ r "5.8.3 All Variable Uses Defined" (violates_AllVariableUsesDefined d)
  ++ r "5.8.4 All Variables Used" (violates_AllVariablesUsed d)
  ++ r "5.8.5 All Variable Usages Are Allowed" (violates_AllVariableUsagesAllowed S d)
  ++ r "async-graphql: Upload only in mutations" (violates_UploadOnlyInMutations P d)
  ++ r "6.1.2 Coercing Variable Values" (violates_VariableValues S d vars opName)
  ++ r "operation type not served" (violates_OperationTypeExists S d)

def Valid (P : Params) (S : VSchema) (d : Doc) (vars : List (String × GValue)) (opName : Option String) : Prop :=
  violations P S d vars opName = []

instance (P : Params) (S : VSchema) (d : Doc) (vars : List (String × GValue)) (opName : Option String) :
    Decidable (Valid P S d vars opName) := by unfold Valid; infer_instance

end AGV.Spec.Validate
