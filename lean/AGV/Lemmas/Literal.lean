/-
  Helper lemmas for C15's value round trip: token lemmas for the reference reader
  (`Spec/Literal.lean`) on text produced by the model of the printer (`Model/Print.lean`), the
  generic bracketed-sequence lemma `many_spec`, and the generalised round trip `parseVal_print`.
-/
import AGV.Lemmas.Print

namespace AGV.Lemmas.Literal
open AGV.Digits AGV.Core AGV.Model.Print AGV.Spec.Literal AGV.Lemmas.Print

/-- a token is delimited on the right: what follows does not continue a name or a number and is
    not a quote -/
def Delim (rest : List Char) : Prop :=
  ∀ c r, rest = c :: r → nameChar c = false ∧ numChar c = false ∧ c ≠ '"'

theorem delim_nil : Delim [] := by intro c r h; cases h
theorem delim_comma (r) : Delim (',' :: r) := by
  intro c r' h; cases h; decide
theorem delim_rbrack (r) : Delim (']' :: r) := by
  intro c r' h; cases h; decide
theorem delim_rbrace (r) : Delim ('}' :: r) := by
  intro c r' h; cases h; decide

theorem spanP_append (p : Char → Bool) (tok rest : List Char)
    (h1 : ∀ c ∈ tok, p c = true) (h2 : ∀ c r, rest = c :: r → p c = false) :
    spanP p (tok ++ rest) = (tok, rest) := by
  induction tok with
  | nil =>
    cases rest with
    | nil => simp [spanP]
    | cons c r => simp [spanP, h2 c r rfl]
  | cons a t ih =>
    have := ih (fun c hc => h1 c (by simp [hc]))
    simp [spanP, h1 a (by simp), this]

theorem nameStart_facts (c : Char) (h : nameStart c = true) :
    isWs c = false ∧ c ≠ ']' ∧ c ≠ '}' ∧ isDigit c = false ∧ c ≠ '-' ∧ c ≠ '[' ∧ c ≠ '{' ∧ c ≠ '"' ∧ nameChar c = true := by
  simp [← Char.toNat_inj, nameStart, isAlpha, isWs, isDigit, nameChar] at *
  omega

theorem numStart_facts (c : Char) (h : isDigit c = true ∨ c = '-') :
    isWs c = false ∧ c ≠ ']' ∧ c ≠ '}' ∧ c ≠ '[' ∧ c ≠ '{' ∧ c ≠ '"' ∧ numChar c = true := by
  simp [← Char.toNat_inj, isWs, isDigit, numChar] at *
  omega

/-- name-like tokens: `scalar` reads the whole name -/
theorem scalar_name (n rest : List Char) (hn : isName n = true) (hd : Delim rest) :
    scalar (n ++ rest) =
      if n = "true".toList then some (.bool true, rest)
      else if n = "false".toList then some (.bool false, rest)
      else if n = "null".toList then some (.null, rest)
      else some (.enum n, rest) := by
  cases n with
  | nil => simp [isName] at hn
  | cons c t =>
    simp only [isName, Bool.and_eq_true, List.all_eq_true] at hn
    obtain ⟨f1, f2, f3, f4, f5, f6, f7, f8, f9⟩ := nameStart_facts c hn.1
    have hs : spanP nameChar ((c :: t) ++ rest) = (c :: t, rest) := by
      apply spanP_append
      · intro d hdm
        simp at hdm
        rcases hdm with rfl | hdm
        · exact f9
        · exact hn.2 d hdm
      · intro d r hr; exact (hd d r hr).1
    simp only [scalar, List.cons_append, f4, f5, hn.1, Bool.false_or, decide_false]
    rw [← List.cons_append, hs]
    simp

theorem intBodyOk_natDigits (n : Nat) : intBodyOk (natDigits n) = true := by
  by_cases h0 : n = 0
  · subst h0; rw [natDigits_zero]; decide
  · obtain ⟨c, r, e, hc⟩ := natDigits_head_ne_zero n (by omega)
    have hall := natDigits_all_digit n
    rw [e] at hall ⊢
    have hcd : isDigit c = true := hall c (by simp)
    cases r with
    | nil => simp [intBodyOk, hcd]
    | cons b r' =>
      simp only [intBodyOk, hcd, Bool.true_and, Bool.and_eq_true, bne_iff_ne, ne_eq, List.all_eq_true]
      exact ⟨hc, fun d hd => hall d (by simp [hd])⟩

theorem isIntTok_intDigits (i : Int) : isIntTok (intDigits i) = true := by
  unfold intDigits
  split
  · simp [isIntTok, intBodyOk_natDigits]
  · obtain ⟨c, r, e, hc, _⟩ := natDigits_head_ne_minus i.toNat
    have := intBodyOk_natDigits i.toNat
    rw [e] at this ⊢
    unfold isIntTok
    split
    · rename_i h; simp at h; exact absurd h.1 hc
    · exact this

theorem intDigits_numChars (i : Int) :
    (∀ c ∈ intDigits i, numChar c = true) ∧ ∃ c r, intDigits i = c :: r ∧ (isDigit c = true ∨ c = '-') := by
  have key : ∀ n, ∀ c ∈ natDigits n, numChar c = true := by
    intro n c hc; simp [numChar, natDigits_all_digit n c hc]
  unfold intDigits
  split
  · refine ⟨?_, '-', _, rfl, Or.inr rfl⟩
    intro c hc
    simp at hc
    rcases hc with rfl | hc
    · decide
    · exact key _ c hc
  · obtain ⟨c, r, e, _, hd⟩ := natDigits_head_ne_minus i.toNat
    exact ⟨key _, c, r, e, Or.inl hd⟩

theorem delim_noNameStart (rest : List Char) (hd : Delim rest) :
    headIs nameStart rest = false := by
  cases rest with
  | nil => rfl
  | cons d r' =>
    have := (hd d r' rfl).1
    simp only [nameChar, Bool.or_eq_false_iff] at this
    simpa [headIs] using this.1

theorem scalar_num (tok rest : List Char)
    (hall : ∀ c ∈ tok, numChar c = true)
    (hstart : ∃ c r, tok = c :: r ∧ (isDigit c = true ∨ c = '-'))
    (hd : Delim rest) :
    scalar (tok ++ rest) =
      if isIntTok tok then some (.int (parseInt tok), rest)
      else if isFloatTok tok then some (.float tok, rest) else none := by
  obtain ⟨c, r, e, hc⟩ := hstart
  have hs : spanP numChar (tok ++ rest) = (tok, rest) :=
    spanP_append _ _ _ hall (fun d r' hr => (hd d r' hr).2.1)
  have hc' : (isDigit c || decide (c = '-')) = true := by
    rcases hc with h | h <;> simp [h]
  have hns := delim_noNameStart rest hd
  subst e
  simp only [scalar, List.cons_append, hc', if_true]
  rw [← List.cons_append, hs]
  simp [hns]

theorem scalar_int (i : Int) (rest : List Char) (hd : Delim rest) :
    scalar (intDigits i ++ rest) = some (.int i, rest) := by
  obtain ⟨h1, h2⟩ := intDigits_numChars i
  rw [scalar_num _ _ h1 h2 hd]
  simp [isIntTok_intDigits, parseInt_intDigits]

/-- first character of a printed item: exists, is not an ignored character and not `close` -/
def StartOk (close : Char) (cs : List Char) : Prop :=
  ∃ c r, cs = c :: r ∧ isWs c = false ∧ c ≠ close

theorem length_le_joinWith (sep : List Char) (l : List (List Char)) (h : ∀ a ∈ l, a ≠ []) :
    l.length ≤ (joinWith sep l).length := by
  induction l with
  | nil => simp
  | cons a t ih =>
    cases t with
    | nil =>
      have : a ≠ [] := h a (by simp)
      have : 0 < a.length := List.length_pos_iff.mpr this
      simp [joinWith]; omega
    | cons b t' =>
      have := ih (fun x hx => h x (by simp [hx]))
      have ha : a ≠ [] := h a (by simp)
      have : 0 < a.length := List.length_pos_iff.mpr ha
      simp only [joinWith, List.length_append, List.length_cons] at * ; omega

theorem mem_length_le_joinWith (sep : List Char) (l : List (List Char)) (a : List Char) (h : a ∈ l) :
    a.length ≤ (joinWith sep l).length := by
  induction l with
  | nil => cases h
  | cons b t ih =>
    cases t with
    | nil => simp at h; subst h; simp [joinWith]
    | cons b' t' =>
      simp only [joinWith, List.length_append]
      rcases List.mem_cons.mp h with rfl | h'
      · omega
      · have := ih h'; omega

theorem many_spec {α : Type} (p : List Char → Option (α × List Char)) (pr : α → List Char)
    (close : Char) (hclose : isWs close = false ∧ (close = ']' ∨ close = '}'))
    (items : List α) (rest : List Char)
    (hp : ∀ a ∈ items, ∀ rest', Delim rest' → p (pr a ++ rest') = some (a, rest'))
    (hstart : ∀ a ∈ items, StartOk close (pr a)) :
    ∀ n, items.length < n →
      many p close n (joinWith commaSp (items.map pr) ++ close :: rest) = some (items, rest) := by
  have hdc : ∀ r, Delim (close :: r) := by
    intro r; rcases hclose.2 with h | h <;> subst h
    · exact delim_rbrack r
    · exact delim_rbrace r
  induction items with
  | nil =>
    intro n hn
    obtain ⟨m, rfl⟩ : ∃ m, n = m + 1 := ⟨n - 1, by omega⟩
    simp [joinWith, many]
  | cons a t ih =>
    intro n hn
    obtain ⟨m, rfl⟩ : ∃ m, n = m + 1 := ⟨n - 1, by omega⟩
    obtain ⟨c, r, e, hws, hne⟩ := hstart a (by simp)
    have iht := ih (fun x hx => hp x (by simp [hx])) (fun x hx => hstart x (by simp [hx])) m
      (by simp at hn; omega)
    cases t with
    | nil =>
      have h1 := hp a (by simp) (close :: rest) (hdc rest)
      simp only [List.map, joinWith] at iht ⊢
      rw [e] at h1 ⊢
      simp only [many, List.cons_append, hne, if_false]
      rw [← List.cons_append, h1]
      simp only [skipWs, hclose.1]
      simp only [List.nil_append] at iht
      simp [iht]
    | cons b t' =>
      obtain ⟨c2, r2, e2, hws2, hne2⟩ := hstart b (by simp)
      have h1 := hp a (by simp) (commaSp ++ (joinWith commaSp ((b :: t').map pr) ++ close :: rest))
        (by simp only [commaSp, List.cons_append]; exact delim_comma _)
      simp only [List.map, joinWith, List.append_assoc] at iht h1 ⊢
      rw [e] at h1 ⊢
      simp only [many, List.cons_append, hne, if_false]
      rw [← List.cons_append, h1]
      have hsk : skipWs (commaSp ++ (joinWith commaSp (pr b :: List.map pr t') ++ close :: rest))
          = joinWith commaSp (pr b :: List.map pr t') ++ close :: rest := by
        have : ∃ r3, joinWith commaSp (pr b :: List.map pr t') ++ close :: rest = c2 :: r3 := by
          cases t' with
          | nil => exact ⟨r2 ++ close :: rest, by simp [joinWith, e2]⟩
          | cons b' t'' => exact ⟨_, by simp only [List.map, joinWith, e2, List.cons_append]; rfl⟩
        obtain ⟨r3, e3⟩ := this
        rw [e3]
        have w1 : isWs ',' = true := by decide
        have w2 : isWs ' ' = true := by decide
        simp [commaSp, skipWs, w1, w2, hws2]
      dsimp only
      rw [hsk, iht]

theorem hexVal?_lower : ∀ k, k < 16 → hexVal? (lowerDigit k) = some k := by decide

/-- the reference reading decodes the escape written for one character to that character -/
theorem lexString_esc (c : Char) (tl : List Char) :
    lexString (escChar 16 c ++ tl) = (lexString tl).map (fun p => (c :: p.1, p.2)) := by
  cases escKind c with
  | cr h e => rw [e, lexString.eq_def]; subst h; simp [escaped]; cases lexString tl <;> rfl
  | lf h e => rw [e, lexString.eq_def]; subst h; simp [escaped]; cases lexString tl <;> rfl
  | tab h e => rw [e, lexString.eq_def]; subst h; simp [escaped]; cases lexString tl <;> rfl
  | quote h e => rw [e, lexString.eq_def]; subst h; simp [escaped]; cases lexString tl <;> rfl
  | backslash h e => rw [e, lexString.eq_def]; subst h; simp [escaped]; cases lexString tl <;> rfl
  | control hlt e =>
    rw [e, lexString.eq_def]
    have a := hexVal?_lower (c.toNat / 16) (by omega)
    have b := hexVal?_lower (c.toNat % 16) (by omega)
    have z : hexVal? '0' = some 0 := by decide
    have hn : c.toNat / 16 * 16 + c.toNat % 16 = c.toNat := by omega
    have hv : Nat.isValidChar c.toNat := c.valid
    simp [a, b, z, hn, hv]
    cases lexString tl <;> rfl
  | plain h1 h2 h4 h5 e =>
    rw [e, List.singleton_append, lexString.eq_def]; simp [h1, h2, h4, h5]; cases lexString tl <;> rfl

theorem lexString_writeBody (s rest : List Char) :
    lexString (writeBody 16 s ++ '"' :: rest) = some (s, rest) := by
  induction s with
  | nil => rw [lexString.eq_def]; simp [writeBody]
  | cons c r ih => simp [writeBody, List.append_assoc, lexString_esc, ih]

theorem escChar_head (c : Char) : ∃ d r, escChar 16 c = d :: r ∧ d ≠ '"' := by
  cases escKind c with
  | cr h e => exact ⟨_, _, e, by decide⟩
  | lf h e => exact ⟨_, _, e, by decide⟩
  | tab h e => exact ⟨_, _, e, by decide⟩
  | quote h e => exact ⟨_, _, e, by decide⟩
  | backslash h e => exact ⟨_, _, e, by decide⟩
  | control hlt e => exact ⟨_, _, e, by decide⟩
  | plain h1 h2 h4 h5 e => exact ⟨_, _, e, h4⟩

theorem not_blockStart (s rest : List Char) (hd : Delim rest) :
    isBlockStart (writeBody 16 s ++ '"' :: rest) = false := by
  cases s with
  | nil =>
    cases rest with
    | nil => simp [writeBody, isBlockStart]
    | cons d r => simp [writeBody, isBlockStart, (hd d r rfl).2.2]
  | cons c t =>
    obtain ⟨d, r, e, hne⟩ := escChar_head c
    simp only [writeBody, e, List.cons_append]
    cases h : r ++ writeBody 16 t ++ '"' :: rest with
    | nil => simp [isBlockStart]
    | cons x y => simp [isBlockStart, hne]

theorem isName_chars (k : List Char) (hk : isName k = true) :
    (∀ c ∈ k, nameChar c = true) ∧ ∃ c r, k = c :: r ∧ nameStart c = true := by
  cases k with
  | nil => simp [isName] at hk
  | cons c t =>
    simp only [isName, Bool.and_eq_true, List.all_eq_true] at hk
    refine ⟨?_, c, t, rfl, hk.1⟩
    intro d hd
    simp at hd
    rcases hd with rfl | hd
    · exact (nameStart_facts _ hk.1).2.2.2.2.2.2.2.2
    · exact hk.2 d hd

theorem field_spec (pv : List Char → Option (LValue × List Char)) (k : List Char) (v : LValue)
    (pr rest : List Char) (hk : isName k = true)
    (hstart : ∃ c r, pr = c :: r ∧ isWs c = false)
    (hpv : pv (pr ++ rest) = some (v, rest)) :
    field pv ((k ++ colonSp ++ pr) ++ rest) = some ((k, v), rest) := by
  obtain ⟨hall, _⟩ := isName_chars k hk
  obtain ⟨c, r, e, hws⟩ := hstart
  have hs : spanP nameChar (k ++ (':' :: ' ' :: (pr ++ rest))) = (k, ':' :: ' ' :: (pr ++ rest)) := by
    apply spanP_append _ _ _ hall
    intro d r' h; cases h; decide
  have w1 : isWs ':' = false := by decide
  have w2 : isWs ' ' = true := by decide
  have e2 : (k ++ colonSp ++ pr) ++ rest = k ++ (':' :: ' ' :: (pr ++ rest)) := by
    simp [colonSp, List.append_assoc]
  rw [e2]
  simp only [field, hs, hk, if_true, skipWs, w1, w2]
  subst e
  have hsk : skipWs (' ' :: c :: (r ++ rest)) = c :: (r ++ rest) := by simp [skipWs, w2, hws]
  simp only [List.cons_append] at hpv ⊢
  simp only [Bool.false_eq_true, if_false, if_true]
  rw [hsk, hpv]

theorem print_start (x : LValue) (hw : wellFormed x = true) :
    ∃ c r, print Defects.none x = c :: r ∧ isWs c = false ∧ c ≠ ']' ∧ c ≠ '}' := by
  cases x with
  | null => exact ⟨'n', _, by simp [print]; rfl, by decide, by decide, by decide⟩
  | int i =>
    obtain ⟨_, c, r, e, hc⟩ := intDigits_numChars i
    obtain ⟨f1, f2, f3, _⟩ := numStart_facts c hc
    exact ⟨c, r, by simp [print, e], f1, f2, f3⟩
  | float tok =>
    simp only [wellFormed, Bool.and_eq_true] at hw
    cases tok with
    | nil => simp [headIs] at hw
    | cons c r =>
      have hc : isDigit c = true ∨ c = '-' := by simpa [headIs] using hw.2
      obtain ⟨f1, f2, f3, _⟩ := numStart_facts c hc
      exact ⟨c, r, by simp [print], f1, f2, f3⟩
  | str s => exact ⟨'"', _, by simp [print, writeQuoted]; rfl, by decide, by decide, by decide⟩
  | bool b =>
    cases b
    · exact ⟨'f', _, by simp [print]; rfl, by decide, by decide, by decide⟩
    · exact ⟨'t', _, by simp [print]; rfl, by decide, by decide, by decide⟩
  | enum n =>
    simp only [wellFormed, Bool.and_eq_true] at hw
    obtain ⟨_, c, r, e, hc⟩ := isName_chars n hw.1.1.1
    obtain ⟨f1, f2, f3, _⟩ := nameStart_facts c hc
    exact ⟨c, r, by simp [print, e], f1, f2, f3⟩
  | list xs => exact ⟨'[', _, by simp [print]; rfl, by decide, by decide, by decide⟩
  | obj fs => exact ⟨'{', _, by simp [print]; rfl, by decide, by decide, by decide⟩

theorem wf_list {xs : List LValue} (h : wellFormed (.list xs) = true) : ∀ x ∈ xs, wellFormed x = true := by
  simpa [wellFormed] using h

theorem wf_obj {fs : List (List Char × LValue)} (h : wellFormed (.obj fs) = true) :
    ∀ kv ∈ fs, isName kv.1 = true ∧ wellFormed kv.2 = true := by
  simpa [wellFormed] using h

theorem parseVal_scalar_start (g : Nat) (c : Char) (r : List Char)
    (h1 : c ≠ '[') (h2 : c ≠ '{') (h3 : c ≠ '"') : parseVal (g + 1) (c :: r) = scalar (c :: r) := by
  simp [parseVal, h1, h2, h3]

theorem skipWs_head (L : List Char) (h : ∃ c r, L = c :: r ∧ isWs c = false) : skipWs L = L := by
  obtain ⟨c, r, e, hw⟩ := h
  subst e; simp [skipWs, hw]

theorem joinWith_head (sep : List Char) (a : List Char) (t : List (List Char)) (tail : List Char)
    (c : Char) (r : List Char) (e : a = c :: r) : ∃ r', joinWith sep (a :: t) ++ tail = c :: r' := by
  cases t with
  | nil => exact ⟨r ++ tail, by simp [joinWith, e]⟩
  | cons b t' => exact ⟨_, by simp only [joinWith, e, List.cons_append]; rfl⟩

/-- the text between the brackets: starts with a non-ignored character, has at least as many
    characters as there are items -/
theorem bracket_body {α : Type} (pr : α → List Char) (close : Char) (hc : isWs close = false)
    (items : List α) (rest : List Char) (hst : ∀ a ∈ items, StartOk close (pr a)) :
    skipWs (joinWith commaSp (items.map pr) ++ close :: rest) = joinWith commaSp (items.map pr) ++ close :: rest
    ∧ items.length < (joinWith commaSp (items.map pr) ++ close :: rest).length + 1 := by
  constructor
  · apply skipWs_head
    cases items with
    | nil => exact ⟨close, rest, by simp [joinWith], hc⟩
    | cons a t =>
      obtain ⟨c, r, e, hw, _⟩ := hst a (by simp)
      obtain ⟨r', e'⟩ := joinWith_head commaSp (pr a) (t.map pr) (close :: rest) c r e
      exact ⟨c, r', by simpa using e', hw⟩
  · have := length_le_joinWith commaSp (items.map pr) (by
      intro a ha
      obtain ⟨x, hx, rfl⟩ := List.mem_map.mp ha
      obtain ⟨c, r, e, _⟩ := hst x hx
      simp [e])
    simp at this ⊢; omega

/-- Round trip through the reference reading, generalised over what follows the value and over
    the nesting fuel. -/
theorem parseVal_print : ∀ (x : LValue), wellFormed x = true → ∀ (f : Nat) (rest : List Char),
    (print Defects.none x).length < f → Delim rest →
    parseVal f (print Defects.none x ++ rest) = some (x, rest)
  | .null, _, f, rest, hf, hd => by
    obtain ⟨g, rfl⟩ : ∃ g, f = g + 1 := ⟨f - 1, by omega⟩
    have := scalar_name "null".toList rest (by decide) hd
    simp only [print]
    change parseVal (g + 1) ('n' :: (['u', 'l', 'l'] ++ rest)) = _
    rw [parseVal_scalar_start g _ _ (by decide) (by decide) (by decide)]
    simpa using this
  | .int i, _, f, rest, hf, hd => by
    obtain ⟨g, rfl⟩ : ∃ g, f = g + 1 := ⟨f - 1, by omega⟩
    obtain ⟨_, c, r, e, hc⟩ := intDigits_numChars i
    obtain ⟨_, _, _, f4, f5, f6, _⟩ := numStart_facts c hc
    have := scalar_int i rest hd
    simp only [print]
    rw [e] at this ⊢
    rw [List.cons_append, parseVal_scalar_start g _ _ f4 f5 f6]
    exact this
  | .float tok, hw, f, rest, hf, hd => by
    obtain ⟨g, rfl⟩ : ∃ g, f = g + 1 := ⟨f - 1, by omega⟩
    simp only [wellFormed, Bool.and_eq_true, List.all_eq_true, Bool.not_eq_true'] at hw
    obtain ⟨⟨⟨hall, hfl⟩, hni⟩, hh⟩ := hw
    cases tok with
    | nil => simp [headIs] at hh
    | cons c r =>
      have hc : isDigit c = true ∨ c = '-' := by simpa [headIs] using hh
      obtain ⟨_, _, _, f4, f5, f6, _⟩ := numStart_facts c hc
      have := scalar_num (c :: r) rest hall ⟨c, r, rfl, hc⟩ hd
      simp only [print]
      rw [List.cons_append, parseVal_scalar_start g _ _ f4 f5 f6]
      rw [List.cons_append] at this
      rw [this]; simp [hni, hfl]
  | .str s, _, f, rest, hf, hd => by
    obtain ⟨g, rfl⟩ : ∃ g, f = g + 1 := ⟨f - 1, by omega⟩
    have h1 := lexString_writeBody s rest
    have h2 := not_blockStart s rest hd
    simp [print, writeQuoted, Defects.none, Defects.radix, parseVal, List.append_assoc, h1, h2]
  | .bool b, _, f, rest, hf, hd => by
    obtain ⟨g, rfl⟩ : ∃ g, f = g + 1 := ⟨f - 1, by omega⟩
    cases b
    · have := scalar_name "false".toList rest (by decide) hd
      simp only [print]
      change parseVal (g + 1) ('f' :: (['a', 'l', 's', 'e'] ++ rest)) = _
      rw [parseVal_scalar_start g _ _ (by decide) (by decide) (by decide)]
      simpa using this
    · have := scalar_name "true".toList rest (by decide) hd
      simp only [print]
      change parseVal (g + 1) ('t' :: (['r', 'u', 'e'] ++ rest)) = _
      rw [parseVal_scalar_start g _ _ (by decide) (by decide) (by decide)]
      simpa using this
  | .enum n, hw, f, rest, hf, hd => by
    obtain ⟨g, rfl⟩ : ∃ g, f = g + 1 := ⟨f - 1, by omega⟩
    simp only [wellFormed, Bool.and_eq_true, bne_iff_ne, ne_eq] at hw
    obtain ⟨⟨⟨hn, h1⟩, h2⟩, h3⟩ := hw
    obtain ⟨_, c, r, e, hc⟩ := isName_chars n hn
    obtain ⟨_, _, _, _, _, f6, f7, f8, _⟩ := nameStart_facts c hc
    have := scalar_name n rest hn hd
    simp only [print]
    rw [e] at this ⊢
    rw [List.cons_append, parseVal_scalar_start g _ _ f6 f7 f8]
    rw [List.cons_append] at this
    rw [this]
    rw [← e]
    have h1' : ¬ n = ['t', 'r', 'u', 'e'] := h1
    have h2' : ¬ n = ['f', 'a', 'l', 's', 'e'] := h2
    have h3' : ¬ n = ['n', 'u', 'l', 'l'] := h3
    simp [h1', h2', h3']
  | .list xs, hw, f, rest, hf, hd => by
    obtain ⟨g, rfl⟩ : ∃ g, f = g + 1 := ⟨f - 1, by omega⟩
    have hwx := wf_list hw
    have hlen : ∀ x ∈ xs, (print Defects.none x).length < g := by
      intro x hx
      have := mem_length_le_joinWith commaSp (xs.map (print Defects.none)) _ (List.mem_map_of_mem hx)
      simp [print] at hf
      omega
    have ih : ∀ x ∈ xs, ∀ rest', Delim rest' → parseVal g (print Defects.none x ++ rest') = some (x, rest') :=
      fun x hx rest' hd' => parseVal_print x (hwx x hx) g rest' (hlen x hx) hd'
    have hst : ∀ x ∈ xs, StartOk ']' (print Defects.none x) := by
      intro x hx
      obtain ⟨c, r, e, h1, h2, _⟩ := print_start x (hwx x hx)
      exact ⟨c, r, e, h1, h2⟩
    have hm := many_spec (parseVal g) (print Defects.none) ']' ⟨by decide, Or.inl rfl⟩ xs rest ih hst
    obtain ⟨hb1, hb2⟩ := bracket_body (print Defects.none) ']' (by decide) xs rest hst
    have hshape : print Defects.none (.list xs) ++ rest =
        '[' :: (joinWith commaSp (xs.map (print Defects.none)) ++ ']' :: rest) := by
      rw [print]
      show ('[' :: (joinWith commaSp (xs.map (print Defects.none)) ++ [']'])) ++ rest = _
      rw [List.cons_append, List.append_assoc]; rfl
    rw [hshape]
    simp only [parseVal, if_true]
    rw [hb1, hm _ hb2]
  | .obj fs, hw, f, rest, hf, hd => by
    obtain ⟨g, rfl⟩ : ∃ g, f = g + 1 := ⟨f - 1, by omega⟩
    have hwx := wf_obj hw
    let pr : List Char × LValue → List Char := fun kv => kv.1 ++ colonSp ++ print Defects.none kv.2
    have hlen : ∀ kv ∈ fs, (print Defects.none kv.2).length < g := by
      intro kv hkv
      have := mem_length_le_joinWith commaSp (fs.map pr) _ (List.mem_map_of_mem hkv)
      simp [print] at hf
      simp [pr] at this
      omega
    have ih : ∀ kv ∈ fs, ∀ rest', Delim rest' → field (parseVal g) (pr kv ++ rest') = some (kv, rest') := by
      intro kv hkv rest' hd'
      obtain ⟨c, r, e, h1, _⟩ := print_start kv.2 (hwx kv hkv).2
      exact field_spec (parseVal g) kv.1 kv.2 _ rest' (hwx kv hkv).1 ⟨c, r, e, h1⟩
        (parseVal_print kv.2 (hwx kv hkv).2 g rest' (hlen kv hkv) hd')
    have hst : ∀ kv ∈ fs, StartOk '}' (pr kv) := by
      intro kv hkv
      obtain ⟨_, c, r, e, hc⟩ := isName_chars kv.1 (hwx kv hkv).1
      obtain ⟨f1, _, f3, _⟩ := nameStart_facts c hc
      exact ⟨c, r ++ colonSp ++ print Defects.none kv.2, by simp [pr, e], f1, f3⟩
    have hm := many_spec (field (parseVal g)) pr '}' ⟨by decide, Or.inr rfl⟩ fs rest ih hst
    obtain ⟨hb1, hb2⟩ := bracket_body pr '}' (by decide) fs rest hst
    have hshape : print Defects.none (.obj fs) ++ rest =
        '{' :: (joinWith commaSp (fs.map pr) ++ '}' :: rest) := by
      rw [print]
      show ('{' :: (joinWith commaSp (fs.map pr) ++ ['}'])) ++ rest = _
      rw [List.cons_append, List.append_assoc]; rfl
    rw [hshape]
    have h1 : ('{' = '[') = False := by decide
    simp only [parseVal, h1, if_false, if_true]
    rw [hb1, hm _ hb2]
termination_by x => sizeOf x
decreasing_by
  · have := List.sizeOf_lt_of_mem hx; simp; omega
  · have := List.sizeOf_lt_of_mem hkv
    have : sizeOf kv.2 < sizeOf kv := by cases kv; simp; omega
    simp; omega

-- ------------------------------------------------------------------ the parser's string lexing = the reference reading

/-! `lexQuoted` (grammar scan `scanStr`, then `string_value`) against `lexString`, on every text.
    Ingredients: the two hex-digit readings agree on hex digits, the grammar's surrogate guard
    (`hex4ok`) is exactly "the four digits denote a Unicode scalar value", the two escape tables
    have the same domain; then one step of each function at a time. -/

theorem hexq_of_isHex (c : Char) (h : isHex c = true) : hexVal? c = some (hexVal c) := by
  simp only [isHex, hexVal?, hexVal, Bool.or_eq_true, Bool.and_eq_true, decide_eq_true_eq] at *
  repeat' split
  all_goals first | rfl | omega | (congr 1; omega) | skip

theorem hexq_of_not_isHex (c : Char) (h : isHex c = false) : hexVal? c = none := by
  simp only [isHex, hexVal?, Bool.or_eq_false_iff, Bool.and_eq_false_iff, decide_eq_false_iff_not, Bool.and_eq_true, decide_eq_true_eq] at *
  repeat' split
  all_goals first | rfl | omega | skip

theorem hexVal_lt (c : Char) (h : isHex c = true) : hexVal c < 16 := by
  simp only [isHex, hexVal, Bool.or_eq_true, Bool.and_eq_true, decide_eq_true_eq] at *
  repeat' split
  all_goals omega

theorem char_eq_iff (c d : Char) : c = d ↔ c.toNat = d.toNat := by
  constructor
  · intro h; rw [h]
  · intro h
    apply Char.ext
    apply UInt32.toNat_inj.mp
    exact h

theorem isD_iff (c : Char) (h : isHex c = true) :
    (decide (c = 'd') || decide (c = 'D')) = decide (hexVal c = 13) := by
  have e1 : 'd'.toNat = 100 := by decide
  have e2 : 'D'.toNat = 68 := by decide
  have h' := h
  simp only [isHex, Bool.or_eq_true, Bool.and_eq_true, decide_eq_true_eq] at h'
  rw [Bool.eq_iff_iff]
  simp only [hexVal, Bool.or_eq_true, decide_eq_true_eq, char_eq_iff, e1, e2]
  repeat' split
  all_goals (simp only [decide_eq_true_eq]; omega)

theorem isHi_iff (c : Char) (h : isHex c = true) :
    (decide (c = '8') || decide (c = '9') || (decide (97 ≤ c.toNat) && decide (c.toNat ≤ 102)) ||
      (decide (65 ≤ c.toNat) && decide (c.toNat ≤ 70))) = decide (8 ≤ hexVal c) := by
  have e1 : '8'.toNat = 56 := by decide
  have e2 : '9'.toNat = 57 := by decide
  simp only [isHex, Bool.or_eq_true, Bool.and_eq_true, decide_eq_true_eq] at h
  rw [Bool.eq_iff_iff]
  simp only [hexVal, Bool.or_eq_true, Bool.and_eq_true, decide_eq_true_eq, char_eq_iff, e1, e2]
  repeat' split
  all_goals (simp only [decide_eq_true_eq]; omega)

theorem hex4ok_valid (h1 h2 h3 h4 : Char) (a1 : isHex h1 = true) (a2 : isHex h2 = true)
    (a3 : isHex h3 = true) (a4 : isHex h4 = true) :
    hex4ok h1 h2 h3 h4 = true ↔ (((hexVal h1 * 16 + hexVal h2) * 16 + hexVal h3) * 16 + hexVal h4).isValidChar := by
  have b1 := hexVal_lt h1 a1
  have b2 := hexVal_lt h2 a2
  have b3 := hexVal_lt h3 a3
  have b4 := hexVal_lt h4 a4
  simp only [hex4ok, a1, a2, a3, a4, Bool.and_true, isD_iff h1 a1, isHi_iff h2 a2]
  generalize hexVal h1 = x1 at *
  generalize hexVal h2 = x2 at *
  generalize hexVal h3 = x3 at *
  generalize hexVal h4 = x4 at *
  simp only [Nat.isValidChar, Bool.not_eq_true', Bool.and_eq_false_iff, decide_eq_false_iff_not]
  omega

theorem isSimpleEsc_escaped (e : Char) : isSimpleEsc e = (escaped e).isSome := by
  simp only [isSimpleEsc, escaped]
  repeat' split
  all_goals simp_all

theorem sv_plain (c : Char) (raw : List Char) (hb : c ≠ '\\') :
    stringValue (c :: raw) = (stringValue raw).map (c :: ·) := by
  rw [stringValue.eq_def]; simp [hb]

theorem sv_simple (e x : Char) (raw : List Char) (hx : escaped e = some x) :
    stringValue ('\\' :: e :: raw) = (stringValue raw).map (x :: ·) := by
  have hu : e ≠ 'u' := by
    have hnone : escaped 'u' = none := by decide
    intro h; subst h; simp [hnone] at hx
  rw [stringValue.eq_def]
  simp only [if_true, hu, if_false]
  simp only [escaped] at hx
  repeat' split at hx
  all_goals first | (cases hx; simp_all; done) | (subst hx; simp_all; done) | simp_all

theorem sv_u (h1 h2 h3 h4 : Char) (raw : List Char) (a1 : isHex h1 = true) (a2 : isHex h2 = true)
    (a3 : isHex h3 = true) (a4 : isHex h4 = true)
    (hv : (((hexVal h1 * 16 + hexVal h2) * 16 + hexVal h3) * 16 + hexVal h4).isValidChar) :
    stringValue ('\\' :: 'u' :: h1 :: h2 :: h3 :: h4 :: raw) =
      (stringValue raw).map (Char.ofNat (((hexVal h1 * 16 + hexVal h2) * 16 + hexVal h3) * 16 + hexVal h4) :: ·) := by
  rw [stringValue.eq_def]
  simp [a1, a2, a3, a4, hv]

theorem lexString_eq_lexQuoted_aux : ∀ (n : Nat) (cs : List Char), cs.length ≤ n → lexString cs = lexQuoted cs := by
  intro n
  induction n with
  | zero =>
    intro cs h
    have : cs = [] := by cases cs <;> simp_all
    subst this
    rw [lexString.eq_def, lexQuoted, scanStr.eq_def]
  | succ n ih =>
    intro cs h
    cases cs with
    | nil => rw [lexString.eq_def, lexQuoted, scanStr.eq_def]
    | cons c r =>
      rw [lexString.eq_def, lexQuoted, scanStr.eq_def]
      simp only
      by_cases hq : c = '"'
      · simp [hq, stringValue]
      · by_cases hn : c = '\n' ∨ c = '\r'
        · rcases hn with hn | hn <;> subst hn <;> simp
        · simp only [not_or] at hn
          by_cases hb : c = '\\'
          · subst hb
            have hbq : ¬ ('\\' = '"') := by decide
            have hbn : ¬ ('\\' = '\n') := by decide
            have hbr : ¬ ('\\' = '\r') := by decide
            simp only [hbq, hbn, hbr, if_false, if_true, Bool.or_self, decide_false, Bool.false_eq_true]
            cases r with
            | nil => rfl
            | cons e r' =>
              simp only
              by_cases hu : e = 'u'
              · subst hu
                have hs : isSimpleEsc 'u' = false := by decide
                simp only [hs, if_true, Bool.false_eq_true, if_false]
                rcases r' with _ | ⟨h1, _ | ⟨h2, _ | ⟨h3, _ | ⟨h4, r''⟩⟩⟩⟩
                · rfl
                · rfl
                · rfl
                · rfl
                · simp only
                  by_cases hall : isHex h1 = true ∧ isHex h2 = true ∧ isHex h3 = true ∧ isHex h4 = true
                  · obtain ⟨a1, a2, a3, a4⟩ := hall
                    simp only [hexq_of_isHex _ a1, hexq_of_isHex _ a2, hexq_of_isHex _ a3, hexq_of_isHex _ a4]
                    by_cases hv : (((hexVal h1 * 16 + hexVal h2) * 16 + hexVal h3) * 16 + hexVal h4).isValidChar
                    · have hk := (hex4ok_valid h1 h2 h3 h4 a1 a2 a3 a4).mpr hv
                      have ihr := ih r'' (by simp at h; omega)
                      simp only [hv, hk, if_true, ihr, lexQuoted]
                      cases scanStr r'' with
                      | none => rfl
                      | some p =>
                        obtain ⟨raw, rest⟩ := p
                        simp only [sv_u h1 h2 h3 h4 raw a1 a2 a3 a4 hv]
                        cases stringValue raw <;> rfl
                    · have hk : hex4ok h1 h2 h3 h4 = false := by
                        cases hh : hex4ok h1 h2 h3 h4
                        · rfl
                        · exact absurd ((hex4ok_valid h1 h2 h3 h4 a1 a2 a3 a4).mp hh) hv
                      simp only [hv, hk, if_false, Bool.false_eq_true]
                  · have hk : hex4ok h1 h2 h3 h4 = false := by
                      simp only [hex4ok]
                      simp only [Classical.not_and_iff_not_or_not, Bool.not_eq_true] at hall
                      rcases hall with a | a | a | a <;> simp [a]
                    simp only [hk, Bool.false_eq_true, if_false]
                    simp only [Classical.not_and_iff_not_or_not, Bool.not_eq_true] at hall
                    rcases hall with a | a | a | a <;> simp only [hexq_of_not_isHex _ a] <;> (repeat' split) <;> simp_all
              · simp only [hu, if_false, isSimpleEsc_escaped]
                cases hx : escaped e with
                | none => simp
                | some x =>
                  have ihr := ih r' (by simp at h; omega)
                  simp only [Option.isSome_some, if_true, ihr, lexQuoted]
                  cases scanStr r' with
                  | none => rfl
                  | some p =>
                    obtain ⟨raw, rest⟩ := p
                    simp only [sv_simple e x raw hx]
                    cases stringValue raw <;> rfl
          · have ihr := ih r (by simp at h; omega)
            simp only [hq, hn.1, hn.2, hb, if_false, Bool.or_self, decide_false, Bool.false_eq_true, ihr, lexQuoted]
            cases scanStr r with
            | none => rfl
            | some p =>
              obtain ⟨raw, rest⟩ := p
              simp only [sv_plain c raw hb]
              cases stringValue raw <;> rfl

theorem lexString_eq_lexQuoted (cs : List Char) : lexString cs = lexQuoted cs :=
  lexString_eq_lexQuoted_aux cs.length cs (Nat.le_refl _)

end AGV.Lemmas.Literal
