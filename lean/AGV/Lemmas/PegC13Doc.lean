/-
  Property C13: `executable_document` and `parse_query` in terms of the token-level reader
  `qDocument`: the interpreter accepts exactly when `qDocument` reads the whole token stream, and the
  tree builder then returns the definitions read (in stored form), or an error when one of them has
  an infinite float literal or nests too deep.
-/
import AGV.Lemmas.PegC13Defs3
namespace AGV.Lemmas.PegX
open AGV.Model.Peg AGV.Model.BuildAst AGV.Spec.Lex AGV.Core.PAst AGV.Lemmas.PegC13 AGV.Lemmas.SpecVal

def docRule : Rule := ⟨"executable_document", .normal,
  .seq (.ident "SOI") (.seq (.rep1 (.ident "executable_definition")) (.ident "EOI"))⟩
theorem doc_ok : RuleOk "executable_document" docRule := ⟨by rfl, by decide, by decide, by rfl, rfl, by decide⟩

/-- `definition+` up to the end of the token stream -/
def qDocument (n : Nat) : Sim (List PDef) := tMap (fun x => x.1) (tSeq (tRep1 (qDefinition n)) tEOI)

theorem strict_qNamedOp (n : Nat) : Strict (qNamedOp n) :=
  strict_map (strict_seq strict_qOpType (mono_seq (mono_opt strict_pName.mono) (mono_seq (mono_opt (strict_qVarDefs n).mono)
    (mono_seq (mono_opt (strict_rep1 (strict_qDirective false)).mono) (strict_qSelSet n).mono))))

theorem strict_qFragDef (n : Nat) : Strict (qFragDef n) :=
  strict_map (strict_seq (strict_kw kwFragment) (mono_seq (mono_not _) (mono_seq strict_pName.mono
    (mono_seq strict_qTypeCond.mono (mono_seq (mono_opt (strict_rep1 (strict_qDirective false)).mono)
      (strict_qSelSet n).mono)))))

theorem strict_qDefinition (n : Nat) : Strict (qDefinition n) :=
  strict_or (strict_or (strict_qNamedOp n) (strict_map (strict_qSelSet n))) (strict_qFragDef n)

theorem filter_eoi (ps : List Pair) (eoi : Pair) (h1 : ∀ p ∈ ps, p.rule = "executable_definition")
    (h2 : eoi.rule = "EOI") : (ps ++ [eoi]).filter (fun p => p.rule ≠ "EOI") = ps := by
  rw [List.filter_append]
  have e1 : ps.filter (fun p => p.rule ≠ "EOI") = ps := by
    rw [List.filter_eq_self]
    intro p hp
    rw [h1 p hp]; decide
  have e2 : [eoi].filter (fun p => p.rule ≠ "EOI") = [] := by simp [h2]
  rw [e1, e2, List.append_nil]

theorem all2_rule {α : Type} {R : Pair → Prop} {Q : List Char → Pair → α → Prop} {s₀ : List Char} {ps : List Pair}
    {xs : List α} (h : bMany (fun s₀ ps x => ∃ pr, ps = [pr] ∧ R pr ∧ Q s₀ pr x) s₀ ps xs) : ∀ p ∈ ps, R p := by
  obtain ⟨pss, rfl, hall⟩ := h
  induction hall with
  | nil => intro p hp; cases hp
  | cons h1 _ ih =>
    obtain ⟨pr, rfl, hr, -⟩ := h1
    intro p hp
    simp only [List.flatten_cons, List.singleton_append, List.mem_cons] at hp
    rcases hp with rfl | hp
    · exact hr
    · exact ih p hp

/-- `parse_query` on every text -/
theorem parseQuery_peg (s : List Char) :
    match qDocument (s.length + 1) (toks s) with
    | none => parseQuery Defects.none s = .error .syntax
    | some (defs, _) =>
      (defs.all okDef = true → parseQuery Defects.none s = collectDefs (defs.map normDef)) ∧
      (defs.all okDef = false → ∃ e, parseQuery Defects.none s = .error e) := by
  have hL := skipI_len s
  have hrest := Reads.seq (Reads.rep1 (reads_definition (s.length + 1)) (strict_qDefinition _) (by omega))
    (reads_eoi (s.length + 1) 1 (Nat.le_refl _)) (K := 126) (by omega) (by omega) (by omega)
  obtain ⟨r, hE, hO⟩ := hrest (skipPos 0 s) (skipI s) (by omega) (tokStart_skipI s)
  have hsoi : EvR G0 c0 (.ident "SOI") 0 s 1 (.ok 0 s []) := EvR.soi.cast (by simp)
  have hbody := ev_seq0 hsoi hE (K := 24 * s.length + 127) (by omega) (by omega) (by omega)
  have hev := ev_ruleOk doc_ok (r := docRule) hbody (K := 24 * s.length + 128) (by omega)
  have heval := hev (fuelFor s) (by unfold fuelFor; omega)
  have hat : At s (skipPos 0 s) (skipI s) := At.skip ⟨[], rfl, rfl⟩
  have hout := hO s hat
  have hq : qDocument (s.length + 1) (toks s) =
      (tSeq (tRep1 (qDefinition (s.length + 1))) tEOI (toks (skipI s))).map (fun x => (x.1.1, x.2)) := by
    rw [toks_skipI]; rfl
  rw [hq]
  cases hx : tSeq (tRep1 (qDefinition (s.length + 1))) tEOI (toks (skipI s)) with
  | none =>
    have := hout.isFail hx
    subst this
    simp only [Option.map_none]
    unfold parseQuery
    show (match eval G0 (fuelFor s) c0 (.ident "executable_document") 0 s with
      | .oof => _ | .fail => _ | .ok _ _ ps => _) = _
    rw [heval]; rfl
  | some x =>
    obtain ⟨⟨defs, u⟩, rest⟩ := x
    obtain ⟨s', ps, e, -, -, ps1, ps2, rfl, hm, ⟨pe, rfl⟩⟩ := hout.isOk hx
    subst e
    simp only [Option.map_some]
    have hrules := all2_rule hm
    have hall := bMany_all2 (Q := fun s₀ pr d => Exp (buildDefinition (envOf s₀) pr) (okDef d) (normDef d)) hm
    have hmap := mapM_exp (f := buildDefinition (envOf s)) (c := okDef) (nf := normDef) hall
    have hpq : parseQuery Defects.none s =
        (do let defs ← ps1.mapM (buildDefinition (envOf s)); collectDefs defs) := by
      unfold parseQuery
      show (match eval G0 (fuelFor s) c0 (.ident "executable_document") 0 s with
        | .oof => _ | .fail => _ | .ok _ _ ps => _) = _
      rw [heval]
      simp only [prepend_ok, wrapN_ok, List.nil_append, inner_mk]
      rw [filter_eoi ps1 _ hrules rfl]
      rfl
    rw [hpq]
    refine ⟨fun hc => ?_, fun hc => ?_⟩
    · rw [hmap.1 hc]; rfl
    · obtain ⟨e, he⟩ := hmap.2 hc
      exact ⟨e, by rw [he]; rfl⟩
end AGV.Lemmas.PegX
