/-
  C17 — lexing of exporter output, fuel-free: `Lx s ts` ("`s` is the token sequence `ts`") with
  one rule per lexeme the exporter writes (ignored characters, punctuators, names), and
  `Lx.tokens : Lx s ts → tokens s = some ts`.
-/
import AGV.Model.Sdl
import AGV.Spec.SdlParse
namespace AGV.Lemmas.SdlLex
open AGV.Core AGV.Core.PAst AGV.Core.Sdl AGV.Model.Sdl AGV.Spec.Literal AGV.Spec.Lex AGV.Spec.Parse AGV.Spec.SdlParse

-- ------------------------------------------------------------------ lexing, fuel-free

/-- the continuation of `lexAll` after one token -/
def contTok (f : Nat) : Option (Tok × List Char) → Option (List Tok)
  | some (t, rest) => (lexAll f rest).map (t :: ·)
  | none => none

theorem lexAll_zero (s : Text) : lexAll 0 s = none := rfl
theorem lexAll_nil (f : Nat) : lexAll (f + 1) [] = some [] := rfl

theorem lexAll_cons (f : Nat) (c : Char) (r : List Char) : lexAll (f+1) (c :: r) =
    if isIgnoredChar c then lexAll f r
    else if c = '#' then lexAll f (dropComment r)
    else contTok f (lexToken (c :: r)) := by
  show (match (f+1), (c :: r) with
      | 0, _ => none
      | _ + 1, [] => some []
      | f + 1, c :: r =>
        if isIgnoredChar c then lexAll f r
        else if c = '#' then lexAll f (dropComment r)
        else
          match lexToken (c :: r) with
          | some (t, rest) => (lexAll f rest).map (t :: ·)
          | none => none) = _
  cases h : lexToken (c :: r) with
  | none => simp only [h, contTok]
  | some p => obtain ⟨t, rest⟩ := p; simp only [h, contTok]

theorem lexToken_punct (c : Char) (r : List Char) (h : isPunct c = true) : lexToken (c :: r) = some (.punct c, r) := by
  unfold lexToken
  simp only [h, if_true]

theorem lexToken_name (c : Char) (r : List Char) (h1 : isPunct c = false) (h2 : c ≠ '.') (h3 : nameStart c = true) :
    lexToken (c :: r) = some (.name (c :: (nameOf r).1), (nameOf r).2) := by
  unfold lexToken
  simp only [h1, h2, h3, if_true, if_false, Bool.false_eq_true]

theorem contTok_mono (f : Nat) (ih : ∀ s ts, lexAll f s = some ts → lexAll (f + 1) s = some ts)
    (x : Option (Tok × List Char)) (ts : List Tok) (h : contTok f x = some ts) : contTok (f + 1) x = some ts := by
  cases x with
  | none => exact h
  | some p =>
    obtain ⟨t, rest⟩ := p
    simp only [contTok, Option.map_eq_some_iff] at h ⊢
    obtain ⟨ts', h1, h2⟩ := h
    exact ⟨ts', ih _ _ h1, h2⟩

theorem lexAll_mono (f : Nat) : ∀ (s : Text) (ts : List Tok), lexAll f s = some ts → lexAll (f + 1) s = some ts := by
  induction f with
  | zero => intro s ts h; cases h
  | succ f ih =>
    intro s ts h
    cases s with
    | nil => exact h
    | cons c r =>
      rw [lexAll_cons] at h ⊢
      split
      · rename_i hc; rw [if_pos hc] at h; exact ih _ _ h
      · rename_i hc; rw [if_neg hc] at h
        split
        · rename_i hc2; rw [if_pos hc2] at h; exact ih _ _ h
        · rename_i hc2; rw [if_neg hc2] at h
          exact contTok_mono f ih _ _ h

theorem lexAll_mono_le (f g : Nat) (hfg : f ≤ g) (s : Text) (ts : List Tok) (h : lexAll f s = some ts) :
    lexAll g s = some ts := by
  induction hfg with
  | refl => exact h
  | step _ ih => exact lexAll_mono _ _ _ ih

/-- `s` is the token sequence `ts` (with a fuel that `tokens` provides) -/
def Lx (s : Text) (ts : List Tok) : Prop := ∃ f, f ≤ s.length + 1 ∧ lexAll f s = some ts

theorem Lx.tokens {s ts} (h : Lx s ts) : tokens s = some ts := by
  obtain ⟨f, hf, h⟩ := h
  exact lexAll_mono_le f _ hf s ts h

theorem Lx.nil : Lx [] [] := ⟨1, by simp, rfl⟩

theorem Lx.ign {c : Char} {r ts} (hc : isIgnoredChar c = true) (h : Lx r ts) : Lx (c :: r) ts := by
  obtain ⟨f, hf, h⟩ := h
  exact ⟨f + 1, by simp; omega, by rw [lexAll_cons, if_pos hc]; exact h⟩

theorem Lx.tok {c : Char} {r rest ts} {t : Tok} (h1 : isIgnoredChar c = false) (h2 : c ≠ '#')
    (ht : lexToken (c :: r) = some (t, rest)) (hl : rest.length ≤ r.length) (h : Lx rest ts) : Lx (c :: r) (t :: ts) := by
  obtain ⟨f, hf, h⟩ := h
  refine ⟨f + 1, by simp; omega, ?_⟩
  rw [lexAll_cons, if_neg (by simp [h1]), if_neg (by simp [h2]), ht]
  simp [contTok, h]

theorem punct_facts (c : Char) (hc : isPunct c = true) : isIgnoredChar c = false ∧ c ≠ '#' := by
  simp [← Char.toNat_inj, isPunct, isIgnoredChar, isLineTerm] at *
  omega

theorem Lx.punct {c : Char} {r ts} (hc : isPunct c = true) (h : Lx r ts) : Lx (c :: r) (.punct c :: ts) :=
  Lx.tok (punct_facts c hc).1 (punct_facts c hc).2 (lexToken_punct c r hc) (Nat.le_refl _) h

/-- what may follow a Name token -/
def NameEnd (rest : Text) : Prop := ∀ c r, rest = c :: r → nameChar c = false

theorem nameOf_append (n rest : Text) (hn : ∀ c ∈ n, nameChar c = true) (hr : NameEnd rest) :
    nameOf (n ++ rest) = (n, rest) := by
  induction n with
  | nil =>
    cases rest with
    | nil => rfl
    | cons c r => simp [nameOf, hr c r rfl]
  | cons a n ih =>
    have := ih (fun c hc => hn c (List.mem_cons_of_mem _ hc))
    simp [nameOf, hn a List.mem_cons_self, this]

theorem nameStart_lex (c : Char) (h : nameStart c = true) :
    isIgnoredChar c = false ∧ c ≠ '#' ∧ isPunct c = false ∧ c ≠ '.' := by
  simp [← Char.toNat_inj, nameStart, isAlpha, isIgnoredChar, isLineTerm, isPunct] at *
  omega

theorem Lx.name {n rest ts} (hn : isName n = true) (hr : NameEnd rest) (h : Lx rest ts) :
    Lx (n ++ rest) (.name n :: ts) := by
  cases n with
  | nil => simp [isName] at hn
  | cons c t =>
    simp only [isName, Bool.and_eq_true, List.all_eq_true] at hn
    obtain ⟨f1, f2, f3, f4⟩ := nameStart_lex c hn.1
    have hno := nameOf_append t rest hn.2 hr
    refine Lx.tok (r := t ++ rest) (rest := rest) f1 f2 ?_ (by simp) h
    rw [lexToken_name c _ f3 f4 hn.1, hno]

end AGV.Lemmas.SdlLex
