import AGV.Model.ExecStatic

namespace AGV.Lemmas.ExecStatic
open AGV.Core AGV.Model.ExecStatic

/-- keys in first-occurrence order, skipping those already `seen` -/
def newKeys : List String → List String → List String
  | _, [] => []
  | seen, k :: ks => if k ∈ seen then newKeys seen ks else k :: newKeys (seen ++ [k]) ks

theorem any_key (m : List (String × GValue)) (k : String) :
    m.any (fun p => decide (p.1 = k)) = decide (k ∈ m.map (·.1)) := by
  rw [Bool.eq_iff_iff]
  simp only [List.any_eq_true, decide_eq_true_eq, List.mem_map]

theorem keys_insertKV (f : GValue → GValue → GValue) (m : List (String × GValue)) (k : String) (v : GValue) :
    (insertKV f m k v).map (·.1) = if k ∈ m.map (·.1) then m.map (·.1) else m.map (·.1) ++ [k] := by
  unfold insertKV
  rw [any_key]
  by_cases h : k ∈ m.map (·.1)
  · rw [if_pos h, if_pos (by simpa using h), List.map_map]
    apply List.map_congr_left
    intro p _
    by_cases hp : p.1 = k <;> simp [hp]
  · rw [if_neg h, if_neg (by simpa using h)]
    simp

theorem keys_foldl_insertKV (f : GValue → GValue → GValue) (kvs : List (String × GValue)) :
    ∀ m : List (String × GValue),
      (kvs.foldl (fun m p => insertKV f m p.1 p.2) m).map (·.1) = m.map (·.1) ++ newKeys (m.map (·.1)) (kvs.map (·.1)) := by
  induction kvs with
  | nil => intro m; simp [newKeys]
  | cons p ps ih =>
    intro m
    rw [List.foldl_cons, ih, keys_insertKV, List.map_cons, newKeys]
    by_cases h : p.1 ∈ m.map (·.1)
    · rw [if_pos h, if_pos h]
    · rw [if_neg h, if_neg h, List.append_assoc]
      rfl

end AGV.Lemmas.ExecStatic

namespace AGV.Lemmas.ExecStatic
open AGV.Core AGV.Model.ExecStatic AGV.Spec.Exec

/-- what the executor assumes of the recursive call on object values: a propagating error
    has been recorded -/
def RecOK (rec : String → String → Nat → List Sel → List PathSeg → Res) : Prop :=
  ∀ st rt id ss p, ((rec st rt id ss p).val = none → (rec st rt id ss p).errs ≠ []) ∧
    (rec st rt id ss p).val ≠ some .null

theorem joinAll_mem (fs : List (Unit → Res)) : ∀ r ∈ joinAll fs, ∃ f ∈ fs, r = f () := by
  induction fs with
  | nil => intro r h; simp [joinAll] at h
  | cons f rest ih =>
    intro r h
    cases hv : (f ()).val with
    | none =>
      simp [joinAll, hv] at h
      exact ⟨f, by simp, h⟩
    | some v =>
      simp [joinAll, hv] at h
      rcases h with h | h
      · exact ⟨f, by simp, h⟩
      · obtain ⟨g, hg, e⟩ := ih r h
        exact ⟨g, by simp [hg], e⟩

theorem mapIdx_mem {α β} (g : Nat → α → β) (xs : List α) : ∀ i, ∀ y ∈ mapIdx g xs i, ∃ j x, y = g j x := by
  induction xs with
  | nil => intro i y h; simp [mapIdx] at h
  | cons x xs ih =>
    intro i y h
    simp [mapIdx] at h
    rcases h with h | h
    · exact ⟨i, x, h⟩
    · exact ih (i + 1) y h

theorem flatten_ne_nil_of_mem {α} (ls : List (List α)) (l : List α) (h : l ∈ ls) (hl : l ≠ []) : ls.flatten ≠ [] := by
  intro e
  rw [List.flatten_eq_nil_iff] at e
  exact hl (e l h)

theorem resolveValue_nonNull (c : Model.ExecStatic.Ctx) (rec : String → String → Nat → List Sel → List PathSeg → Res)
    (t : TypeRef) (rv : RVal) (ss : List Sel) (path : List PathSeg) (pos : Pos) (h : rv ≠ .null) :
    resolveValue c rec (.nonNull t) rv ss path pos = nnWrap (resolveValue c rec t rv ss path pos) := by
  cases rv <;> simp_all [resolveValue]

theorem rewriteLast_ne_nil (p : List PathSeg) (es : List GErr) (h : es ≠ []) : rewriteLast p es ≠ [] := by
  cases es with
  | nil => exact absurd rfl h
  | cons e rest => cases rest <;> simp [rewriteLast]

theorem itemWrap_val (D : Defects) (p : List PathSeg) (r : Res) : (itemWrap D p r).val = r.val := by
  unfold itemWrap; split <;> rfl

theorem itemWrap_errs_ne (D : Defects) (p : List PathSeg) (r : Res) (h : r.errs ≠ []) : (itemWrap D p r).errs ≠ [] := by
  unfold itemWrap; split
  · exact rewriteLast_ne_nil p r.errs h
  · exact h

/-- Completion never loses an error, and a `null` that comes without an error can only be a
    `null` the resolver itself returned. -/
theorem resolveValue_props (c : Model.ExecStatic.Ctx) (hD : c.D.nanNullInNonNull = false)
    (rec : String → String → Nat → List Sel → List PathSeg → Res) (hrec : RecOK rec) :
    ∀ (t : TypeRef) (rv : RVal) (ss : List Sel) (path : List PathSeg) (pos : Pos),
      ((resolveValue c rec t rv ss path pos).val = none → (resolveValue c rec t rv ss path pos).errs ≠ []) ∧
      ((resolveValue c rec t rv ss path pos).val = some .null → (resolveValue c rec t rv ss path pos).errs = [] → rv = .null) := by
  intro t
  induction t with
  | named n =>
    intro rv ss path pos
    cases rv with
    | null => simp [resolveValue]
    | obj ty id =>
      simp only [resolveValue]
      split
      · have h := (hrec n ty id ss path).1
        have h' := (hrec n ty id ss path).2
        cases hv : (rec n ty id ss path).val with
        | none => simp [hv] at h ⊢; exact h
        | some v => simp [hv]; intro hv' he; subst hv'; exact absurd hv h'
      · simp
    | leaf v =>
      simp only [resolveValue]
      cases htv : toValue c.D c.S n v with
      | none => simp
      | some o =>
        cases o with
        | none => simp
        | some v' =>
          simp
          intro hv'
          -- toValue yields null only under the NaN defect
          subst hv'
          unfold toValue at htv
          split at htv <;> simp_all
          all_goals (try (split at htv <;> simp_all))
    | list xs => simp [resolveValue]
    | fail m => simp [resolveValue]
    | arg a => simp [resolveValue]
  | list t ih =>
    intro rv ss path pos
    cases rv with
    | null => simp [resolveValue]
    | list xs =>
      simp only [resolveValue]
      split
      · simp
      · rename_i hall
        simp
        have hall' : ∃ r ∈ joinAll (mapIdx (fun i x (_ : Unit) =>
              itemWrap c.D (path ++ [PathSeg.idx i]) (resolveValue c rec t x ss (path ++ [PathSeg.idx i]) pos)) xs 0),
            r.val.isSome = false := by
          simpa [List.all_eq_true] using hall
        obtain ⟨r, hr, hnone⟩ := hall'
        refine ⟨r, hr, ?_⟩
        obtain ⟨f, hf, rfl⟩ := joinAll_mem _ r hr
        obtain ⟨j, x, rfl⟩ := mapIdx_mem _ xs 0 f hf
        have hv : (resolveValue c rec t x ss (path ++ [PathSeg.idx j]) pos).val = none := by
          rw [itemWrap_val] at hnone
          cases h : (resolveValue c rec t x ss (path ++ [PathSeg.idx j]) pos).val <;> simp_all
        exact itemWrap_errs_ne _ _ _ ((ih x ss (path ++ [PathSeg.idx j]) pos).1 hv)
    | obj ty id => simp [resolveValue]
    | leaf v => simp [resolveValue]
    | fail m => simp [resolveValue]
    | arg a => simp [resolveValue]
  | nonNull t ih =>
    intro rv ss path pos
    by_cases hrv : rv = .null
    · subst hrv; simp [resolveValue]
    · rw [resolveValue_nonNull c rec t rv ss path pos hrv]
      have h1 := (ih rv ss path pos).1
      have h2 := (ih rv ss path pos).2
      unfold nnWrap
      cases hv : (resolveValue c rec t rv ss path pos).val with
      | none => simp [hv] at h1 ⊢; exact h1
      | some v =>
        by_cases hnull : v = .null
        · subst hnull
          by_cases hemp : (resolveValue c rec t rv ss path pos).errs = []
          · exact absurd (h2 hv hemp) hrv
          · simp [hv, hemp]
        · cases v <;> simp_all

end AGV.Lemmas.ExecStatic

namespace AGV.Lemmas.ExecStatic
open AGV.Core AGV.Model.ExecStatic AGV.Spec.Exec

theorem completeField_none (c : Model.ExecStatic.Ctx) (hD : c.D.nanNullInNonNull = false)
    (recC : String → String → Nat → List Sel → List PathSeg → Res) (hrec : RecOK recC)
    (fd : FieldDef) (rv : RVal) (occ : FieldOcc) (fpath : List PathSeg) :
    (completeField c recC fd rv occ fpath).val = none → (completeField c recC fd rv occ fpath).errs ≠ [] := by
  cases rv with
  | fail m => simp only [completeField]; split <;> simp
  | _ => exact (resolveValue_props c hD recC hrec fd.ty _ occ.sels fpath occ.pos).1

theorem runField_none (c : Model.ExecStatic.Ctx) (hD : c.D.nanNullInNonNull = false)
    (recC : String → String → Nat → List Sel → List PathSeg → Res) (hrec : RecOK recC)
    (rt : String) (id : Nat) (path : List PathSeg) (occ : FieldOcc) :
    (runField c recC rt id path occ).val = none → (runField c recC rt id path occ).errs ≠ [] := by
  unfold runField
  split
  · simp
  · split
    · simp
    · rename_i fd _
      simp only
      intro hnone
      apply completeField_none c hD recC hrec
      cases h : (completeField c recC fd (fieldRVal c id fd occ) occ (path ++ [PathSeg.key occ.key])).val <;> simp_all

theorem recOK_resolveContainer (c : Model.ExecStatic.Ctx) (hD : c.D.nanNullInNonNull = false) :
    ∀ fuel, RecOK (resolveContainer c fuel) := by
  intro fuel
  induction fuel with
  | zero => intro st rt id ss p; simp [resolveContainer]
  | succ fuel ih =>
    intro st rt id ss p
    simp only [resolveContainer]
    split
    · simp [createValueObject]
    · rename_i hall
      simp
      have hall' : ∃ r ∈ joinAll ((Model.ExecStatic.collect c rt (fuel + 1) st ss).map
            (fun occ => fun (_ : Unit) => runField c (resolveContainer c fuel) rt id p occ)),
          r.val.isSome = false := by
        simpa [List.all_eq_true] using hall
      obtain ⟨r, hr, hnone⟩ := hall'
      refine ⟨r, hr, ?_⟩
      obtain ⟨f, hf, rfl⟩ := joinAll_mem _ r hr
      simp only [List.mem_map] at hf
      obtain ⟨occ, _, rfl⟩ := hf
      apply runField_none c hD _ ih
      cases h : (runField c (resolveContainer c fuel) rt id p occ).val <;> simp_all

end AGV.Lemmas.ExecStatic
