/-
  C18 — helper lemmas about the introspection model (Model/Introspect.lean, Spec/Introspect.lean).
-/
import AGV.Model.Introspect
import AGV.Spec.Introspect

namespace AGV.Lemmas.Introspect
open AGV AGV.Core AGV.Model.Introspect AGV.Spec.Introspect

theorem decodeRef_refT (ts : List IType) (ty : TypeRef) : decodeRef (refT ts ty) = ty := by
  induction ty with
  | named n => simp [refT, decodeRef]
  | list t ih => simp [refT, decodeRef, ih]
  | nonNull t ih => simp [refT, decodeRef, ih]

theorem refBase_refT (ts : List IType) (ty : TypeRef) : refBase (refT ts ty) = ty.base := by
  simp [refBase, decodeRef_refT]

/-- the property every name added by the search has: it names a registered type whose own rule passes -/
def Passes (ts : List IType) (c : Nat) (n : String) : Prop :=
  ∃ t, lookup ts n = some t ∧ t.vis.holds c = true

theorem dfs_sound (ts : List IType) (c : Nat) (st vis : List String)
    (h : ∀ n ∈ vis, Passes ts c n) : ∀ n ∈ dfs ts c st vis, Passes ts c n := by
  fun_induction dfs ts c st vis with
  | case1 vis => exact h
  | case2 n st vis hv ih => exact ih h
  | case3 n st vis hv hl ih => exact ih h
  | case4 n st vis hv t hl ht ih =>
    apply ih
    intro m hm
    rcases List.mem_cons.mp hm with rfl | hm
    · exact ⟨t, hl, ht⟩
    · exact h m hm
  | case5 n st vis hv t hl ht ih => exact ih h

theorem ifacePass_sound (ts : List IType) (c : Nat) (vis : List String)
    (h : ∀ n ∈ vis, Passes ts c n) : ∀ n ∈ ifacePass ts c vis, Passes ts c n := by
  unfold ifacePass
  generalize ts = l at h ⊢
  -- the fold runs over the registry `ts0` while searching in the same registry
  revert vis
  suffices H : ∀ (l' : List IType) (vis : List String), (∀ n ∈ vis, Passes l c n) →
      ∀ n ∈ l'.foldl (fun vis t =>
        if t.kind == .interface && t.vis.holds c && !vis.contains t.name && t.possible.any vis.contains
        then dfs l c [t.name] vis else vis) vis, Passes l c n from fun vis h => H l vis h
  intro l'
  induction l' with
  | nil => intro vis h; simpa using h
  | cons a l' ih =>
    intro vis h
    simp only [List.foldl_cons]
    apply ih
    split
    · exact dfs_sound l c _ vis h
    · exact h

theorem iterPass_sound (ts : List IType) (c : Nat) (k : Nat) (vis : List String)
    (h : ∀ n ∈ vis, Passes ts c n) : ∀ n ∈ iterPass ts c k vis, Passes ts c n := by
  induction k generalizing vis with
  | zero => simpa [iterPass] using h
  | succ k ih => exact ih _ (ifacePass_sound ts c vis h)

theorem visibleSet_sound (D : Defects) (R : Registry) (c : Nat) :
    ∀ n ∈ visibleSet D R c, Passes R.types c n := by
  unfold visibleSet
  have h0 : ∀ n ∈ dfs R.types c (R.dirs.flatMap (fun d => inputKids c d.args)) [], Passes R.types c n :=
    dfs_sound _ _ _ _ (by simp)
  have h1 := dfs_sound R.types c (rootNames R) _ h0
  simp only
  split
  · exact ifacePass_sound _ _ _ h1
  · exact iterPass_sound _ _ _ _ h1

/-- a listed name is a visible name, and conversely -/
theorem mem_listed_introspect (D : Defects) (R : Registry) (c : Nat) (inc : Bool) (n : String) :
    n ∈ listed (introspect D R c inc) ↔ n ∈ visibleNames D R c := by
  simp only [listed, introspect, List.filterMap_map, List.mem_filterMap, List.mem_filter, Function.comp,
    typeT, Option.some.injEq]
  constructor
  · rintro ⟨t, ⟨_, hv⟩, rfl⟩
    simpa using hv
  · intro h
    have h' := h
    simp only [visibleNames, List.mem_map, List.mem_filter] at h'
    obtain ⟨t, ⟨ht, _⟩, rfl⟩ := h'
    exact ⟨t, ⟨ht, by simpa using h⟩, rfl⟩

end AGV.Lemmas.Introspect
