/-
  C18 — helper lemmas about the introspection model (Model/Introspect.lean, Spec/Introspect.lean).
-/
import AGV.Model.Introspect
import AGV.Spec.Introspect

namespace AGV.Lemmas.Introspect
open AGV AGV.Core AGV.Model.Introspect AGV.Spec.Introspect

theorem decodeRef_refT (ts : List IType) (ty : TypeRef) : decodeRef (refT ts ty) = ty := by
  induction ty with
  | named n => simp [refT, decodeRef]
  | list t ih => simp [refT, decodeRef, ih]
  | nonNull t ih => simp [refT, decodeRef, ih]

theorem refBase_refT (ts : List IType) (ty : TypeRef) : refBase (refT ts ty) = ty.base := by
  simp [refBase, decodeRef_refT]

/-- the property every name added by the search has: it names a registered type whose own rule passes -/
def Passes (ts : List IType) (c : Nat) (n : String) : Prop :=
  ∃ t, lookup ts n = some t ∧ t.vis.holds c = true

theorem dfs_sound (ts : List IType) (c : Nat) (st vis : List String)
    (h : ∀ n ∈ vis, Passes ts c n) : ∀ n ∈ dfs ts c st vis, Passes ts c n := by
  fun_induction dfs ts c st vis with
  | case1 vis => exact h
  | case2 n st vis hv ih => exact ih h
  | case3 n st vis hv hl ih => exact ih h
  | case4 n st vis hv t hl ht ih =>
    apply ih
    intro m hm
    rcases List.mem_cons.mp hm with rfl | hm
    · exact ⟨t, hl, ht⟩
    · exact h m hm
  | case5 n st vis hv t hl ht ih => exact ih h

theorem ifacePass_sound (ts : List IType) (c : Nat) (vis : List String)
    (h : ∀ n ∈ vis, Passes ts c n) : ∀ n ∈ ifacePass ts c vis, Passes ts c n := by
  unfold ifacePass
  generalize ts = l at h ⊢
  -- the fold runs over the registry `ts0` while searching in the same registry
  revert vis
  suffices H : ∀ (l' : List IType) (vis : List String), (∀ n ∈ vis, Passes l c n) →
      ∀ n ∈ l'.foldl (fun vis t =>
        if t.kind == .interface && t.vis.holds c && !vis.contains t.name && t.possible.any vis.contains
        then dfs l c [t.name] vis else vis) vis, Passes l c n from fun vis h => H l vis h
  intro l'
  induction l' with
  | nil => intro vis h; simpa using h
  | cons a l' ih =>
    intro vis h
    simp only [List.foldl_cons]
    apply ih
    split
    · exact dfs_sound l c _ vis h
    · exact h

theorem iterPass_sound (ts : List IType) (c : Nat) (k : Nat) (vis : List String)
    (h : ∀ n ∈ vis, Passes ts c n) : ∀ n ∈ iterPass ts c k vis, Passes ts c n := by
  induction k generalizing vis with
  | zero => simpa [iterPass] using h
  | succ k ih => exact ih _ (ifacePass_sound ts c vis h)

theorem visibleSet_sound (D : Defects) (R : Registry) (c : Nat) :
    ∀ n ∈ visibleSet D R c, Passes R.types c n := by
  unfold visibleSet
  have h0 : ∀ n ∈ dfs R.types c (R.dirs.flatMap (fun d => inputKids c d.args)) [], Passes R.types c n :=
    dfs_sound _ _ _ _ (by simp)
  have h1 := dfs_sound R.types c (rootNames R) _ h0
  simp only
  split
  · exact ifacePass_sound _ _ _ h1
  · exact iterPass_sound _ _ _ _ h1

/-- a listed name is a visible name, and conversely -/
theorem mem_listed_introspect (D : Defects) (R : Registry) (c : Nat) (inc : Bool) (n : String) :
    n ∈ listed (introspect D R c inc) ↔ n ∈ visibleNames D R c := by
  simp only [listed, introspect, List.filterMap_map, List.mem_filterMap, List.mem_filter, Function.comp,
    typeT, Option.some.injEq]
  constructor
  · rintro ⟨t, ⟨_, hv⟩, rfl⟩
    simpa using hv
  · intro h
    have h' := h
    simp only [visibleNames, List.mem_map, List.mem_filter] at h'
    obtain ⟨t, ⟨ht, _⟩, rfl⟩ := h'
    exact ⟨t, ⟨ht, by simpa using h⟩, rfl⟩

-- ------------------------------------------------------------------ completeness of the visibility search

theorem dfs_mono (ts : List IType) (c : Nat) (st vis : List String) :
    ∀ n ∈ vis, n ∈ dfs ts c st vis := by
  fun_induction dfs ts c st vis with
  | case1 vis => exact fun n h => h
  | case2 n st vis hv ih => exact ih
  | case3 n st vis hv hl ih => exact ih
  | case4 n st vis hv t hl ht ih => exact fun m hm => ih m (List.mem_cons_of_mem _ hm)
  | case5 n st vis hv t hl ht ih => exact ih

/-- every stacked name that passes ends up visited -/
theorem dfs_stack (ts : List IType) (c : Nat) (st vis : List String) :
    ∀ n ∈ st, Passes ts c n → n ∈ dfs ts c st vis := by
  fun_induction dfs ts c st vis with
  | case1 vis => intro n h; cases h
  | case2 n st vis hv ih =>
    intro m hm hp
    rcases List.mem_cons.mp hm with rfl | hm
    · exact dfs_mono _ _ _ _ _ (by simpa using hv)
    · exact ih m hm hp
  | case3 n st vis hv hl ih =>
    intro m hm hp
    rcases List.mem_cons.mp hm with rfl | hm
    · obtain ⟨t, ht, _⟩ := hp; rw [hl] at ht; cases ht
    · exact ih m hm hp
  | case4 n st vis hv t hl ht ih =>
    intro m hm hp
    rcases List.mem_cons.mp hm with rfl | hm
    · exact dfs_mono _ _ _ _ _ (List.mem_cons_self)
    · exact ih m (List.mem_append_right _ hm) hp
  | case5 n st vis hv t hl ht ih =>
    intro m hm hp
    rcases List.mem_cons.mp hm with rfl | hm
    · obtain ⟨t', ht', hv'⟩ := hp; rw [hl] at ht'; cases ht'; rw [hv'] at ht; exact absurd rfl ht
    · exact ih m hm hp

/-- search invariant: every passing child of a visited type is visited or stacked -/
def Inv (ts : List IType) (c : Nat) (st vis : List String) : Prop :=
  ∀ n ∈ vis, ∀ t, lookup ts n = some t → ∀ m ∈ children c t, Passes ts c m → m ∈ vis ∨ m ∈ st

/-- closed under children -/
def ChildClosed (ts : List IType) (c : Nat) (vis : List String) : Prop :=
  ∀ n ∈ vis, ∀ t, lookup ts n = some t → ∀ m ∈ children c t, Passes ts c m → m ∈ vis

theorem dfs_closed (ts : List IType) (c : Nat) (st vis : List String) (h : Inv ts c st vis) :
    ChildClosed ts c (dfs ts c st vis) := by
  fun_induction dfs ts c st vis with
  | case1 vis =>
    intro n hn t hl m hm hp
    rcases h n hn t hl m hm hp with h | h
    · exact h
    · cases h
  | case2 n st vis hv ih =>
    apply ih
    intro n' hn' t hl m hm hp
    rcases h n' hn' t hl m hm hp with h | h
    · exact Or.inl h
    · rcases List.mem_cons.mp h with rfl | h
      · exact Or.inl (by simpa using hv)
      · exact Or.inr h
  | case3 n st vis hv hl ih =>
    apply ih
    intro n' hn' t hl' m hm hp
    rcases h n' hn' t hl' m hm hp with h | h
    · exact Or.inl h
    · rcases List.mem_cons.mp h with rfl | h
      · obtain ⟨t, ht, _⟩ := hp; rw [hl] at ht; cases ht
      · exact Or.inr h
  | case4 n st vis hv t hl ht ih =>
    apply ih
    intro n' hn' t' hl' m hm hp
    rcases List.mem_cons.mp hn' with rfl | hn'
    · rw [hl] at hl'; cases hl'
      exact Or.inr (List.mem_append_left _ hm)
    · rcases h n' hn' t' hl' m hm hp with h | h
      · exact Or.inl (List.mem_cons_of_mem _ h)
      · rcases List.mem_cons.mp h with rfl | h
        · exact Or.inl List.mem_cons_self
        · exact Or.inr (List.mem_append_right _ h)
  | case5 n st vis hv t hl ht ih =>
    apply ih
    intro n' hn' t' hl' m hm hp
    rcases h n' hn' t' hl' m hm hp with h | h
    · exact Or.inl h
    · rcases List.mem_cons.mp h with rfl | h
      · obtain ⟨t'', ht'', hv'⟩ := hp; rw [hl] at ht''; cases ht''; rw [hv'] at ht; exact absurd rfl ht
      · exact Or.inr h

theorem inv_of_closed {ts c vis} (st : List String) (h : ChildClosed ts c vis) : Inv ts c st vis :=
  fun n hn t hl m hm hp => Or.inl (h n hn t hl m hm hp)


/-- one step of the final loop of `find_visible_types` -/
def ifaceStep (ts : List IType) (c : Nat) (vis : List String) (t : IType) : List String :=
  if t.kind == .interface && t.vis.holds c && !vis.contains t.name && t.possible.any vis.contains
  then dfs ts c [t.name] vis else vis

theorem ifacePass_eq (ts : List IType) (c : Nat) (vis : List String) :
    ifacePass ts c vis = ts.foldl (ifaceStep ts c) vis := rfl

theorem dfs_single (ts : List IType) (c : Nat) (n : String) (vis : List String) :
    dfs ts c [n] vis = vis ∨ n ∈ dfs ts c [n] vis := by
  rw [dfs.eq_def]
  simp only
  split
  · left; simp [dfs]
  · split
    · left; simp [dfs]
    · split
      · right; exact dfs_mono _ _ _ _ _ List.mem_cons_self
      · left; simp [dfs]

theorem ifaceStep_mono (ts : List IType) (c : Nat) (vis : List String) (t : IType) :
    ∀ n ∈ vis, n ∈ ifaceStep ts c vis t := by
  unfold ifaceStep
  split
  · exact dfs_mono _ _ _ _
  · exact fun n h => h

theorem ifaceFold_mono (ts : List IType) (c : Nat) (l : List IType) (vis : List String) :
    ∀ n ∈ vis, n ∈ l.foldl (ifaceStep ts c) vis := by
  induction l generalizing vis with
  | nil => exact fun n h => h
  | cons a l ih => exact fun n h => ih _ n (ifaceStep_mono ts c vis a n h)

theorem ifaceStep_closed (ts : List IType) (c : Nat) (vis : List String) (t : IType)
    (h : ChildClosed ts c vis) : ChildClosed ts c (ifaceStep ts c vis t) := by
  unfold ifaceStep
  split
  · exact dfs_closed _ _ _ _ (inv_of_closed _ h)
  · exact h

theorem ifaceFold_closed (ts : List IType) (c : Nat) (l : List IType) (vis : List String)
    (h : ChildClosed ts c vis) : ChildClosed ts c (l.foldl (ifaceStep ts c) vis) := by
  induction l generalizing vis with
  | nil => exact h
  | cons a l ih => exact ih _ (ifaceStep_closed ts c vis a h)

/-- an interface that passes and has a visited possible type is visited after the pass -/
theorem ifaceFold_iface (ts : List IType) (c : Nat) (l : List IType) (vis : List String) (t : IType)
    (ht : t ∈ l) (hk : t.kind = .interface) (hv : t.vis.holds c = true) (p : String) (hp : p ∈ t.possible)
    (hpv : p ∈ vis) (hpass : Passes ts c t.name) : t.name ∈ l.foldl (ifaceStep ts c) vis := by
  induction l generalizing vis with
  | nil => cases ht
  | cons a l ih =>
    simp only [List.foldl_cons]
    rcases List.mem_cons.mp ht with rfl | ht
    · apply ifaceFold_mono
      unfold ifaceStep
      by_cases hin : t.name ∈ vis
      · split
        · exact dfs_mono _ _ _ _ _ hin
        · exact hin
      · have hany : t.possible.any vis.contains = true := by
          simp only [List.any_eq_true]; exact ⟨p, hp, by simpa using hpv⟩
        have e1 : (Kind.interface == Kind.interface) = true := by decide
        simp only [hk, hv, hany, e1, Bool.and_true, Bool.true_and]
        have : vis.contains t.name = false := by simpa using hin
        simp only [this, Bool.not_false, if_true]
        exact dfs_stack _ _ _ _ _ List.mem_cons_self hpass
    · exact ih _ ht (ifaceStep_mono ts c vis a p hpv)

theorem ifaceStep_fixed (ts : List IType) (c : Nat) (vis : List String) (t : IType)
    (h : ∀ n ∈ ifaceStep ts c vis t, n ∈ vis) : ifaceStep ts c vis t = vis := by
  unfold ifaceStep at h ⊢
  split
  · rename_i hc
    rw [if_pos hc] at h
    rcases dfs_single ts c t.name vis with he | hm
    · exact he
    · have := h _ hm
      simp at hc
      exact absurd this hc.1.2
  · rfl

theorem ifaceFold_fixed (ts : List IType) (c : Nat) (l : List IType) (vis : List String)
    (h : ∀ n ∈ l.foldl (ifaceStep ts c) vis, n ∈ vis) : l.foldl (ifaceStep ts c) vis = vis := by
  induction l generalizing vis with
  | nil => rfl
  | cons a l ih =>
    simp only [List.foldl_cons] at h ⊢
    have hs : ifaceStep ts c vis a = vis :=
      ifaceStep_fixed ts c vis a (fun n hn => h n (ifaceFold_mono ts c l _ n hn))
    rw [hs] at h ⊢
    exact ih vis h

theorem unvisited_lt_of_new (ts : List IType) (vis vis' : List String) (hsub : ∀ n ∈ vis, n ∈ vis')
    (n : String) (hn : n ∈ vis') (hn' : n ∉ vis) (t : IType) (hl : lookup ts n = some t) :
    unvisited ts vis' < unvisited ts vis := by
  obtain ⟨hm, hnm⟩ := lookup_some hl
  unfold unvisited
  apply filter_length_lt _ _ ts _ t hm
  · simp [hnm, hn']
  · simp [hnm, hn]
  · intro x hx
    simp at hx ⊢
    exact fun h => hx (hsub _ h)

theorem iterPass_fixed (ts : List IType) (c : Nat) (k : Nat) (vis : List String)
    (h : ifacePass ts c vis = vis) : iterPass ts c k vis = vis := by
  induction k with
  | zero => rfl
  | succ k ih => simp [iterPass, h, ih]

/-- after `unvisited` many passes the final loop has reached its fixed point -/
theorem iterPass_stable (ts : List IType) (c : Nat) (k : Nat) (vis : List String)
    (hp : ∀ n ∈ vis, Passes ts c n) (hk : unvisited ts vis ≤ k) :
    ifacePass ts c (iterPass ts c k vis) = iterPass ts c k vis := by
  induction k generalizing vis with
  | zero =>
    have : ifacePass ts c vis = vis := by
      rw [ifacePass_eq]
      apply ifaceFold_fixed
      intro n hn
      by_cases hin : n ∈ vis
      · exact hin
      · obtain ⟨t, hl, _⟩ := ifacePass_sound ts c vis hp n hn
        have := unvisited_lt_of_new ts vis _ (ifaceFold_mono ts c ts vis) n hn hin t hl
        omega
    simpa [iterPass] using this
  | succ k ih =>
    by_cases hsub : ∀ n ∈ ifacePass ts c vis, n ∈ vis
    · have hfix : ifacePass ts c vis = vis := ifaceFold_fixed ts c ts vis hsub
      rw [iterPass_fixed ts c _ vis hfix, hfix]
    · simp only [iterPass]
      apply ih _ (ifacePass_sound ts c vis hp)
      have ⟨n, hn⟩ := Classical.not_forall.mp hsub
      have ⟨hn1, hn2⟩ := Classical.not_imp.mp hn
      obtain ⟨t, hl, _⟩ := ifacePass_sound ts c vis hp n hn1
      have := unvisited_lt_of_new ts vis _ (ifaceFold_mono ts c ts vis) n hn1 hn2 t hl
      rw [← ifacePass_eq] at this
      omega

theorem unvisited_le (ts : List IType) (vis : List String) : unvisited ts vis ≤ ts.length := by
  unfold unvisited; exact List.length_filter_le _ _

theorem iterPass_mono (ts : List IType) (c : Nat) (k : Nat) (vis : List String) :
    ∀ n ∈ vis, n ∈ iterPass ts c k vis := by
  induction k generalizing vis with
  | zero => exact fun n h => h
  | succ k ih => exact fun n h => ih _ n (ifaceFold_mono ts c ts vis n h)

theorem iterPass_closed (ts : List IType) (c : Nat) (k : Nat) (vis : List String)
    (h : ChildClosed ts c vis) : ChildClosed ts c (iterPass ts c k vis) := by
  induction k generalizing vis with
  | zero => exact h
  | succ k ih => exact ih _ (ifaceFold_closed ts c ts vis h)


/-- the names the search starts from: argument types of the directives, then the root operation types -/
def searchRoots (R : Registry) (c : Nat) : List String :=
  R.dirs.flatMap (fun d => inputKids c d.args) ++ rootNames R

/-- declarative visibility: the least set of names of registered types whose own rule passes that
    contains the passing roots, the passing children (`children`: types of visible fields, of their
    visible arguments, of visible input fields, possible types) of its members, and every passing
    interface one of whose possible types is in the set -/
inductive Reach (ts : List IType) (c : Nat) (roots : List String) : String → Prop
  | root {n : String} : n ∈ roots → Passes ts c n → Reach ts c roots n
  | child {n m : String} {t : IType} : Reach ts c roots n → lookup ts n = some t → m ∈ children c t →
      Passes ts c m → Reach ts c roots m
  | iface {t : IType} {p : String} : t ∈ ts → t.kind = .interface → t.vis.holds c = true → p ∈ t.possible →
      Reach ts c roots p → Passes ts c t.name → Reach ts c roots t.name

theorem dfs_ind (ts : List IType) (c : Nat) (P : String → Prop)
    (hchild : ∀ n t m, P n → lookup ts n = some t → m ∈ children c t → Passes ts c m → P m)
    (st vis : List String) (hvis : ∀ n ∈ vis, P n) (hst : ∀ n ∈ st, Passes ts c n → P n) :
    ∀ n ∈ dfs ts c st vis, P n := by
  fun_induction dfs ts c st vis with
  | case1 vis => exact hvis
  | case2 n st vis hv ih => exact ih hvis (fun m hm => hst m (List.mem_cons_of_mem _ hm))
  | case3 n st vis hv hl ih => exact ih hvis (fun m hm => hst m (List.mem_cons_of_mem _ hm))
  | case4 n st vis hv t hl ht ih =>
    have hn : P n := hst n List.mem_cons_self ⟨t, hl, ht⟩
    apply ih
    · intro m hm
      rcases List.mem_cons.mp hm with rfl | hm
      · exact hn
      · exact hvis m hm
    · intro m hm hp
      rcases List.mem_append.mp hm with hm | hm
      · exact hchild n t m hn hl hm hp
      · exact hst m (List.mem_cons_of_mem _ hm) hp
  | case5 n st vis hv t hl ht ih => exact ih hvis (fun m hm => hst m (List.mem_cons_of_mem _ hm))

theorem ifaceFold_reach (ts : List IType) (c : Nat) (roots : List String) (l : List IType) (hl : ∀ t ∈ l, t ∈ ts)
    (vis : List String) (h : ∀ n ∈ vis, Reach ts c roots n) :
    ∀ n ∈ l.foldl (ifaceStep ts c) vis, Reach ts c roots n := by
  induction l generalizing vis with
  | nil => exact h
  | cons a l ih =>
    simp only [List.foldl_cons]
    apply ih (fun t ht => hl t (List.mem_cons_of_mem _ ht))
    unfold ifaceStep
    split
    · rename_i hc
      simp only [Bool.and_eq_true, List.any_eq_true] at hc
      obtain ⟨⟨⟨hk, hv⟩, _⟩, p, hp, hpv⟩ := hc
      apply dfs_ind ts c _ (fun n t m hn hl hm hp => Reach.child hn hl hm hp) _ _ h
      intro m hm hpass
      rcases List.mem_cons.mp hm with rfl | hm
      · have hk' : a.kind = .interface := by revert hk; cases a.kind <;> decide
        exact Reach.iface (hl a List.mem_cons_self) hk' hv hp (h p (by simpa using hpv)) hpass
      · cases hm
    · exact h

theorem iterPass_reach (ts : List IType) (c : Nat) (roots : List String) (k : Nat)
    (vis : List String) (h : ∀ n ∈ vis, Reach ts c roots n) :
    ∀ n ∈ iterPass ts c k vis, Reach ts c roots n := by
  induction k generalizing vis with
  | zero => exact h
  | succ k ih => exact ih _ (ifaceFold_reach ts c roots ts (fun _ h => h) vis h)

/-- soundness AND completeness of `find_visible_types` (iterated final loop): the computed set is
    exactly the declaratively reachable set -/
theorem visibleSet_iff (D : Defects) (hD : D.singlePass = false) (R : Registry) (c : Nat) (n : String) :
    n ∈ visibleSet D R c ↔ Reach R.types c (searchRoots R c) n := by
  unfold visibleSet
  simp only [hD, Bool.false_eq_true, if_false]
  generalize hv0 : dfs R.types c (R.dirs.flatMap (fun d => inputKids c d.args)) [] = v0
  generalize hv1 : dfs R.types c (rootNames R) v0 = v1
  have c0 : ChildClosed R.types c v0 := by
    rw [← hv0]; exact dfs_closed _ _ _ _ (fun n hn => by cases hn)
  have c1 : ChildClosed R.types c v1 := by
    rw [← hv1]; exact dfs_closed _ _ _ _ (inv_of_closed _ c0)
  have r0 : ∀ n ∈ v0, Reach R.types c (searchRoots R c) n := by
    rw [← hv0]
    apply dfs_ind R.types c _ (fun n t m hn hl hm hp => Reach.child hn hl hm hp)
    · intro n hn; cases hn
    · intro m hm hp; exact Reach.root (List.mem_append_left _ hm) hp
  have r1 : ∀ n ∈ v1, Reach R.types c (searchRoots R c) n := by
    rw [← hv1]
    apply dfs_ind R.types c _ (fun n t m hn hl hm hp => Reach.child hn hl hm hp) _ _ r0
    intro m hm hp; exact Reach.root (List.mem_append_right _ hm) hp
  have p1 : ∀ n ∈ v1, Passes R.types c n := by
    rw [← hv1, ← hv0]
    exact dfs_sound _ _ _ _ (dfs_sound _ _ _ _ (by simp))
  constructor
  · exact iterPass_reach _ _ _ _ _ r1 n
  · intro h
    induction h with
    | root hr hp =>
      apply iterPass_mono
      rcases List.mem_append.mp hr with hr | hr
      · rw [← hv1]; apply dfs_mono; rw [← hv0]; exact dfs_stack _ _ _ _ _ hr hp
      · rw [← hv1]; exact dfs_stack _ _ _ _ _ hr hp
    | child _ hl hm hp ih => exact iterPass_closed _ _ _ _ c1 _ ih _ hl _ hm hp
    | iface ht hk hv hp _ hpass ih =>
      rw [← iterPass_stable R.types c R.types.length v1 p1 (unvisited_le _ _), ifacePass_eq]
      exact ifaceFold_iface _ _ _ _ _ ht hk hv _ hp ih hpass

-- ------------------------------------------------------------------ `buildClient` inverts the resolvers

theorem dep_roundtrip (d : Dep) : (if d.is = true then Dep.yes d.reason else Dep.no) = d := by
  cases d <;> simp [Dep.is, Dep.reason]

theorem clientInput_inputT (ts : List IType) (a : IInput) :
    clientInput (inputT ts a) = { a with vis := .always } := by
  simp [clientInput, inputT, decodeRef_refT]
  exact dep_roundtrip _

theorem clientInputs_inputsT (ts : List IType) (vn : List String) (c : Nat) (as : List IInput) :
    (inputsT Defects.none ts vn c true as).map clientInput = restrictInputs vn c as := by
  simp only [inputsT, restrictInputs, List.map_map, tyListed, Defects.none, Bool.false_or, Bool.true_or, Bool.true_and]
  congr 1
  funext a
  exact clientInput_inputT ts a

theorem clientField_fieldT (ts : List IType) (vn : List String) (c : Nat) (f : IField) :
    clientField (fieldT Defects.none ts vn c true f) =
      { f with vis := .always, args := restrictInputs vn c f.args } := by
  simp [clientField, fieldT, decodeRef_refT, clientInputs_inputsT]
  exact dep_roundtrip _

theorem clientFields_fieldsT (ts : List IType) (vn : List String) (c : Nat) (fs : List IField) :
    (fieldsT Defects.none ts vn c true fs).map clientField = restrictFields vn c fs := by
  simp only [fieldsT, restrictFields, List.map_map, tyListed, Defects.none, Bool.false_or, Bool.true_or, Bool.and_true]
  congr 1
  funext f
  exact clientField_fieldT ts vn c f

theorem clientEnumVals (c : Nat) (vs : List IEnumVal) :
    (enumValsT c true vs).map (fun v =>
      ({ name := v.name, desc := v.desc, dep := if v.isDep then .yes v.reason else .no, vis := .always } : IEnumVal))
    = (vs.filter (fun v => v.vis.holds c)).map (fun v => { v with vis := .always }) := by
  simp only [enumValsT, List.map_map, Bool.true_or, Bool.and_true]
  congr 1
  funext v
  simp [dep_roundtrip]

theorem namedRefs_base (ts : List IType) (vn ns : List String) :
    (namedRefs ts vn ns).map refBase = ns.filter vn.contains := by
  simp [namedRefs, refBase_refT, TypeRef.base, Function.comp_def]

theorem clientKind_kindName (k : Kind) : clientKind (kindName k) = some k := by
  cases k <;> rfl

theorem mapM_some_of_forall {α β} (f : α → Option β) (g : α → β) (l : List α) (h : ∀ x ∈ l, f x = some (g x)) :
    l.mapM f = some (l.map g) := by
  induction l with
  | nil => rfl
  | cons a l ih =>
    simp [List.mapM_cons, h a List.mem_cons_self, ih (fun x hx => h x (List.mem_cons_of_mem _ hx))]

theorem lookup_of_nodup (ts : List IType) (h : (ts.map (·.name)).Nodup) (t : IType) (ht : t ∈ ts) :
    lookup ts t.name = some t := by
  induction ts with
  | nil => cases ht
  | cons a ts ih =>
    simp only [List.map_cons, List.nodup_cons] at h
    rcases List.mem_cons.mp ht with rfl | ht
    · simp [lookup]
    · have : a.name ≠ t.name := by
        intro e; exact h.1 (e ▸ List.mem_map_of_mem ht)
      have ih' := ih h.2 ht
      unfold lookup at ih' ⊢
      simp [this, ih']


-- ------------------------------------------------------------------ the registry built from a description

theorem register_name (D : Defects) (fl : Flavour) (all : List IType) (t : IType) :
    (register D fl all t).name = t.name := by
  unfold register; split <;> rfl

theorem register_kind (D : Defects) (fl : Flavour) (all : List IType) (t : IType) :
    (register D fl all t).kind = t.kind := by
  unfold register; split <;> simp_all

theorem mkRegistry_types (D : Defects) (fl : Flavour) (d : Desc) :
    (mkRegistry D fl d).types = (sortTypes (allTypes d)).map (register D fl (allTypes d)) := by
  simp only [mkRegistry, sortTypes]
  exact (List.map_mergeSort (fun a _ b _ => by simp [register_name])).symm

theorem lookup_mkRegistry (D : Defects) (fl : Flavour) (d : Desc)
    (hnd : ((allTypes d).map (·.name)).Nodup) (u : IType) (hu : u ∈ allTypes d) :
    lookup (mkRegistry D fl d).types u.name = some (register D fl (allTypes d) u) := by
  have hmem : register D fl (allTypes d) u ∈ (mkRegistry D fl d).types := by
    simp only [mkRegistry, sortTypes, List.mem_mergeSort]
    exact List.mem_map_of_mem hu
  have hn : ((mkRegistry D fl d).types.map (·.name)).Nodup := by
    have hp : (mkRegistry D fl d).types.Perm ((allTypes d).map (register D fl (allTypes d))) := by
      simp only [mkRegistry, sortTypes]; exact List.mergeSort_perm _ _
    rw [(hp.map _).nodup_iff, List.map_map]
    have : ((fun t : IType => t.name) ∘ register D fl (allTypes d)) = (fun t => t.name) := by
      funext t; simp [register_name]
    rw [this]; exact hnd
  have := lookup_of_nodup _ hn _ hmem
  rwa [register_name] at this

/-- all names resolve to OBJECT types of the registry -/
def ObjNames (ts : List IType) (ns : List String) : Prop :=
  ∀ n ∈ ns, ∃ u, lookup ts n = some u ∧ u.kind = .object

theorem namedRefs_objects (ts : List IType) (vn ns : List String) (h : ObjNames ts ns) :
    (namedRefs ts vn ns).any (fun r => refKind r != "OBJECT") = false := by
  rw [List.any_eq_false]
  intro r hr
  simp only [namedRefs, List.mem_map, List.mem_filter] at hr
  obtain ⟨n, ⟨hn, _⟩, rfl⟩ := hr
  obtain ⟨u, hl, hk⟩ := h n hn
  simp [refT, hl, hk, refKind, kindName]


/-- well-formed description: type names are unique in the registry (it is a map keyed by name) and
    union members name OBJECT types (enforced by the derive macro and by the dynamic builder) -/
def WellFormed (d : Desc) : Prop :=
  ((allTypes d).map (·.name)).Nodup ∧
    ∀ t ∈ allTypes d, t.kind = .union → ∀ m ∈ t.members, ∃ u ∈ allTypes d, u.name = m ∧ u.kind = .object

theorem kind_beq (a b : Kind) : (a == b) = decide (a = b) := by cases a <;> cases b <;> decide

/-- `buildClient`'s per-type decoder inverts the `__Type` resolver -/
theorem clientType_typeT (fl : Flavour) (d : Desc) (hwf : WellFormed d) (vn : List String) (c : Nat)
    (t : IType) (ht : t ∈ allTypes d) :
    clientType (typeT Defects.none (mkRegistry Defects.none fl d).types vn c true
        (register Defects.none fl (allTypes d) t)) = some (restrictType (allTypes d) vn c t) := by
  have hposs : ∀ ns, ObjNames (mkRegistry Defects.none fl d).types ns →
      (namedRefs (mkRegistry Defects.none fl d).types vn ns).any (fun r => refKind r != "OBJECT") = false :=
    fun ns h => namedRefs_objects _ vn ns h
  have hlk := lookup_mkRegistry Defects.none fl d hwf.1
  have n1 : Defects.none.interfacesNull = false := rfl
  have n2 : Defects.none.dynIfaceImplDropped = false := rfl
  have n3 : Defects.none.possibleListsInterfaces = false := rfl
  cases hk : t.kind
  case union =>
    have hobj : ObjNames (mkRegistry Defects.none fl d).types t.members := by
      intro m hm
      obtain ⟨u, hu, rfl, huk⟩ := hwf.2 t ht hk m hm
      exact ⟨_, hlk u hu, by rw [register_kind]; exact huk⟩
    simp [clientType, typeT, register, hk, kind_beq, restrictType, hposs _ hobj,
      namedRefs_base, kindName, clientKind]
  case interface =>
    have hobj : ObjNames (mkRegistry Defects.none fl d).types
        (sortNames (((allTypes d).filter (isPossibleOf Defects.none fl t.name)).map (·.name))) := by
      intro m hm
      simp only [sortNames, List.mem_mergeSort, List.mem_map, List.mem_filter] at hm
      obtain ⟨u, ⟨hu, hp⟩, rfl⟩ := hm
      refine ⟨_, hlk u hu, ?_⟩
      rw [register_kind]
      simp [isPossibleOf, n3, kind_beq] at hp
      exact hp.2
    have hfilt : (allTypes d).filter (isPossibleOf Defects.none fl t.name) =
        (allTypes d).filter (fun u => u.kind == .object && u.implements.contains t.name) := by
      congr 1; funext u; simp [isPossibleOf, n3, Bool.and_comm]
    rw [hfilt] at hobj
    have hp2 := hposs _ hobj
    simp only [List.any_eq_false, bne_iff_ne, ne_eq, Decidable.not_not, kind_beq] at hp2
    simp [clientType, typeT, register, hk, kind_beq, restrictType,
      namedRefs_base, kindName, clientKind, clientFields_fieldsT, n1, n2, implementors, hfilt]
    simpa using hp2
  all_goals
    simp [clientType, typeT, register, hk, kind_beq, restrictType,
      namedRefs_base, kindName, clientKind, clientFields_fieldsT, clientInputs_inputsT, clientEnumVals, n1]

theorem builtin_listed (D : Defects) (fl : Flavour) (d : Desc) (c : Nat) (n : String) (hn : n ∈ builtinScalarNames) :
    n ∈ visibleNames D (mkRegistry D fl d) c := by
  simp only [visibleNames, List.mem_map, List.mem_filter]
  have hsys : isSystem n = true := by simp [isSystem, hn]
  have : ∃ t ∈ allTypes d, t.name = n := by
    by_cases h : d.types.any (·.name == n) = true
    · simp only [List.any_eq_true, beq_iff_eq] at h
      obtain ⟨t, ht, he⟩ := h
      exact ⟨t, by simp [allTypes, ht], he⟩
    · refine ⟨{ name := n, kind := .scalar }, ?_, rfl⟩
      simp only [allTypes, List.mem_append, List.mem_map, List.mem_filter]
      left; right
      exact ⟨n, ⟨hn, by simpa using h⟩, rfl⟩
  obtain ⟨t, ht, rfl⟩ := this
  refine ⟨register D fl (allTypes d) t, ⟨?_, ?_⟩, register_name _ _ _ _⟩
  · simp only [mkRegistry, sortTypes, List.mem_mergeSort]; exact List.mem_map_of_mem ht
  · simp [register_name, hsys]

theorem dir_refs (ts : List IType) :
    builtinDirectives.flatMap (fun d => inputRefs (dirArgsT ts true d.args)) = ["String", "Boolean", "Boolean", "String"] := by
  simp [builtinDirectives, inputRefs, dirArgsT, inputT, refBase_refT, nn]
  decide


-- ------------------------------------------------------------------ unfolding the search on concrete registries

theorem dfs_nil (ts : List IType) (c : Nat) (vis : List String) : dfs ts c [] vis = vis := by
  rw [dfs.eq_def]

theorem dfs_seen (ts : List IType) (c : Nat) (n : String) (st vis : List String) (h : vis.contains n = true) :
    dfs ts c (n :: st) vis = dfs ts c st vis := by
  rw [dfs.eq_def]; simp only [h, dite_true]

theorem dfs_visit (ts : List IType) (c : Nat) (n : String) (st vis : List String) (t : IType)
    (h : vis.contains n = false) (hl : lookup ts n = some t) (hv : t.vis.holds c = true) :
    dfs ts c (n :: st) vis = dfs ts c (children c t ++ st) (n :: vis) := by
  rw [dfs.eq_def]
  simp only [h, Bool.false_eq_true, dite_false]
  split
  · rename_i hn; rw [hl] at hn; cases hn
  · rename_i t' hn; rw [hl] at hn; cases hn; simp only [hv, if_true]

end AGV.Lemmas.Introspect
