/-
  The request-level refinement of property C06 for documents whose arguments are variables or
  variable-free literals: one argument (`paramValue_eq`), one field (`paramValues_eq`,
  `argInvalid_coerceArg`), the root fields in order (`exec_spec`), the request
  (`ReqHyp.request_none`, `ReqHyp.request_some`).
-/
import AGV.Lemmas.CoerceLit

namespace AGV.Lemmas.Coerce
open AGV.Core
open AGV.Spec.Coerce
open AGV.Model.Coerce

-- ------------------------------------------------------------------ one argument

theorem c06_absent' (rty : RTy) :
    parseAbsent Defects.none rty = if rty.gql.isNonNull then none else some (viewAbsent rty) := by
  cases rty with
  | mu t => simp [parseAbsent, viewAbsent, RTy.gql, gql_nullable_not_nonNull]
  | opt t => simp [parseAbsent, viewAbsent, parseNull_repaired]
  | vec t => simp [parseAbsent, viewAbsent, parseNull_repaired]
  | named n => simp [parseAbsent, viewAbsent, parseNull_repaired]

theorem compat_not_nonNull (a l : TypeRef) (ha : ∀ x, a ≠ .nonNull x) (h : compatible a l = true) :
    ∀ x, l ≠ .nonNull x := by
  intro x e; subst e
  cases a with
  | nonNull y => exact ha y rfl
  | named n => simp [compatible] at h
  | list t => simp [compatible] at h

/-- §5.8.5: a non-null value that coerces at the variable's type coerces alike at the position -/
theorem usage_coerce (T : Table) (j : Bool) (vd : VarDef) (loc : TypeRef) (hd : Bool) (v c : GValue)
    (hu : usageAllowed vd loc hd = true) (hv : v ≠ .null) (h : coerce T j vd.ty v = some c) :
    coerce T j loc v = some c := by
  unfold usageAllowed at hu
  split at hu
  · exact compat_coerce T j v _ _ c hu h
  · rename_i _ l hnn
    simp only [Bool.and_eq_true] at hu
    have hl := compat_not_nonNull vd.ty l (fun x e => hnn x e) hu.2
    have := compat_coerce T j v _ _ c hu.2 h
    rw [coerce_congr T j (.nonNull l) l v hv (by cases l <;> simp_all [TypeRef.nullable])]
    exact this
  · exact compat_coerce T j v _ _ c hu h


/-- the field defaults of the table denote the Rust defaults -/
def fieldDefaultsOk (T : Table) : Prop :=
  ∀ n o fs f d, T.find? n = some (.input o fs) → f ∈ fs → f.default = some d →
    fieldDefault Defects.none T f d = some (view T f.ty d)

theorem parse_of_coerce (T : Table) (hw : wfTable2 T = true) (hdf : fieldDefaultsOk T) (rty : RTy)
    (v c : GValue) (hc : coerce T true rty.gql v = some c) (hdk : distinctKeys v = true) :
    parseD Defects.none T rty v = some (view T rty c) := by
  have := parse_value T (fieldDefault Defects.none T) (wfTable2_wf hw) hdf v rty
    (coerce_shapeOk T true v rty.gql c hc hdk)
  simp only [parseD, this, hc, Option.map_some]

/-- the same for the repaired `parse` of a supplied value (`parseK`: undeclared keys refused): a
    value the specification coerces carries declared keys only -/
theorem parseK_of_coerce (T : Table) (hw : wfTable2 T = true) (hdf : fieldDefaultsOk T) (rty : RTy)
    (v c : GValue) (hc : coerce T true rty.gql v = some c) (hdk : distinctKeys v = true) :
    parseK Defects.none T rty v = some (view T rty c) := by
  rw [parseK_of_shapeOk _ _ _ _ (coerce_shapeOk T true v rty.gql c hc hdk)]
  exact parse_of_coerce T hw hdf rty v c hc hdk

/-- everything the request-level argument needs to know about the variables -/
structure VarCtx (T : Table) (defs : List VarDef) (raw vars : List (String × GValue)) : Prop where
  nodup : nodupB (defs.map (·.name)) = true
  cv : coerceVars T defs raw = some vars
  rawKeys : ∀ p ∈ raw, distinctKeys p.2 = true
  defKeys : ∀ vd ∈ defs, ∀ d, vd.default = some d → distinctKeys d = true

theorem effVal_keys {T : Table} {defs : List VarDef} {raw vars : List (String × GValue)}
    (C : VarCtx T defs raw vars) (vd : VarDef) (hvd : vd ∈ defs) (v : GValue) (h : effVal vd raw = some v) :
    distinctKeys v = true := by
  unfold effVal at h
  split at h
  · rename_i w hl
    cases h
    exact C.rawKeys _ (lookup_mem _ _ _ hl)
  · exact C.defKeys vd hvd v h

theorem absent_eq (T : Table) (a : InField)
    (hda : ∀ d, a.default = some d → parseD Defects.none T a.ty d = some (view T a.ty d)) :
    (match a.default with
      | some d => parseD Defects.none T a.ty d
      | none => parseAbsent Defects.none a.ty) =
    (match a.default with
      | some d => some (some d)
      | none => if a.ty.gql.isNonNull then none else some none).map (viewArg T a.ty) := by
  cases hdef : a.default with
  | some d => simp [hda d hdef, viewArg]
  | none =>
    have := c06_absent' a.ty
    by_cases hnn : a.ty.gql.isNonNull = true <;> simp [this, hnn, viewArg]

def flatArg : DValue → Bool
  | .var _ => true
  | dv => noVars dv


theorem null_parse (T : Table) (rty : RTy) :
    parseD Defects.none T rty .null = if rty.gql.isNonNull then none else some RV.null := by
  simp [parseD, parseWith, parseNull_repaired]

/-- **One argument**: `get_param_value` delivers the view of CoerceArgumentValues' entry -/
theorem paramValue_eq (T : Table) (hw : wfTable2 T = true) (hdf : fieldDefaultsOk T)
    (defs : List VarDef) (raw vars : List (String × GValue)) (C : VarCtx T defs raw vars)
    (provided : List (String × DValue)) (a : InField)
    (hda : ∀ d, a.default = some d → parseD Defects.none T a.ty d = some (view T a.ty d))
    (hlit : ∀ dv, lookup provided a.name = some dv →
      litOk T defs a.ty.gql a.default.isSome dv = true ∧ flatArg dv = true) :
    paramValue Defects.none T defs raw provided a = (coerceArg T vars provided a).map (viewArg T a.ty) := by
  have habs : ∀ (x : Option RV) (y : Option (Option GValue)),
      x = (match a.default with
        | some d => parseD Defects.none T a.ty d
        | none => parseAbsent Defects.none a.ty) →
      y = (match a.default with
        | some d => some (some d)
        | none => if a.ty.gql.isNonNull then none else some none) → x = y.map (viewArg T a.ty) := by
    intro x y hx hy; subst hx; subst hy
    cases hdef : a.default with
    | some d => simp [hda d hdef, viewArg]
    | none =>
      have := c06_absent' a.ty
      by_cases hnn : a.ty.gql.isNonNull = true <;> simp [this, hnn, viewArg]
  cases hl : lookup provided a.name with
  | none => simp only [paramValue, coerceArg, hl]; exact habs _ _ rfl rfl
  | some dv =>
    obtain ⟨hlk, hfl⟩ := hlit dv hl
    have constCase : noVars dv = true → (∀ n, dv ≠ .var n) →
        paramValue Defects.none T defs raw provided a = (coerceArg T vars provided a).map (viewArg T a.ty) := by
      intro hnv hne
      obtain ⟨⟨c, hc⟩, hdk⟩ := lit_coerce T defs dv a.ty.gql _ hlk hnv
      have hp := parseK_of_coerce T hw hdf a.ty _ c (coerce_mono T _ _ _ hc) hdk
      have hr := resolve_const defs raw dv hnv
      have hs := subst_const vars dv hnv
      cases dv with
      | var n => exact absurd rfl (hne n)
      | _ => simp [paramValue, coerceArg, hl, hr, hs, hp, hc, viewArg]
    cases dv with
    | var n =>
      simp only [litOk] at hlk
      cases hfind : defs.find? (·.name = n) with
      | none => simp [hfind] at hlk
      | some vd =>
        simp only [hfind] at hlk
        have hvd : vd ∈ defs := List.mem_of_find?_eq_some hfind
        have hres : resolve defs raw (.var n) = effVal vd raw := by
          simp [resolve, varValue_find defs raw n vd hfind]
        obtain ⟨hnone, hsome⟩ := coerceVars_lookup T raw defs vars C.nodup C.cv n vd hfind
        cases hev : effVal vd raw with
        | none =>
          simp only [paramValue, coerceArg, hl, hres, hev, hnone hev]
          have hD : Defects.none.omittedVarSkipsArgDefault = false := rfl
          simp only [hD, Bool.false_eq_true, if_false]
          exact habs _ _ rfl rfl
        | some v =>
          obtain ⟨c, hc, hlv⟩ := hsome v hev
          by_cases hv : v = .null
          · subst hv
            have := coerce_null_inv T true _ c hc
            subst this
            simp only [paramValue, coerceArg, hl, hres, hev, hlv, parseK_null, null_parse]
            by_cases hnn : a.ty.gql.isNonNull = true <;> simp [hnn, viewArg, view]
          · have hcne := coerce_ne_null T true _ v c hv hc
            have hc' := usage_coerce T true vd a.ty.gql _ v c hlk hv hc
            have hp := parseK_of_coerce T hw hdf a.ty v c hc' (effVal_keys C vd hvd v hev)
            simp only [paramValue, coerceArg, hl, hres, hev, hlv, hp]
            rfl
    | null => exact constCase hfl (by simp)
    | int i => exact constCase hfl (by simp)
    | float i => exact constCase hfl (by simp)
    | str i => exact constCase hfl (by simp)
    | bool i => exact constCase hfl (by simp)
    | enum i => exact constCase hfl (by simp)
    | list xs => exact constCase hfl (by simp)
    | obj fs => exact constCase hfl (by simp)


-- ------------------------------------------------------------------ one field

theorem paramValues_eq (T : Table) (defs : List VarDef) (raw vars : List (String × GValue))
    (provided : List (String × DValue)) : ∀ (as : List InField),
    nodupB (as.map (·.name)) = true →
    (∀ a ∈ as, paramValue Defects.none T defs raw provided a =
      (coerceArg T vars provided a).map (viewArg T a.ty)) →
    paramValues Defects.none T defs raw provided as =
      (coerceArgs T vars provided as).map (fun cs =>
        as.map (fun a => (a.name, viewArg T a.ty ((lookup cs a.name).getD none))))
  | [], _, _ => by simp [paramValues, coerceArgs]
  | a :: as, hn, h => by
    simp only [List.map_cons, nodupB_cons] at hn
    have ih := paramValues_eq T defs raw vars provided as hn.2 (fun a' ha' => h a' (by simp [ha']))
    simp only [paramValues, coerceArgs, h a (by simp), ih]
    cases h1 : coerceArg T vars provided a with
    | none => simp
    | some v =>
      cases h2 : coerceArgs T vars provided as with
      | none => simp
      | some rest =>
        simp only [Option.map_some, List.map_cons, lookup_cons, if_true, Option.getD_some]
        congr 2
        apply List.map_congr_left
        intro a' ha'
        have : a.name ≠ a'.name := fun e => hn.1 (e ▸ List.mem_map_of_mem ha')
        rw [if_neg this]

theorem coerceArgs_none (T : Table) (vars : List (String × GValue)) (provided : List (String × DValue)) :
    ∀ (as : List InField) (a : InField), a ∈ as → coerceArg T vars provided a = none →
      coerceArgs T vars provided as = none
  | [], _, h, _ => by simp at h
  | b :: as, a, h, hn => by
    simp only [coerceArgs]
    rcases List.mem_cons.mp h with rfl | h
    · simp [hn]
    · rw [coerceArgs_none T vars provided as a h hn]
      cases coerceArg T vars provided b <;> rfl

/-- ArgumentsOfCorrectType / ProvidedNonNullArguments refuse a valid flat argument only when
    CoerceArgumentValues fails on it (null for a non-null position through a variable) -/
theorem argInvalid_coerceArg (T : Table) (hw : wfTable2 T = true)
    (defs : List VarDef) (raw vars : List (String × GValue)) (C : VarCtx T defs raw vars)
    (provided : List (String × DValue)) (a : InField)
    (hreq : lookup provided a.name = none → (!a.ty.gql.isNonNull || a.default.isSome) = true)
    (hlit : ∀ dv, lookup provided a.name = some dv →
      litOk T defs a.ty.gql a.default.isSome dv = true ∧ flatArg dv = true)
    (hinv : fieldValid Defects.none T raw ⟨"", [a]⟩ provided = false) :
    coerceArg T vars provided a = none := by
  simp only [fieldValid, List.all_cons, List.all_nil, Bool.and_true] at hinv
  cases hl : lookup provided a.name with
  | none => simp [hl, hreq hl] at hinv
  | some dv =>
    obtain ⟨hlk, hfl⟩ := hlit dv hl
    simp only [hl] at hinv
    have constCase : noVars dv = true → False := by
      intro hnv
      obtain ⟨⟨c, hc⟩, _⟩ := lit_coerce T defs dv a.ty.gql _ hlk hnv
      have := coerce_valid Defects.none.nonObjectPassesInputObject T hw _ _ c (coerce_mono T _ _ _ hc)
      simp [toConst_const raw dv hnv, this] at hinv
    cases dv with
    | var n =>
      simp only [litOk] at hlk
      cases hfind : defs.find? (·.name = n) with
      | none => simp [hfind] at hlk
      | some vd =>
        simp only [hfind] at hlk
        have hname : vd.name = n := by simpa using List.find?_some hfind
        obtain ⟨_, hsome⟩ := coerceVars_lookup T raw defs vars C.nodup C.cv n vd hfind
        simp only [toConst] at hinv
        cases hr : lookup raw n with
        | none => simp [hr, isValidP] at hinv
        | some v =>
          simp only [hr] at hinv
          have hev : effVal vd raw = some v := by simp [effVal, hname, hr]
          obtain ⟨c, hc, hlv⟩ := hsome v hev
          by_cases hv : v = .null
          · subst hv
            have := coerce_null_inv T true _ c hc
            subst this
            simp only [isValid, Bool.not_eq_false'] at hinv
            simp [coerceArg, hl, hlv, hinv]
          · have hc' := usage_coerce T true vd a.ty.gql _ v c hlk hv hc
            have := coerce_valid Defects.none.nonObjectPassesInputObject T hw _ _ c hc'
            rw [this] at hinv; cases hinv
    | null => exact (constCase hfl).elim
    | int i => exact (constCase hfl).elim
    | float i => exact (constCase hfl).elim
    | str i => exact (constCase hfl).elim
    | bool i => exact (constCase hfl).elim
    | enum i => exact (constCase hfl).elim
    | list xs => exact (constCase hfl).elim
    | obj fs => exact (constCase hfl).elim

-- ------------------------------------------------------------------ the root fields in order

abbrev Root := String × String × List (String × DValue)

/-- what the specification requires of one root field -/
def specOf (T : Table) (vars : List (String × GValue)) (r : Root) : Option (List (String × RV)) :=
  (T.field? r.2.1).bind (fieldArgs T vars r.2.2)

/-- what the code computes for one root field -/
def implOf (T : Table) (defs : List VarDef) (raw : List (String × GValue)) (r : Root) :
    Option (List (String × RV)) :=
  (T.field? r.2.1).bind (fun sig => paramValues Defects.none T defs raw r.2.2 sig.args)

def isSeen : Outcome → Bool
  | .seen _ => true
  | _ => false

theorem request_eq (T : Table) (op : OpDef) (raw vars : List (String × GValue))
    (h : coerceVars T op.vars raw = some vars) :
    request T op raw = some ((rootFields op).map (fun r => (r.1, specOf T vars r))) := by
  simp only [request, h, rootFields, List.map_filterMap, Option.some.injEq]
  congr 1
  funext s
  cases s <;> rfl

theorem exec_true (T : Table) (defs : List VarDef) (raw : List (String × GValue)) : ∀ (R : List Root),
    execFields Defects.none T defs raw R true = R.map (fun r => (r.1, Outcome.notInvoked))
  | [] => rfl
  | (key, n, args) :: rest => by simp [execFields, exec_true T defs raw rest]

theorem exec_spec (T : Table) (defs : List VarDef) (raw vars : List (String × GValue)) :
    ∀ (R : List Root) (b : Bool),
    (∀ r ∈ R, implOf T defs raw r = specOf T vars r) →
    (∀ p ∈ (R.map (fun r => (r.1, specOf T vars r))).zip (execFields Defects.none T defs raw R b),
      p.1.1 = p.2.1 ∧
      (∀ args, p.1.2 = some args → p.2.2 = .seen args ∨
        ((b = true ∨ R.any (fun r => (specOf T vars r).isNone) = true) ∧ (p.2.2 = .err ∨ p.2.2 = .notInvoked))) ∧
      (p.1.2 = none → p.2.2 = .err ∨ p.2.2 = .notInvoked)) ∧
    (b = false → (execFields Defects.none T defs raw R b).all (fun o => isSeen o.2) =
      R.all (fun r => (specOf T vars r).isSome))
  | [], b, _ => by simp [execFields]
  | (key, n, args) :: rest, true, h => by
    have ih := exec_spec T defs raw vars rest true (fun r hr => h r (by simp [hr]))
    refine ⟨?_, by simp⟩
    intro p hp
    simp only [execFields, List.map_cons, List.zip_cons_cons, List.mem_cons] at hp
    rcases hp with rfl | hp
    · refine ⟨rfl, ?_, by simp⟩
      intro args _; right; simp
    · obtain ⟨h1, h2, h3⟩ := ih.1 p hp
      refine ⟨h1, ?_, h3⟩
      intro args ha
      rcases h2 args ha with h2 | h2
      · exact Or.inl h2
      · exact Or.inr ⟨Or.inl rfl, h2.2⟩
  | (key, n, args) :: rest, false, h => by
    have hhead := h (key, n, args) (by simp)
    simp only [implOf] at hhead
    cases hs : specOf T vars (key, n, args) with
    | some vs =>
      have ih := exec_spec T defs raw vars rest false (fun r hr => h r (by simp [hr]))
      rw [hs] at hhead
      simp only [execFields, hhead, List.map_cons, List.zip_cons_cons, List.mem_cons, List.any_cons,
        List.all_cons, hs]
      refine ⟨?_, ?_⟩
      · intro p hp
        rcases hp with rfl | hp
        · refine ⟨rfl, ?_, by simp⟩
          intro args ha; left; simp at ha; simp [ha]
        · obtain ⟨h1, h2, h3⟩ := ih.1 p hp
          refine ⟨h1, ?_, h3⟩
          intro args ha
          rcases h2 args ha with h2 | h2
          · exact Or.inl h2
          · right
            refine ⟨Or.inr ?_, h2.2⟩
            rcases h2.1 with h | h
            · cases h
            · simp [h]
      · intro _; rw [← ih.2 rfl]; rfl
    | none =>
      have ih := exec_spec T defs raw vars rest true (fun r hr => h r (by simp [hr]))
      rw [hs] at hhead
      simp only [execFields, hhead, List.map_cons, List.zip_cons_cons, List.mem_cons, List.any_cons,
        List.all_cons, hs]
      refine ⟨?_, ?_⟩
      · intro p hp
        rcases hp with rfl | hp
        · refine ⟨rfl, by simp, by simp⟩
        · obtain ⟨h1, h2, h3⟩ := ih.1 p hp
          refine ⟨h1, ?_, h3⟩
          intro args ha
          rcases h2 args ha with h2 | h2
          · exact Or.inl h2
          · exact Or.inr ⟨Or.inr (by simp), h2.2⟩
      · intro _; simp [isSeen]

-- ------------------------------------------------------------------ what a valid document provides

/-- every argument of every root field is a variable or a literal without variables -/
def flatOp (op : OpDef) : Bool := (rootFields op).all (fun r => r.2.2.all (fun a => flatArg a.2))

theorem docOk_vars (T : Table) (op : OpDef) (h : docOk T op = true) :
    nodupB (op.vars.map (·.name)) = true ∧
    ∀ vd ∈ op.vars, ∀ d, vd.default = some d →
      (∃ c, coerce T false vd.ty d = some c) ∧ distinctKeys d = true := by
  simp only [docOk, Bool.and_eq_true, List.all_eq_true] at h
  refine ⟨h.1.1, ?_⟩
  intro vd hvd d hd
  have := h.1.2 vd hvd
  simp only [hd] at this
  have := lit_coerce T [] (litOf d) vd.ty false this (litOf_const d).1
  rwa [(litOf_const d).2] at this

theorem docOk_root (T : Table) (op : OpDef) (h : docOk T op = true) :
    ∀ r ∈ rootFields op, ∃ sig, T.field? r.2.1 = some sig ∧
      (∀ p ∈ r.2.2, ∃ d, sig.args.find? (·.name = p.1) = some d ∧
        litOk T op.vars d.ty.gql d.default.isSome p.2 = true) ∧
      (∀ d ∈ sig.args, ((lookup r.2.2 d.name).isSome || !d.ty.gql.isNonNull || d.default.isSome) = true) := by
  simp only [docOk, Bool.and_eq_true, List.all_eq_true] at h
  intro r hr
  simp only [rootFields, List.mem_filterMap] at hr
  obtain ⟨s, hs, hsr⟩ := hr
  have := h.2 s hs
  cases s with
  | spread _ _ _ => cases hsr
  | inline _ _ _ _ => cases hsr
  | field al n args dirs sels pos =>
    simp only [Option.some.injEq] at hsr
    subst hsr
    simp only at this ⊢
    cases hf : T.field? n with
    | none => simp [hf] at this
    | some sig =>
      simp only [hf, Bool.and_eq_true, List.all_eq_true] at this
      refine ⟨sig, rfl, ?_, this.2⟩
      intro p hp
      have := this.1.2 p hp
      cases hfd : sig.args.find? (·.name = p.1) with
      | none => simp [hfd] at this
      | some d => exact ⟨d, rfl, by simpa [hfd] using this⟩


-- ------------------------------------------------------------------ the request

/-- hypotheses of the request-level theorems -/
structure ReqBase (T : Table) (op : OpDef) (raw : List (String × GValue)) : Prop where
  hw : wfTable2 T = true
  hdf : fieldDefaultsOk T
  hda : ∀ sig ∈ T.fields, ∀ a ∈ sig.args, ∀ d, a.default = some d →
    parseD Defects.none T a.ty d = some (view T a.ty d)
  hdoc : docOk T op = true
  hsmall : ∀ p ∈ raw, intsSmall p.2 = true
  hkeys : ∀ p ∈ raw, distinctKeys p.2 = true

/-- … for documents whose arguments are variables or variable-free literals -/
structure ReqHyp (T : Table) (op : OpDef) (raw : List (String × GValue)) : Prop where
  hw : wfTable2 T = true
  hdf : fieldDefaultsOk T
  hda : ∀ sig ∈ T.fields, ∀ a ∈ sig.args, ∀ d, a.default = some d →
    parseD Defects.none T a.ty d = some (view T a.ty d)
  hdoc : docOk T op = true
  hflat : flatOp op = true
  hsmall : ∀ p ∈ raw, intsSmall p.2 = true
  hkeys : ∀ p ∈ raw, distinctKeys p.2 = true

theorem ReqHyp.base {T : Table} {op : OpDef} {raw : List (String × GValue)} (H : ReqHyp T op raw) :
    ReqBase T op raw := ⟨H.hw, H.hdf, H.hda, H.hdoc, H.hsmall, H.hkeys⟩

theorem ReqBase.varCtx {T : Table} {op : OpDef} {raw : List (String × GValue)} (H : ReqBase T op raw)
    (vars : List (String × GValue)) (hcv : coerceVars T op.vars raw = some vars) :
    VarCtx T op.vars raw vars :=
  ⟨(docOk_vars T op H.hdoc).1, hcv, H.hkeys, fun vd hvd d hd => ((docOk_vars T op H.hdoc).2 vd hvd d hd).2⟩

/-- per argument of a root field of a valid document -/
theorem ReqBase.arg {T : Table} {op : OpDef} {raw : List (String × GValue)} (H : ReqBase T op raw)
    (r : Root) (hr : r ∈ rootFields op) (sig : FieldSig) (hsig : T.field? r.2.1 = some sig)
    (a : InField) (ha : a ∈ sig.args) :
    (∀ d, a.default = some d → parseD Defects.none T a.ty d = some (view T a.ty d)) ∧
    (lookup r.2.2 a.name = none → (!a.ty.gql.isNonNull || a.default.isSome) = true) ∧
    (∀ dv, lookup r.2.2 a.name = some dv →
      litOk T op.vars a.ty.gql a.default.isSome dv = true ∧ (a.name, dv) ∈ r.2.2) := by
  obtain ⟨sig', hsig', hlit, hreq⟩ := docOk_root T op H.hdoc r hr
  rw [hsig] at hsig'; cases hsig'
  refine ⟨H.hda sig (List.mem_of_find?_eq_some hsig) a ha, ?_, ?_⟩
  · intro hl
    have := hreq a ha
    simpa [hl] using this
  · intro dv hl
    have hmem := lookup_mem _ _ _ hl
    obtain ⟨d, hd, hlk⟩ := hlit _ hmem
    have := find_self sig.args (wfTable2_args H.hw hsig) a ha
    simp only at hd
    rw [this] at hd; cases hd
    exact ⟨hlk, hmem⟩

/-- per argument of a root field of a valid flat document -/
theorem ReqHyp.arg {T : Table} {op : OpDef} {raw : List (String × GValue)} (H : ReqHyp T op raw)
    (r : Root) (hr : r ∈ rootFields op) (sig : FieldSig) (hsig : T.field? r.2.1 = some sig)
    (a : InField) (ha : a ∈ sig.args) :
    (∀ d, a.default = some d → parseD Defects.none T a.ty d = some (view T a.ty d)) ∧
    (lookup r.2.2 a.name = none → (!a.ty.gql.isNonNull || a.default.isSome) = true) ∧
    (∀ dv, lookup r.2.2 a.name = some dv →
      litOk T op.vars a.ty.gql a.default.isSome dv = true ∧ flatArg dv = true) := by
  obtain ⟨h1, h2, h3⟩ := H.base.arg r hr sig hsig a ha
  refine ⟨h1, h2, ?_⟩
  intro dv hl
  obtain ⟨hlk, hmem⟩ := h3 dv hl
  refine ⟨hlk, ?_⟩
  have := H.hflat
  simp only [flatOp, List.all_eq_true] at this
  exact this r hr _ hmem

theorem ReqHyp.root_eq {T : Table} {op : OpDef} {raw : List (String × GValue)} (H : ReqHyp T op raw)
    (vars : List (String × GValue)) (hcv : coerceVars T op.vars raw = some vars) :
    ∀ r ∈ rootFields op, implOf T op.vars raw r = specOf T vars r := by
  intro r hr
  obtain ⟨sig, hsig, _⟩ := docOk_root T op H.hdoc r hr
  simp only [implOf, specOf, hsig, Option.bind_some, fieldArgs]
  apply paramValues_eq T op.vars raw vars r.2.2 sig.args (wfTable2_args H.hw hsig)
  intro a ha
  obtain ⟨h1, _, h3⟩ := H.arg r hr sig hsig a ha
  exact paramValue_eq T H.hw H.hdf op.vars raw vars (H.base.varCtx vars hcv) r.2.2 a h1 h3

theorem ReqHyp.root_invalid {T : Table} {op : OpDef} {raw : List (String × GValue)} (H : ReqHyp T op raw)
    (vars : List (String × GValue)) (hcv : coerceVars T op.vars raw = some vars)
    (r : Root) (hr : r ∈ rootFields op) (sig : FieldSig) (hsig : T.field? r.2.1 = some sig)
    (hinv : fieldValid Defects.none T raw sig r.2.2 = false) : specOf T vars r = none := by
  simp only [fieldValid, List.all_eq_false] at hinv
  obtain ⟨a, ha, hbad⟩ := hinv
  obtain ⟨_, h2, h3⟩ := H.arg r hr sig hsig a ha
  have := argInvalid_coerceArg T H.hw op.vars raw vars (H.base.varCtx vars hcv) r.2.2 a h2 h3
    (by simp only [fieldValid, List.all_cons, List.all_nil, Bool.and_true]; exact Bool.eq_false_iff.mpr hbad)
  simp [specOf, hsig, fieldArgs, coerceArgs_none T vars r.2.2 sig.args a ha this]

theorem ReqBase.defaultsValid {T : Table} {op : OpDef} {raw : List (String × GValue)} (H : ReqBase T op raw) :
    ∀ np, varDefaultsValid np T op.vars = true := by
  intro np
  simp only [varDefaultsValid, List.all_eq_true]
  intro vd hvd
  cases hd : vd.default with
  | none => rfl
  | some d =>
    obtain ⟨⟨c, hc⟩, _⟩ := (docOk_vars T op H.hdoc).2 vd hvd d hd
    exact coerce_valid np T H.hw d vd.ty c (coerce_mono T _ _ _ hc)

theorem ReqBase.valuesValid {T : Table} {op : OpDef} {raw : List (String × GValue)} (H : ReqBase T op raw)
    (vars : List (String × GValue)) (hcv : coerceVars T op.vars raw = some vars) :
    ∀ np, varValuesValid np T op.vars raw = true := by
  intro np
  simp only [varValuesValid, List.all_eq_true]
  intro vd hvd
  obtain ⟨h1, h2⟩ := coerceVars_some T raw op.vars vars hcv vd hvd
  cases hl : lookup raw vd.name with
  | some v =>
    obtain ⟨c, hc⟩ := h1 v hl
    exact coerce_valid np T H.hw v vd.ty c hc
  | none =>
    cases hd : vd.default with
    | some d => simp
    | none => simp [h2 hl hd]

theorem ReqBase.vars_exist {T : Table} {op : OpDef} {raw : List (String × GValue)} (H : ReqBase T op raw)
    (hv : varValuesValid false T op.vars raw = true) : ∃ vars, coerceVars T op.vars raw = some vars := by
  apply coerceVars_exists
  simp only [varValuesValid, List.all_eq_true] at hv
  intro vd hvd
  have := hv vd hvd
  refine ⟨?_, ?_, ?_⟩
  · intro v hl
    simp only [hl] at this
    exact valid_coerce T v vd.ty this (H.hsmall _ (lookup_mem _ _ _ hl))
  · intro _ d hd
    exact ((docOk_vars T op H.hdoc).2 vd hvd d hd).1
  · intro hl hd
    simpa [hl, hd] using this

theorem ReqBase.request_none {T : Table} {op : OpDef} {raw : List (String × GValue)} (H : ReqBase T op raw)
    (hcv : coerceVars T op.vars raw = none) :
    (run Defects.none T op raw).status = .reqerr ∧
    (run Defects.none T op raw).fields = (rootFields op).map (fun f => (f.1, Outcome.notInvoked)) := by
  have hnp : Defects.none.nonObjectPassesInputObject = false := rfl
  have hC : varValuesValid false T op.vars raw = false := by
    cases h : varValuesValid false T op.vars raw with
    | false => rfl
    | true => obtain ⟨vars, hv⟩ := H.vars_exist h; rw [hv] at hcv; cases hcv
  have hD : Defects.none.varValueNotCoerced = false := rfl
  simp [run, hnp, hC, hD]

/-- the request, given the two facts about single root fields: the code computes what the
    specification requires, and validation refuses a field only when its coercion fails -/
theorem ReqBase.request_some {T : Table} {op : OpDef} {raw : List (String × GValue)} (H : ReqBase T op raw)
    (vars : List (String × GValue)) (hcv : coerceVars T op.vars raw = some vars)
    (hroot : ∀ r ∈ rootFields op, implOf T op.vars raw r = specOf T vars r)
    (hrinv : ∀ r ∈ rootFields op, ∀ sig, T.field? r.2.1 = some sig →
      fieldValid Defects.none T raw sig r.2.2 = false → specOf T vars r = none) :
    ((run Defects.none T op raw).status = .ok ↔
      ((rootFields op).map (fun r => (r.1, specOf T vars r))).all (·.2.isSome) = true) ∧
    ∀ p ∈ ((rootFields op).map (fun r => (r.1, specOf T vars r))).zip (run Defects.none T op raw).fields,
      p.1.1 = p.2.1 ∧
      (∀ args, p.1.2 = some args → p.2.2 = .seen args ∨
        (((rootFields op).map (fun r => (r.1, specOf T vars r))).any (·.2.isNone) = true ∧
          (p.2.2 = .err ∨ p.2.2 = .notInvoked))) ∧
      (p.1.2 = none → p.2.2 = .err ∨ p.2.2 = .notInvoked) := by
  have hD : Defects.none.varValueNotCoerced = false := rfl
  simp only [run, H.defaultsValid, H.valuesValid vars hcv, Bool.true_and, Bool.or_true, Bool.and_true]
  split
  · rename_i hbad
    simp only [Bool.not_eq_true', List.all_eq_false] at hbad
    obtain ⟨r, hr, hbad⟩ := hbad
    obtain ⟨sig, hsig, _⟩ := docOk_root T op H.hdoc r hr
    simp only [hsig] at hbad
    have hnone := hrinv r hr sig hsig (Bool.eq_false_iff.mpr hbad)
    have hany : ((rootFields op).map (fun r => (r.1, specOf T vars r))).any (·.2.isNone) = true := by
      simp only [List.any_map, List.any_eq_true]
      exact ⟨r, hr, by simp [hnone]⟩
    have hall : ((rootFields op).map (fun r => (r.1, specOf T vars r))).all (·.2.isSome) = false := by
      simp only [List.all_map, List.all_eq_false]
      exact ⟨r, hr, by simp [hnone]⟩
    refine ⟨by simp [hall], ?_⟩
    intro p hp
    simp only [List.zip_map', List.mem_map] at hp
    obtain ⟨r', _, rfl⟩ := hp
    exact ⟨rfl, fun args _ => Or.inr ⟨hany, Or.inr rfl⟩, fun _ => Or.inr rfl⟩
  · have hexec := exec_spec T op.vars raw vars (rootFields op) false hroot
    have key : ∀ (f : String × Outcome → Bool), (∀ o, f o = isSeen o.2) →
        (execFields Defects.none T op.vars raw (rootFields op) false).all f =
        (execFields Defects.none T op.vars raw (rootFields op) false).all (fun o => isSeen o.2) := by
      intro f hf; congr 1; funext o; exact hf o
    rw [key _ (by intro o; rcases o with ⟨k, _ | _ | _⟩ <;> rfl), hexec.2 rfl]
    refine ⟨?_, ?_⟩
    · have e : ((rootFields op).map (fun r => (r.1, specOf T vars r))).all (·.2.isSome) =
          (rootFields op).all (fun r => (specOf T vars r).isSome) := by rw [List.all_map]; rfl
      rw [e]
      cases (rootFields op).all (fun r => (specOf T vars r).isSome) <;> simp
    · intro p hp
      obtain ⟨h1, h2, h3⟩ := hexec.1 p hp
      refine ⟨h1, ?_, h3⟩
      intro args ha
      rcases h2 args ha with h2 | h2
      · exact Or.inl h2
      · right
        refine ⟨?_, h2.2⟩
        rcases h2.1 with h | h
        · cases h
        · rw [List.any_map]; exact h

theorem ReqHyp.request_none {T : Table} {op : OpDef} {raw : List (String × GValue)} (H : ReqHyp T op raw)
    (hcv : coerceVars T op.vars raw = none) :
    (run Defects.none T op raw).status = .reqerr ∧
    (run Defects.none T op raw).fields = (rootFields op).map (fun f => (f.1, Outcome.notInvoked)) :=
  H.base.request_none hcv

theorem ReqHyp.request_some {T : Table} {op : OpDef} {raw : List (String × GValue)} (H : ReqHyp T op raw)
    (vars : List (String × GValue)) (hcv : coerceVars T op.vars raw = some vars) :
    ((run Defects.none T op raw).status = .ok ↔
      ((rootFields op).map (fun r => (r.1, specOf T vars r))).all (·.2.isSome) = true) ∧
    ∀ p ∈ ((rootFields op).map (fun r => (r.1, specOf T vars r))).zip (run Defects.none T op raw).fields,
      p.1.1 = p.2.1 ∧
      (∀ args, p.1.2 = some args → p.2.2 = .seen args ∨
        (((rootFields op).map (fun r => (r.1, specOf T vars r))).any (·.2.isNone) = true ∧
          (p.2.2 = .err ∨ p.2.2 = .notInvoked))) ∧
      (p.1.2 = none → p.2.2 = .err ∨ p.2.2 = .notInvoked) :=
  H.base.request_some vars hcv (H.root_eq vars hcv) (H.root_invalid vars hcv)

end AGV.Lemmas.Coerce
