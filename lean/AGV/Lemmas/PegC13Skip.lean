/-
  Property C13: pest's implicit skipping (`WHITESPACE* ~ (COMMENT ~ WHITESPACE*)*`, run atomically)
  consumes exactly the specification's Ignored tokens — UnicodeBOM, WhiteSpace, LineTerminator,
  Comma, Comment — and nothing else (`skipI`), emitting no pairs.
-/
import AGV.Lemmas.PegC13Tok
import AGV.Lemmas.PegC13Quiet
namespace AGV.Lemmas.PegX
open AGV.Model.Peg AGV.Lemmas.PegMono AGV.Spec.Lex AGV.Spec.Literal AGV.Lemmas.PegC13

-- ------------------------------------------------------------------ more `Ev` combinators

def orE (X Y : Option (List Char)) : Option (List Char) :=
  match X with
  | some r => some r
  | none => Y

theorem Ev.choice_or {g c a b s N M K X Y} (ha : Ev g c a s N X) (hb : Ev g c b s M Y)
    (hN : N < K) (hM : M < K) : Ev g c (.choice a b) s K (orE X Y) := by
  cases X with
  | some r => exact Ev.choice_l ha hN
  | none => exact Ev.choice_r ha hb hN hM

def bindE (X : Option (List Char)) (F : List Char → Option (List Char)) : Option (List Char) :=
  match X with
  | some r => F r
  | none => none

/-- `a ~ b` in an atomic context, `b` described for every input -/
theorem Ev.seq_bind {g c a b s N M K X} {F : List Char → Option (List Char)} (hc : c.atom = .atomic)
    (ha : Ev g c a s N X) (hb : ∀ r, X = some r → Ev g c b r M (F r)) (hN : N < K) (hM : M < K) :
    Ev g c (.seq a b) s K (bindE X F) := by
  cases X with
  | some r => exact Ev.seq hc ha (hb r rfl) hN hM
  | none => exact Ev.seq_fail ha hN

/-- iterate a step function at most `n` times -/
def iter (step : List Char → Option (List Char)) : Nat → List Char → List Char
  | 0, s => s
  | n + 1, s =>
    match step s with
    | some r => iter step n r
    | none => s

theorem Ev.tail_iter {g c a Na} (hc : c.atom = .atomic) (step : List Char → Option (List Char)) (L : Nat)
    (ha : ∀ s, s.length ≤ L → Ev g c a s Na (step s)) (hlt : ∀ s r, step s = some r → r.length < s.length) :
    ∀ n s, s.length ≤ n → s.length ≤ L → Ev g c (.repTail a) s (s.length + Na + 1) (some (iter step n s)) := by
  intro n
  induction n with
  | zero =>
    intro s hs hL f hf p
    obtain ⟨f, rfl⟩ : ∃ k, f = k + 1 := ⟨f - 1, by omega⟩
    have hstep : step s = none := by
      cases h : step s with
      | none => rfl
      | some r => have := hlt s r h; omega
    have h1 := out_fail ((ha s hL).cast hstep f (by omega) p)
    simp only [eval, hc, reduceCtorEq, if_false, h1]; rfl
  | succ n ih =>
    intro s hs hL f hf p
    obtain ⟨f, rfl⟩ : ∃ k, f = k + 1 := ⟨f - 1, by omega⟩
    cases hstep : step s with
    | none =>
      have h1 := out_fail ((ha s hL).cast hstep f (by omega) p)
      simp only [eval, hc, reduceCtorEq, if_false, h1, iter, hstep]; rfl
    | some r =>
      have hr := hlt s r hstep
      obtain ⟨p1, ps1, h1⟩ := out_ok ((ha s hL).cast hstep f (by omega) p)
      obtain ⟨p2, ps2, h2⟩ := out_ok (ih r (by omega) (by omega) f (by omega) p1)
      simp only [eval, hc, reduceCtorEq, if_false, h1, h2, iter, hstep]; rfl

theorem Ev.rep_iter {g c a Na} (hc : c.atom = .atomic) (step : List Char → Option (List Char)) (L : Nat)
    (ha : ∀ s, s.length ≤ L → Ev g c a s Na (step s)) (hlt : ∀ s r, step s = some r → r.length < s.length)
    (s : List Char) (hL : s.length ≤ L) : Ev g c (.rep a) s (s.length + Na + 2) (some (iter step s.length s)) := by
  intro f hf p
  obtain ⟨f, rfl⟩ : ∃ k, f = k + 1 := ⟨f - 1, by omega⟩
  cases hs : s with
  | nil =>
    subst hs
    have hstep : step [] = none := by
      cases h : step [] with
      | none => rfl
      | some r => have := hlt [] r h; simp at this
    have h1 := out_fail ((ha [] hL).cast hstep f (by omega) p)
    simp only [eval, h1, List.length_nil, iter]; rfl
  | cons ch t =>
    rw [← hs]
    have hlen : s.length = t.length + 1 := by rw [hs]; rfl
    cases hstep : step s with
    | none =>
      have h1 := out_fail ((ha s hL).cast hstep f (by omega) p)
      simp only [eval, h1, hlen, iter, hstep]; rfl
    | some r =>
      have hr := hlt s r hstep
      obtain ⟨p1, ps1, h1⟩ := out_ok ((ha s hL).cast hstep f (by omega) p)
      obtain ⟨p2, ps2, h2⟩ := out_ok (Ev.tail_iter hc step L ha hlt t.length r (by omega) (by omega) f (by omega) p1)
      simp only [eval, h1, h2, hlen, iter, hstep]; rfl

theorem iter_len (step : List Char → Option (List Char))
    (hlt : ∀ s r, step s = some r → r.length < s.length) (n : Nat) (s : List Char) :
    (iter step n s).length ≤ s.length := by
  induction n generalizing s with
  | zero => exact Nat.le_refl _
  | succ n ih =>
    simp only [iter]
    cases h : step s with
    | none => exact Nat.le_refl _
    | some r => have := hlt s r h; have := ih r; simp only []; omega

-- ------------------------------------------------------------------ WHITESPACE, COMMENT

def ltStep (s : List Char) : Option (List Char) :=
  orE (matchStr ['\r', '\n'] s) (orE (matchStr ['\r'] s) (matchStr ['\n'] s))

def wsStep (s : List Char) : Option (List Char) :=
  orE (matchStr [' '] s) (orE (matchStr [','] s) (orE (matchStr ['\t'] s)
    (orE (matchStr [Char.ofNat 65279] s) (ltStep s))))

theorem ev_lt {g : Grammar} (G : TokRules g) (c : Ctx) (s : List Char) :
    Ev g c (.ident "line_terminator") s 4 (ltStep s) :=
  Ev.rule (by decide) (by decide) (by rfl) G.lt
    (Ev.choice_or (Ev.str _ _ _ _) (Ev.choice_or (Ev.str _ _ _ _) (Ev.str _ _ _ _) (Nat.lt_succ_self 1)
      (Nat.lt_succ_self 1)) (by omega) (Nat.lt_succ_self 2)) (Nat.lt_succ_self 3)

theorem ev_wsE {g : Grammar} (G : TokRules g) (c : Ctx) (s : List Char) :
    Ev g c (.ident "WHITESPACE") s 10 (wsStep s) :=
  Ev.rule (by decide) (by decide) (by rfl) G.ws
    (Ev.choice_or (Ev.str _ _ _ _) (Ev.choice_or (Ev.str _ _ _ _) (Ev.choice_or (Ev.str _ _ _ _)
      (Ev.choice_or (Ev.str _ _ _ _) (ev_lt G _ s) (by omega) (Nat.lt_succ_self 4))
      (by omega) (Nat.lt_succ_self 5)) (by omega) (Nat.lt_succ_self 6)) (by omega) (Nat.lt_succ_self 7))
    (by omega)

theorem orE_len {X Y : Option (List Char)} {r : List Char} {n : Nat}
    (hX : ∀ r, X = some r → r.length < n) (hY : ∀ r, Y = some r → r.length < n) (h : orE X Y = some r) :
    r.length < n := by
  cases X with
  | some x => simp only [orE] at h; cases h; exact hX _ rfl
  | none => exact hY _ h

theorem matchStr_lt {l s r : List Char} (hl : l ≠ []) (h : matchStr l s = some r) : r.length < s.length := by
  have := matchStr_len l s r h
  cases l with
  | nil => exact absurd rfl hl
  | cons a l => simp at this; omega

theorem ltStep_lt (s r : List Char) (h : ltStep s = some r) : r.length < s.length :=
  orE_len (fun _ h => matchStr_lt (by simp) h)
    (fun _ h => orE_len (fun _ h => matchStr_lt (by simp) h) (fun _ h => matchStr_lt (by simp) h) h) h

theorem wsStep_lt (s r : List Char) (h : wsStep s = some r) : r.length < s.length :=
  orE_len (fun _ h => matchStr_lt (by simp) h) (fun _ h =>
    orE_len (fun _ h => matchStr_lt (by simp) h) (fun _ h =>
    orE_len (fun _ h => matchStr_lt (by simp) h) (fun _ h =>
    orE_len (fun _ h => matchStr_lt (by simp) h) (fun _ h => ltStep_lt _ _ h) h) h) h) h

/-- the specification's Ignored characters (everything ignored except comments) -/
def skipWsp (s : List Char) : List Char := s.dropWhile isIgnoredChar

theorem isIgnoredChar_iff (ch : Char) :
    isIgnoredChar ch = true ↔ ch = ' ' ∨ ch = ',' ∨ ch = '\t' ∨ ch = Char.ofNat 65279 ∨ ch = '\r' ∨ ch = '\n' := by
  have e : (ch.toNat = 65279) ↔ ch = Char.ofNat 65279 := by
    constructor
    · intro h; apply Char.ext; apply UInt32.toNat_inj.1; simpa using h
    · intro h; subst h; rfl
  simp only [isIgnoredChar, isLineTerm, Bool.or_eq_true, decide_eq_true_eq, e]
  constructor
  · rintro ((((h | h) | h) | (h | h)) | h) <;> simp [h]
  · rintro (h | h | h | h | h | h) <;> simp [h]

theorem wsStep_cons (ch : Char) (r : List Char) :
    wsStep (ch :: r) =
      if isIgnoredChar ch then some (if ch = '\r' then (match r with | '\n' :: r' => r' | _ => r) else r)
      else none := by
  by_cases h : isIgnoredChar ch = true
  · rw [if_pos h]
    rcases (isIgnoredChar_iff ch).1 h with h | h | h | h | h | h <;> subst h
    · rfl
    · rfl
    · rfl
    · rfl
    · cases r with
      | nil => rfl
      | cons d r' =>
        by_cases hd : d = '\n'
        · subst hd; rfl
        · have hd' : ¬ '\n' = d := fun e => hd e.symm
          simp [wsStep, ltStep, orE, matchStr, hd, hd']
    · rfl
  · rw [if_neg h]
    have hn := mt (isIgnoredChar_iff ch).2 h
    simp only [not_or] at hn
    obtain ⟨h1, h2, h3, h4, h5, h6⟩ := hn
    simp [wsStep, ltStep, orE, matchStr, Ne.symm h1, Ne.symm h2, Ne.symm h3, Ne.symm h4, Ne.symm h5, Ne.symm h6]

theorem iter_ws (n : Nat) (s : List Char) (hn : s.length ≤ n) : iter wsStep n s = skipWsp s := by
  induction n generalizing s with
  | zero => cases s with
    | nil => rfl
    | cons _ _ => simp at hn
  | succ n ih =>
    cases s with
    | nil => rfl
    | cons ch r =>
      simp only [iter, wsStep_cons, skipWsp, List.dropWhile_cons]
      by_cases h : isIgnoredChar ch = true
      · simp only [h, if_true]
        by_cases hr : ch = '\r'
        · simp only [hr, if_true]
          split
          · rename_i r'
            have : isIgnoredChar '\n' = true := by decide
            rw [ih r' (by simp at hn; omega)]; simp [skipWsp, this]
          · exact ih r (by simp at hn; omega)
        · simp only [hr, if_false]; exact ih r (by simp at hn; omega)
      · simp [h]

theorem ev_wsRep {g : Grammar} (G : TokRules g) (c : Ctx) (hc : c.atom = .atomic) (s : List Char) :
    Ev g c (.rep (.ident "WHITESPACE")) s (s.length + 12) (some (skipWsp s)) := by
  have h := Ev.rep_iter hc wsStep s.length (fun t _ => ev_wsE G c t) wsStep_lt s (Nat.le_refl _)
  rw [iter_ws _ _ (Nat.le_refl _)] at h
  exact h

theorem skipWsp_len (s : List Char) : (skipWsp s).length ≤ s.length := dropWhile_len _ _

/-- one character of a comment: anything that does not start a line terminator -/
def cmStep (s : List Char) : Option (List Char) :=
  bindE (negOut s (ltStep s)) (classStep (fun _ => true))

theorem cmStep_cons (ch : Char) (r : List Char) :
    cmStep (ch :: r) = if isLineTerm ch then none else some r := by
  by_cases h1 : ch = '\r'
  · subst h1
    cases r with
    | nil => rfl
    | cons d r' =>
      by_cases hd : d = '\n'
      · subst hd; rfl
      · have hd' : ¬ '\n' = d := fun e => hd e.symm
        simp [cmStep, ltStep, orE, matchStr, hd', negOut, bindE, isLineTerm]
  · by_cases h2 : ch = '\n'
    · subst h2; rfl
    · have h1' : ¬ '\r' = ch := fun e => h1 e.symm
      have h2' : ¬ '\n' = ch := fun e => h2 e.symm
      simp [cmStep, ltStep, orE, matchStr, h1', h2', negOut, bindE, isLineTerm, classStep, h1, h2]

theorem cmStep_lt (s r : List Char) (h : cmStep s = some r) : r.length < s.length := by
  cases s with
  | nil => simp [cmStep, ltStep, orE, matchStr, negOut, bindE, classStep] at h
  | cons ch t => rw [cmStep_cons] at h; split at h <;> simp at h; subst h; simp

theorem iter_cm (n : Nat) (s : List Char) (hn : s.length ≤ n) : iter cmStep n s = dropComment s := by
  induction n generalizing s with
  | zero => cases s with
    | nil => rfl
    | cons _ _ => simp at hn
  | succ n ih =>
    cases s with
    | nil => rfl
    | cons ch r =>
      simp only [iter, cmStep_cons, dropComment]
      by_cases h : isLineTerm ch = true
      · simp [h]
      · simp only [h]; exact ih r (by simp at hn; omega)

theorem dropComment_len (s : List Char) : (dropComment s).length ≤ s.length := by
  induction s with
  | nil => simp [dropComment]
  | cons ch r ih => simp only [dropComment]; split <;> simp <;> omega

theorem ev_cmChar {g : Grammar} (G : TokRules g) (c : Ctx) (hc : c.atom = .atomic) (s : List Char) :
    Ev g c (.seq (.neg (.ident "line_terminator")) (.ident "ANY")) s 7 (cmStep s) :=
  Ev.seq_bind hc (Ev.neg (ev_lt G _ s) (Nat.lt_succ_self 4))
    (fun r _ => Ev.cls g c "ANY" _ r (by decide) (by decide) (by rfl)) (by omega) (by omega)

/-- `COMMENT`: `#` up to (not including) the next line terminator -/
def commentRes (s : List Char) : Option (List Char) :=
  bindE (matchStr ['#'] s) (fun r => some (dropComment r))

theorem ev_comment {g : Grammar} (G : TokRules g) (c : Ctx) (s : List Char) :
    Ev g c (.ident "COMMENT") s (s.length + 12) (commentRes s) := by
  refine Ev.rule (by decide) (by decide) (by rfl) G.comment ?_ (Nat.lt_succ_self (s.length + 11))
  have hc : (bodyCtx c AGV.Gen.Grammar.r_COMMENT).atom = .atomic := rfl
  refine Ev.seq_bind hc (Ev.str _ _ _ _) (M := s.length + 10) ?_ (by omega) (by omega)
  intro r hr
  have hlen := matchStr_len _ _ _ hr
  have h := Ev.rep_iter hc cmStep r.length (fun t _ => ev_cmChar G _ hc t) cmStep_lt r (Nat.le_refl _)
  rw [iter_cm _ _ (Nat.le_refl _)] at h
  exact h.mono (by simp at hlen; omega)

/-- one `COMMENT ~ WHITESPACE*` -/
def cwStep (s : List Char) : Option (List Char) :=
  bindE (matchStr ['#'] s) (fun r => some (skipWsp (dropComment r)))

theorem cwStep_lt (s r : List Char) (h : cwStep s = some r) : r.length < s.length := by
  unfold cwStep at h
  cases hm : matchStr ['#'] s with
  | none => simp [hm, bindE] at h
  | some t =>
    simp only [hm, bindE, Option.some.injEq] at h
    subst h
    have := matchStr_len _ _ _ hm
    have := dropComment_len t
    have := skipWsp_len (dropComment t)
    simp at *; omega

theorem ev_cw {g : Grammar} (G : TokRules g) (c : Ctx) (hc : c.atom = .atomic) (s : List Char) :
    Ev g c (.seq (.ident "COMMENT") (.rep (.ident "WHITESPACE"))) s (s.length + 13) (cwStep s) := by
  have h1 := ev_comment G c s
  unfold cwStep
  unfold commentRes at h1
  cases hm : matchStr ['#'] s with
  | none => rw [hm] at h1; exact Ev.seq_fail h1 (by omega)
  | some t =>
    rw [hm] at h1
    have := matchStr_len _ _ _ hm
    have := dropComment_len t
    exact Ev.seq hc h1 (ev_wsRep G c hc _) (by omega) (by simp at *; omega)

/-- the specification's skipping of Ignored tokens (as `lexAll` does it), fuelled … -/
def skipN : Nat → List Char → List Char
  | 0, s => s
  | _ + 1, [] => []
  | n + 1, c :: r =>
    if isIgnoredChar c then skipN n r
    else if c = '#' then skipN n (dropComment r)
    else c :: r

/-- … and with enough fuel for the text -/
def skipI (s : List Char) : List Char := skipN s.length s

theorem iter_stable (step : List Char → Option (List Char))
    (hlt : ∀ s r, step s = some r → r.length < s.length) (n : Nat) (s : List Char) (hn : s.length ≤ n) :
    iter step (n + 1) s = iter step n s := by
  induction n generalizing s with
  | zero =>
    have : step s = none := by
      cases h : step s with
      | none => rfl
      | some r => have := hlt s r h; omega
    simp [iter, this]
  | succ n ih =>
    rw [iter]
    cases h : step s with
    | none => simp [iter, h]
    | some r =>
      have := hlt s r h
      simp only []
      rw [ih r (by omega)]
      simp [iter, h]

theorem iter_stable_le (step : List Char → Option (List Char))
    (hlt : ∀ s r, step s = some r → r.length < s.length) (n m : Nat) (s : List Char) (hn : s.length ≤ n)
    (hm : n ≤ m) : iter step m s = iter step n s := by
  induction hm with
  | refl => rfl
  | step h ih => have : n ≤ _ := h; rw [iter_stable step hlt _ s (by omega), ih]

theorem skipN_iter (n : Nat) (s : List Char) (hn : s.length ≤ n) :
    skipN n s = iter cwStep n (skipWsp s) := by
  induction n generalizing s with
  | zero => cases s with
    | nil => rfl
    | cons _ _ => simp at hn
  | succ n ih =>
    cases s with
    | nil => rfl
    | cons ch r =>
      simp only [skipN, skipWsp, List.dropWhile_cons]
      simp only [List.length_cons] at hn
      by_cases h : isIgnoredChar ch = true
      · simp only [h, if_true]
        rw [ih r (by omega)]
        exact (iter_stable cwStep cwStep_lt n _ (by have := skipWsp_len r; omega)).symm
      · simp only [h, Bool.false_eq_true, if_false]
        by_cases h2 : ch = '#'
        · subst h2
          simp only [if_true]
          rw [ih _ (by have := dropComment_len r; omega)]
          rfl
        · have h2' : ¬ '#' = ch := fun e => h2 e.symm
          simp [h2, iter, cwStep, matchStr, h2', bindE]

theorem ev_skipE {g : Grammar} (G : TokRules g) (c : Ctx) (hc : c.atom = .atomic) (s : List Char) :
    Ev g c skipExpr s (2 * s.length + 17) (some (skipI s)) := by
  have h1 := ev_wsRep G c hc s
  have hl := skipWsp_len s
  have h2 := Ev.rep_iter hc cwStep s.length (Na := s.length + 13)
    (fun t ht => (ev_cw G c hc t).mono (by omega)) cwStep_lt (skipWsp s) hl
  have e : iter cwStep (skipWsp s).length (skipWsp s) = skipI s := by
    rw [skipI, skipN_iter _ _ (Nat.le_refl _)]
    exact (iter_stable_le cwStep cwStep_lt _ _ _ (Nat.le_refl _) hl).symm
  rw [e] at h2
  exact Ev.seq hc h1 h2 (by omega) (by omega)

def tokNames : List String := ["WHITESPACE", "COMMENT", "line_terminator", "name_start", "name"]

theorem tokQuiet {g : Grammar} (G : TokRules g) : quietB g tokNames = true := by
  simp only [quietB, tokNames, List.all_cons, List.all_nil, G.ws, G.comment, G.lt, G.nameStart, G.name]
  decide

/-- implicit skipping, exactly: the Ignored tokens are consumed, nothing is emitted -/
theorem ev_skipR {g : Grammar} (G : TokRules g) (c : Ctx) (hc : c.atom = .atomic) (p : Nat) (s : List Char) :
    EvR g c skipExpr p s (2 * s.length + 17) (.ok (p + (s.length - (skipI s).length)) (skipI s) []) :=
  EvR.ofEv_quiet tokNames (tokQuiet G) hc (by decide) (ev_skipE G c hc s) p
