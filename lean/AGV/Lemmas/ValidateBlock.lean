/-
  C09 — the three type-dependent rules that only hold as a block:
  FieldsOnCorrectType + ScalarLeafs + FragmentsOnCompositeTypes
    = §5.3.1 Field Selections + §5.3.3 Leaf Field Selections + §5.5.1.3 Fragments On Composite Types,
  for well-formed registries (`SchemaWF`) and documents without sub-selections below `__typename`
  (`docOK`).
-/
import AGV.Lemmas.ValidateTyped
namespace AGV.Lemmas.ValidateRules
open AGV.Core AGV.Model.Validate AGV.Lemmas.ValidateWalk AGV.Lemmas.ValidateMachine AGV.Lemmas.ValidateSpecNodes
open AGV.Spec.Validate (tyDef fieldType leafType composite kindIs)

-- ------------------------------------------------------------------ FieldsOnCorrectType + ScalarLeafs + FragmentsOnCompositeTypes

/-- §5.3.1 at one selection -/
def sv1 (S : VSchema) (w : Option String × Sel) : Bool :=
  match w.2 with
  | .field _ n _ _ _ _ => (match w.1 with | some p => (fieldType S p n).isNone | none => false)
  | _ => false
/-- §5.3.3 at one selection -/
def sv2 (S : VSchema) (w : Option String × Sel) : Bool :=
  match w.2 with
  | .field _ n _ _ ss _ =>
    (match w.1 with
     | some p =>
       (match fieldType S p n with
        | some (t, _) => if leafType S t.base then !ss.isEmpty else if composite S t.base then ss.isEmpty else false
        | none => false)
     | none => false)
  | _ => false
/-- §5.5.1.3 at one selection -/
def sv3 (S : VSchema) (w : Option String × Sel) : Bool :=
  match w.2 with
  | .inline (some c) _ _ _ => (tyDef S c).isSome && !composite S c
  | _ => false

def svAny (S : VSchema) (w : Option String × Sel) : Bool := sv1 S w || sv2 S w || sv3 S w

theorem exists_mem_cons' {α} (P : α → Prop) (a : α) (l : List α) : (∃ x ∈ a :: l, P x) ↔ P a ∨ ∃ x ∈ l, P x := by simp

theorem spec_fieldSelections (S : VSchema) (d : Doc) :
    Spec.Validate.violates_FieldSelections S d = (specDocVisits S d).any (sv1 S) := by
  unfold Spec.Validate.violates_FieldSelections
  rw [allNodes_eq, List.any_map]
  congr 1; funext w; obtain ⟨p, s⟩ := w
  cases s <;> cases p <;> rfl

theorem spec_leafFieldSelections (S : VSchema) (d : Doc) :
    Spec.Validate.violates_LeafFieldSelections S d = (specDocVisits S d).any (sv2 S) := by
  unfold Spec.Validate.violates_LeafFieldSelections
  rw [allNodes_eq, List.any_map]
  congr 1; funext w; obtain ⟨p, s⟩ := w
  cases s <;> cases p <;> rfl

theorem spec_fragmentsOnComposite (S : VSchema) (d : Doc) :
    Spec.Validate.violates_FragmentsOnCompositeTypes S d =
      (d.frags.any (fun f => (tyDef S f.cond).isSome && !composite S f.cond) || (specDocVisits S d).any (sv3 S)) := by
  unfold Spec.Validate.violates_FragmentsOnCompositeTypes
  rw [allNodes_eq, List.any_map]
  congr 2; funext w; obtain ⟨p, s⟩ := w
  cases s with
  | inline c ds ss q => cases c <;> rfl
  | _ => rfl


theorem isLeaf_eq (S : VSchema) (n : String) : S.isLeaf n = leafType S n := by
  unfold VSchema.isLeaf VSchema.kindOf leafType kindIs
  show (match Option.map (·.kind) (tyDef S n) with | some .scalar | some .enum => true | _ => false) = _
  cases h : tyDef S n with
  | none => simp
  | some t => cases hk : t.kind <;> simp [hk]

theorem isComposite_eq (S : VSchema) (n : String) : S.isComposite n = composite S n := by
  unfold VSchema.isComposite VSchema.kindOf composite kindIs
  show (match Option.map (·.kind) (tyDef S n) with | some .object | some .interface | some .union => true | _ => false) = _
  cases h : tyDef S n with
  | none => simp
  | some t => cases hk : t.kind <;> simp [hk]

/-- what FieldsOnCorrectType, ScalarLeafs and the inline half of FragmentsOnCompositeTypes report at a visited selection -/
def mv (S : VSchema) (v : Stack × Sel) : Prop :=
  match v.2 with
  | .field _ n _ _ ss _ =>
    (∃ p, Stack.cur v.1 = some p ∧ n ≠ "__typename" ∧ S.field? p n = none)
    ∨ (∃ t, ((Stack.cur v.1).bind (fun p => S.field? p n)).bind (fun f => S.concrete f.ty) = some t
          ∧ ((S.isLeaf t = true ∧ ss ≠ []) ∨ (S.isLeaf t = false ∧ ss = [])))
  | .inline c _ _ _ => ∃ t, Stack.cur (inlineSt S v.1 c) = some t ∧ S.isComposite t = false
  | .spread .. => False

theorem nodeOut_block (S : VSchema) (d : Doc) (st : Stack) (s : Sel) :
    (Kind.unknownField ∈ nodeOut S d st s ∨ Kind.leafWithSel ∈ nodeOut S d st s ∨ Kind.compositeNoSel ∈ nodeOut S d st s
      ∨ Kind.inlineNonComposite ∈ nodeOut S d st s) ↔ mv S (st, s) := by
  have hd : ∀ k st ds, k ≠ Kind.dirArgMissing → k ∉ dirsOut S d st ds := by
    intro k st ds hk; simp [dirsOut, mem_stateless_enterDir, hk]
  cases s with
  | field al n args ds ss p =>
    simp only [nodeOut, mv, List.mem_append, mem_stateless_enterField, par_cons, hd _ _ _ (by decide : Kind.unknownField ≠ .dirArgMissing),
      hd _ _ _ (by decide : Kind.leafWithSel ≠ .dirArgMissing), hd _ _ _ (by decide : Kind.compositeNoSel ≠ .dirArgMissing),
      hd _ _ _ (by decide : Kind.inlineNonComposite ≠ .dirArgMissing)]
    simp only [reduceCtorEq, false_and, true_and, or_false, false_or]
    constructor
    · rintro (h | ⟨t, h1, h2, h3⟩ | ⟨t, h1, h2, h3⟩)
      · exact Or.inl h
      · exact Or.inr ⟨t, h1, Or.inl ⟨h2, h3⟩⟩
      · exact Or.inr ⟨t, h1, Or.inr ⟨h2, h3⟩⟩
    · rintro (h | ⟨t, h1, (⟨h2, h3⟩ | ⟨h2, h3⟩)⟩)
      · exact Or.inl h
      · exact Or.inr (Or.inl ⟨t, h1, h2, h3⟩)
      · exact Or.inr (Or.inr ⟨t, h1, h2, h3⟩)
  | spread n ds p =>
    simp [nodeOut, mv, mem_stateless_enterSpread, hd]
  | inline c ds ss p =>
    simp [nodeOut, mv, mem_stateless_enterInline, hd]


/-- schema hypotheses of the three-rule block -/
structure BlockSchema (S : VSchema) : Prop where
  typed : TypedSchema S
  /-- `String` is not an object, interface or union type -/
  stringNotComposite : composite S "String" = false
  /-- the type of an output field is not an input-object type -/
  fieldsOutput : ∀ t n f, S.field? t n = some f → kindIs S f.ty.base .input = false

/-- document hypothesis: no sub-selection below `__typename` -/
def selOK : Sel → Prop
  | .field _ n _ _ ss _ => n = "__typename" → ss = []
  | _ => True

/-- the parent type, when there is one, is composite -/
def OKp (S : VSchema) (parent : Option String) : Prop := ∀ p, parent = some p → composite S p = true

theorem composite_of_not_leaf_input (S : VSchema) (n : String) (he : (tyDef S n).isSome = true)
    (hl : leafType S n = false) (hi : kindIs S n .input = false) : composite S n = true := by
  unfold leafType composite kindIs at *
  cases h : tyDef S n with
  | none => simp [h] at he
  | some t => cases hk : t.kind <;> simp_all

theorem leaf_composite_none (S : VSchema) (n : String) (he : (tyDef S n).isSome = false) :
    leafType S n = false ∧ composite S n = false := by
  unfold leafType composite kindIs
  cases h : tyDef S n with
  | none => simp
  | some t => simp [h] at he

theorem node_agree (S : VSchema) (hB : BlockSchema S) (st : Stack) (parent : Option String) (s : Sel)
    (hcur : Stack.cur st = parent) (hok : OKp S parent) (hsel : selOK s) :
    mv S (st, s) ↔ svAny S (parent, s) = true := by
  unfold svAny
  subst hcur
  cases s with
  | spread n ds q => simp [mv, sv1, sv2, sv3]
  | inline c ds ss q =>
    cases c with
    | none =>
      simp only [mv, inlineSt, sv1, sv2, sv3, Bool.or_false, Bool.false_eq_true, iff_false, not_exists, not_and]
      intro t ht
      rw [isComposite_eq, hok t ht]; simp
    | some t =>
      simp only [mv, inlineSt, Stack.cur, sv1, sv2, sv3, Bool.false_or, Bool.and_eq_true, exists_eq_tyDef, isComposite_eq]
      by_cases hx : (tyDef S t).isSome = true <;> simp [hx]
  | field al n args ds ss q =>
    have hty := hsel
    cases hc : Stack.cur st with
    | none => simp [mv, sv1, sv2, sv3, hc]
    | some p =>
      have hp : composite S p = true := hok p hc
      simp only [mv, hc, sv1, sv2, sv3, Bool.or_false, Option.some.injEq, exists_eq_left', Option.bind_some]
      by_cases hn : n = "__typename"
      · subst hn
        have hss := hty rfl
        subst hss
        simp [hB.typed.noTypenameField, fieldType, hp, TypeRef.base, hB.stringNotComposite]
      · rw [← field?_eq_fieldType S p n hn]
        cases hf : S.field? p n with
        | none => simp [hn]
        | some f =>
          simp only [Option.bind_some, Option.map_some, Option.isNone_some, Bool.false_or, VSchema.concrete, exists_eq_tyDef,
            reduceCtorEq]
          by_cases he : (tyDef S f.ty.base).isSome = true
          · simp only [he, if_true, Option.some.injEq, exists_eq_left', isLeaf_eq]
            cases hl : leafType S f.ty.base
            · have := composite_of_not_leaf_input S _ he hl (hB.fieldsOutput p n f hf)
              simp [this]
            · simp
          · have he' : (tyDef S f.ty.base).isSome = false := by simpa using he
            obtain ⟨h1, h2⟩ := leaf_composite_none S _ he'
            simp [he', h1, h2]


theorem fieldTy_eq_childTy (S : VSchema) (st : Stack) (parent : Option String) (n : String)
    (hn : n ≠ "__typename") (hcur : Stack.cur st = parent) : fieldTy S st n = childTy S parent n := by
  unfold fieldTy childTy
  simp only [hn, if_false, hcur]
  cases parent with
  | none => simp
  | some p =>
    simp only [Option.bind_some, ← field?_eq_fieldType S p n hn]
    cases S.field? p n with
    | none => simp
    | some f =>
      simp only [Option.bind_some, Option.map_some, VSchema.concrete, exists_eq_tyDef]
      by_cases hx : (tyDef S f.ty.base).isSome = true <;> simp [hx]

theorem inlineSt_cur (S : VSchema) (st : Stack) (parent : Option String) (c : Option String)
    (hcur : Stack.cur st = parent) : Stack.cur (inlineSt S st c) = inlineTy S parent c := by
  cases c with
  | none => simpa [inlineSt, inlineTy] using hcur
  | some t =>
    simp only [inlineSt, inlineTy, Stack.cur, exists_eq_tyDef]
    by_cases hx : (tyDef S t).isSome = true <;> simp [hx]

/-- below a field that the three rules accept, the walker's type and the reference type agree and are composite -/
theorem child_inv_field (S : VSchema) (hB : BlockSchema S) (st : Stack) (parent : Option String)
    (hcur : Stack.cur st = parent) (al n args ds ss q) (hsel : selOK (.field al n args ds ss q)) (hne : ss ≠ [])
    (hv : ¬ mv S (st, .field al n args ds ss q)) :
    Stack.cur (fieldTy S st n :: st) = childTy S parent n ∧ OKp S (childTy S parent n) := by
  have hty : n ≠ "__typename" := fun hn => hne (hsel hn)
  have hchild : fieldTy S st n = childTy S parent n := fieldTy_eq_childTy S st parent n hty hcur
  refine ⟨hchild, ?_⟩
  -- the child type, when there is one, is composite: otherwise ScalarLeafs would have fired
  intro t ht
  rw [← hchild] at ht
  simp only [mv, not_or, not_exists, not_and] at hv
  unfold fieldTy at ht
  simp only [hty, if_false] at ht
  have h2 := hv.2 t ht
  have hleaf : S.isLeaf t = false := by
    cases hl : S.isLeaf t
    · rfl
    · exact absurd hne (by simpa [hl] using h2)
  cases hc : Stack.cur st with
  | none => simp [hc] at ht
  | some p =>
    simp only [hc, Option.bind_some] at ht
    cases hf : S.field? p n with
    | none => simp [hf] at ht
    | some f =>
      simp only [hf, Option.bind_some, VSchema.concrete] at ht
      split at ht
      · rename_i he
        simp only [Option.some.injEq] at ht
        subst ht
        exact composite_of_not_leaf_input S _ he (by rw [← isLeaf_eq]; exact hleaf) (hB.fieldsOutput p n f hf)
      · simp at ht

/-- below an inline fragment that the three rules accept -/
theorem child_inv_inline (S : VSchema) (st : Stack) (parent : Option String)
    (hcur : Stack.cur st = parent) (c ds ss q) (hv : ¬ mv S (st, .inline c ds ss q)) :
    Stack.cur (inlineSt S st c) = inlineTy S parent c ∧ OKp S (inlineTy S parent c) := by
  have hchild := inlineSt_cur S st parent c hcur
  refine ⟨hchild, ?_⟩
  intro t ht
  rw [← hchild] at ht
  simp only [mv, not_exists, not_and] at hv
  have := hv t ht
  rw [isComposite_eq] at this
  simpa using this

mutual
/-- with a composite (or unknown) parent type, the three rules of the model and of the reference
    validator find a violation below the same selections -/
theorem block_pairSel (S : VSchema) (hB : BlockSchema S) (st : Stack) (parent : Option String)
    (hcur : Stack.cur st = parent) (hok : OKp S parent) :
    (s : Sel) → (∀ x ∈ flatSel s, selOK x) →
      ((∃ x ∈ pairSel S st parent s, mv S (x.1, x.2.2)) ↔ (∃ x ∈ pairSel S st parent s, svAny S x.2 = true))
  | .spread n ds q => by
    intro _
    simp [pairSel, mv, svAny, sv1, sv2, sv3]
  | .field al n args ds ss q => by
    intro hsel
    have hnode := node_agree S hB st parent (.field al n args ds ss q) hcur hok (hsel _ (by simp [flatSel]))
    simp only [pairSel, exists_mem_cons' (fun x : Stack × Option String × Sel => mv S (x.1, x.2.2)),
      exists_mem_cons' (fun x : Stack × Option String × Sel => svAny S x.2 = true)]
    by_cases hv : mv S (st, .field al n args ds ss q)
    · have hv' := hnode.mp hv
      exact ⟨fun _ => Or.inl hv', fun _ => Or.inl hv⟩
    · have hv' : ¬ svAny S (parent, .field al n args ds ss q) = true := fun h => hv (hnode.mpr h)
      simp only [hv, hv', false_or, Bool.false_eq_true]
      by_cases hss : ss = []
      · subst hss; simp [pairSels]
      · obtain ⟨h1, h2⟩ := child_inv_field S hB st parent hcur al n args ds ss q (hsel _ (by simp [flatSel])) hss hv
        exact block_pairSels S hB (fieldTy S st n :: st) (childTy S parent n) h1 h2 ss
          (fun x hx => hsel x (by simp [flatSel, hx]))
  | .inline c ds ss q => by
    intro hsel
    have hnode := node_agree S hB st parent (.inline c ds ss q) hcur hok (hsel _ (by simp [flatSel]))
    simp only [pairSel, exists_mem_cons' (fun x : Stack × Option String × Sel => mv S (x.1, x.2.2)),
      exists_mem_cons' (fun x : Stack × Option String × Sel => svAny S x.2 = true)]
    by_cases hv : mv S (st, .inline c ds ss q)
    · have hv' := hnode.mp hv
      exact ⟨fun _ => Or.inl hv', fun _ => Or.inl hv⟩
    · have hv' : ¬ svAny S (parent, .inline c ds ss q) = true := fun h => hv (hnode.mpr h)
      simp only [hv, hv', false_or, Bool.false_eq_true]
      obtain ⟨h1, h2⟩ := child_inv_inline S st parent hcur c ds ss q hv
      exact block_pairSels S hB _ _ h1 h2 ss (fun x hx => hsel x (by simp [flatSel, hx]))
theorem block_pairSels (S : VSchema) (hB : BlockSchema S) (st : Stack) (parent : Option String)
    (hcur : Stack.cur st = parent) (hok : OKp S parent) :
    (ss : List Sel) → (∀ x ∈ flatSels ss, selOK x) →
      ((∃ x ∈ pairSels S st parent ss, mv S (x.1, x.2.2)) ↔ (∃ x ∈ pairSels S st parent ss, svAny S x.2 = true))
  | [] => by intro _; simp [pairSels]
  | s :: ss => by
    intro hsel
    have h1 := block_pairSel S hB st parent hcur hok s (fun x hx => hsel x (by simp [flatSels, hx]))
    have h2 := block_pairSels S hB st parent hcur hok ss (fun x hx => hsel x (by simp [flatSels, hx]))
    simp only [pairSels, List.mem_append, or_and_right, exists_or, h1, h2]
end

mutual
/-- where the three rules accept everything, the walker's types are the reference types and are composite -/
theorem inv_pairSel (S : VSchema) (hB : BlockSchema S) (st : Stack) (parent : Option String)
    (hcur : Stack.cur st = parent) (hok : OKp S parent) :
    (s : Sel) → (∀ x ∈ flatSel s, selOK x) → (∀ x ∈ pairSel S st parent s, ¬ mv S (x.1, x.2.2)) →
      ∀ x ∈ pairSel S st parent s, Stack.cur x.1 = x.2.1 ∧ OKp S x.2.1
  | .spread n ds q => by
    intro _ _ x hx
    simp only [pairSel, List.mem_singleton] at hx
    subst hx; exact ⟨hcur, hok⟩
  | .field al n args ds ss q => by
    intro hsel hno x hx
    simp only [pairSel, List.mem_cons] at hx hno
    rcases hx with rfl | hx
    · exact ⟨hcur, hok⟩
    · have hv := hno _ (Or.inl rfl)
      by_cases hss : ss = []
      · subst hss; simp [pairSels] at hx
      · obtain ⟨h1, h2⟩ := child_inv_field S hB st parent hcur al n args ds ss q (hsel _ (by simp [flatSel])) hss hv
        exact inv_pairSels S hB (fieldTy S st n :: st) (childTy S parent n) h1 h2 ss
          (fun y hy => hsel y (by simp [flatSel, hy])) (fun y hy => hno y (Or.inr hy)) x hx
  | .inline c ds ss q => by
    intro hsel hno x hx
    simp only [pairSel, List.mem_cons] at hx hno
    rcases hx with rfl | hx
    · exact ⟨hcur, hok⟩
    · have hv := hno _ (Or.inl rfl)
      obtain ⟨h1, h2⟩ := child_inv_inline S st parent hcur c ds ss q hv
      exact inv_pairSels S hB _ _ h1 h2 ss (fun y hy => hsel y (by simp [flatSel, hy])) (fun y hy => hno y (Or.inr hy)) x hx
theorem inv_pairSels (S : VSchema) (hB : BlockSchema S) (st : Stack) (parent : Option String)
    (hcur : Stack.cur st = parent) (hok : OKp S parent) :
    (ss : List Sel) → (∀ x ∈ flatSels ss, selOK x) → (∀ x ∈ pairSels S st parent ss, ¬ mv S (x.1, x.2.2)) →
      ∀ x ∈ pairSels S st parent ss, Stack.cur x.1 = x.2.1 ∧ OKp S x.2.1
  | [] => by intro _ _ x hx; simp [pairSels] at hx
  | s :: ss => by
    intro hsel hno x hx
    simp only [pairSels, List.mem_append] at hx hno
    rcases hx with hx | hx
    · exact inv_pairSel S hB st parent hcur hok s (fun y hy => hsel y (by simp [flatSels, hy])) (fun y hy => hno y (Or.inl hy)) x hx
    · exact inv_pairSels S hB st parent hcur hok ss (fun y hy => hsel y (by simp [flatSels, hy])) (fun y hy => hno y (Or.inr hy)) x hx
end

theorem block_visits (S : VSchema) (hB : BlockSchema S) (st : Stack) (parent : Option String)
    (hcur : Stack.cur st = parent) (hok : OKp S parent) (ss : List Sel) (hsel : ∀ x ∈ flatSels ss, selOK x) :
    (∃ v ∈ visitsSels S st ss, mv S v) ↔ (∃ w ∈ specVisitsSels S parent ss, svAny S w = true) := by
  rw [← pairSels_left S st parent ss, ← pairSels_right S st parent ss]
  simp only [List.mem_map]
  have h := block_pairSels S hB st parent hcur hok ss hsel
  constructor
  · rintro ⟨v, ⟨x, hx, rfl⟩, hp⟩
    obtain ⟨y, hy, hq⟩ := h.mp ⟨x, hx, hp⟩
    exact ⟨y.2, ⟨y, hy, rfl⟩, hq⟩
  · rintro ⟨w, ⟨x, hx, rfl⟩, hq⟩
    obtain ⟨y, hy, hp⟩ := h.mpr ⟨x, hx, hq⟩
    exact ⟨(y.1, y.2.2), ⟨y, hy, rfl⟩, hp⟩

/-- the root types of the operations are composite types of the schema -/
def RootsComposite (S : VSchema) (d : Doc) : Prop := ∀ o ∈ d.ops, ∀ r, rootOf S o.ty = some r → S.isComposite r = true

/-- some fragment definition is on a type of the schema that is not composite -/
def fragsBad (S : VSchema) (d : Doc) : Prop := ∃ f ∈ d.frags, (tyDef S f.cond).isSome = true ∧ composite S f.cond = false

/-- the five kinds of the block, in terms of the visited selections -/
theorem block_model_iff (S : VSchema) (d : Doc) :
    (Kind.unknownField ∈ (events S {} d).flatMap (stateless S {} d) ∨ Kind.leafWithSel ∈ (events S {} d).flatMap (stateless S {} d)
      ∨ Kind.compositeNoSel ∈ (events S {} d).flatMap (stateless S {} d) ∨ Kind.fragNonComposite ∈ (events S {} d).flatMap (stateless S {} d)
      ∨ Kind.inlineNonComposite ∈ (events S {} d).flatMap (stateless S {} d)) ↔ (fragsBad S d ∨ ∃ v ∈ docVisits S d, mv S v) := by
  have hd : ∀ k st ds, k ≠ Kind.dirArgMissing → k ∉ dirsOut S d st ds := by
    intro k st ds hk; simp [dirsOut, mem_stateless_enterDir, hk]
  have hfrag : ∀ f, Kind.fragNonComposite ∈ fragOut S d f ↔ ((tyDef S f.cond).isSome = true ∧ composite S f.cond = false) := by
    intro f
    simp only [fragOut, List.mem_append, mem_stateless_enterFrag, hd _ _ _ (by decide : Kind.fragNonComposite ≠ .dirArgMissing),
      reduceCtorEq, false_and, true_and, or_false, false_or, fragSt, Stack.cur, exists_eq_tyDef, isComposite_eq]
    by_cases hx : (tyDef S f.cond).isSome = true <;> simp [hx]
  have hfragN : ∀ k f, k ≠ Kind.fragNonComposite → k ≠ .dupDirective → k ≠ .unknownType → k ≠ .dirArgMissing → k ∉ fragOut S d f := by
    intro k f h1 h2 h3 h4
    simp [fragOut, mem_stateless_enterFrag, hd _ _ _ h4, h1, h2, h3]
  have hopN : ∀ k o, k ∈ [Kind.unknownField, .leafWithSel, .compositeNoSel, .fragNonComposite, .inlineNonComposite] → k ∉ opOut S d o := by
    intro k o hk; unfold opOut
    simp only [List.mem_cons, List.not_mem_nil, or_false] at hk
    cases rootOf S o.ty <;> rcases hk with rfl | rfl | rfl | rfl | rfl <;>
      simp [dirsOut, mem_stateless_enterOp, mem_stateless_enterVar, mem_stateless_enterDir]
  have hnodeF : ∀ st s, Kind.fragNonComposite ∉ nodeOut S d st s := by
    intro st s
    cases s <;> simp [nodeOut, dirsOut, mem_stateless_enterField, mem_stateless_enterSpread, mem_stateless_enterInline, mem_stateless_enterDir]
  simp only [mem_stateless_events, hfrag, hnodeF, hopN _ _ (by simp : Kind.unknownField ∈ _), hopN _ _ (by simp : Kind.leafWithSel ∈ _),
    hopN _ _ (by simp : Kind.compositeNoSel ∈ _), hopN _ _ (by simp : Kind.fragNonComposite ∈ _),
    hopN _ _ (by simp : Kind.inlineNonComposite ∈ _),
    hfragN .unknownField _ (by decide) (by decide) (by decide) (by decide), hfragN .leafWithSel _ (by decide) (by decide) (by decide) (by decide),
    hfragN .compositeNoSel _ (by decide) (by decide) (by decide) (by decide),
    hfragN .inlineNonComposite _ (by decide) (by decide) (by decide) (by decide),
    and_false, exists_false, false_or, or_false, fragsBad]
  simp only [← nodeOut_block S d]
  constructor
  · rintro (⟨v, hv, h⟩ | ⟨v, hv, h⟩ | ⟨v, hv, h⟩ | h | ⟨v, hv, h⟩)
    · exact Or.inr ⟨v, hv, Or.inl h⟩
    · exact Or.inr ⟨v, hv, Or.inr (Or.inl h)⟩
    · exact Or.inr ⟨v, hv, Or.inr (Or.inr (Or.inl h))⟩
    · exact Or.inl h
    · exact Or.inr ⟨v, hv, Or.inr (Or.inr (Or.inr h))⟩
  · rintro (h | ⟨v, hv, h | h | h | h⟩)
    · exact Or.inr (Or.inr (Or.inr (Or.inl h)))
    · exact Or.inl ⟨v, hv, h⟩
    · exact Or.inr (Or.inl ⟨v, hv, h⟩)
    · exact Or.inr (Or.inr (Or.inl ⟨v, hv, h⟩))
    · exact Or.inr (Or.inr (Or.inr (Or.inr ⟨v, hv, h⟩)))

/-- the three reference rules of the block, in terms of the reference validator's nodes -/
theorem block_spec_iff (S : VSchema) (d : Doc) :
    (Spec.Validate.violates_FieldSelections S d = true ∨ Spec.Validate.violates_LeafFieldSelections S d = true
      ∨ Spec.Validate.violates_FragmentsOnCompositeTypes S d = true) ↔ (fragsBad S d ∨ ∃ w ∈ specDocVisits S d, svAny S w = true) := by
  simp only [spec_fieldSelections, spec_leafFieldSelections, spec_fragmentsOnComposite, Bool.or_eq_true, List.any_eq_true,
    svAny, Bool.and_eq_true, Bool.not_eq_true', fragsBad]
  constructor
  · rintro (⟨w, hw, h⟩ | ⟨w, hw, h⟩ | h | ⟨w, hw, h⟩)
    · exact Or.inr ⟨w, hw, Or.inl (Or.inl h)⟩
    · exact Or.inr ⟨w, hw, Or.inl (Or.inr h)⟩
    · exact Or.inl h
    · exact Or.inr ⟨w, hw, Or.inr h⟩
  · rintro (h | ⟨w, hw, (h | h) | h⟩)
    · exact Or.inr (Or.inr (Or.inl h))
    · exact Or.inl ⟨w, hw, h⟩
    · exact Or.inr (Or.inl ⟨w, hw, h⟩)
    · exact Or.inr (Or.inr (Or.inr ⟨w, hw, h⟩))

/-- the roots of a document without bad fragment definitions are composite or unknown: a
    per-selection correspondence that holds under `cur = parent`, composite, lifts to the document -/
theorem roots_lift (S : VSchema) (d : Doc) (hs : Served S d) (hroots : RootsComposite S d) (hF : ¬ fragsBad S d)
    (P : Stack × Sel → Prop) (Q : Option String × Sel → Prop)
    (hlift : ∀ st parent ss, Stack.cur st = parent → OKp S parent → (∀ x ∈ flatSels ss, x ∈ allSels d) →
      (∀ v ∈ visitsSels S st ss, v ∈ docVisits S d) →
      ((∃ v ∈ visitsSels S st ss, P v) ↔ (∃ w ∈ specVisitsSels S parent ss, Q w))) :
    (∃ v ∈ docVisits S d, P v) ↔ (∃ w ∈ specDocVisits S d, Q w) := by
  have hfr : ∀ f ∈ d.frags, ((∃ v ∈ visitsSels S (fragSt S f) f.sels, P v) ↔
      (∃ w ∈ specVisitsSels S (if (tyDef S f.cond).isSome then some f.cond else none) f.sels, Q w)) := by
    intro f hf
    apply hlift
    · simp only [fragSt, Stack.cur, exists_eq_tyDef]
      by_cases hx : (tyDef S f.cond).isSome = true <;> simp [hx]
    · intro p hp
      by_cases hx : (tyDef S f.cond).isSome = true
      · simp only [hx, if_true, Option.some.injEq] at hp
        subst hp
        cases hc : composite S f.cond
        · exact absurd ⟨f, hf, hx, hc⟩ hF
        · rfl
      · simp [hx] at hp
    · intro x hx
      simp only [allSels, List.mem_append, List.mem_flatMap]; exact Or.inr ⟨f, hf, hx⟩
    · intro v hv
      simp only [docVisits, List.mem_append, List.mem_flatMap]; exact Or.inl ⟨f, hf, hv⟩
  have hop : ∀ o ∈ d.ops, ((∃ v ∈ opVisits S o, P v) ↔
      (∃ w ∈ specVisitsSels S (Spec.Validate.rootType S o.ty) o.sels, Q w)) := by
    intro o ho
    have h1 := hs o ho
    unfold opVisits
    cases hroot : rootOf S o.ty with
    | none => simp [hroot] at h1
    | some r =>
      have hc := hroots o ho r hroot
      have he : S.exists? r = true := by
        unfold VSchema.isComposite VSchema.kindOf at hc
        unfold VSchema.exists?
        cases h : S.ty? r <;> simp_all
      simp only []
      apply hlift
      · rw [← rootOf_eq, hroot]; simp [opSt, Stack.cur, he]
      · intro p hp
        rw [← rootOf_eq, hroot] at hp
        simp only [Option.some.injEq] at hp
        subst hp
        rw [← isComposite_eq]; exact hc
      · intro x hx
        simp only [allSels, List.mem_append, List.mem_flatMap]; exact Or.inl ⟨o, ho, hx⟩
      · intro v hv
        simp only [docVisits, List.mem_append, List.mem_flatMap]
        exact Or.inr ⟨o, ho, by unfold opVisits; rw [hroot]; exact hv⟩
  simp only [docVisits, specDocVisits, List.mem_append, List.mem_flatMap]
  constructor
  · rintro ⟨v, (⟨f, hf', hv⟩ | ⟨o, ho', hv⟩), hp⟩
    · obtain ⟨w, hw, hq⟩ := (hfr f hf').mp ⟨v, hv, hp⟩
      exact ⟨w, Or.inr ⟨f, hf', hw⟩, hq⟩
    · obtain ⟨w, hw, hq⟩ := (hop o ho').mp ⟨v, hv, hp⟩
      exact ⟨w, Or.inl ⟨o, ho', hw⟩, hq⟩
  · rintro ⟨w, (⟨o, ho', hw⟩ | ⟨f, hf', hw⟩), hq⟩
    · obtain ⟨v, hv, hp⟩ := (hop o ho').mpr ⟨w, hw, hq⟩
      exact ⟨v, Or.inr ⟨o, ho', hv⟩, hp⟩
    · obtain ⟨v, hv, hp⟩ := (hfr f hf').mpr ⟨w, hw, hq⟩
      exact ⟨v, Or.inl ⟨f, hf', hv⟩, hp⟩

/-- FieldsOnCorrectType + ScalarLeafs + FragmentsOnCompositeTypes
    = §5.3.1 Field Selections + §5.3.3 Leaf Field Selections + §5.5.1.3 Fragments On Composite Types -/
theorem rule_block (S : VSchema) (d : Doc) (hB : BlockSchema S) (hs : Served S d) (hroots : RootsComposite S d)
    (hdoc : ∀ s ∈ allSels d, selOK s) :
    (Kind.unknownField ∈ (events S {} d).flatMap (stateless S {} d) ∨ Kind.leafWithSel ∈ (events S {} d).flatMap (stateless S {} d)
      ∨ Kind.compositeNoSel ∈ (events S {} d).flatMap (stateless S {} d) ∨ Kind.fragNonComposite ∈ (events S {} d).flatMap (stateless S {} d)
      ∨ Kind.inlineNonComposite ∈ (events S {} d).flatMap (stateless S {} d)) ↔
    (Spec.Validate.violates_FieldSelections S d = true ∨ Spec.Validate.violates_LeafFieldSelections S d = true
      ∨ Spec.Validate.violates_FragmentsOnCompositeTypes S d = true) := by
  rw [block_model_iff, block_spec_iff]
  by_cases hF : fragsBad S d
  · simp [hF]
  · simp only [hF, false_or]
    exact roots_lift S d hs hroots hF (mv S) (fun w => svAny S w = true)
      (fun st parent ss hcur hok hmem _ => block_visits S hB st parent hcur hok ss (fun x hx => hdoc x (hmem x hx)))

-- ------------------------------------------------------------------ decidable forms of the hypotheses

/-- registry well-formedness, in a form `decide` can check on a concrete schema -/
structure SchemaWF (S : VSchema) : Prop where
  /-- `String` is not an object, interface or union type -/
  stringNotComposite : composite S "String" = false
  /-- no type declares a field called `__typename` -/
  noTypenameField : ∀ td ∈ S.base.types, ∀ f ∈ td.fields, f.name ≠ "__typename"
  /-- the type of an output field is not an input-object type -/
  fieldsOutput : ∀ td ∈ S.base.types, ∀ f ∈ td.fields, kindIs S f.ty.base .input = false
  /-- the root types the schema names are composite types of the schema -/
  rootsComposite : ∀ (t : OpType) (r : String), rootOf S t = some r → S.isComposite r = true
  /-- the `is_subscription` flags of the registry mark exactly the type `subscription_type` names
      (`visit_selection` goes by the flag, the specification by the operation type; used by
      `c09_typename_at_subscription_root`, not by the equivalence for the repaired pipeline, which
      walks `__typename` like any field and enforces 5.2.3.1 by the reference rule) -/
  flags : flagWF S = true

/-- no sub-selection below `__typename` -/
def docOK (d : Doc) : Bool :=
  (allSels d).all (fun s => match s with
    | .field _ n _ _ ss _ => n != "__typename" || ss.isEmpty
    | _ => true)

theorem field?_mem (S : VSchema) (t n : String) (f : FieldDef) (h : S.field? t n = some f) :
    ∃ td ∈ S.base.types, f ∈ td.fields ∧ f.name = n ∧ td.name = t ∧ tyDef S t = some td
      ∧ (td.kind = .object ∨ td.kind = .interface) := by
  unfold VSchema.field? VSchema.ty? Schema.find? at h
  cases hty : S.base.types.find? (·.name = t) with
  | none => simp [hty] at h
  | some td =>
    simp only [hty] at h
    split at h
    · rename_i hk
      have h1 := List.mem_of_find?_eq_some hty
      have h2 := List.mem_of_find?_eq_some h
      have h3 := List.find?_some h
      have h4 := List.find?_some hty
      refine ⟨td, h1, h2, by simpa using h3, by simpa using h4, hty, ?_⟩
      simpa using hk
    · simp at h

theorem SchemaWF.block {S : VSchema} (h : SchemaWF S) : BlockSchema S where
  typed :=
    { stringNoFields := by
        intro n
        cases hf : S.field? "String" n with
        | none => rfl
        | some f =>
          obtain ⟨td, _, _, _, _, hty, hk⟩ := field?_mem S _ _ _ hf
          have := h.stringNotComposite
          unfold composite kindIs at this
          rcases hk with hk | hk <;> simp [hty, hk] at this
      noTypenameField := by
        intro t
        cases hf : S.field? t "__typename" with
        | none => rfl
        | some f =>
          obtain ⟨td, htd, hfm, hn, _⟩ := field?_mem S _ _ _ hf
          exact absurd hn (h.noTypenameField td htd f hfm) }
  stringNotComposite := h.stringNotComposite
  fieldsOutput := by
    intro t n f hf
    obtain ⟨td, htd, hfm, _⟩ := field?_mem S _ _ _ hf
    exact h.fieldsOutput td htd f hfm

theorem SchemaWF.roots {S : VSchema} (h : SchemaWF S) (d : Doc) : RootsComposite S d :=
  fun o _ r hr => h.rootsComposite o.ty r hr

theorem RootsComposite.exist {S : VSchema} {d : Doc} (h : RootsComposite S d) : RootsExist S d := by
  intro o ho r hr
  have hc := h o ho r hr
  unfold VSchema.isComposite VSchema.kindOf at hc
  unfold VSchema.exists?
  cases h' : S.ty? r <;> simp_all

theorem docOK_selOK (d : Doc) (h : docOK d = true) : ∀ s ∈ allSels d, selOK s := by
  intro s hs
  have := List.all_eq_true.mp h s hs
  cases s with
  | field al n args ds ss q =>
    simp only [Bool.or_eq_true, bne_iff_ne, ne_eq, List.isEmpty_iff] at this
    intro hn
    rcases this with h1 | h1
    · exact absurd hn h1
    · exact h1
  | spread n ds q => trivial
  | inline c ds ss q => trivial

end AGV.Lemmas.ValidateRules
