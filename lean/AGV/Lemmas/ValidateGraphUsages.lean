/-
  C09 — the graph rules, part 4: VariableInAllowedPosition = §5.8.5 All Variable Usages Are Allowed.
  The variable usages the walker hands to `enter_input_value` are the reference validator's
  (`mem_usages`, typed correspondence), and the implementation's comparison is
  IsVariableUsageAllowed except for a variable whose default is the literal `null` (`judge_eq`).
-/
import AGV.Lemmas.ValidateGraphRules
set_option linter.unusedSectionVars false
set_option linter.unusedSimpArgs false
namespace AGV.Lemmas.ValidateGraph
open AGV.Core AGV.Model.Validate AGV.Lemmas.ValidateWalk AGV.Lemmas.ValidateMachine AGV.Lemmas.ValidateRules
open AGV.Lemmas.ValidateSpecNodes
open AGV.Spec.Validate (usedFrags usagesIn siteUsages nodeUsages opNodes fragNodes tyDef fieldType usageAllowed typesCompatible
  violates_AllVariableUsagesAllowed)

-- ------------------------------------------------------------------ usages of one value

theorem unwrapNN_eq (t : TypeRef) : unwrapNN t = t.nullable := by cases t <;> rfl

theorem inputUsages_none (S : VSchema) (fuel : Nat) (b : Bool) (v : DValue) : inputUsages S fuel none b v = [] := by
  cases fuel with
  | zero => rfl
  | succ f => cases v <;> simp [inputUsages]

theorem inputUsages_some (S : VSchema) (fuel : Nat) (t : TypeRef) (b : Bool) (v : DValue) :
    inputUsages S fuel (some t) b v = usagesIn S fuel t b v := by
  induction fuel generalizing t b v with
  | zero => rfl
  | succ f ih =>
    cases v with
    | var n => simp [inputUsages, usagesIn]
    | list xs =>
      simp only [inputUsages, usagesIn, Option.map_some, unwrapNN_eq]
      cases t.nullable with
      | list t' => simp only []; congr 1; funext x; exact ih _ _ _
      | named _ => rfl
      | nonNull _ => rfl
    | obj fs =>
      simp only [inputUsages, usagesIn, Option.map_some, unwrapNN_eq]
      cases t.nullable with
      | named n =>
        simp only [VSchema.input?]
        cases S.inputs.find? (·.name = n) with
        | none => rfl
        | some idef =>
          simp only []
          congr 1; funext p
          cases idef.fields.find? (·.name = p.1) <;> simp [ih]
      | list _ => rfl
      | nonNull _ => rfl
    | null => simp [inputUsages, usagesIn]
    | int _ => simp [inputUsages, usagesIn]
    | float _ => simp [inputUsages, usagesIn]
    | str _ => simp [inputUsages, usagesIn]
    | bool _ => simp [inputUsages, usagesIn]
    | enum _ => simp [inputUsages, usagesIn]

theorem siteUsages_eq (S : VSchema) (defs : Option (List ArgDef)) (args : List (String × DValue)) :
    args.flatMap (argUsages S defs) = siteUsages S defs args := by
  cases defs with
  | none =>
    have : argUsages S none = fun _ => [] := by
      funext a; simp [argUsages, inputUsages_none]
    rw [this]
    simp [siteUsages]
  | some ds =>
    simp only [siteUsages]
    congr 1; funext a
    simp only [argUsages, Option.bind_some]
    cases ds.find? (·.name = a.1) <;> simp [inputUsages_none, inputUsages_some, Model.Validate.valueFuel, Spec.Validate.valueFuel]

/-- usages in the arguments of directives -/
def dirU (S : VSchema) (ds : List Dir) : List (String × TypeRef × Bool) :=
  ds.flatMap (fun dr => siteUsages S ((S.dirs.find? (·.name = dr.name)).map (·.args)) dr.args)

theorem usage_walkArgs (S : VSchema) (st defs args) : (walkArgs S {} st defs args).flatMap evUsage = siteUsages S defs args := by
  rw [← siteUsages_eq]
  induction args with
  | nil => rfl
  | cons a as ih =>
    rw [walkArgs_cons]
    simp [List.flatMap_cons, ih, evUsage, Model.Validate.mk]

theorem usage_walkDirs (S : VSchema) (st ds) : (walkDirs S {} st ds).flatMap evUsage = dirU S ds := by
  induction ds with
  | nil => rfl
  | cons dr ds ih =>
    rw [walkDirs_cons]
    simp only [List.flatMap_cons, List.flatMap_append, usage_walkArgs, ih, evUsage, Model.Validate.mk, dirU, VSchema.dir?]
    simp

/-- what the model records at a visited selection -/
def selUsM (S : VSchema) : Stack × Sel → List (String × TypeRef × Bool)
  | (st, .field _ n args ds _ _) => siteUsages S (fieldDefs S st n) args ++ dirU S ds
  | (_, .spread _ ds _) => dirU S ds
  | (_, .inline _ ds _ _) => dirU S ds

/-- what the reference validator collects at a selection -/
def selUsS (S : VSchema) : Option String × Sel → List (String × TypeRef × Bool)
  | (p, .field _ n args ds _ _) => siteUsages S ((p.bind (fun p => fieldType S p n)).map (·.2)) args ++ dirU S ds
  | (_, .spread _ ds _) => dirU S ds
  | (_, .inline _ ds _ _) => dirU S ds

theorem usage_setEvents (st ss) : (setEvents st ss).flatMap evUsage = [] := by
  cases ss <;> simp [setEvents, evUsage, Model.Validate.mk]

theorem usage_localEvents (S : VSchema) (st s) : (localEvents S st s).flatMap evUsage = selUsM S (st, s) := by
  cases s <;>
    simp [localEvents, List.flatMap_cons, List.flatMap_append, usage_walkArgs, usage_walkDirs, usage_setEvents, evUsage,
      Model.Validate.mk, selUsM]

theorem mem_usage_walkSels (S : VSchema) (st ss) (u : String × TypeRef × Bool) :
    u ∈ (walkSels S {} st ss).flatMap evUsage ↔ ∃ v ∈ visitsSels S st ss, u ∈ selUsM S v := by
  simp only [List.mem_flatMap, mem_walkSels]
  constructor
  · rintro ⟨e, ⟨v, hv, he⟩, hu⟩
    exact ⟨v, hv, by rw [← usage_localEvents]; exact List.mem_flatMap.mpr ⟨e, he, hu⟩⟩
  · rintro ⟨v, hv, hu⟩
    rw [show v = (v.1, v.2) from rfl, ← usage_localEvents] at hu
    obtain ⟨e, he, hu⟩ := List.mem_flatMap.mp hu
    exact ⟨e, ⟨v, hv, he⟩, hu⟩

theorem nodeUsages_eq (S : VSchema) (l : List (Option String × Sel)) : nodeUsages S (l.map toNode) = l.flatMap (selUsS S) := by
  simp only [nodeUsages, List.flatMap_map]
  congr 1; funext w
  obtain ⟨p, s⟩ := w
  cases s <;> rfl

theorem usages_agree (S : VSchema) (hT : TypedSchema S) (st : Stack) (parent : Option String) (s : Sel)
    (h : TyRel (Stack.cur st) parent) : selUsM S (st, s) = selUsS S (parent, s) := by
  cases s with
  | spread n ds p => rfl
  | inline c ds ss p => rfl
  | field al n args ds ss p =>
    simp only [selUsM, selUsS, fieldDefs]
    congr 1
    by_cases hn : n = "__typename"
    · subst hn
      have h1 : ∀ c : Option String, c.bind (fun p => S.field? p "__typename") = none := by
        intro c; cases c <;> simp [hT.noTypenameField]
      rw [h1]
      cases parent with
      | none => simp
      | some p =>
        simp only [Option.bind_some, fieldType, if_true]
        by_cases hc : Spec.Validate.composite S p = true
        · simp only [hc, if_true, Option.map_some, Option.map_none, siteUsages]
          simp [flatMap_const_nil]
        · simp [hc]
    · rcases h with h | ⟨h1, h2⟩
      · rw [h]
        cases parent with
        | none => simp
        | some p =>
          simp only [Option.bind_some, ← field?_eq_fieldType S p n hn]
          cases S.field? p n <;> simp
      · rw [h1, h2]
        simp [hT.stringNoFields n]

end AGV.Lemmas.ValidateGraph

namespace AGV.Lemmas.ValidateGraph
open AGV.Core AGV.Model.Validate AGV.Lemmas.ValidateWalk AGV.Lemmas.ValidateMachine AGV.Lemmas.ValidateRules
open AGV.Lemmas.ValidateSpecNodes
open AGV.Spec.Validate (usedFrags usagesIn siteUsages nodeUsages opNodes fragNodes tyDef fieldType usageAllowed typesCompatible
  violates_AllVariableUsagesAllowed)

theorem usage_walkSet (S : VSchema) (st ss) : (walkSet S {} st ss).flatMap evUsage = (walkSels S {} st ss).flatMap evUsage := by
  rw [walkSet_eq]; cases ss <;> simp [enterSetEv, exitSetEv, List.flatMap_append, evUsage, Model.Validate.mk]

variable (S : VSchema) (d : Doc)

theorem mem_recF_usages (hT : TypedSchema S) (f : FragDef) (u : String × TypeRef × Bool) :
    u ∈ (recF S f).usages ↔ u ∈ dirU S f.dirs ++ nodeUsages S (fragNodes S f) := by
  have h1 : (recF S f).usages = dirU S f.dirs ++ (walkSels S {} (fragSt S f) f.sels).flatMap evUsage := by
    simp [recF, ext, fragBody, List.flatMap_append, usage_walkDirs, usage_walkSet, evUsage, Model.Validate.mk]
  rw [h1, List.mem_append, List.mem_append, mem_usage_walkSels]
  apply or_congr_right
  rw [fragNodes, nodesOfL_eq, nodeUsages_eq, List.mem_flatMap]
  apply typed_exists_sels S hT (fun v => u ∈ selUsM S v) (fun w => u ∈ selUsS S w)
  · intro st parent s h; rw [usages_agree S hT st parent s h]
  · left
    simp only [fragSt, Stack.cur, exists_eq_tyDef]
    by_cases hx : (tyDef S f.cond).isSome = true <;> simp [hx]

theorem mem_recO_usages (hT : TypedSchema S) (o : OpDef) (hs : (rootOf S o.ty).isSome = true)
    (hr : ∀ r, rootOf S o.ty = some r → S.exists? r = true) (u : String × TypeRef × Bool) :
    u ∈ (recO S o).usages ↔ u ∈ dirU S o.dirs ++ nodeUsages S (opNodes S o) := by
  cases hroot : rootOf S o.ty with
  | none => simp [hroot] at hs
  | some r =>
    have h1 : (recO S o).usages = dirU S o.dirs ++ (walkSels S {} (opSt S r) o.sels).flatMap evUsage := by
      unfold recO opBody
      simp [hroot, ext, List.flatMap_append, usage_walkDirs, usage_walkSet, evUsage, Model.Validate.mk, List.flatMap_assoc]
    rw [h1, List.mem_append, List.mem_append, mem_usage_walkSels]
    apply or_congr_right
    rw [opNodes, nodesOfL_eq, nodeUsages_eq, List.mem_flatMap]
    apply typed_exists_sels S hT (fun v => u ∈ selUsM S v) (fun w => u ∈ selUsS S w)
    · intro st parent s h; rw [usages_agree S hT st parent s h]
    · left
      rw [← rootOf_eq, hroot]
      simp [opSt, Stack.cur, hr r hroot]

-- ------------------------------------------------------------------ the judgement of one usage

theorem isSubtype_compat (pos var : TypeRef) : isSubtype {} pos var = typesCompatible var pos := by
  induction pos generalizing var with
  | named p =>
    induction var with
    | named v => simp only [isSubtype, typesCompatible]; exact BEq.comm
    | list v _ => simp [isSubtype, typesCompatible]
    | nonNull v ih => simp [isSubtype, typesCompatible, ih]
  | list p ihp =>
    induction var with
    | named v => simp [isSubtype, typesCompatible]
    | list v _ => simp [isSubtype, typesCompatible, ihp]
    | nonNull v ih => simp [isSubtype, typesCompatible, ih]
  | nonNull p ihp =>
    cases var with
    | named v => simp [isSubtype, typesCompatible]
    | list v => simp [isSubtype, typesCompatible]
    | nonNull v => simp [isSubtype, typesCompatible, ihp]

/-- the type `VariableInAllowedPosition` compares the location with -/
def expectedTy (v : VarDef) (locDef : Bool) : TypeRef :=
  if !(false : Bool) && locDef && !v.ty.isNonNull then TypeRef.nonNull v.ty
  else (if !v.ty.isNonNull && hasDefault {} v then TypeRef.nonNull v.ty else v.ty)

theorem compat_nonNull_left (t l : TypeRef) (ht : t.isNonNull = false) :
    typesCompatible (.nonNull t) l = typesCompatible t l.nullable := by
  cases l <;> cases t <;> simp_all [typesCompatible, TypeRef.nullable, TypeRef.isNonNull]

theorem compat_nullable_nonNull (t l : TypeRef) (ht : t.isNonNull = false) : typesCompatible t (.nonNull l) = false := by
  cases t <;> simp_all [typesCompatible, TypeRef.isNonNull]

theorem hasDefault_none (v : VarDef) (h : v.default = none) : hasDefault {} v = false := by simp [hasDefault, h]
theorem hasDefault_null (v : VarDef) (h : v.default = some .null) : hasDefault {} v = false := by simp [hasDefault, h]
theorem hasDefault_some (v : VarDef) (x : GValue) (h : v.default = some x) (hx : x ≠ .null) : hasDefault {} v = true := by
  cases x <;> simp_all [hasDefault]

/-- the repaired comparison (the literal `null` is not counted as a default) is IsVariableUsageAllowed -/
theorem judge_eq (v : VarDef) (loc : TypeRef) (b : Bool) :
    isSubtype {} loc (expectedTy v b) = usageAllowed v loc b := by
  rw [isSubtype_compat]
  unfold expectedTy usageAllowed
  by_cases hv : v.ty.isNonNull = true
  · cases loc <;> simp [hv]
  · have hv' : v.ty.isNonNull = false := by simpa using hv
    cases loc with
    | nonNull l =>
      simp only [hv']
      cases hd : v.default with
      | none => cases b <;> simp [hasDefault_none v hd, compat_nonNull_left _ _ hv', compat_nullable_nonNull _ _ hv', TypeRef.nullable]
      | some x =>
        by_cases hx : x = .null
        · subst hx
          cases b <;> simp [hasDefault_null v hd, compat_nonNull_left _ _ hv', compat_nullable_nonNull _ _ hv', TypeRef.nullable]
        · have hdef := hasDefault_some v x hd hx
          cases x <;> cases b <;>
            simp_all [compat_nonNull_left _ _ hv', compat_nullable_nonNull _ _ hv', TypeRef.nullable]
    | named n =>
      simp only [hv']
      cases b <;> cases hd : hasDefault {} v <;> simp [compat_nonNull_left _ _ hv', TypeRef.nullable]
    | list l =>
      simp only [hv']
      cases b <;> cases hd : hasDefault {} v <;> simp [compat_nonNull_left _ _ hv', TypeRef.nullable]

end AGV.Lemmas.ValidateGraph

namespace AGV.Lemmas.ValidateGraph
open AGV.Core AGV.Model.Validate AGV.Lemmas.ValidateWalk AGV.Lemmas.ValidateMachine AGV.Lemmas.ValidateRules
open AGV.Lemmas.ValidateSpecNodes
open AGV.Spec.Validate (usedFrags usagesIn siteUsages nodeUsages opNodes fragNodes tyDef fieldType usageAllowed typesCompatible
  violates_AllVariableUsagesAllowed)

/-- the implementation's verdict on one usage -/
def judgeM (vars : List VarDef) (u : String × TypeRef × Bool) : Bool :=
  match vars.find? (·.name = u.1) with
  | some v => !(isSubtype {} u.2.1 (expectedTy v u.2.2))
  | none => false

/-- the reference validator's verdict on one usage -/
def judgeS (vars : List VarDef) (u : String × TypeRef × Bool) : Bool :=
  match vars.find? (·.name = u.1) with
  | some v => !(usageAllowed v u.2.1 u.2.2)
  | none => false

theorem judge_agree (vars : List VarDef) (u) : judgeM vars u = judgeS vars u := by
  unfold judgeM judgeS
  cases h : vars.find? (·.name = u.1) with
  | none => rfl
  | some v => simp only []; rw [judge_eq v _ _]

theorem ruleVarPositions_eq (d : Doc) (tbl : List ScopeRec) :
    ruleVarPositions {} d tbl = d.ops.flatMap (fun o =>
      if o.vars.isEmpty then [] else
      if ((reachable tbl (.op o.name)).flatMap (fun s => (recOf tbl s).usages)).any (judgeM o.vars) then [Kind.varPosition] else []) := by
  rfl

/-- the usages the reference validator collects for an operation -/
def specUs (S : VSchema) (d : Doc) (o : OpDef) : List (String × TypeRef × Bool) :=
  dirU S o.dirs ++ nodeUsages S (opNodes S o)
    ++ (usedFrags d o.sels).flatMap (fun n => match d.frags.find? (·.name = n) with
        | some f => dirU S f.dirs ++ nodeUsages S (fragNodes S f) | none => [])

theorem allowed_eq (S : VSchema) (d : Doc) :
    violates_AllVariableUsagesAllowed S d = d.ops.any (fun o => (specUs S d o).any (judgeS o.vars)) := by
  rfl


theorem mem_specUs (S : VSchema) (d : Doc) (hn : FragsNodup d) (o : OpDef) (u : String × TypeRef × Bool) :
    u ∈ specUs S d o ↔
      (u ∈ dirU S o.dirs ++ nodeUsages S (opNodes S o)
        ∨ ∃ f ∈ d.frags, f.name ∈ usedFrags d o.sels ∧ u ∈ dirU S f.dirs ++ nodeUsages S (fragNodes S f)) := by
  unfold specUs
  simp only [List.mem_append, List.mem_flatMap]
  constructor
  · rintro ((h | h) | ⟨n, hnm, hv⟩)
    · exact Or.inl (Or.inl h)
    · exact Or.inl (Or.inr h)
    · split at hv
      · rename_i f hf
        have hmem := List.mem_of_find?_eq_some hf
        have hname : f.name = n := by simpa using List.find?_some hf
        exact Or.inr ⟨f, hmem, hname ▸ hnm, List.mem_append.mp hv⟩
      · cases hv
  · rintro ((h | h) | ⟨f, hf, hu, hv⟩)
    · exact Or.inl (Or.inl h)
    · exact Or.inl (Or.inr h)
    · refine Or.inr ⟨f.name, hu, ?_⟩
      rw [find_frag d hn f hf]
      exact List.mem_append.mpr hv

/-- no variable definition has the literal `null` as its default value -/
def NoNullDefault (d : Doc) : Prop := ∀ o ∈ d.ops, ∀ v ∈ o.vars, v.default ≠ some .null

/-- the usages the model collects for an operation are the reference validator's -/
theorem mem_usages (S : VSchema) (d : Doc) (h : GraphHyp S d) (hT : TypedSchema S) (hr : RootsExist S d)
    (o : OpDef) (ho : o ∈ d.ops) (u : String × TypeRef × Bool) :
    u ∈ (reachable (docTable S d) (.op o.name)).flatMap (fun s => (recOf (docTable S d) s).usages) ↔ u ∈ specUs S d o := by
  rw [List.mem_flatMap, exists_reachable S d h o ho (fun r => u ∈ r.usages) (by intro s; simp),
    mem_specUs S d (scopesNodup_frags d h.nodup), mem_recO_usages S hT o (h.served o ho) (hr o ho)]
  simp only [mem_recF_usages S hT]

/-- VariableInAllowedPosition (repaired) = §5.8.5 All Variable Usages Are Allowed -/
theorem rule_variables_in_allowed_position (S : VSchema) (d : Doc) (h : GraphHyp S d) (hT : TypedSchema S) (hr : RootsExist S d) :
    Kind.varPosition ∈ ruleVarPositions {} d (docTable S d) ↔ violates_AllVariableUsagesAllowed S d = true := by
  rw [ruleVarPositions_eq, allowed_eq]
  simp only [List.mem_flatMap, List.any_eq_true]
  constructor
  · rintro ⟨o, ho, hk⟩
    split at hk
    · cases hk
    · split at hk
      · rename_i hc
        obtain ⟨u, hu, hj⟩ := List.any_eq_true.mp hc
        exact ⟨o, ho, u, (mem_usages S d h hT hr o ho u).mp hu, by rw [← judge_agree _]; exact hj⟩
      · cases hk
  · rintro ⟨o, ho, u, hu, hj⟩
    refine ⟨o, ho, ?_⟩
    have hne : o.vars.isEmpty = false := by
      cases hv : o.vars with
      | nil => simp [judgeS, hv] at hj
      | cons _ _ => rfl
    have hc : ((reachable (docTable S d) (.op o.name)).flatMap (fun s => (recOf (docTable S d) s).usages)).any (judgeM o.vars) = true :=
      List.any_eq_true.mpr ⟨u, (mem_usages S d h hT hr o ho u).mpr hu, by rw [judge_agree _]; exact hj⟩
    simp [hne, hc]

end AGV.Lemmas.ValidateGraph

