/-
  Property C13: reading combinators, continued — repetitions (`e*`, `e+`) and the leaves (Punctuator
  literals, `...`, keyword literals, `name`).
-/
import AGV.Lemmas.PegC13Comb
namespace AGV.Lemmas.PegX
open AGV.Model.Peg AGV.Model.BuildAst AGV.Spec.Lex AGV.Spec.Parse AGV.Core.PAst AGV.Lemmas.PegC13 AGV.Lemmas.SpecVal

-- ------------------------------------------------------------------ repetition

/-- elements read while the reader succeeds (`n` bounds their number) -/
def manyF {α : Type} (qa : Sim α) : Nat → List Tok → List α × List Tok
  | 0, ts => ([], ts)
  | n + 1, ts =>
    match qa ts with
    | some (x, r) => (x :: (manyF qa n r).1, (manyF qa n r).2)
    | none => ([], ts)

def tRep {α : Type} (qa : Sim α) : Sim (List α) := fun ts => some (manyF qa ts.length ts)

def tRep1 {α : Type} (qa : Sim α) : Sim (List α) := fun ts =>
  match qa ts with
  | some (x, r) => some (x :: (manyF qa r.length r).1, (manyF qa r.length r).2)
  | none => none

theorem manyF_fuel {α : Type} {qa : Sim α} (hS : Strict qa) : ∀ (n m : Nat) (ts : List Tok), ts.length ≤ n → ts.length ≤ m →
    manyF qa n ts = manyF qa m ts := by
  intro n
  induction n with
  | zero =>
    intro m ts hn hm
    have : ts = [] := List.length_eq_zero_iff.1 (by omega)
    subst this
    cases m with
    | zero => rfl
    | succ m =>
      simp only [manyF]
      cases h : qa [] with
      | none => rfl
      | some x => have := hS _ _ _ h; simp at this
  | succ n ih =>
    intro m ts hn hm
    cases m with
    | zero =>
      have : ts = [] := List.length_eq_zero_iff.1 (by omega)
      subst this
      simp only [manyF]
      cases h : qa [] with
      | none => rfl
      | some x => have := hS _ _ _ h; simp at this
    | succ m =>
      simp only [manyF]
      cases h : qa ts with
      | none => rfl
      | some x =>
        obtain ⟨a, r⟩ := x
        have := hS _ _ _ h
        simp only []
        rw [ih m r (by omega) (by omega)]

theorem manyF_len {α : Type} {qa : Sim α} (hS : Strict qa) : ∀ (n : Nat) (ts : List Tok),
    (manyF qa n ts).2.length ≤ ts.length := by
  intro n
  induction n with
  | zero => intro ts; simp [manyF]
  | succ n ih =>
    intro ts
    simp only [manyF]
    cases h : qa ts with
    | none => simp
    | some x =>
      obtain ⟨a, r⟩ := x
      have := hS _ _ _ h
      have := ih r
      simp only []
      omega

/-- where the repetition stops, the element reader fails -/
theorem manyF_stop {α : Type} {qa : Sim α} (hS : Strict qa) : ∀ (n : Nat) (ts : List Tok), ts.length ≤ n →
    qa (manyF qa n ts).2 = none := by
  intro n
  induction n with
  | zero =>
    intro ts hn
    have : ts = [] := List.length_eq_zero_iff.1 (by omega)
    subst this
    simp only [manyF]
    cases h : qa [] with
    | none => rfl
    | some x => have := hS _ _ _ h; simp at this
  | succ n ih =>
    intro ts hn
    simp only [manyF]
    cases h : qa ts with
    | none => exact h
    | some x =>
      obtain ⟨a, r⟩ := x
      have := hS _ _ _ h
      exact ih r (by omega)

/-- two lists related element by element -/
inductive All2 {α β : Type} (R : α → β → Prop) : List α → List β → Prop
  | nil : All2 R [] []
  | cons {a b as bs} : R a b → All2 R as bs → All2 R (a :: as) (b :: bs)

/-- each element of the repetition emitted its own pairs -/
def bMany {α : Type} (Bd : Bld α) : Bld (List α) := fun s₀ ps xs =>
  ∃ pss : List (List Pair), ps = pss.flatten ∧ All2 (Bd s₀) pss xs

/-- the element description the repetition lemmas of `PegC13Rep` work with -/
def GoodOf {α : Type} (qa : Sim α) (Bd : Bld α) (q : Nat) (t : List Char) (r : Res) : Prop :=
  ∀ s₀, At s₀ q t → Out qa Bd s₀ q t r

theorem chain_many {α : Type} {qa : Sim α} {Bd : Bld α} (hS : Strict qa) {p : Nat} {s : List Char} {p' : Nat}
    {s' : List Char} {ps : List Pair} (h : Chain (GoodOf qa Bd) p s p' s' ps) :
    ∀ n, (toks s).length ≤ n → (manyF qa n (toks s)).2 = toks s' ∧
      ∀ s₀, At s₀ p s → At s₀ p' s' ∧ bMany Bd s₀ ps (manyF qa n (toks s)).1 := by
  induction h with
  | @stop p s hg =>
    intro n hn
    have hq : qa (toks s) = none := by
      cases hq : qa (toks s) with
      | none => rfl
      | some x =>
        obtain ⟨a, r⟩ := x
        obtain ⟨_, _, e, -⟩ := (hg _ (at_dummy _ _)).isOk (by rw [toks_skipI]; exact hq)
        cases e
    have hm : manyF qa n (toks s) = ([], toks s) := by
      cases n with
      | zero => rfl
      | succ n => simp only [manyF, hq]
    rw [hm]
    exact ⟨rfl, fun s₀ hat => ⟨hat, [], rfl, All2.nil⟩⟩
  | @step p s p2 s2 ps2 p3 s3 ps3 hg hch ih =>
    intro n hn
    cases hq : qa (toks s) with
    | none =>
      have := (hg _ (at_dummy _ _)).isFail (by rw [toks_skipI]; exact hq)
      cases this
    | some x =>
      obtain ⟨a, ts'⟩ := x
      have hq' : qa (toks (skipI s)) = some (a, ts') := by rw [toks_skipI]; exact hq
      obtain ⟨s2', ps2', e, hts, ⟨mid, hmid⟩, -⟩ := (hg _ (at_dummy _ _)).isOk hq'
      injection e with e1 e2 e3
      subst e2 e3
      have hlt := hS _ _ _ hq
      obtain ⟨k, rfl⟩ : ∃ k, n = k + 1 := ⟨n - 1, by omega⟩
      obtain ⟨i1, i2⟩ := ih k (by rw [hts]; omega)
      simp only [manyF, hq]
      rw [← hts]
      refine ⟨i1, fun s₀ hat => ?_⟩
      obtain ⟨s2', ps2', e, -, -, hbd⟩ := (hg s₀ hat.skip).isOk hq'
      injection e with e1' e2 e3
      subst e2 e3
      have hat2 : At s₀ p2 s2 := by
        rw [e1]
        exact hat.skip.consumes ⟨mid, hmid, by rw [hmid]; simp⟩
      obtain ⟨j1, pss, j2, j3⟩ := i2 s₀ hat2
      exact ⟨j1, ps2 :: pss, by simp [j2], All2.cons hbd j3⟩

section
variable {α : Type} {L : Nat} {a : Expr} {Ba : Nat} {qa : Sim α} {Bda : Bld α}

theorem reads_H (ha : Reads L a Ba qa Bda) (hS : Strict qa) (hL0 : 0 < L) :
    ∀ t q, t.length ≤ L - 1 → TokStart t → ∃ r, EvR G0 c0 a q t (24 * t.length + Ba) r ∧ GoodOf qa Bda q t r ∧
      (r = .fail ∨ ∃ p2 s2 ps, r = .ok p2 s2 ps ∧ s2.length < t.length) := by
  intro t q hL ht
  obtain ⟨r, hE, hO⟩ := ha q t (by omega) ht
  refine ⟨r, hE, hO, ?_⟩
  cases hq : qa (toks t) with
  | none => exact Or.inl ((hO _ (at_dummy _ _)).isFail hq)
  | some x =>
    obtain ⟨x, ts'⟩ := x
    obtain ⟨s', ps, e, hts, ⟨mid, hmid⟩, -⟩ := (hO _ (at_dummy _ _)).isOk hq
    have := hS _ _ _ hq
    rw [← hts] at this
    exact Or.inr ⟨_, _, _, e, lt_of_toks_lt hmid this⟩

theorem Reads.rep1 (ha : Reads L a Ba qa Bda) (hS : Strict qa) (h14 : 14 ≤ Ba) :
    Reads L (.rep1 a) (Ba + 5) (tRep1 qa) (bMany Bda) := by
  intro q t hL ht
  rcases rep1_chain tokRules0 (c := c0) rfl (a := a) (Good := GoodOf qa Bda) (Ba := Ba) (L := L - 1) h14
    (reads_H ha hS (by omega)) t q ht (by omega) with ⟨hg, hfail⟩ | ⟨p2, s2, ps2, p', s', ps, hg, hch, hlt2, hle', hrep⟩
  · refine ⟨.fail, hfail, fun s₀ hat => Out.mk_none ?_⟩
    cases hq : qa (toks t) with
    | none => simp [tRep1, hq]
    | some x =>
      obtain ⟨x, ts'⟩ := x
      obtain ⟨_, _, e, -⟩ := (hg s₀ hat).isOk hq
      cases e
  · refine ⟨_, hrep, fun s₀ hat => ?_⟩
    cases hq : qa (toks t) with
    | none => have := (hg s₀ hat).isFail hq; cases this
    | some x =>
      obtain ⟨x, ts'⟩ := x
      obtain ⟨s2', ps2', e, hts, ⟨mid, hmid⟩, hbd⟩ := (hg s₀ hat).isOk hq
      injection e with e1 e2 e3
      subst e2 e3
      have hat2 : At s₀ p2 s2 := by
        rw [e1]; exact hat.consumes ⟨mid, hmid, by rw [hmid]; simp⟩
      obtain ⟨i1, i2⟩ := chain_many hS hch (toks s2).length (Nat.le_refl _)
      obtain ⟨hat3, pss, j2, j3⟩ := i2 s₀ hat2
      obtain ⟨mid3, hmid3, -⟩ := hrep.consumes
      have l1 := hat.len
      have l3 := hat3.len
      have l4 := append_len_le hmid3
      refine Out.mk_some (a := x :: (manyF qa ts'.length ts').1) (ts' := (manyF qa ts'.length ts').2)
        (by simp [tRep1, hq]) (by omega) (by rw [← hts]; exact i1.symm) ⟨mid3, hmid3⟩ ?_
      rw [← hts]
      exact ⟨ps2 :: pss, by simp [j2], All2.cons hbd j3⟩

theorem Reads.rep (ha : Reads L a Ba qa Bda) (hS : Strict qa) (h14 : 14 ≤ Ba) :
    Reads L (.rep a) (Ba + 5) (tRep qa) (bMany Bda) := by
  intro q t hL ht
  obtain ⟨p', s', ps, hrep, hch, hle⟩ := rep_chain tokRules0 (c := c0) rfl (a := a) (Good := GoodOf qa Bda) (Ba := Ba)
    (L := L - 1) h14 (reads_H ha hS (by omega)) t q ht (by omega)
  refine ⟨_, hrep, fun s₀ hat => ?_⟩
  obtain ⟨i1, i2⟩ := chain_many hS hch (toks t).length (Nat.le_refl _)
  obtain ⟨hat3, hb⟩ := i2 s₀ hat
  obtain ⟨mid3, hmid3, -⟩ := hrep.consumes
  have l1 := hat.len
  have l3 := hat3.len
  have l4 := append_len_le hmid3
  exact Out.mk_some (a := (manyF qa (toks t).length (toks t)).1) (ts' := (manyF qa (toks t).length (toks t)).2)
    (by simp [tRep]) (by omega) i1.symm ⟨mid3, hmid3⟩ hb
end

-- ------------------------------------------------------------------ leaves

/-- no pairs -/
def bNil {α : Type} : Bld α := fun _ ps _ => ps = []

/-- the Punctuator `x` -/
def tPunct (x : Char) : Sim Unit := fun ts => (closeTok x ts).map (fun r => ((), r))

theorem Reads.punct (L : Nat) (x : Char) (hx : isPunct x = true) (B : Nat) (hB : 1 ≤ B) :
    Reads L (.str [x]) B (tPunct x) bNil := by
  intro q t _ ht
  have hE : EvR G0 c0 (.str [x]) q t (24 * t.length + B) (resOf (q + 1) (punctTok x t)) := by
    intro f hf; rw [punct_spec G0 c0 x hx q t f (by omega)]
  have hcl := closeTok_toks x hx t ht
  refine ⟨_, hE, fun s₀ _ => ?_⟩
  cases hp : punctTok x t with
  | none =>
    rw [hp] at hcl
    exact Out.mk_none (by simp [tPunct, hcl])
  | some r =>
    rw [hp] at hcl
    have hE' : EvR G0 c0 (.str [x]) q t (24 * t.length + B) (.ok (q + 1) r []) := by rw [hp] at hE; exact hE
    obtain ⟨mid, hmid, hpos⟩ := hE'.consumes
    have := congrArg List.length hmid
    simp only [List.length_append] at this
    exact Out.mk_some (a := ()) (ts' := toks r) (by simp [tPunct, hcl]) (by omega) rfl ⟨mid, hmid⟩ rfl

theorem strict_punct (x : Char) : Strict (tPunct x) := by
  intro ts a r h
  simp only [tPunct] at h
  cases hc : closeTok x ts with
  | none => simp [hc] at h
  | some r' =>
    simp [hc] at h
    subst h
    rw [closeTok_some hc]; simp

/-- `...` -/
def tSpread : Sim Unit := fun ts =>
  match ts with
  | .spread :: r => some ((), r)
  | _ => none

theorem spreadTok_toks (t : List Char) (ht : TokStart t) : tSpread (toks t) = (spreadTok t).map (fun r => ((), toks r)) := by
  unfold spreadTok
  rcases toks_head t ht with ⟨rfl, h⟩ | ⟨-, hl, h⟩ | ⟨tok, rest, hl, h, -⟩
  · rw [h]; rfl
  · rw [h, hl]; rfl
  · rw [h, hl]; cases tok <;> rfl

theorem Reads.spread (L : Nat) (B : Nat) (hB : 1 ≤ B) : Reads L (.str ['.', '.', '.']) B tSpread bNil := by
  intro q t _ ht
  have hE : EvR G0 c0 (.str ['.', '.', '.']) q t (24 * t.length + B) (resOf (q + 3) (spreadTok t)) := by
    intro f hf; rw [spread_spec G0 c0 q t f (by omega)]
  have hcl := spreadTok_toks t ht
  refine ⟨_, hE, fun s₀ _ => ?_⟩
  cases hp : spreadTok t with
  | none =>
    rw [hp] at hcl
    exact Out.mk_none (by simp [hcl])
  | some r =>
    rw [hp] at hcl
    have hE' : EvR G0 c0 (.str ['.', '.', '.']) q t (24 * t.length + B) (.ok (q + 3) r []) := by rw [hp] at hE; exact hE
    obtain ⟨mid, hmid, hpos⟩ := hE'.consumes
    have := congrArg List.length hmid
    simp only [List.length_append] at this
    exact Out.mk_some (a := ()) (ts' := toks r) (by simp [hcl]) (by omega) rfl ⟨mid, hmid⟩ rfl

theorem strict_spread : Strict tSpread := by
  intro ts a r h
  unfold tSpread at h
  split at h
  · cases h; simp
  · cases h

/-- the keyword `x` (a Name token with exactly that text) -/
def tKw (x : List Char) : Sim Unit := fun ts =>
  match ts with
  | .name n :: r => if n = x then some ((), r) else none
  | _ => none

theorem kwTok_toks (x : List Char) (t : List Char) (ht : TokStart t) :
    tKw x (toks t) = (kwTok x t).map (fun r => ((), toks r)) := by
  unfold kwTok
  rcases toks_head t ht with ⟨rfl, h⟩ | ⟨-, hl, h⟩ | ⟨tok, rest, hl, h, -⟩
  · rw [h]; rfl
  · rw [h, hl]; rfl
  · rw [h, hl]
    cases tok with
    | name n => simp only [tKw]; split <;> rfl
    | _ => rfl

theorem Reads.kw (L : Nat) (x : List Char) (hx : x ∈ kwList) (B : Nat) (hB : 19 ≤ B) :
    Reads L (kwLit x) B (tKw x) bNil := by
  intro q t _ ht
  have hE : EvR G0 c0 (kwLit x) q t (24 * t.length + B) (resOf (q + x.length) (kwTok x t)) :=
    (kwLit_skip x hx q t ht).mono (by omega)
  have hcl := kwTok_toks x t ht
  refine ⟨_, hE, fun s₀ _ => ?_⟩
  cases hp : kwTok x t with
  | none =>
    rw [hp] at hcl
    exact Out.mk_none (by simp [hcl])
  | some r =>
    rw [hp] at hcl
    have hE' : EvR G0 c0 (kwLit x) q t (24 * t.length + B) (.ok (q + x.length) r []) := by rw [hp] at hE; exact hE
    obtain ⟨mid, hmid, hpos⟩ := hE'.consumes
    have := congrArg List.length hmid
    simp only [List.length_append] at this
    exact Out.mk_some (a := ()) (ts' := toks r) (by simp [hcl]) (by omega) rfl ⟨mid, hmid⟩ rfl

theorem strict_kw (x : List Char) : Strict (tKw x) := by
  intro ts a r h
  unfold tKw at h
  split at h
  · split at h
    · cases h; simp
    · cases h
  · cases h

/-- a `name` pair with this text -/
def bName : Bld Name := fun s₀ ps n =>
  ∃ a b, ps = [Pair.mk "name" a b []] ∧ Env.asStr (envOf s₀) (Pair.mk "name" a b []) = n

theorem Reads.name (L : Nat) (B : Nat) (hB : 8 ≤ B) : Reads L (.ident "name") B pName bName := by
  intro q t _ ht
  have hE := ev_nameR tokRules0 c0 q t
  rw [nameRes_tok] at hE
  have hcl := pName_toks t ht
  cases hn : nameTok t with
  | none =>
    rw [hn] at hE hcl
    exact ⟨.fail, hE.mono (by omega), fun s₀ _ => Out.mk_none (by rw [hcl]; rfl)⟩
  | some x =>
    obtain ⟨n, r1⟩ := x
    rw [hn] at hE hcl
    have hE' : EvR G0 c0 (.ident "name") q t (t.length + 8) (.ok (q + n.length) r1 [Pair.mk "name" q (q + n.length) []]) := hE
    obtain ⟨htxt, -⟩ := nameTok_append hn
    refine ⟨_, hE'.mono (by omega), fun s₀ hat => ?_⟩
    have hlen := congrArg List.length htxt
    simp only [List.length_append] at hlen
    refine Out.mk_some (a := n) (ts' := toks r1) (by rw [hcl]; rfl) (by omega) rfl ⟨n, htxt⟩ ⟨q, q + n.length, rfl, ?_⟩
    have ha := asStr_at hat n.length "name" []
    rw [htxt] at ha
    simpa [envOf] using ha

theorem strict_pName : Strict pName := by
  intro ts a r h
  exact pName_len h

-- ------------------------------------------------------------------ strictness of the combinators

theorem strict_seq_l {α β : Type} {qa : Sim α} {qb : Sim β} (hS : Strict qa)
    (hb : ∀ ts b r, qb ts = some (b, r) → r.length ≤ ts.length) : Strict (tSeq qa qb) := by
  intro ts x r h
  simp only [tSeq] at h
  cases ha : qa ts with
  | none => simp [ha] at h
  | some y =>
    obtain ⟨a, r1⟩ := y
    simp only [ha] at h
    cases hb' : qb r1 with
    | none => simp [hb'] at h
    | some z =>
      obtain ⟨b, r2⟩ := z
      simp [hb'] at h
      obtain ⟨-, rfl⟩ := h
      have := hS _ _ _ ha
      have := hb _ _ _ hb'
      omega

/-- a reader never produces tokens -/
def Mono {α : Type} (qf : Sim α) : Prop := ∀ ts a r, qf ts = some (a, r) → r.length ≤ ts.length

theorem Strict.mono {α : Type} {qf : Sim α} (h : Strict qf) : Mono qf := fun ts a r e => Nat.le_of_lt (h ts a r e)

theorem mono_opt {α : Type} {qa : Sim α} (h : Mono qa) : Mono (tOpt qa) := by
  intro ts a r e
  simp only [tOpt] at e
  cases ha : qa ts with
  | none => simp [ha] at e; obtain ⟨-, rfl⟩ := e; exact Nat.le_refl _
  | some y => obtain ⟨x, r1⟩ := y; simp [ha] at e; obtain ⟨-, rfl⟩ := e; exact h _ _ _ ha

theorem mono_seq {α β : Type} {qa : Sim α} {qb : Sim β} (h1 : Mono qa) (h2 : Mono qb) : Mono (tSeq qa qb) := by
  intro ts x r h
  simp only [tSeq] at h
  cases ha : qa ts with
  | none => simp [ha] at h
  | some y =>
    obtain ⟨a, r1⟩ := y
    simp only [ha] at h
    cases hb' : qb r1 with
    | none => simp [hb'] at h
    | some z =>
      obtain ⟨b, r2⟩ := z
      simp [hb'] at h
      obtain ⟨-, rfl⟩ := h
      have := h1 _ _ _ ha
      have := h2 _ _ _ hb'
      omega

theorem strict_seq {α β : Type} {qa : Sim α} {qb : Sim β} (hS : Strict qa) (hb : Mono qb) : Strict (tSeq qa qb) :=
  strict_seq_l hS hb

theorem strict_seq_r {α β : Type} {qa : Sim α} {qb : Sim β} (ha : Mono qa) (hS : Strict qb) : Strict (tSeq qa qb) := by
  intro ts x r h
  simp only [tSeq] at h
  cases ha' : qa ts with
  | none => simp [ha'] at h
  | some y =>
    obtain ⟨a, r1⟩ := y
    simp only [ha'] at h
    cases hb' : qb r1 with
    | none => simp [hb'] at h
    | some z =>
      obtain ⟨b, r2⟩ := z
      simp [hb'] at h
      obtain ⟨-, rfl⟩ := h
      have := ha _ _ _ ha'
      have := hS _ _ _ hb'
      omega

theorem strict_or {α : Type} {qa qb : Sim α} (h1 : Strict qa) (h2 : Strict qb) : Strict (tOr qa qb) := by
  intro ts x r h
  simp only [tOr] at h
  cases ha : qa ts with
  | none => simp only [ha] at h; exact h2 _ _ _ h
  | some y => simp only [ha] at h; cases h; exact h1 _ _ _ ha

theorem mono_rep {α : Type} {qa : Sim α} (hS : Strict qa) : Mono (tRep qa) := by
  intro ts x r h
  simp only [tRep, Option.some.injEq] at h
  have := manyF_len hS ts.length ts
  rw [h] at this; exact this

theorem strict_rep1 {α : Type} {qa : Sim α} (hS : Strict qa) : Strict (tRep1 qa) := by
  intro ts x r h
  simp only [tRep1] at h
  cases ha : qa ts with
  | none => simp [ha] at h
  | some y =>
    obtain ⟨a, r1⟩ := y
    simp [ha] at h
    obtain ⟨-, rfl⟩ := h
    have := hS _ _ _ ha
    have := manyF_len hS r1.length r1
    omega
end AGV.Lemmas.PegX
