/-
  Property C13: `inline_fragment`, `selection`, `selection_set` — the recursion closed: for every
  length bound the `selection_set` rule is read as `qSelSet`.
-/
import AGV.Lemmas.PegC13Sel3
namespace AGV.Lemmas.PegX
open AGV.Model.Peg AGV.Model.BuildAst AGV.Spec.Lex AGV.Spec.Parse AGV.Core.PAst AGV.Lemmas.PegC13 AGV.Lemmas.SpecVal
open AGV.Lemmas.ParseC13 (selElemK kOf buildSelSet_succ)

theorem reads_inline {L : Nat} (ih : Reads L (.ident "selection_set") 100 (qSelSet L) bSelSet) :
    Reads (L + 1) (.ident "inline_fragment") 85 (qInline (qSelSet L)) bSelAlt := by
  have hrest : Reads L (.seq (.opt (.ident "type_condition")) (.seq (.opt (.ident "directives")) (.ident "selection_set")))
      102 _ _ :=
    Reads.seq (Reads.opt (reads_typeCond L) (K := 23) (by omega))
      (Reads.seq (Reads.opt (reads_directives famV (Or.inl rfl) L) (K := 53) (by omega)) ih
        (K := 101) (by omega) (by omega) (by omega))
      (K := 102) (by omega) (by omega) (by omega)
  have hbody := Reads.seqS (Reads.spread (L + 1) 1 (Nat.le_refl _)) strict_spread hrest (Nat.le_refl _) (K := 79)
    (by omega) (by omega) (by omega)
  have hrule := Reads.rule sel_rules.2.2.2.2 (r := inlineRule) hbody (K := 85) (by omega)
  refine Reads.map mkInline hrule ?_
  rintro s₀ ps ⟨⟨⟩, otc, ods, ss⟩ ⟨p, p1, inner, rfl, ps1, ps2, rfl, h1, ps3, ps4, rfl, h3, ps5, ps6, rfl, h5,
    ⟨sp, rfl, hr, hne, hb⟩⟩
  simp only [bNil] at h1
  subst h1
  refine ⟨_, rfl, fun p' p1' f lim hd1 => ?_⟩
  have hd1' : dSels ss + 1 ≤ f := hd1
  simp only [mkInline, normSel, List.nil_append]
  have hk : Exp (kOf (envOf s₀) f lim sp) (finSels ss && decide (dSels ss + 1 ≤ lim)) (normSels ss) :=
    kOf_exp hb (show dSels ss < f by omega)
  refine (inline_build s₀ _ p' p1' p p1 ps3 ps5 sp otc ods ss _ h3 h5 ⟨hr, hk⟩).cast ?_ rfl
  simp only [finSel, dSel, Bool.and_assoc]
  rfl

theorem reads_selection {L : Nat} (ih : Reads L (.ident "selection_set") 100 (qSelSet L) bSelSet) :
    Reads (L + 1) (.ident "selection") 90 (qSelection (qSelSet L)) bSel := by
  have hbody := Reads.choice (reads_field ih) (Reads.choice (reads_inline ih) (reads_fragment_spread (L + 1))
    (K := 86) (by omega) (by omega)) (K := 87) (by omega) (by omega)
  have hrule := Reads.rule sel_rules.2.1 (r := selectionRule) hbody (K := 90) (by omega)
  refine Reads.weaken hrule ?_
  rintro s₀ ps s ⟨p, p1, inner, rfl, c, rfl, hc⟩
  exact ⟨_, rfl, rfl, fun f lim h1 => hc p p1 f lim h1⟩

theorem all_of_sels (ss : List PSel) (lim : Nat) :
    ss.all (fun s => finSel s && decide (dSel s ≤ lim)) = (finSels ss && decide (dSels ss ≤ lim)) := by
  induction ss with
  | nil => simp [finSels, dSels]
  | cons s ss ih =>
    simp only [List.all_cons, ih, finSels, dSels]
    by_cases h1 : dSel s ≤ lim <;> by_cases h2 : dSels ss ≤ lim <;>
      cases finSel s <;> cases finSels ss <;> simp [h1, h2, Nat.max_le] <;> omega

theorem bMany_weaken {α : Type} {Bd Bd' : Bld α} (h : ∀ s₀ ps x, Bd s₀ ps x → Bd' s₀ ps x) {s₀ : List Char}
    {ps : List Pair} {xs : List α} (hm : bMany Bd s₀ ps xs) : bMany Bd' s₀ ps xs := by
  obtain ⟨pss, rfl, hall⟩ := hm
  refine ⟨pss, rfl, ?_⟩
  induction hall with
  | nil => exact All2.nil
  | cons h1 _ ih => exact All2.cons (h _ _ _ h1) ih

/-- the `selection_set` rule on every text -/
theorem reads_selSet : ∀ L, Reads L (.ident "selection_set") 100 (qSelSet L) bSelSet := by
  intro L
  induction L with
  | zero => intro q t hL; exact absurd hL (Nat.not_lt_zero _)
  | succ L ih =>
    have hsel := reads_selection ih
    have hrep := Reads.rep1 hsel (strict_qSelection _ (strict_qSelSet L).mono) (by omega)
    have hbody := Reads.seq (Reads.punct (L + 1) '{' (by decide) 1 (Nat.le_refl _))
      (Reads.seq hrep (Reads.punct (L + 1) '}' (by decide) 1 (Nat.le_refl _)) (K := 96) (by omega) (by omega) (by omega))
      (K := 97) (by omega) (by omega) (by omega)
    have hrule := Reads.rule sel_rules.1 (r := selSetRule) hbody (K := 100) (by omega)
    show Reads (L + 1) (.ident "selection_set") 100 (qSelSetBody (qSelSet L)) bSelSet
    unfold qSelSetBody
    refine Reads.convT (fun x => x.2.1) hrule (fun _ => rfl) ?_
    rintro s₀ q t ps ⟨⟨⟩, ss, ⟨⟩⟩ r hat hq ⟨p, p1, inner, rfl, ps1, ps2, rfl, h1, ps3, ps4, rfl, h3, h4⟩
    simp only [bNil] at h1 h4
    subst h1 h4
    have hne : ss ≠ [] := by
      obtain ⟨r1, -, g2⟩ := tSeq_some hq
      obtain ⟨r2, g3, -⟩ := tSeq_some g2
      exact tRep1_ne_nil g3
    refine ⟨_, rfl, rfl, hne, fun f lim hd1 => ?_⟩
    obtain ⟨f, rfl⟩ : ∃ k, f = k + 1 := ⟨f - 1, by omega⟩
    rw [buildSelSet_succ]
    simp only [inner_mk, List.nil_append, List.append_nil]
    rw [normSels_map, ← all_of_sels]
    have hd1' : dSels ss ≤ f := by have : dSels ss < f + 1 := hd1; omega
    refine mapM_exp (f := selElemK (envOf s₀) (kOf (envOf s₀) f lim)) (c := fun s => finSel s && decide (dSel s ≤ lim))
      (nf := normSel) ?_
    have hall : All2 (fun pr s => ∀ f lim, dSel s ≤ f →
        Exp (selElemK (envOf s₀) (kOf (envOf s₀) f lim) pr) (finSel s && decide (dSel s ≤ lim)) (normSel s)) ps3 ss :=
      bMany_all2 (Q := fun s₀ pr s => ∀ f lim, dSel s ≤ f →
        Exp (selElemK (envOf s₀) (kOf (envOf s₀) f lim) pr) (finSel s && decide (dSel s ≤ lim)) (normSel s)) h3
    clear h3 hq hne hd1
    induction hall with
    | nil => exact All2.nil
    | @cons pr s prs ss' h1 _ ih =>
      have hs : dSel s ≤ f := by simp only [dSels] at hd1'; omega
      have hss : dSels ss' ≤ f := by simp only [dSels] at hd1'; omega
      exact All2.cons (h1 f lim hs) (ih hss)
end AGV.Lemmas.PegX
