import AGV.Lemmas.UploadBindPath

/- C24: `setAt` is `put` at the resolved address; the frame lemmas for `put` (markers create no
   addressable node, independent addresses do not disturb each other and commute). -/
namespace AGV.Lemmas.UploadBind
open AGV.Spec.UploadBind
open AGV.Model.UploadBind

theorem distinct_cons {β : Type} [DecidableEq β] (x : β) (xs : List β) :
    distinct (x :: xs) = true ↔ x ∉ xs ∧ distinct xs = true := by
  simp [distinct]

/-- with pairwise distinct keys, updating every member named `k` is updating the first -/
theorem map_eq_setKey {β : Type} (k : Str) (F : β → β) (kvs : List (Str × β)) (v : β)
    (hd : distinct (kvs.map (·.1)) = true) (hg : getKey k kvs = some v) :
    kvs.map (fun kv => if kv.1 = k then (kv.1, F kv.2) else kv) = setKey k (F v) kvs := by
  induction kvs with
  | nil => simp [getKey] at hg
  | cons kv r ih =>
    obtain ⟨k', v'⟩ := kv
    simp only [List.map_cons, distinct_cons] at hd
    by_cases hk : k' = k
    · subst hk
      simp only [getKey, if_true, Option.some.injEq] at hg
      subst hg
      simp only [List.map_cons, setKey, if_true, List.cons.injEq, true_and]
      have : ∀ kv ∈ r, ¬ kv.1 = k' := by
        intro kv hkv heq
        exact hd.1 (heq ▸ List.mem_map_of_mem hkv)
      calc r.map _ = r.map id := List.map_congr_left (fun kv hkv => by simp [this kv hkv])
        _ = r := by simp
    · simp only [getKey, hk, if_false] at hg
      simp [setKey, hk, ih hd.2 hg]

theorem wfT_getElem {α : Type} {e : Bool} {xs : List (T α)} {i : Nat} {v : T α}
    (h : wfT e (.arr xs) = true) (hv : xs[i]? = some v) : wfT e v = true := by
  simp only [wfT] at h
  exact (wfL_iff e xs).mp h v (List.mem_of_getElem? hv)

theorem wfT_getKey {α : Type} {e : Bool} {kvs : List (Str × T α)} {k : Str} {v : T α}
    (h : wfT e (.obj kvs) = true) (hv : getKey k kvs = some v) : wfT e v = true := by
  simp only [wfT, Bool.and_eq_true] at h
  exact (wfM_iff e kvs).mp h.2 (k, v) (getKey_mem hv)

/-- on a tree whose objects have distinct keys `setAt` is `put` at the resolved address -/
theorem setAt_eq_put {α : Type} (x : T α) (t : T α) (ps : List Str) (hw : wfT true t = true) :
    setAt x t ps = (resolve t ps).map (put x t) := by
  induction ps generalizing t with
  | nil => simp [setAt, resolve_nil, put]
  | cons p ps ih =>
    cases t with
    | arr xs =>
      rw [resolve_arr]
      simp only [setAt]
      cases hi : parseU32 p with
      | none => simp
      | some i =>
        cases hv : xs[i]? with
        | none => simp [hv]
        | some v =>
          simp only [hv, Option.bind_some, ih v (wfT_getElem hw hv)]
          cases resolve v ps with
          | none => simp
          | some a => simp [put, hv]
    | obj kvs =>
      rw [resolve_obj]
      simp only [setAt]
      cases hv : getKey p kvs with
      | none => simp
      | some v =>
        simp only [Option.bind_some, ih v (wfT_getKey hw hv)]
        cases resolve v ps with
        | none => simp
        | some a =>
          simp only [wfT, Bool.and_eq_true] at hw
          simp [put, map_eq_setKey p (fun w => put x w a) kvs v hw.1 hv]
    | null => simp [setAt, resolve]
    | bool b => simp [setAt, resolve]
    | num n => simp [setAt, resolve]
    | str s => simp [setAt, resolve]
    | ext a => simp [setAt, resolve]


theorem getKey_map {β γ : Type} (k : Str) (f : β → γ) (kvs : List (Str × β)) :
    getKey k (kvs.map (fun kv => (kv.1, f kv.2))) = (getKey k kvs).map f := by
  induction kvs with
  | nil => simp [getKey]
  | cons kv r ih =>
    obtain ⟨k', v'⟩ := kv
    by_cases hk : k' = k <;> simp [getKey, hk, ih]

theorem getKey_mapIf {β : Type} (p k : Str) (f : β → β) (kvs : List (Str × β)) :
    getKey p (kvs.map (fun kv => if kv.1 = k then (kv.1, f kv.2) else kv)) =
      (getKey p kvs).map (fun v => if p = k then f v else v) := by
  induction kvs with
  | nil => simp [getKey]
  | cons kv r ih =>
    obtain ⟨k', v'⟩ := kv
    by_cases hk : k' = k
    · by_cases hp : k' = p
      · subst hk; subst hp; simp [getKey]
      · simp only [List.map_cons, hk, if_true, getKey]
        rw [← hk]; simp only [hp, if_false]
        rw [hk]; exact ih
    · by_cases hp : k' = p
      · subst hp; simp [getKey, hk]
      · simp [getKey, hk, hp, ih]

theorem resolve_mapExt {α β : Type} (g : α → β) (t : T α) (ps : List Str) :
    resolve (mapExt g t) ps = resolve t ps := by
  induction ps generalizing t with
  | nil => simp [resolve_nil]
  | cons p ps ih =>
    cases t with
    | arr xs =>
      simp only [mapExt, resolve_arr, mapExtL_eq, List.getElem?_map]
      cases parseU32 p with
      | none => simp
      | some i => rcases hv : xs[i]? with _ | v <;> simp [hv, ih]
    | obj kvs =>
      simp only [mapExt, resolve_obj, mapExtM_eq, getKey_map]
      cases getKey p kvs <;> simp [ih]
    | null => simp [mapExt, resolve]
    | bool b => simp [mapExt, resolve]
    | num n => simp [mapExt, resolve]
    | str s => simp [mapExt, resolve]
    | ext a => simp [mapExt, resolve]

theorem mapExt_put {α β : Type} (g : α → β) (x t : T α) (a : Addr) :
    mapExt g (put x t a) = put (mapExt g x) (mapExt g t) a := by
  induction a generalizing t with
  | nil => simp [put]
  | cons s a ih =>
    cases s with
    | key k =>
      cases t <;> simp [put, mapExt, mapExtL_eq, mapExtM_eq]
      rename_i kvs
      intro k' v' _
      by_cases hk : k' = k <;> simp [hk, ih]
    | idx i =>
      cases t <;> simp [put, mapExt, mapExtL_eq, mapExtM_eq]
      rename_i xs
      cases hv : xs[i]? with
      | none => simp [mapExt, mapExtL_eq]
      | some v => simp [mapExt, mapExtL_eq, ih, List.map_set]


/-- a value below which no path leads (the markers are such) -/
def leaf {α : Type} (x : T α) : Prop := ∀ p ps, resolve x (p :: ps) = none

theorem leaf_ext {α : Type} (a : α) : leaf (T.ext a) := by
  intro p ps; simp [resolve]

/-- replacing a node by a leaf creates no new addressable node -/
theorem resolve_put_back {α : Type} (x : T α) (hx : leaf x) (t : T α) (b : Addr) (ps : List Str) (a : Addr)
    (h : resolve (put x t b) ps = some a) : resolve t ps = some a := by
  induction b generalizing t ps a with
  | nil =>
    cases ps with
    | nil => simpa [resolve_nil] using h
    | cons p ps => simp [put, hx p ps] at h
  | cons s b ih =>
    cases ps with
    | nil => simpa [resolve_nil] using h
    | cons p ps =>
      cases s with
      | key k =>
        cases t <;> try (simpa [put] using h)
        rename_i kvs
        have hk := getKey_mapIf p k (fun w => put x w b) kvs
        simp only [put, resolve_obj, hk] at h ⊢
        cases hv : getKey p kvs with
        | none => simp [hv] at h
        | some v =>
          simp only [hv, Option.map_some, Option.bind_some] at h ⊢
          by_cases hp : p = k
          · simp only [hp, if_true] at h
            cases hr : resolve (put x v b) ps with
            | none => simp [hr] at h
            | some a' =>
              simp [hr] at h
              simp [ih v ps a' hr, h, hp]
          · simpa [hp] using h
      | idx i =>
        cases t <;> try (simpa [put] using h)
        rename_i xs
        simp only [put] at h
        cases hv : xs[i]? with
        | none => simpa [hv] using h
        | some v =>
          simp only [hv, resolve_arr] at h ⊢
          cases hj : parseU32 p with
          | none => simp [hj] at h
          | some j =>
            simp only [hj, Option.bind_some, List.getElem?_set] at h ⊢
            by_cases hij : i = j
            · subst hij
              have hlt : i < xs.length := (List.getElem?_eq_some_iff.mp hv).1
              simp only [if_true, hlt, Option.bind_some] at h
              cases hr : resolve (put x v b) ps with
              | none => simp [hr] at h
              | some a' =>
                simp [hr] at h
                simp [hv, ih v ps a' hr, h]
            · simpa [hij] using h


/-- a node that is not below the replaced one stays addressable, at the same address -/
theorem resolve_put_fwd {α : Type} (x : T α) (t : T α) (b : Addr) (ps : List Str) (a : Addr)
    (h : resolve t ps = some a) (hb : b.isPrefixOf a = false) : resolve (put x t b) ps = some a := by
  induction b generalizing t ps a with
  | nil => simp at hb
  | cons s b ih =>
    cases ps with
    | nil => simpa [resolve_nil] using h
    | cons p ps =>
      cases s with
      | key k =>
        cases t <;> try (simpa [put] using h)
        rename_i kvs
        have hk := getKey_mapIf p k (fun w => put x w b) kvs
        simp only [put, resolve_obj, hk] at h ⊢
        cases hv : getKey p kvs with
        | none => simp [hv] at h
        | some v =>
          simp only [hv, Option.map_some, Option.bind_some] at h ⊢
          cases hr : resolve v ps with
          | none => simp [hr] at h
          | some a' =>
            simp [hr] at h
            subst h
            by_cases hp : p = k
            · subst hp
              simp at hb
              simp [ih v ps a' hr hb]
            · simp [hp, hr]
      | idx i =>
        cases t <;> try (simpa [put] using h)
        rename_i xs
        simp only [put]
        cases hv : xs[i]? with
        | none => simpa [hv] using h
        | some v =>
          simp only [resolve_arr] at h ⊢
          cases hj : parseU32 p with
          | none => simp [hj] at h
          | some j =>
            simp only [hj, Option.bind_some, List.getElem?_set] at h ⊢
            by_cases hij : i = j
            · subst hij
              have hlt : i < xs.length := (List.getElem?_eq_some_iff.mp hv).1
              simp only [if_true, hlt, Option.bind_some, hv] at h ⊢
              cases hr : resolve v ps with
              | none => simp [hr] at h
              | some a' =>
                simp [hr] at h
                subst h
                simp at hb
                simp [ih v ps a' hr hb]
            · simpa [hij] using h


theorem put_head_mismatch_arr {α : Type} (x : T α) (xs : List (T α)) (k : Str) (a : Addr) :
    put x (.arr xs) (.key k :: a) = .arr xs := by simp [put]
theorem put_head_mismatch_obj {α : Type} (x : T α) (kvs : List (Str × T α)) (i : Nat) (a : Addr) :
    put x (.obj kvs) (.idx i :: a) = .obj kvs := by simp [put]

theorem put_arr_shape {α : Type} (x : T α) (xs : List (T α)) (i : Nat) (a : Addr) :
    ∃ ys, put x (.arr xs) (.idx i :: a) = .arr ys := by
  simp only [put]; split <;> exact ⟨_, rfl⟩

/-- the frame lemma: substitutions at independent addresses commute -/
theorem put_comm {α : Type} (x y : T α) (t : T α) (a b : Addr) (h : independent a b = true) :
    put x (put y t b) a = put y (put x t a) b := by
  induction a generalizing b t with
  | nil => simp [independent] at h
  | cons s a ih =>
    cases b with
    | nil => simp [independent] at h
    | cons s' b =>
      cases s with
      | key k =>
        cases s' with
        | key k' =>
          cases t <;> try (simp [put]; done)
          rename_i kvs
          simp only [put, List.map_map]
          congr 1
          apply List.map_congr_left
          intro kv _
          obtain ⟨kk, v⟩ := kv
          simp only [Function.comp]
          by_cases h1 : kk = k
          · subst h1
            by_cases h2 : kk = k'
            · subst h2
              have : independent a b = true := by simpa [independent] using h
              simp [ih v b this]
            · simp [h2]
          · by_cases h2 : kk = k'
            · subst h2; simp [h1]
            · simp [h1, h2]
        | idx j =>
          cases t <;> try (simp [put]; done)
          · rename_i xs
            obtain ⟨ys, hys⟩ := put_arr_shape y xs j b
            rw [hys, put_head_mismatch_arr, put_head_mismatch_arr, hys]
      | idx i =>
        cases s' with
        | key k' =>
          cases t <;> try (simp [put]; done)
          · rename_i xs
            obtain ⟨ys, hys⟩ := put_arr_shape x xs i a
            rw [hys, put_head_mismatch_arr, put_head_mismatch_arr, hys]
        | idx j =>
          cases t <;> try (simp [put]; done)
          rename_i xs
          by_cases hij : i = j
          · subst hij
            have hind : independent a b = true := by simpa [independent] using h
            cases hv : xs[i]? with
            | none => simp [put, hv]
            | some v =>
              have hlt : i < xs.length := (List.getElem?_eq_some_iff.mp hv).1
              simp [put, hlt]
              rw [ih _ b hind]
          · cases hvi : xs[i]? with
            | none =>
              cases hvj : xs[j]? with
              | none => simp [put, hvi, hvj]
              | some w => simp [put, hvi, hvj, Ne.symm hij]
            | some v =>
              cases hvj : xs[j]? with
              | none => simp [put, hvi, hvj, hij]
              | some w =>
                simp [put, hvi, hvj, hij, Ne.symm hij]
                exact List.set_comm _ _ (Ne.symm hij)


theorem wfT_put {α : Type} (x t : T α) (a : Addr) (hx : wfT true x = true) (ht : wfT true t = true) :
    wfT true (put x t a) = true := by
  induction a generalizing t with
  | nil => simpa [put] using hx
  | cons s a ih =>
    cases s with
    | key k =>
      cases t <;> try (simpa [put] using ht)
      rename_i kvs
      simp only [put, wfT, Bool.and_eq_true] at ht ⊢
      constructor
      · have : (kvs.map (fun kv => if kv.1 = k then (kv.1, put x kv.2 a) else kv)).map (·.1) = kvs.map (·.1) := by
          rw [List.map_map]
          apply List.map_congr_left
          intro kv _
          simp only [Function.comp]
          split <;> rfl
        rw [this]; exact ht.1
      · rw [wfM_iff] at ht ⊢
        intro kv hkv
        obtain ⟨kv0, hkv0, rfl⟩ := List.mem_map.mp hkv
        split
        · exact ih _ (ht.2 kv0 hkv0)
        · exact ht.2 kv0 hkv0
    | idx i =>
      cases t <;> try (simpa [put] using ht)
      rename_i xs
      simp only [put]
      cases hv : xs[i]? with
      | none => simpa using ht
      | some v =>
        simp only [wfT, wfL_iff] at ht ⊢
        intro w hw
        rcases List.mem_or_eq_of_mem_set hw with hw | rfl
        · exact ht w hw
        · exact ih v (ht v (List.mem_of_getElem? hv))

mutual
theorem wfT_weaken {α : Type} : (t : T α) → wfT false t = true → wfT true t = true
  | .arr xs, h => by simp only [wfT] at h ⊢; exact wfL_weaken xs h
  | .obj kvs, h => by
    simp only [wfT, Bool.and_eq_true] at h ⊢; exact ⟨h.1, wfM_weaken kvs h.2⟩
  | .ext _, h => by simp [wfT] at h
  | .null, _ => by simp [wfT]
  | .bool _, _ => by simp [wfT]
  | .num _, _ => by simp [wfT]
  | .str _, _ => by simp [wfT]
theorem wfL_weaken {α : Type} : (xs : List (T α)) → wfL false xs = true → wfL true xs = true
  | [], _ => by simp [wfL]
  | x :: xs, h => by
    simp only [wfL, Bool.and_eq_true] at h ⊢; exact ⟨wfT_weaken x h.1, wfL_weaken xs h.2⟩
theorem wfM_weaken {α : Type} : (kvs : List (Str × T α)) → wfM false kvs = true → wfM true kvs = true
  | [], _ => by simp [wfM]
  | (_, v) :: r, h => by
    simp only [wfM, Bool.and_eq_true] at h ⊢; exact ⟨wfT_weaken v h.1, wfM_weaken r h.2⟩
end

mutual
/-- a tree without markers looks the same whatever the markers stand for -/
theorem mapExt_noExt {α β : Type} (g g' : α → β) : (t : T α) → wfT false t = true → mapExt g t = mapExt g' t
  | .arr xs, h => by simp only [wfT] at h; simp only [mapExt, mapExtL_noExt g g' xs h]
  | .obj kvs, h => by
    simp only [wfT, Bool.and_eq_true] at h; simp only [mapExt, mapExtM_noExt g g' kvs h.2]
  | .ext _, h => by simp [wfT] at h
  | .null, _ => by simp [mapExt]
  | .bool _, _ => by simp [mapExt]
  | .num _, _ => by simp [mapExt]
  | .str _, _ => by simp [mapExt]
theorem mapExtL_noExt {α β : Type} (g g' : α → β) : (xs : List (T α)) → wfL false xs = true → mapExtL g xs = mapExtL g' xs
  | [], _ => by simp [mapExtL]
  | x :: xs, h => by
    simp only [wfL, Bool.and_eq_true] at h
    simp only [mapExtL, mapExt_noExt g g' x h.1, mapExtL_noExt g g' xs h.2]
theorem mapExtM_noExt {α β : Type} (g g' : α → β) : (kvs : List (Str × T α)) → wfM false kvs = true → mapExtM g kvs = mapExtM g' kvs
  | [], _ => by simp [mapExtM]
  | (_, v) :: r, h => by
    simp only [wfM, Bool.and_eq_true] at h
    simp only [mapExtM, mapExt_noExt g g' v h.1, mapExtM_noExt g g' r h.2]
end

end AGV.Lemmas.UploadBind
