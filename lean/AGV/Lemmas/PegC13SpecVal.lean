/-
  Property C13, specification side: `pValue` of `Spec/Parse.lean` case by case, independent of its
  fuel once that exceeds the number of tokens, and consuming at least one token.  No PEG here.
-/
import AGV.Spec.Parse
namespace AGV.Lemmas.SpecVal
open AGV.Spec.Lex AGV.Spec.Parse AGV.Core.PAst

variable (P : Params) (c : Bool)

theorem pValue_nil (f : Nat) : pValue P c f [] = none := by
  cases f <;> rw [pValue.eq_def]

theorem pValue_dollar (f : Nat) (r : List Tok) :
    pValue P c (f + 1) (.punct '$' :: r) = if c then none else (pName r).map (fun x => (.var x.1, x.2)) := by
  rw [pValue.eq_def]; simp

theorem pValue_int (f : Nat) (neg : Bool) (ds : List Char) (r : List Tok) :
    pValue P c (f + 1) (.int neg ds :: r) = some (.int (if neg then -(natOf ds : Int) else natOf ds), r) := by
  rw [pValue.eq_def]

theorem pValue_float (f : Nat) (neg : Bool) (ip fr : List Char) (en : Bool) (ex : List Char) (r : List Tok) :
    pValue P c (f + 1) (.float neg ip fr en ex :: r) =
      if P.finiteFloats && floatBits neg ip fr en ex == AGV.F64.infBits then none
      else some (.float (floatBits neg ip fr en ex), r) := by
  rw [pValue.eq_def]

theorem pValue_str (f : Nat) (v : List Char) (r : List Tok) :
    pValue P c (f + 1) (.str v :: r) = some (.str v, r) := by
  rw [pValue.eq_def]

theorem pValue_name (f : Nat) (n : List Char) (r : List Tok) :
    pValue P c (f + 1) (.name n :: r) =
      if n = kw "true" then some (.bool true, r)
      else if n = kw "false" then some (.bool false, r)
      else if n = kw "null" then some (.null, r)
      else some (.enum n, r) := by
  rw [pValue.eq_def]

theorem pValue_lbrack (f : Nat) (r : List Tok) :
    pValue P c (f + 1) (.punct '[' :: r) =
      (pValue.items P c f (r.length + 1) r).map (fun x => (.list x.1, x.2)) := by
  rw [pValue.eq_def]; simp

theorem pValue_lbrace (f : Nat) (r : List Tok) :
    pValue P c (f + 1) (.punct '{' :: r) =
      (pValue.fields P c f (r.length + 1) r).map (fun x => (.obj x.1, x.2)) := by
  rw [pValue.eq_def]; simp

theorem pValue_spread (f : Nat) (r : List Tok) : pValue P c f (.spread :: r) = none := by
  cases f <;> rw [pValue.eq_def]

theorem pValue_punct_other (f : Nat) (y : Char) (r : List Tok) (h1 : y ≠ '$') (h2 : y ≠ '[') (h3 : y ≠ '{') :
    pValue P c f (.punct y :: r) = none := by
  cases f with
  | zero => rw [pValue.eq_def]
  | succ f =>
    rw [pValue.eq_def]
    simp only []
    split <;> first | rfl | (rename_i e; simp_all)

theorem items_close (f g : Nat) (r : List Tok) : pValue.items P c f (g + 1) (.punct ']' :: r) = some ([], r) := by
  rw [pValue.items.eq_def]; simp

theorem items_elem (f g : Nat) (ts : List Tok) (h : ∀ r, ts ≠ .punct ']' :: r) :
    pValue.items P c f (g + 1) ts =
      (pValue P c f ts).bind (fun x => (pValue.items P c f g x.2).map (fun y => (x.1 :: y.1, y.2))) := by
  rw [pValue.items.eq_def]
  cases hp : pValue P c f ts with
  | none => simp only [Option.bind_none, hp]
  | some x => simp only [Option.bind_some, hp]

theorem fields_close (f g : Nat) (r : List Tok) : pValue.fields P c f (g + 1) (.punct '}' :: r) = some ([], r) := by
  rw [pValue.fields.eq_def]; simp

theorem fields_elem (f g : Nat) (n : List Char) (r : List Tok) :
    pValue.fields P c f (g + 1) (.name n :: .punct ':' :: r) =
      (pValue P c f r).bind (fun x => (pValue.fields P c f g x.2).map (fun y => ((n, x.1) :: y.1, y.2))) := by
  rw [pValue.fields.eq_def]
  simp only []
  cases pValue P c f r with
  | none => rfl
  | some x => rfl

theorem fields_other (f g : Nat) (ts : List Tok) (h1 : ∀ r, ts ≠ .punct '}' :: r)
    (h2 : ∀ n r, ts ≠ .name n :: .punct ':' :: r) : pValue.fields P c f g ts = none := by
  cases g with
  | zero => rw [pValue.fields.eq_def]
  | succ g =>
    rw [pValue.fields.eq_def]
    simp only []

theorem pName_len {r r' : List Tok} {n : Name} (h : pName r = some (n, r')) : r'.length < r.length := by
  unfold pName at h
  split at h
  · cases h; simp
  · cases h

/-- a value, a list of items up to `]`, a list of fields up to `}` consume at least one token -/
theorem spec_len : ∀ (L : Nat) (ts : List Tok), ts.length ≤ L →
    (∀ f v r, pValue P c f ts = some (v, r) → r.length < ts.length) ∧
    (∀ f g vs r, pValue.items P c f g ts = some (vs, r) → r.length < ts.length) ∧
    (∀ f g vs r, pValue.fields P c f g ts = some (vs, r) → r.length < ts.length) := by
  intro L
  induction L with
  | zero =>
    intro ts hL
    have : ts = [] := List.length_eq_zero_iff.1 (by omega)
    subst this
    refine ⟨fun f v r h => ?_, fun f g vs r h => ?_, fun f g vs r h => ?_⟩
    · rw [pValue_nil] at h; cases h
    · cases g with
      | zero => rw [pValue.items.eq_def] at h; cases h
      | succ g => rw [items_elem P c f g [] (fun r e => by cases e), pValue_nil] at h; cases h
    · rw [fields_other P c f g [] (fun r e => by cases e) (fun n r e => by cases e)] at h; cases h
  | succ L ih =>
    intro ts hL
    have hv : ∀ f v r, pValue P c f ts = some (v, r) → r.length < ts.length := by
      intro f v r h
      cases f with
      | zero => rw [pValue.eq_def] at h; cases h
      | succ f =>
        cases ts with
        | nil => rw [pValue_nil] at h; cases h
        | cons t r0 =>
          simp only [List.length_cons] at hL ⊢
          cases t with
          | punct y =>
            by_cases h1 : y = '$'
            · subst h1
              rw [pValue_dollar] at h
              split at h
              · cases h
              · cases hp : pName r0 with
                | none => simp [hp] at h
                | some x => simp [hp] at h; obtain ⟨-, rfl⟩ := h; have := pName_len hp; omega
            by_cases h2 : y = '['
            · subst h2
              rw [pValue_lbrack] at h
              cases hi : pValue.items P c f (r0.length + 1) r0 with
              | none => simp [hi] at h
              | some x => simp [hi] at h; obtain ⟨-, rfl⟩ := h; have := (ih r0 (by omega)).2.1 _ _ _ _ hi; omega
            by_cases h3 : y = '{'
            · subst h3
              rw [pValue_lbrace] at h
              cases hi : pValue.fields P c f (r0.length + 1) r0 with
              | none => simp [hi] at h
              | some x => simp [hi] at h; obtain ⟨-, rfl⟩ := h; have := (ih r0 (by omega)).2.2 _ _ _ _ hi; omega
            · rw [pValue_punct_other P c _ y r0 h1 h2 h3] at h; cases h
          | spread => rw [pValue_spread] at h; cases h
          | name n =>
            rw [pValue_name] at h
            repeat' (split at h)
            all_goals (cases h; omega)
          | int n d => rw [pValue_int] at h; cases h; omega
          | float n i fr e x =>
            rw [pValue_float] at h
            split at h
            · cases h
            · cases h; omega
          | str v => rw [pValue_str] at h; cases h; omega
    refine ⟨hv, ?_, ?_⟩
    · intro f g vs r h
      cases g with
      | zero => rw [pValue.items.eq_def] at h; cases h
      | succ g =>
        by_cases hc : ∃ r0, ts = .punct ']' :: r0
        · obtain ⟨r0, rfl⟩ := hc
          rw [items_close] at h; cases h; simp
        · rw [items_elem P c f g ts (fun r0 e => hc ⟨r0, e⟩)] at h
          cases hp : pValue P c f ts with
          | none => simp [hp] at h
          | some x =>
            obtain ⟨v, r1⟩ := x
            simp only [hp, Option.bind_some] at h
            have h1 := hv _ _ _ hp
            cases hi : pValue.items P c f g r1 with
            | none => simp [hi] at h
            | some y =>
              simp [hi] at h; obtain ⟨-, rfl⟩ := h
              have := (ih r1 (by omega)).2.1 _ _ _ _ hi; omega
    · intro f g vs r h
      cases g with
      | zero => rw [pValue.fields.eq_def] at h; cases h
      | succ g =>
        by_cases hc : ∃ r0, ts = .punct '}' :: r0
        · obtain ⟨r0, rfl⟩ := hc
          rw [fields_close] at h; cases h; simp
        · by_cases hn : ∃ n r0, ts = .name n :: .punct ':' :: r0
          · obtain ⟨n, r0, rfl⟩ := hn
            simp only [List.length_cons] at hL ⊢
            rw [fields_elem] at h
            cases hp : pValue P c f r0 with
            | none => simp [hp] at h
            | some x =>
              obtain ⟨v, r1⟩ := x
              simp only [hp, Option.bind_some] at h
              have h1 := (ih r0 (by omega)).1 _ _ _ hp
              cases hi : pValue.fields P c f g r1 with
              | none => simp [hi] at h
              | some y =>
                simp [hi] at h; obtain ⟨-, rfl⟩ := h
                have := (ih r1 (by omega)).2.2 _ _ _ _ hi; omega
          · rw [fields_other P c f (g + 1) ts (fun r0 e => hc ⟨r0, e⟩) (fun n r0 e => hn ⟨n, r0, e⟩)] at h
            cases h

theorem pValue_len {f : Nat} {ts r : List Tok} {v : PValue} (h : pValue P c f ts = some (v, r)) :
    r.length < ts.length := (spec_len P c ts.length ts (Nat.le_refl _)).1 _ _ _ h

/-- the fuel does not matter once it exceeds the number of tokens -/
theorem spec_fuel : ∀ (L : Nat) (ts : List Tok), ts.length ≤ L →
    (∀ f f', ts.length < f → ts.length < f' → pValue P c f ts = pValue P c f' ts) ∧
    (∀ f f' g g', ts.length < f → ts.length < f' → ts.length < g → ts.length < g' →
      pValue.items P c f g ts = pValue.items P c f' g' ts) ∧
    (∀ f f' g g', ts.length < f → ts.length < f' → ts.length < g → ts.length < g' →
      pValue.fields P c f g ts = pValue.fields P c f' g' ts) := by
  intro L
  induction L using Nat.strongRecOn with
  | _ L ih =>
    intro ts hL
    have hv : ∀ f f', ts.length < f → ts.length < f' → pValue P c f ts = pValue P c f' ts := by
      intro f f' hf hf'
      obtain ⟨k, rfl⟩ : ∃ k, f = k + 1 := ⟨f - 1, by omega⟩
      obtain ⟨k', rfl⟩ : ∃ k, f' = k + 1 := ⟨f' - 1, by omega⟩
      cases ts with
      | nil => rw [pValue_nil, pValue_nil]
      | cons t r0 =>
        simp only [List.length_cons] at hL hf hf'
        cases t with
        | punct y =>
          by_cases h1 : y = '$'
          · subst h1; rw [pValue_dollar, pValue_dollar]
          by_cases h2 : y = '['
          · subst h2
            rw [pValue_lbrack, pValue_lbrack,
              (ih r0.length (by omega) r0 (Nat.le_refl _)).2.1 k k' _ _ (by omega) (by omega) (Nat.lt_succ_self _)
                (Nat.lt_succ_self _)]
          by_cases h3 : y = '{'
          · subst h3
            rw [pValue_lbrace, pValue_lbrace,
              (ih r0.length (by omega) r0 (Nat.le_refl _)).2.2 k k' _ _ (by omega) (by omega) (Nat.lt_succ_self _)
                (Nat.lt_succ_self _)]
          · rw [pValue_punct_other P c _ y r0 h1 h2 h3, pValue_punct_other P c _ y r0 h1 h2 h3]
        | spread => rw [pValue_spread, pValue_spread]
        | name n => rw [pValue_name, pValue_name]
        | int n d => rw [pValue_int, pValue_int]
        | float n i fr e x => rw [pValue_float, pValue_float]
        | str v => rw [pValue_str, pValue_str]
    refine ⟨hv, ?_, ?_⟩
    · intro f f' g g' hf hf' hg hg'
      obtain ⟨j, rfl⟩ : ∃ k, g = k + 1 := ⟨g - 1, by omega⟩
      obtain ⟨j', rfl⟩ : ∃ k, g' = k + 1 := ⟨g' - 1, by omega⟩
      by_cases hc : ∃ r0, ts = .punct ']' :: r0
      · obtain ⟨r0, rfl⟩ := hc
        rw [items_close, items_close]
      · rw [items_elem P c f j ts (fun r0 e => hc ⟨r0, e⟩), items_elem P c f' j' ts (fun r0 e => hc ⟨r0, e⟩),
          hv f f' hf hf']
        cases hp : pValue P c f' ts with
        | none => rfl
        | some x =>
          obtain ⟨v, r1⟩ := x
          have h1 := pValue_len P c hp
          simp only [Option.bind_some]
          rw [(ih r1.length (by omega) r1 (Nat.le_refl _)).2.1 f f' j j' (by omega) (by omega) (by omega) (by omega)]
    · intro f f' g g' hf hf' hg hg'
      obtain ⟨j, rfl⟩ : ∃ k, g = k + 1 := ⟨g - 1, by omega⟩
      obtain ⟨j', rfl⟩ : ∃ k, g' = k + 1 := ⟨g' - 1, by omega⟩
      by_cases hc : ∃ r0, ts = .punct '}' :: r0
      · obtain ⟨r0, rfl⟩ := hc
        rw [fields_close, fields_close]
      · by_cases hn : ∃ n r0, ts = .name n :: .punct ':' :: r0
        · obtain ⟨n, r0, rfl⟩ := hn
          simp only [List.length_cons] at hL hf hf' hg hg'
          rw [fields_elem, fields_elem,
            (ih r0.length (by omega) r0 (Nat.le_refl _)).1 f f' (by omega) (by omega)]
          cases hp : pValue P c f' r0 with
          | none => rfl
          | some x =>
            obtain ⟨v, r1⟩ := x
            have h1 := pValue_len P c hp
            simp only [Option.bind_some]
            rw [(ih r1.length (by omega) r1 (Nat.le_refl _)).2.2 f f' j j' (by omega) (by omega) (by omega) (by omega)]
        · rw [fields_other P c f (j + 1) ts (fun r0 e => hc ⟨r0, e⟩) (fun n r0 e => hn ⟨n, r0, e⟩),
            fields_other P c f' (j' + 1) ts (fun r0 e => hc ⟨r0, e⟩) (fun n r0 e => hn ⟨n, r0, e⟩)]

/-- `Value[Const]` on a token list, with enough fuel -/
def pV (ts : List Tok) : Option (PValue × List Tok) := pValue P c (ts.length + 1) ts
/-- items up to `]` -/
def itemsV (ts : List Tok) : Option (List PValue × List Tok) := pValue.items P c (ts.length + 1) (ts.length + 1) ts
/-- fields up to `}` -/
def fieldsV (ts : List Tok) : Option (List (Name × PValue) × List Tok) :=
  pValue.fields P c (ts.length + 1) (ts.length + 1) ts

theorem pValue_eq_pV {f : Nat} {ts : List Tok} (hf : ts.length < f) : pValue P c f ts = pV P c ts :=
  (spec_fuel P c ts.length ts (Nat.le_refl _)).1 f _ hf (Nat.lt_succ_self _)

theorem items_eq_itemsV {f g : Nat} {ts : List Tok} (hf : ts.length < f) (hg : ts.length < g) :
    pValue.items P c f g ts = itemsV P c ts :=
  (spec_fuel P c ts.length ts (Nat.le_refl _)).2.1 f _ g _ hf (Nat.lt_succ_self _) hg (Nat.lt_succ_self _)

theorem fields_eq_fieldsV {f g : Nat} {ts : List Tok} (hf : ts.length < f) (hg : ts.length < g) :
    pValue.fields P c f g ts = fieldsV P c ts :=
  (spec_fuel P c ts.length ts (Nat.le_refl _)).2.2 f _ g _ hf (Nat.lt_succ_self _) hg (Nat.lt_succ_self _)

theorem pV_lbrack (r : List Tok) : pV P c (.punct '[' :: r) = (itemsV P c r).map (fun x => (.list x.1, x.2)) := by
  rw [pV, pValue_lbrack]; rfl

theorem pV_lbrace (r : List Tok) : pV P c (.punct '{' :: r) = (fieldsV P c r).map (fun x => (.obj x.1, x.2)) := by
  rw [pV, pValue_lbrace]; rfl

theorem pV_len {ts r : List Tok} {v : PValue} (h : pV P c ts = some (v, r)) : r.length < ts.length :=
  pValue_len P c h

theorem itemsV_close (r : List Tok) : itemsV P c (.punct ']' :: r) = some ([], r) := by
  rw [itemsV, items_close]

theorem itemsV_elem (ts : List Tok) (h : ∀ r, ts ≠ .punct ']' :: r) :
    itemsV P c ts = (pV P c ts).bind (fun x => (itemsV P c x.2).map (fun y => (x.1 :: y.1, y.2))) := by
  rw [itemsV, items_elem P c _ _ ts h]
  show (pV P c ts).bind _ = _
  cases hp : pV P c ts with
  | none => rfl
  | some x =>
    have := pV_len P c (v := x.1) (r := x.2) hp
    simp only [Option.bind_some]
    rw [items_eq_itemsV P c (by omega) (by omega)]

theorem fieldsV_close (r : List Tok) : fieldsV P c (.punct '}' :: r) = some ([], r) := by
  rw [fieldsV, fields_close]

theorem fieldsV_elem (n : List Char) (r : List Tok) :
    fieldsV P c (.name n :: .punct ':' :: r) =
      (pV P c r).bind (fun x => (fieldsV P c x.2).map (fun y => ((n, x.1) :: y.1, y.2))) := by
  rw [fieldsV, fields_elem, pValue_eq_pV P c (by simp; omega)]
  cases hp : pV P c r with
  | none => rfl
  | some x =>
    have := pV_len P c (v := x.1) (r := x.2) hp
    simp only [Option.bind_some]
    rw [fields_eq_fieldsV P c (by simp; omega) (by simp; omega)]

theorem fieldsV_other (ts : List Tok) (h1 : ∀ r, ts ≠ .punct '}' :: r)
    (h2 : ∀ n r, ts ≠ .name n :: .punct ':' :: r) : fieldsV P c ts = none :=
  fields_other P c _ _ ts h1 h2
end AGV.Lemmas.SpecVal
