/-
  Property C13: repetition in a non-atomic rule (`e*`, `e+` with implicit skipping between the
  elements), generically: from a description `Good` of one element at the start of a token to the
  chain of elements the repetition reads (`Chain`), with the fuel bound `24 · length + B`.
-/
import AGV.Lemmas.PegC13TokSpec
namespace AGV.Lemmas.PegX
open AGV.Model.Peg AGV.Model.BuildAst AGV.Spec.Lex AGV.Lemmas.PegC13

/-- position after skipping the Ignored tokens at the head of `s` -/
def skipPos (p : Nat) (s : List Char) : Nat := p + (s.length - (skipI s).length)

theorem skipPos_tokStart {p : Nat} {s : List Char} (h : TokStart s) : skipPos p s = p := by
  unfold skipPos; rw [show skipI s = s from h]; simp

/-- the elements a repetition reads from `(p, s)`: skip, element, …, until the element fails;
    the Ignored tokens before the failing attempt are not consumed -/
inductive Chain (Good : Nat → List Char → Res → Prop) : Nat → List Char → Nat → List Char → List Pair → Prop
  | stop {p s} : Good (skipPos p s) (skipI s) .fail → Chain Good p s p s []
  | step {p s p2 s2 ps2 p3 s3 ps3} : Good (skipPos p s) (skipI s) (.ok p2 s2 ps2) →
      Chain Good p2 s2 p3 s3 ps3 → Chain Good p s p3 s3 (ps2 ++ ps3)

section
variable {g : Grammar} (T : TokRules g) {c : Ctx} (hc : c.atom = .non) {a : Expr}
  {Good : Nat → List Char → Res → Prop} {Ba L : Nat} (hBa : 14 ≤ Ba)
  (H : ∀ t q, t.length ≤ L → TokStart t → ∃ r, EvR g c a q t (24 * t.length + Ba) r ∧ Good q t r ∧
    (r = .fail ∨ ∃ p2 s2 ps, r = .ok p2 s2 ps ∧ s2.length < t.length))
include T hc hBa H

theorem tail_chain : ∀ (n : Nat) (s : List Char) (p : Nat), s.length ≤ n → s.length ≤ L →
    ∃ p' s' ps, EvR g c (.repTail a) p s (24 * s.length + Ba + 4) (.ok p' s' ps) ∧ Chain Good p s p' s' ps ∧
      s'.length ≤ s.length := by
  intro n
  induction n with
  | zero =>
    intro s p hn hL
    have hs : s = [] := List.length_eq_zero_iff.1 (by omega)
    subst hs
    have hsk := ev_skipR T { c with atom := .atomic } rfl p []
    obtain ⟨r, hr, hg, hcase⟩ := H [] (skipPos p []) (by simp) tokStart_nil
    rcases hcase with rfl | ⟨p2, s2, ps, -, hlt⟩
    · refine ⟨p, [], [], ?_, Chain.stop hg, Nat.le_refl _⟩
      exact EvR.tail_skip_fail hc hsk hr (by simp; omega) (by simp)
    · simp at hlt
  | succ n ih =>
    intro s p hn hL
    have hsk := ev_skipR T { c with atom := .atomic } rfl p s
    have hl1 := skipI_len s
    obtain ⟨r, hr, hg, hcase⟩ := H (skipI s) (skipPos p s) (by omega) (tokStart_skipI s)
    rcases hcase with rfl | ⟨p2, s2, ps2, rfl, hlt⟩
    · refine ⟨p, s, [], ?_, Chain.stop hg, Nat.le_refl _⟩
      exact EvR.tail_skip_fail hc hsk hr (by omega) (by omega)
    · obtain ⟨p3, s3, ps3, h3, hch, hle⟩ := ih s2 p2 (by omega) (by omega)
      refine ⟨p3, s3, ps2 ++ ps3, ?_, Chain.step hg hch, by omega⟩
      exact (EvR.tail_skip_ok hc hsk hr h3 (by omega) (by omega) (by omega)).cast rfl

/-- `e*` at the start of a token -/
theorem rep_chain (s : List Char) (p : Nat) (hs : TokStart s) (hL : s.length ≤ L) :
    ∃ p' s' ps, EvR g c (.rep a) p s (24 * s.length + Ba + 5) (.ok p' s' ps) ∧ Chain Good p s p' s' ps ∧
      s'.length ≤ s.length := by
  obtain ⟨r, hr, hg, hcase⟩ := H s p hL hs
  have e1 : skipPos p s = p := skipPos_tokStart hs
  have e2 : skipI s = s := hs
  rcases hcase with rfl | ⟨p2, s2, ps2, rfl, hlt⟩
  · refine ⟨p, s, [], EvR.rep_fail hr (by omega), Chain.stop (by rw [e1, e2]; exact hg), Nat.le_refl _⟩
  · obtain ⟨p3, s3, ps3, h3, hch, hle⟩ := tail_chain T hc hBa H s2.length s2 p2 (Nat.le_refl _) (by omega)
    refine ⟨p3, s3, ps2 ++ ps3, ?_, Chain.step (by rw [e1, e2]; exact hg) hch, by omega⟩
    exact (EvR.rep_ok hr h3 (by omega) (by omega)).cast rfl

/-- `e+` at the start of a token -/
theorem rep1_chain (s : List Char) (p : Nat) (hs : TokStart s) (hL : s.length ≤ L) :
    (Good p s .fail ∧ EvR g c (.rep1 a) p s (24 * s.length + Ba + 5) .fail) ∨
    (∃ p2 s2 ps2 p' s' ps, Good p s (.ok p2 s2 ps2) ∧ Chain Good p2 s2 p' s' ps ∧ s2.length < s.length ∧
      s'.length ≤ s2.length ∧ EvR g c (.rep1 a) p s (24 * s.length + Ba + 5) (.ok p' s' (ps2 ++ ps))) := by
  obtain ⟨r, hr, hg, hcase⟩ := H s p hL hs
  rcases hcase with rfl | ⟨p2, s2, ps2, rfl, hlt⟩
  · exact Or.inl ⟨hg, EvR.rep1_fail hr (by omega)⟩
  · obtain ⟨p3, s3, ps3, h3, hch, hle⟩ := tail_chain T hc hBa H s2.length s2 p2 (Nat.le_refl _) (by omega)
    exact Or.inr ⟨p2, s2, ps2, p3, s3, ps3, hg, hch, hlt, hle, (EvR.rep1_ok hr h3 (by omega) (by omega)).cast rfl⟩
end

/-- where a chain ends, the element fails (after skipping) -/
theorem Chain.end_fails {Good p s p' s' ps} (h : Chain Good p s p' s' ps) :
    Good (skipPos p' s') (skipI s') .fail := by
  induction h with
  | stop hg => exact hg
  | step _ _ ih => exact ih
end AGV.Lemmas.PegX
