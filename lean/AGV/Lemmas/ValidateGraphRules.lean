/-
  C09 — the graph rules, part 3: NoFragmentCycles = §5.5.2.2, NoUnusedFragments = §5.5.1.4,
  NoUndefinedVariables = §5.8.3, NoUnusedVariables = §5.8.4 (under `GraphHyp`: the parser's three
  uniqueness checks passed, every operation has a root type); which rule owns which kind
  (`strict_owner`); the parser's recursion guard fires only on a fragment cycle.
-/
import AGV.Lemmas.ValidateGraphTable
set_option linter.unusedSectionVars false
set_option linter.unusedSimpArgs false
namespace AGV.Lemmas.ValidateGraph
open AGV.Core AGV.Model.Validate AGV.Lemmas.ValidateWalk AGV.Lemmas.ValidateMachine AGV.Lemmas.ValidateRules
open AGV.Spec.Validate (violates_OperationNameUniqueness violates_LoneAnonymousOperation violates_FragmentNameUniqueness
  violates_FragmentSpreadsMustNotFormCycles violates_FragmentsMustBeUsed usedFrags)

-- ------------------------------------------------------------------ unique scopes from the three uniqueness rules

theorem nodup_names (ops : List OpDef) (h1 : Spec.Validate.hasDup (ops.filterMap (·.name)) = false)
    (h2 : (decide (ops.length > 1) && ops.any (·.name.isNone)) = false) : (ops.map (·.name)).Nodup := by
  rw [hasDup_false_iff] at h1
  by_cases hany : ops.any (·.name.isNone) = true
  · have hlen : ¬ ops.length > 1 := by simpa [hany] using h2
    match ops, hlen with
    | [], _ => simp
    | [o], _ => simp
    | _ :: _ :: _, h => simp at h
  · have hall : ∀ o ∈ ops, ∃ n, o.name = some n := by
      intro o ho
      cases hn : o.name with
      | some n => exact ⟨n, rfl⟩
      | none => exact absurd (List.any_eq_true.mpr ⟨o, ho, by simp [hn]⟩) hany
    clear h2 hany
    induction ops with
    | nil => simp
    | cons o os ih =>
      obtain ⟨n, hn⟩ := hall o (by simp)
      simp only [List.filterMap_cons, hn, List.nodup_cons] at h1
      simp only [List.map_cons, List.nodup_cons, hn]
      refine ⟨?_, ih h1.2 (fun o' ho' => hall o' (by simp [ho']))⟩
      intro hmem
      apply h1.1
      simp only [List.mem_map] at hmem
      obtain ⟨o', ho', he⟩ := hmem
      exact List.mem_filterMap.mpr ⟨o', ho', he⟩

theorem scopesNodup_of_spec (d : Doc) (h1 : violates_OperationNameUniqueness d = false)
    (h2 : violates_LoneAnonymousOperation d = false) (h3 : violates_FragmentNameUniqueness d = false) : ScopesNodup d := by
  unfold ScopesNodup
  rw [List.nodup_append]
  refine ⟨?_, ?_, ?_⟩
  · have : (d.frags.map (·.name)).Nodup := (hasDup_false_iff _).mp h3
    have h : d.frags.map (fun f => Scope.frag f.name) = (d.frags.map (·.name)).map Scope.frag := by simp
    rw [h]
    exact List.Pairwise.map _ (fun a b hab he => hab (Scope.frag.inj he)) this
  · have := nodup_names d.ops h1 h2
    have h : d.ops.map (fun o => Scope.op o.name) = (d.ops.map (·.name)).map Scope.op := by simp
    rw [h]
    exact List.Pairwise.map _ (fun a b hab he => hab (Scope.op.inj he)) this
  · intro a ha b hb
    simp only [List.mem_map] at ha hb
    obtain ⟨f, _, rfl⟩ := ha
    obtain ⟨o, _, rfl⟩ := hb
    simp

/-- what the graph rules presuppose: §5.2.1.1, §5.2.2.1, §5.5.1.1 hold (the parser checks them
    first) and every operation has a root type -/
structure GraphHyp (S : VSchema) (d : Doc) : Prop where
  opNames : violates_OperationNameUniqueness d = false
  loneAnonymous : violates_LoneAnonymousOperation d = false
  fragNames : violates_FragmentNameUniqueness d = false
  served : Served S d

theorem GraphHyp.nodup {S : VSchema} {d : Doc} (h : GraphHyp S d) : ScopesNodup d :=
  scopesNodup_of_spec d h.opNames h.loneAnonymous h.fragNames

variable (S : VSchema) (d : Doc)

theorem isSome_nodeS_frag (f : FragDef) (hf : f ∈ d.frags) : (nodeS d f.name).isSome = true :=
  (nodeS_isSome d f.name).mpr ⟨f, hf, rfl⟩

/-- NoFragmentCycles = §5.5.2.2 Fragment Spreads Must Not Form Cycles -/
theorem rule_no_fragment_cycles (h : GraphHyp S d) (k : Model.Validate.Kind) :
    k ∈ ruleCycles d (docTable S d) ↔ (k = .cycle ∧ violates_FragmentSpreadsMustNotFormCycles d = true) := by
  have hn := h.nodup
  have hT : (scopes (docTable S d)).Nodup := by rw [scopes_docTable]; exact hn
  have key : d.frags.any (fun f => (recOf (docTable S d) (.frag f.name)).spreads.any (fun n =>
        (reachable (docTable S d) (.frag n)).contains (.frag f.name))) = violates_FragmentSpreadsMustNotFormCycles d := by
    rw [Bool.eq_iff_iff]
    simp only [violates_FragmentSpreadsMustNotFormCycles, List.any_eq_true, List.contains_iff_mem]
    constructor
    · rintro ⟨f, hf, n, hn', hr⟩
      refine ⟨f, hf, ?_⟩
      rw [recOf_frag S d hn f hf, recF_spreads] at hn'
      rw [mem_reachable _ hT, pathM_frag_iff S d hn] at hr
      exact (mem_usedFrags d (scopesNodup_frags d hn) f.sels (Or.inr ⟨f, hf, rfl⟩) f.name).mpr
        ⟨n, hn', hr, isSome_nodeS_frag d f hf⟩
    · rintro ⟨f, hf, hu⟩
      obtain ⟨t, ht, hp, _⟩ := (mem_usedFrags d (scopesNodup_frags d hn) f.sels (Or.inr ⟨f, hf, rfl⟩) f.name).mp hu
      refine ⟨f, hf, t, ?_, ?_⟩
      · rw [recOf_frag S d hn f hf, recF_spreads]; exact ht
      · rw [mem_reachable _ hT, pathM_frag_iff S d hn]; exact hp
  unfold ruleCycles
  rw [key]
  cases violates_FragmentSpreadsMustNotFormCycles d <;> simp

/-- NoUnusedFragments = §5.5.1.4 Fragments Must Be Used -/
theorem rule_no_unused_fragments (h : GraphHyp S d) (k : Model.Validate.Kind) :
    k ∈ ruleUnusedFrags d (docTable S d) ↔ (k = .unusedFragment ∧ violates_FragmentsMustBeUsed d = true) := by
  have hn := h.nodup
  have hT : (scopes (docTable S d)).Nodup := by rw [scopes_docTable]; exact hn
  have key : d.frags.any (fun f => !(d.ops.flatMap (fun o => reachable (docTable S d) (.op o.name))).contains (.frag f.name))
      = violates_FragmentsMustBeUsed d := by
    rw [Bool.eq_iff_iff]
    simp only [violates_FragmentsMustBeUsed, List.any_eq_true, List.contains_eq_mem,
      decide_eq_false_iff_not, List.mem_flatMap, not_exists, not_and, Bool.not_eq_eq_eq_not, Bool.not_true,
      List.any_eq_false, decide_eq_true_eq]
    have hiff : ∀ f ∈ d.frags, ∀ o ∈ d.ops, (Scope.frag f.name ∈ reachable (docTable S d) (.op o.name) ↔ f.name ∈ usedFrags d o.sels) := by
      intro f hf o ho
      rw [mem_reachable _ hT, pathM_op_iff S d hn o ho (h.served o ho),
        mem_usedFrags d (scopesNodup_frags d hn) o.sels (Or.inl ⟨o, ho, rfl⟩)]
      simp [isSome_nodeS_frag d f hf]
    constructor
    · rintro ⟨f, hf, hx⟩
      exact ⟨f, hf, fun o ho hu => hx o ho ((hiff f hf o ho).mpr hu)⟩
    · rintro ⟨f, hf, hx⟩
      exact ⟨f, hf, fun o ho hu => hx o ho ((hiff f hf o ho).mp hu)⟩
  unfold ruleUnusedFrags
  simp only []
  rw [key]
  cases violates_FragmentsMustBeUsed d <;> simp

end AGV.Lemmas.ValidateGraph

namespace AGV.Lemmas.ValidateGraph
open AGV.Core AGV.Model.Validate AGV.Lemmas.ValidateWalk AGV.Lemmas.ValidateMachine AGV.Lemmas.ValidateRules
open AGV.Spec.Validate (usedFrags opVars dirVars selVars selsVars varsIn varsInL varsInF
  violates_AllVariableUsesDefined violates_AllVariablesUsed)

mutual
theorem refVars_eq : (v : DValue) → refVars v = varsIn v
  | .var n => by simp [refVars, varsIn]
  | .null => by simp [refVars, varsIn]
  | .int _ => by simp [refVars, varsIn]
  | .float _ => by simp [refVars, varsIn]
  | .str _ => by simp [refVars, varsIn]
  | .bool _ => by simp [refVars, varsIn]
  | .enum _ => by simp [refVars, varsIn]
  | .list xs => by simp [refVars, varsIn, refVarsList_eq xs]
  | .obj fs => by simp [refVars, varsIn, refVarsFields_eq fs]
theorem refVarsList_eq : (xs : List DValue) → refVarsList xs = varsInL xs
  | [] => by simp [refVarsList, varsInL]
  | x :: xs => by simp [refVarsList, varsInL, refVars_eq x, refVarsList_eq xs]
theorem refVarsFields_eq : (fs : List (String × DValue)) → refVarsFields fs = varsInF fs
  | [] => by simp [refVarsFields, varsInF]
  | (_, x) :: fs => by simp [refVarsFields, varsInF, refVars_eq x, refVarsFields_eq fs]
end

-- ------------------------------------------------------------------ recorded variable references

def argVars (args : List (String × DValue)) : List String := args.flatMap (fun a => varsIn a.2)

theorem used_walkArgs (S : VSchema) (st defs args) : (walkArgs S {} st defs args).flatMap evUsed = argVars args := by
  induction args with
  | nil => rfl
  | cons a as ih =>
    rw [walkArgs_cons]
    simp [List.flatMap_cons, ih, evUsed, Model.Validate.mk, argVars, refVars_eq]

theorem used_walkDirs (S : VSchema) (st ds) : (walkDirs S {} st ds).flatMap evUsed = dirVars ds := by
  induction ds with
  | nil => rfl
  | cons dr ds ih =>
    rw [walkDirs_cons]
    simp only [List.flatMap_cons, List.flatMap_append, used_walkArgs, ih, evUsed, Model.Validate.mk, dirVars, argVars]
    simp

theorem used_walkSet (S : VSchema) (st ss) : (walkSet S {} st ss).flatMap evUsed = (walkSels S {} st ss).flatMap evUsed := by
  rw [walkSet_eq]; cases ss <;> simp [enterSetEv, exitSetEv, List.flatMap_append, evUsed, Model.Validate.mk]

mutual
theorem used_walkSel (S : VSchema) (st : Stack) : (s : Sel) → (walkSel S {} st s).flatMap evUsed = selVars s
  | .field al n args ds ss p => by
    rw [walkSel_field]
    simp [List.flatMap_cons, List.flatMap_append, used_walkArgs, used_walkDirs, used_walkSet, used_walkSels S _ ss,
      evUsed, Model.Validate.mk, selVars, argVars]
  | .spread n ds p => by
    rw [walkSel_spread]
    simp [List.flatMap_cons, List.flatMap_append, used_walkDirs, evUsed, Model.Validate.mk, selVars]
  | .inline c ds ss p => by
    rw [walkSel_inline]
    simp [List.flatMap_cons, List.flatMap_append, used_walkDirs, used_walkSet, used_walkSels S _ ss,
      evUsed, Model.Validate.mk, selVars]
theorem used_walkSels (S : VSchema) (st : Stack) : (ss : List Sel) → (walkSels S {} st ss).flatMap evUsed = selsVars ss
  | [] => by simp [walkSels, selsVars]
  | s :: ss => by simp [walkSels, List.flatMap_append, used_walkSel S st s, used_walkSels S st ss, selsVars]
end

theorem recF_used (S : VSchema) (f : FragDef) : (recF S f).used = dirVars f.dirs ++ selsVars f.sels := by
  simp [recF, ext, fragBody, List.flatMap_append, used_walkDirs, used_walkSet, used_walkSels, evUsed, Model.Validate.mk]

theorem recO_used (S : VSchema) (o : OpDef) (hs : (rootOf S o.ty).isSome = true) :
    (recO S o).used = dirVars o.dirs ++ selsVars o.sels := by
  unfold recO opBody
  cases h : rootOf S o.ty with
  | none => simp [h] at hs
  | some r =>
    simp [ext, List.flatMap_append, used_walkDirs, used_walkSet, used_walkSels, evUsed, Model.Validate.mk,
      List.flatMap_assoc]

-- ------------------------------------------------------------------ what an operation reaches

variable (S : VSchema) (d : Doc)

/-- a path in the scope graph that starts at an operation ends at that operation or at a fragment name -/
theorem pathM_from_op (x y : Scope) (p : Path (nodeM (docTable S d)) x y) :
    y = x ∨ ∃ b, y = .frag b := by
  induction p with
  | refl => exact Or.inl rfl
  | step a b c l h hb p ih =>
    right
    rcases ih with rfl | h'
    · simp only [nodeM, Option.some.injEq] at h
      subst h
      simp only [List.mem_map] at hb
      obtain ⟨m, _, rfl⟩ := hb
      exact ⟨m, rfl⟩
    · exact h'

/-- a property of the records an operation reaches: its own record, and those of the defined
    fragments it uses -/
theorem exists_reachable (h : GraphHyp S d) (o : OpDef) (ho : o ∈ d.ops) (P : ScopeRec → Prop)
    (hP : ∀ s, ¬ P { scope := s }) :
    (∃ s ∈ reachable (docTable S d) (.op o.name), P (recOf (docTable S d) s)) ↔
      (P (recO S o) ∨ ∃ f ∈ d.frags, f.name ∈ usedFrags d o.sels ∧ P (recF S f)) := by
  have hn := h.nodup
  have hT : (scopes (docTable S d)).Nodup := by rw [scopes_docTable]; exact hn
  constructor
  · rintro ⟨s, hs, hp⟩
    rw [mem_reachable _ hT] at hs
    rcases pathM_from_op S d _ _ hs with rfl | ⟨b, rfl⟩
    · rw [recOf_op S d hn o ho] at hp; exact Or.inl hp
    · by_cases hb : ∃ f ∈ d.frags, f.name = b
      · obtain ⟨f, hf, rfl⟩ := hb
        rw [recOf_frag S d hn f hf] at hp
        refine Or.inr ⟨f, hf, ?_, hp⟩
        rw [mem_usedFrags d (scopesNodup_frags d hn) o.sels (Or.inl ⟨o, ho, rfl⟩)]
        obtain ⟨t, ht, hpth⟩ := (pathM_op_iff S d hn o ho (h.served o ho) f.name).mp hs
        exact ⟨t, ht, hpth, isSome_nodeS_frag d f hf⟩
      · rw [recOf_undefined S d b (fun f hf he => hb ⟨f, hf, he⟩)] at hp
        exact absurd hp (hP _)
  · rintro (hp | ⟨f, hf, hu, hp⟩)
    · exact ⟨.op o.name, (mem_reachable _ hT _ _).mpr (.refl _), by rw [recOf_op S d hn o ho]; exact hp⟩
    · refine ⟨.frag f.name, ?_, by rw [recOf_frag S d hn f hf]; exact hp⟩
      rw [mem_reachable _ hT, pathM_op_iff S d hn o ho (h.served o ho)]
      obtain ⟨t, ht, hpth, _⟩ := (mem_usedFrags d (scopesNodup_frags d hn) o.sels (Or.inl ⟨o, ho, rfl⟩) f.name).mp hu
      exact ⟨t, ht, hpth⟩

/-- the reference validator's variables of an operation, in the same terms -/
theorem mem_opVars (hn : FragsNodup d) (o : OpDef) (v : String) :
    v ∈ opVars d o ↔
      (v ∈ dirVars o.dirs ++ selsVars o.sels ∨ ∃ f ∈ d.frags, f.name ∈ usedFrags d o.sels ∧ v ∈ dirVars f.dirs ++ selsVars f.sels) := by
  unfold opVars
  simp only [List.mem_append, List.mem_flatMap]
  constructor
  · rintro ((h | h) | ⟨n, hnm, hv⟩)
    · exact Or.inl (Or.inl h)
    · exact Or.inl (Or.inr h)
    · split at hv
      · rename_i f hf
        have hmem := List.mem_of_find?_eq_some hf
        have hname : f.name = n := by simpa using List.find?_some hf
        exact Or.inr ⟨f, hmem, hname ▸ hnm, List.mem_append.mp hv⟩
      · cases hv
  · rintro ((h | h) | ⟨f, hf, hu, hv⟩)
    · exact Or.inl (Or.inl h)
    · exact Or.inl (Or.inr h)
    · refine Or.inr ⟨f.name, hu, ?_⟩
      rw [find_frag d hn f hf]
      exact List.mem_append.mpr hv

/-- the variables the model collects for an operation are the reference validator's -/
theorem mem_used (h : GraphHyp S d) (o : OpDef) (ho : o ∈ d.ops) (v : String) :
    v ∈ (reachable (docTable S d) (.op o.name)).flatMap (fun s => (recOf (docTable S d) s).used) ↔ v ∈ opVars d o := by
  rw [List.mem_flatMap, exists_reachable S d h o ho (fun r => v ∈ r.used) (by intro s; simp),
    mem_opVars d (scopesNodup_frags d h.nodup), recO_used S o (h.served o ho)]
  simp only [recF_used]

/-- NoUndefinedVariables = §5.8.3 All Variable Uses Defined -/
theorem rule_no_undefined_variables (h : GraphHyp S d) :
    (∃ k ∈ ruleUndefinedVars d (docTable S d), k = .undefVarOp ∨ k = .undefVar) ↔ violates_AllVariableUsesDefined d = true := by
  unfold ruleUndefinedVars violates_AllVariableUsesDefined
  simp only [List.mem_flatMap, List.any_eq_true, Bool.not_eq_true', List.any_eq_false, decide_eq_true_eq]
  constructor
  · rintro ⟨k, ⟨o, ho, hk⟩, _⟩
    split at hk
    · rename_i hc
      simp only [List.any_eq_true, Bool.not_eq_true', List.any_eq_false, decide_eq_true_eq] at hc
      obtain ⟨v, hv, hnd⟩ := hc
      exact ⟨o, ho, v, (mem_used S d h o ho v).mp hv, hnd⟩
    · cases hk
  · rintro ⟨o, ho, v, hv, hnd⟩
    have hc : ((reachable (docTable S d) (.op o.name)).flatMap (fun s => (recOf (docTable S d) s).used)).any
        (fun v => !(o.vars.any (·.name = v))) = true := by
      simp only [List.any_eq_true, Bool.not_eq_true', List.any_eq_false, decide_eq_true_eq]
      exact ⟨v, (mem_used S d h o ho v).mpr hv, hnd⟩
    refine ⟨(if o.name.isSome then Kind.undefVarOp else Kind.undefVar), ⟨o, ho, ?_⟩, ?_⟩
    · rw [if_pos hc]; exact List.mem_singleton.mpr rfl
    · cases o.name <;> simp

/-- NoUnusedVariables = §5.8.4 All Variables Used -/
theorem rule_no_unused_variables (h : GraphHyp S d) :
    (∃ k ∈ ruleUnusedVars d (docTable S d), k = .unusedVarOp ∨ k = .unusedVar) ↔ violates_AllVariablesUsed d = true := by
  have hspec : violates_AllVariablesUsed d = true ↔ ∃ o ∈ d.ops, ∃ v ∈ o.vars, v.name ∉ opVars d o := by
    simp [violates_AllVariablesUsed]
  rw [hspec]
  unfold ruleUnusedVars
  simp only [List.mem_flatMap]
  constructor
  · rintro ⟨k, ⟨o, ho, hk⟩, _⟩
    split at hk
    · rename_i hc
      simp only [List.any_eq_true, Bool.not_eq_true', List.contains_eq_mem, decide_eq_false_iff_not] at hc
      obtain ⟨v, hv, hnd⟩ := hc
      exact ⟨o, ho, v, hv, fun hm => hnd ((mem_used S d h o ho v.name).mpr hm)⟩
    · cases hk
  · rintro ⟨o, ho, v, hv, hnd⟩
    have hc : o.vars.any (fun v => !((reachable (docTable S d) (.op o.name)).flatMap (fun s => (recOf (docTable S d) s).used)).contains v.name) = true := by
      simp only [List.any_eq_true, Bool.not_eq_true', List.contains_eq_mem, decide_eq_false_iff_not]
      exact ⟨v, hv, fun hm => hnd ((mem_used S d h o ho v.name).mp hm)⟩
    refine ⟨(if o.name.isSome then Kind.unusedVarOp else Kind.unusedVar), ⟨o, ho, ?_⟩, ?_⟩
    · rw [if_pos hc]; exact List.mem_singleton.mpr rfl
    · cases o.name <;> simp

end AGV.Lemmas.ValidateGraph

namespace AGV.Lemmas.ValidateGraph
open AGV.Core AGV.Model.Validate AGV.Lemmas.ValidateWalk AGV.Lemmas.ValidateMachine AGV.Lemmas.ValidateRules
open AGV.Lemmas.ValidateRanges

/-- every strict-mode report comes from the rule that owns its kind -/
theorem strict_owner (S : VSchema) (d : Doc) (vars opName) (k : Model.Validate.Kind)
    (h : k ∈ strictErrors S {} d vars opName) :
    (k ∈ statelessKinds ∧ k ∈ (events S {} d).flatMap (stateless S {} d))
    ∨ (k = .argInvalid ∧ k ∈ ruleArgsCorrect S {} vars opName none false (events S {} d))
    ∨ ((k = .unknownArgDir ∨ k = .unknownArgField) ∧ k ∈ ruleKnownArgs S {} none (events S {} d))
    ∨ (k = .dupArg ∧ k ∈ ruleUniqueArgs [] (events S {} d))
    ∨ (k = .dupVar ∧ k ∈ ruleUniqueVars [] (events S {} d))
    ∨ ((k = .dirMisplaced ∨ k = .unknownDirective) ∧ k ∈ ruleKnownDirs S [] (events S {} d))
    ∨ (k = .cycle ∧ k ∈ ruleCycles d (scopeTable none [] (events S {} d)))
    ∨ (k = .unusedFragment ∧ k ∈ ruleUnusedFrags d (scopeTable none [] (events S {} d)))
    ∨ ((k = .undefVarOp ∨ k = .undefVar) ∧ k ∈ ruleUndefinedVars d (scopeTable none [] (events S {} d)))
    ∨ ((k = .unusedVarOp ∨ k = .unusedVar) ∧ k ∈ ruleUnusedVars d (scopeTable none [] (events S {} d)))
    ∨ (k = .varPosition ∧ k ∈ ruleVarPositions {} d (scopeTable none [] (events S {} d)))
    ∨ ((k = .conflictFields ∨ k = .conflictArgsLen ∨ k = .conflictArgsVal) ∧ k ∈ ruleOverlap {} d (events S {} d)) := by
  rw [mem_strictErrors] at h
  rcases h with h | h | h | h | h | h | h | h | h | h | h | h
  · exact Or.inl ⟨range_stateless _ _ _ h, h⟩
  · exact Or.inr (Or.inl ⟨range_argsCorrect _ _ _ _ _ _ _ h, h⟩)
  · exact Or.inr (Or.inr (Or.inl ⟨range_knownArgs _ _ _ _ _ h, h⟩))
  · exact Or.inr (Or.inr (Or.inr (Or.inl ⟨range_uniqueArgs _ _ _ h, h⟩)))
  · exact Or.inr (Or.inr (Or.inr (Or.inr (Or.inl ⟨range_uniqueVars _ _ _ h, h⟩))))
  · exact Or.inr (Or.inr (Or.inr (Or.inr (Or.inr (Or.inl ⟨range_knownDirs _ _ _ _ h, h⟩)))))
  · exact Or.inr (Or.inr (Or.inr (Or.inr (Or.inr (Or.inr (Or.inl ⟨range_cycles _ _ _ h, h⟩))))))
  · exact Or.inr (Or.inr (Or.inr (Or.inr (Or.inr (Or.inr (Or.inr (Or.inl ⟨range_unusedFrags _ _ _ h, h⟩)))))))
  · exact Or.inr (Or.inr (Or.inr (Or.inr (Or.inr (Or.inr (Or.inr (Or.inr (Or.inl ⟨range_undefinedVars _ _ _ h, h⟩))))))))
  · exact Or.inr (Or.inr (Or.inr (Or.inr (Or.inr (Or.inr (Or.inr (Or.inr (Or.inr (Or.inl ⟨range_unusedVars _ _ _ h, h⟩)))))))))
  · exact Or.inr (Or.inr (Or.inr (Or.inr (Or.inr (Or.inr (Or.inr (Or.inr (Or.inr (Or.inr (Or.inl ⟨range_varPositions _ _ _ _ h, h⟩))))))))))
  · exact Or.inr (Or.inr (Or.inr (Or.inr (Or.inr (Or.inr (Or.inr (Or.inr (Or.inr (Or.inr (Or.inr ⟨range_overlap _ _ _ _ h, h⟩))))))))))

section
variable (S : VSchema) (d : Doc) (vars : List (String × GValue)) (opName : Option String)

theorem strict_cycle : Kind.cycle ∈ strictErrors S {} d vars opName ↔ Kind.cycle ∈ ruleCycles d (scopeTable none [] (events S {} d)) := by
  constructor
  · intro h
    rcases strict_owner S d vars opName _ h with ⟨hk, h⟩ | ⟨hk, h⟩ | ⟨hk, h⟩ | ⟨hk, h⟩ | ⟨hk, h⟩ | ⟨hk, h⟩ | ⟨hk, h⟩ | ⟨hk, h⟩ | ⟨hk, h⟩ | ⟨hk, h⟩ | ⟨hk, h⟩ | ⟨hk, h⟩
    all_goals first | (simp [statelessKinds] at hk; done) | exact h
  · intro h; rw [mem_strictErrors]; simp [h]

theorem strict_unusedFragment :
    Kind.unusedFragment ∈ strictErrors S {} d vars opName ↔ Kind.unusedFragment ∈ ruleUnusedFrags d (scopeTable none [] (events S {} d)) := by
  constructor
  · intro h
    rcases strict_owner S d vars opName _ h with ⟨hk, h⟩ | ⟨hk, h⟩ | ⟨hk, h⟩ | ⟨hk, h⟩ | ⟨hk, h⟩ | ⟨hk, h⟩ | ⟨hk, h⟩ | ⟨hk, h⟩ | ⟨hk, h⟩ | ⟨hk, h⟩ | ⟨hk, h⟩ | ⟨hk, h⟩
    all_goals first | (simp [statelessKinds] at hk; done) | exact h
  · intro h; rw [mem_strictErrors]; simp [h]

theorem strict_undefVar (k : Model.Validate.Kind) (hk : k = .undefVarOp ∨ k = .undefVar) :
    k ∈ strictErrors S {} d vars opName ↔ k ∈ ruleUndefinedVars d (scopeTable none [] (events S {} d)) := by
  constructor
  · intro h
    rcases strict_owner S d vars opName _ h with ⟨hk', h⟩ | ⟨hk', h⟩ | ⟨hk', h⟩ | ⟨hk', h⟩ | ⟨hk', h⟩ | ⟨hk', h⟩ | ⟨hk', h⟩ | ⟨hk', h⟩ | ⟨hk', h⟩ | ⟨hk', h⟩ | ⟨hk', h⟩ | ⟨hk', h⟩
    all_goals first | ((rcases hk with rfl | rfl <;> simp [statelessKinds] at hk'); done) | exact h
  · intro h; rw [mem_strictErrors]; simp [h]

theorem strict_unusedVar (k : Model.Validate.Kind) (hk : k = .unusedVarOp ∨ k = .unusedVar) :
    k ∈ strictErrors S {} d vars opName ↔ k ∈ ruleUnusedVars d (scopeTable none [] (events S {} d)) := by
  constructor
  · intro h
    rcases strict_owner S d vars opName _ h with ⟨hk', h⟩ | ⟨hk', h⟩ | ⟨hk', h⟩ | ⟨hk', h⟩ | ⟨hk', h⟩ | ⟨hk', h⟩ | ⟨hk', h⟩ | ⟨hk', h⟩ | ⟨hk', h⟩ | ⟨hk', h⟩ | ⟨hk', h⟩ | ⟨hk', h⟩
    all_goals first | ((rcases hk with rfl | rfl <;> simp [statelessKinds] at hk'); done) | exact h
  · intro h; rw [mem_strictErrors]; simp [h]

theorem strict_varPosition :
    Kind.varPosition ∈ strictErrors S {} d vars opName ↔ Kind.varPosition ∈ ruleVarPositions {} d (scopeTable none [] (events S {} d)) := by
  constructor
  · intro h
    rcases strict_owner S d vars opName _ h with ⟨hk, h⟩ | ⟨hk, h⟩ | ⟨hk, h⟩ | ⟨hk, h⟩ | ⟨hk, h⟩ | ⟨hk, h⟩ | ⟨hk, h⟩ | ⟨hk, h⟩ | ⟨hk, h⟩ | ⟨hk, h⟩ | ⟨hk, h⟩ | ⟨hk, h⟩
    all_goals first | (simp [statelessKinds] at hk; done) | exact h
  · intro h; rw [mem_strictErrors]; simp [h]

theorem strict_knownArgs (k : Model.Validate.Kind) (hk : k = .unknownArgDir ∨ k = .unknownArgField) :
    k ∈ strictErrors S {} d vars opName ↔ k ∈ ruleKnownArgs S {} none (events S {} d) := by
  constructor
  · intro h
    rcases strict_owner S d vars opName _ h with ⟨hk', h⟩ | ⟨hk', h⟩ | ⟨hk', h⟩ | ⟨hk', h⟩ | ⟨hk', h⟩ | ⟨hk', h⟩ | ⟨hk', h⟩ | ⟨hk', h⟩ | ⟨hk', h⟩ | ⟨hk', h⟩ | ⟨hk', h⟩ | ⟨hk', h⟩
    all_goals first | ((rcases hk with rfl | rfl <;> simp [statelessKinds] at hk'); done) | exact h
  · intro h; rw [mem_strictErrors]; simp [h]

theorem strict_argInvalid :
    Kind.argInvalid ∈ strictErrors S {} d vars opName ↔ Kind.argInvalid ∈ ruleArgsCorrect S {} vars opName none false (events S {} d) := by
  constructor
  · intro h
    rcases strict_owner S d vars opName _ h with ⟨hk, h⟩ | ⟨hk, h⟩ | ⟨hk, h⟩ | ⟨hk, h⟩ | ⟨hk, h⟩ | ⟨hk, h⟩ | ⟨hk, h⟩ | ⟨hk, h⟩ | ⟨hk, h⟩ | ⟨hk, h⟩ | ⟨hk, h⟩ | ⟨hk, h⟩
    all_goals first | (simp [statelessKinds] at hk; done) | exact h
  · intro h; rw [mem_strictErrors]; simp [h]

theorem strict_overlap (k : Model.Validate.Kind) (hk : k = .conflictFields ∨ k = .conflictArgsLen ∨ k = .conflictArgsVal) :
    k ∈ strictErrors S {} d vars opName ↔ k ∈ ruleOverlap {} d (events S {} d) := by
  constructor
  · intro h
    rcases strict_owner S d vars opName _ h with ⟨hk', h⟩ | ⟨hk', h⟩ | ⟨hk', h⟩ | ⟨hk', h⟩ | ⟨hk', h⟩ | ⟨hk', h⟩ | ⟨hk', h⟩ | ⟨hk', h⟩ | ⟨hk', h⟩ | ⟨hk', h⟩ | ⟨hk', h⟩ | ⟨hk', h⟩
    all_goals first | ((rcases hk with rfl | rfl | rfl <;> simp [statelessKinds] at hk'); done) | exact h
  · intro h; rw [mem_strictErrors]; simp [h]
end

-- ------------------------------------------------------------------ the recursion guard before validation

mutual
theorem selSize_eq : (s : Sel) → Model.Validate.selSize s = Spec.Validate.selSize s
  | .field _ _ _ _ ss _ => by simp [Model.Validate.selSize, Spec.Validate.selSize, selsSize_eq ss]
  | .spread _ _ _ => by simp [Model.Validate.selSize, Spec.Validate.selSize]
  | .inline _ _ ss _ => by simp [Model.Validate.selSize, Spec.Validate.selSize, selsSize_eq ss]
theorem selsSize_eq : (ss : List Sel) → Model.Validate.selsSize ss = Spec.Validate.selsSize ss
  | [] => by simp [Model.Validate.selsSize, Spec.Validate.selsSize]
  | s :: ss => by simp [Model.Validate.selsSize, Spec.Validate.selsSize, selSize_eq s, selsSize_eq ss]
end

theorem docFuel_model_eq (d : Doc) : Model.Validate.docFuel d = Spec.Validate.docFuel d := by
  simp [Model.Validate.docFuel, Spec.Validate.docFuel, selsSize_eq]

/-- the recursion guard of the parser fires only on a fragment cycle (§5.5.2.2) -/
theorem pre_recursionDepth (d : Doc) (h : PreKind.recursionDepth ∈ preErrors d) :
    Spec.Validate.violates_FragmentSpreadsMustNotFormCycles d = true := by
  unfold preErrors at h
  dsimp only at h
  by_cases h1 : Model.Validate.hasDup (d.ops.filterMap (·.name)) = true
  · rw [if_pos h1] at h; simp at h
  rw [if_neg h1] at h
  by_cases h2 : (decide (d.ops.length > 1) && d.ops.any (·.name.isNone)) = true
  · rw [if_pos h2] at h; simp at h
  rw [if_neg h2] at h
  by_cases h3 : Model.Validate.hasDup (d.frags.map (·.name)) = true
  · rw [if_pos h3] at h; simp at h
  rw [if_neg h3] at h
  split at h
  · rename_i hc
    simp only [List.any_eq_true] at hc
    obtain ⟨n, _, hn⟩ := hc
    split at hn
    · rename_i f hf
      have hmem := List.mem_of_find?_eq_some hf
      have hname : f.name = n := by simpa using List.find?_some hf
      simp only [Spec.Validate.violates_FragmentSpreadsMustNotFormCycles, List.any_eq_true]
      refine ⟨f, hmem, ?_⟩
      rw [fragReach_eq, spreadsOfL_eq, docFuel_model_eq] at hn
      rw [hname]
      exact hn
    · cases hn
  · simp at h

end AGV.Lemmas.ValidateGraph

