/-
  C17 — lexing what the exporter writes for constant values (`Lx_value`: C15's printer text of a
  well-formed value is the token sequence `svToks`), directive applications (`Lx_dirApps`) and
  deprecations (`Lx_deprecated`).
-/
import AGV.Lemmas.SdlValue
import AGV.Lemmas.SdlDesc
namespace AGV.Lemmas.SdlValue
open AGV.Digits AGV.Core AGV.Core.PAst AGV.Core.Sdl AGV.Model.Sdl AGV.Spec.Literal AGV.Spec.Lex AGV.Spec.Parse AGV.Spec.SdlParse AGV.Lemmas.SdlLex AGV.Lemmas.SdlBlock
open AGV.Model.Print (print writeQuoted writeBody joinWith commaSp colonSp)

theorem writeBody_not_block (t rest : Text) (hr : ValEnd rest) : ∀ y, writeBody 16 t ++ '"' :: rest ≠ '"' :: '"' :: y := by
  intro y e
  cases t with
  | nil =>
    cases rest with
    | nil => simp [writeBody] at e
    | cons d r =>
      simp [writeBody] at e
      exact (valEnd_facts d (hr d r rfl)).2.2.2.1 e.1
  | cons c t =>
    obtain ⟨d, r, ed, hne⟩ := AGV.Lemmas.Literal.escChar_head c
    simp [writeBody, ed] at e
    exact hne e.1

/-- a string printed by the value printer is one string token -/
theorem Lx.qstr {t rest : Text} {ts} (hr : ValEnd rest) (h : Lx rest ts) :
    Lx (writeQuoted AGV.Model.Print.Defects.none t ++ rest) (.str t :: ts) := by
  obtain ⟨q1, q2, _⟩ := quote_facts
  have ht : lexToken ('"' :: (writeBody 16 t ++ '"' :: rest)) = some (.str t, rest) :=
    lexToken_quoted _ _ _ (writeBody_not_block t rest hr) (AGV.Lemmas.Literal.lexString_writeBody t rest)
  have := Lx.tok q1 q2 ht (by simp; omega) h
  simpa [writeQuoted, AGV.Model.Print.Defects.none, AGV.Model.Print.Defects.radix, List.append_assoc] using this

theorem print_list (xs : List LValue) : print .none (.list xs) = '[' :: joinWith commaSp (xs.map (print .none)) ++ [']'] := by
  rw [print]
theorem print_obj (fs : List (Text × LValue)) : print .none (.obj fs) =
    '{' :: joinWith commaSp (fs.map (fun kv => kv.1 ++ colonSp ++ print .none kv.2)) ++ ['}'] := by
  rw [print]

mutual
theorem Lx_value : ∀ (v : SValue), svWf v = true → ∀ (rest : Text) (ts : List Tok), ValEnd rest → Lx rest ts →
    Lx (printValue v ++ rest) (svToks v ++ ts)
  | .null, _, rest, ts, hr, h => by
    have := Lx.name (n := kw "null") (by decide) hr.nameEnd h
    simpa [printValue, SValue.toL, print, svToks, kw] using this
  | .int i, _, rest, ts, hr, h => by
    simpa [printValue, SValue.toL, print, svToks] using Lx.int (i := i) hr h
  | .str t, _, rest, ts, hr, h => by
    simpa [printValue, SValue.toL, print, svToks] using Lx.qstr (t := t) hr h
  | .bool b, _, rest, ts, hr, h => by
    cases b
    · have := Lx.name (n := kw "false") (by decide) hr.nameEnd h
      simpa [printValue, SValue.toL, print, svToks, kw] using this
    · have := Lx.name (n := kw "true") (by decide) hr.nameEnd h
      simpa [printValue, SValue.toL, print, svToks, kw] using this
  | .enum n, hw, rest, ts, hr, h => by
    simp only [svWf, Bool.and_eq_true] at hw
    simpa [printValue, SValue.toL, print, svToks] using Lx.name (n := n) hw.1.1.1 hr.nameEnd h
  | .list xs, hw, rest, ts, hr, h => by
    have := Lx.punct (c := '[') (by decide) (Lx_items xs (by simpa [svWf] using hw) rest ts h)
    simpa [printValue, SValue.toL, print_list, svToks, List.append_assoc] using this
  | .obj fs, hw, rest, ts, hr, h => by
    have := Lx.punct (c := '{') (by decide) (Lx_objFields fs (by simpa [svWf] using hw) rest ts h)
    simpa [printValue, SValue.toL, print_obj, svToks, List.append_assoc] using this
theorem Lx_items : ∀ (xs : List SValue), svsWf xs = true → ∀ (rest : Text) (ts : List Tok), Lx rest ts →
    Lx (joinWith commaSp ((SValue.toLs xs).map (print .none)) ++ ']' :: rest) (svsToks xs ++ .punct ']' :: ts)
  | [], _, rest, ts, h => by
    simpa [SValue.toLs, joinWith, svsToks] using Lx.punct (c := ']') (by decide) h
  | [x], hw, rest, ts, h => by
    simp only [svsWf, Bool.and_eq_true] at hw
    have := Lx_value x hw.1 (']' :: rest) (.punct ']' :: ts) (valEnd_punct _ _ (by decide)) (Lx.punct (by decide) h)
    simpa [SValue.toLs, joinWith, svsToks, printValue] using this
  | x :: y :: r, hw, rest, ts, h => by
    simp only [svsWf, Bool.and_eq_true] at hw
    have h1 := Lx_items (y :: r) (by simp [svsWf, hw.2]) rest ts h
    have h2 : Lx (',' :: ' ' :: (joinWith commaSp ((SValue.toLs (y :: r)).map (print .none)) ++ ']' :: rest))
        (svsToks (y :: r) ++ .punct ']' :: ts) := Lx.ign (by decide) (Lx.ign (by decide) h1)
    have := Lx_value x hw.1 _ _ (valEnd_ign ',' _ (by decide)) h2
    simpa [SValue.toLs, joinWith, svsToks, printValue, commaSp, List.append_assoc] using this
theorem Lx_objFields : ∀ (fs : List (Text × SValue)), sfWf fs = true → ∀ (rest : Text) (ts : List Tok), Lx rest ts →
    Lx (joinWith commaSp ((SValue.toLf fs).map (fun kv => kv.1 ++ colonSp ++ print .none kv.2)) ++ '}' :: rest)
      (sfToks fs ++ .punct '}' :: ts)
  | [], _, rest, ts, h => by
    simpa [SValue.toLf, joinWith, sfToks] using Lx.punct (c := '}') (by decide) h
  | [(k, v)], hw, rest, ts, h => by
    simp only [sfWf, Bool.and_eq_true] at hw
    have h1 := Lx_value v hw.1.2 ('}' :: rest) (.punct '}' :: ts) (valEnd_punct _ _ (by decide)) (Lx.punct (by decide) h)
    have h2 : Lx (' ' :: (printValue v ++ '}' :: rest)) (svToks v ++ .punct '}' :: ts) := Lx.ign (by decide) h1
    have := Lx.name (n := k) hw.1.1 (valEnd_punct ':' _ (by decide)).nameEnd (Lx.punct (c := ':') (by decide) h2)
    simpa [SValue.toLf, joinWith, sfToks, printValue, colonSp, List.append_assoc] using this
  | (k, v) :: kv2 :: r, hw, rest, ts, h => by
    rw [sfWf] at hw
    simp only [Bool.and_eq_true] at hw
    have h0 := Lx_objFields (kv2 :: r) hw.2 rest ts h
    have h0' : Lx (',' :: ' ' :: (joinWith commaSp ((SValue.toLf (kv2 :: r)).map (fun kv => kv.1 ++ colonSp ++ print .none kv.2)) ++ '}' :: rest))
        (sfToks (kv2 :: r) ++ .punct '}' :: ts) := Lx.ign (by decide) (Lx.ign (by decide) h0)
    have h1 := Lx_value v hw.1.2 _ _ (valEnd_ign ',' _ (by decide)) h0'
    have h2 := Lx.ign (c := ' ') (by decide) h1
    have := Lx.name (n := k) hw.1.1 (valEnd_punct ':' _ (by decide)).nameEnd (Lx.punct (c := ':') (by decide) h2)
    obtain ⟨k2, v2⟩ := kv2
    simpa [SValue.toLf, joinWith, sfToks, printValue, colonSp, commaSp, List.append_assoc] using this
end

-- ------------------------------------------------------------------ directive applications

theorem Lx_dirArgs : ∀ (fs : List (Text × SValue)), fs ≠ [] → sfWf fs = true → ∀ (rest : Text) (ts : List Tok), Lx rest ts →
    Lx (joinSep (s ", ") (fs.map (fun kv => kv.1 ++ s ": " ++ printValue kv.2)) ++ ')' :: rest)
      (sfToks fs ++ .punct ')' :: ts)
  | [], hne, _, _, _, _ => absurd rfl hne
  | [(k, v)], _, hw, rest, ts, h => by
    simp only [sfWf, Bool.and_eq_true] at hw
    have h1 := Lx_value v hw.1.2 (')' :: rest) (.punct ')' :: ts) (valEnd_punct _ _ (by decide)) (Lx.punct (by decide) h)
    have h2 : Lx (' ' :: (printValue v ++ ')' :: rest)) (svToks v ++ .punct ')' :: ts) := Lx.ign (by decide) h1
    have := Lx.name (n := k) hw.1.1 (valEnd_punct ':' _ (by decide)).nameEnd (Lx.punct (c := ':') (by decide) h2)
    simpa [joinSep, sfToks, s, List.append_assoc] using this
  | (k, v) :: kv2 :: r, _, hw, rest, ts, h => by
    rw [sfWf] at hw
    simp only [Bool.and_eq_true] at hw
    have h0 := Lx_dirArgs (kv2 :: r) (by simp) hw.2 rest ts h
    have h0' : Lx (',' :: ' ' :: (joinSep (s ", ") ((kv2 :: r).map (fun kv => kv.1 ++ s ": " ++ printValue kv.2)) ++ ')' :: rest))
        (sfToks (kv2 :: r) ++ .punct ')' :: ts) := Lx.ign (by decide) (Lx.ign (by decide) h0)
    have h1 := Lx_value v hw.1.2 _ _ (valEnd_ign ',' _ (by decide)) h0'
    have h2 := Lx.ign (c := ' ') (by decide) h1
    have := Lx.name (n := k) hw.1.1 (valEnd_punct ':' _ (by decide)).nameEnd (Lx.punct (c := ':') (by decide) h2)
    obtain ⟨k2, v2⟩ := kv2
    simpa [joinSep, sfToks, s, List.append_assoc] using this

theorem Lx_dirApp (d : DirApp) (hw : dirWf d = true) (rest : Text) (ts : List Tok) (hr : NameEnd rest) (h : Lx rest ts) :
    Lx (dirAppSdl d ++ rest) (dirToks d ++ ts) := by
  simp only [dirWf, Bool.and_eq_true] at hw
  by_cases he : d.args = []
  · have := Lx.punct (c := '@') (by decide) (Lx.name hw.1 hr h)
    simpa [dirAppSdl, dirToks, he] using this
  · have hne : d.args.isEmpty = false := by simpa using he
    have h1 := Lx.punct (c := '(') (by decide) (Lx_dirArgs d.args he hw.2 rest ts h)
    have := Lx.punct (c := '@') (by decide) (Lx.name hw.1 (valEnd_punct '(' _ (by decide)).nameEnd h1)
    simpa [dirAppSdl, dirToks, hne, List.append_assoc] using this

theorem dirApps_nameEnd (ds : List DirApp) (rest : Text) (hr : NameEnd rest) : NameEnd (dirApps ds ++ rest) := by
  cases ds with
  | nil => simpa [dirApps] using hr
  | cons d ds => simp only [dirApps, List.map_cons, List.flatten_cons, List.cons_append]; exact (valEnd_ign ' ' _ (by decide)).nameEnd

theorem Lx_dirApps (ds : List DirApp) (hw : ∀ d ∈ ds, dirWf d = true) (rest : Text) (ts : List Tok) (hr : NameEnd rest)
    (h : Lx rest ts) : Lx (dirApps ds ++ rest) (dirsToks ds ++ ts) := by
  induction ds with
  | nil => simpa [dirApps, dirsToks] using h
  | cons d ds ih =>
    have h1 := ih (fun x hx => hw x (List.mem_cons_of_mem _ hx))
    have h2 := Lx.ign (c := ' ') (by decide) (Lx_dirApp d (hw d List.mem_cons_self) _ _ (dirApps_nameEnd ds rest hr) h1)
    simpa [dirApps, dirsToks, List.append_assoc] using h2

-- ------------------------------------------------------------------ deprecation

/-- `@deprecated` / `@deprecated(reason: "…")` as a directive application -/
def depApps : Dep → List DirApp
  | .no => []
  | .yes none => [⟨kwT "deprecated", []⟩]
  | .yes (some r) => [⟨kwT "deprecated", [(kwT "reason", .str r)]⟩]

theorem depApps_dDir (d : Dep) : (depApps d).map dDir = dDeprecated d := by
  cases d with
  | no => rfl
  | yes r => cases r <;> simp [depApps, dDeprecated, dDir, SValue.toP]

theorem depApps_wf (d : Dep) : ∀ x ∈ depApps d, dirWf x = true := by
  cases d with
  | no => simp [depApps]
  | yes r =>
    cases r with
    | none => simp [depApps]; decide
    | some r => 
      intro x hx
      simp only [depApps, List.mem_singleton] at hx
      subst hx
      simp only [dirWf, sfWf, svWf, Bool.and_true]; decide

/-- a text written by the repaired `escape_string` between quotes, as a token -/
theorem Lx.estr {t rest : Text} {ts} (hr : rest.head? ≠ some '"') (h : Lx rest ts) :
    Lx ('"' :: (escapeString false t ++ '"' :: rest)) (.str t :: ts) := by
  obtain ⟨q1, q2, _⟩ := quote_facts
  have ht : lexToken ('"' :: (escapeString false t ++ '"' :: rest)) = some (.str t, rest) :=
    lexToken_quoted _ _ _ (escapeString_not_block t rest hr) (lexString_escapeString t rest)
  exact Lx.tok q1 q2 ht (by simp; omega) h

theorem Lx_deprecated (d : Dep) (rest : Text) (ts : List Tok) (hr : NameEnd rest) (h : Lx rest ts) :
    Lx (writeDeprecated Defects.none d ++ rest) (dirsToks (depApps d) ++ ts) := by
  cases d with
  | no => simpa [writeDeprecated, depApps, dirsToks] using h
  | yes r =>
    cases r with
    | none =>
      have := Lx.ign (c := ' ') (by decide) (Lx.punct (c := '@') (by decide) (Lx.name (n := kwT "deprecated") (by decide) hr h))
      simpa [writeDeprecated, depApps, dirsToks, dirToks, s, kwT] using this
    | some r =>
      have h1 : Lx ('"' :: (escapeString false r ++ '"' :: ')' :: rest)) (.str r :: .punct ')' :: ts) :=
        Lx.estr (by simp) (Lx.punct (by decide) h)
      have h2 := Lx.name (n := kwT "reason") (by decide) (valEnd_punct ':' _ (by decide)).nameEnd
        (Lx.punct (c := ':') (by decide) (Lx.ign (c := ' ') (by decide) h1))
      have h3 := Lx.ign (c := ' ') (by decide) (Lx.punct (c := '@') (by decide)
        (Lx.name (n := kwT "deprecated") (by decide) (valEnd_punct '(' _ (by decide)).nameEnd (Lx.punct (c := '(') (by decide) h2)))
      have hD : Defects.none.reasonQuoteRaw = false := rfl
      simpa [writeDeprecated, hD, depApps, dirsToks, dirToks, sfToks, svToks, s, kwT, List.append_assoc] using h3

end AGV.Lemmas.SdlValue
