/-
  Helper lemmas for C23 (request decoding).  Core only.
-/
import AGV.Model.Http
import AGV.Spec.Http

namespace AGV.Lemmas.Http
open AGV.Spec.Http (Str J Members Req BatchReq Err Part BatchResp)
open AGV.Model.Http

/-- all twelve disequalities between the four keys -/
theorem Keys.Distinct.all {K : Keys} (h : K.Distinct) :
    (K.query ≠ K.operationName ∧ K.query ≠ K.variables ∧ K.query ≠ K.extensions ∧
     K.operationName ≠ K.variables ∧ K.operationName ≠ K.extensions ∧ K.variables ≠ K.extensions) ∧
    (K.operationName ≠ K.query ∧ K.variables ≠ K.query ∧ K.extensions ≠ K.query ∧
     K.variables ≠ K.operationName ∧ K.extensions ≠ K.operationName ∧ K.extensions ≠ K.variables) := by
  obtain ⟨a, b, c, d, e, f⟩ := h
  exact ⟨⟨a, b, c, d, e, f⟩, ⟨a.symm, b.symm, c.symm, d.symm, e.symm, f.symm⟩⟩

theorem jsonKeys_distinct : jsonKeys.Distinct := by
  simp [Keys.Distinct, jsonKeys, AGV.Spec.Http.kQuery, AGV.Spec.Http.kOperationName,
    AGV.Spec.Http.kVariables, AGV.Spec.Http.kExtensions]

theorem getKeys_distinct (D : Defects) : (getKeys D).Distinct := by
  cases h : D.getOperationNameSnakeCase <;>
  simp [Keys.Distinct, getKeys, jsonKeys, h, kOperationNameSnake, AGV.Spec.Http.kQuery,
    AGV.Spec.Http.kOperationName, AGV.Spec.Http.kVariables, AGV.Spec.Http.kExtensions]

/-- the object sent for `r` decodes to `r`, whatever the (pairwise distinct) key names -/
theorem decodeReqObj_encode (K : Keys) (hK : K.Distinct) (r : Req) :
    ∃ kvs, encodeJson K r = .obj kvs ∧ decodeReqObj K kvs = some r := by
  obtain ⟨⟨a, b, c, d, e, f⟩, ⟨a', b', c', d', e', f'⟩⟩ := Keys.Distinct.all hK
  obtain ⟨q, o, v, x⟩ := r
  cases o <;>
  exact ⟨_, rfl, by
    simp [decodeReqObj, hasDup, count, lookup, List.filter, List.find?, fieldQuery,
      fieldOperationName, fieldMembers, asMembers, *]⟩

theorem decodeReq_encode (D : Defects) (K : Keys) (hK : K.Distinct) (r : Req) :
    decodeReq D K (encodeJson K r) = some r := by
  obtain ⟨kvs, h1, h2⟩ := decodeReqObj_encode K hK r
  rw [h1]; simpa [decodeReq] using h2

theorem traverse_map {α β : Type} (f : α → Option β) (g : β → α) (h : ∀ b, f (g b) = some b) (bs : List β) :
    traverse f (bs.map g) = some bs := by
  induction bs with
  | nil => rfl
  | cons b bs ih => simp [traverse, h, ih]

/-- `traverse` agrees with the specification's `allSome` -/
theorem traverse_eq_allSome {α β : Type} (f : α → Option β) (xs : List α) :
    traverse f xs = AGV.Spec.Http.allSome f xs := by
  induction xs with
  | nil => rfl
  | cons a as ih =>
    simp only [traverse, AGV.Spec.Http.allSome, ih]
    cases f a <;> cases AGV.Spec.Http.allSome f as <;> rfl

theorem traverse_length {α β : Type} (f : α → Option β) (xs : List α) (ys : List β)
    (h : traverse f xs = some ys) : ys.length = xs.length := by
  induction xs generalizing ys with
  | nil => simp [traverse] at h; simp [← h]
  | cons a as ih =>
    simp only [traverse] at h
    cases hf : f a with
    | none => simp [hf] at h
    | some b =>
      cases ht : traverse f as with
      | none => simp [hf, ht] at h
      | some bs =>
        simp [hf, ht] at h
        subst h
        simp [ih bs ht]

/-- the specification's member lookup, in terms of `count` and `lookup` -/
theorem member_eq {α : Type} (k : Str) (kvs : List (Str × α)) :
    AGV.Spec.Http.member k kvs = if count k kvs > 1 then none else some (lookup k kvs) := by
  unfold AGV.Spec.Http.member count lookup
  induction kvs with
  | nil => simp
  | cons p ps ih =>
    by_cases hp : p.1 = k
    · simp only [List.filter_cons, hp, decide_true, if_true, List.find?_cons]
      cases hf : ps.filter (fun p => decide (p.1 = k)) with
      | nil => simp
      | cons a as => simp
    · have hp' : decide (p.1 = k) = false := by simp [hp]
      simp only [List.filter_cons, hp', List.find?_cons]
      simpa using ih

end AGV.Lemmas.Http
