/-
  Property C13, token level: comparing a PEG-style reader (an optional part swallows the failure of
  its body, which then surfaces later) with the specification's LL(1) reader.  Two outcomes agree
  modulo a set of "stuck" token lists `S` when they are equal, or both are failures-to-be: `none`,
  or a success that leaves a stuck rest (one on which every continuation fails).
-/
import AGV.Lemmas.PegC13Defs3
namespace AGV.Lemmas.PegX
open AGV.Model.Peg AGV.Model.BuildAst AGV.Spec.Lex AGV.Core.PAst AGV.Lemmas.PegC13 AGV.Lemmas.SpecVal

abbrev Outc (α : Type) := Option (α × List Tok)

/-- a failure, now or later -/
def BadO {α : Type} (S : List Tok → Prop) (x : Outc α) : Prop := x = none ∨ ∃ a r, x = some (a, r) ∧ S r

/-- equal, or both failures -/
def Agree {α : Type} (S : List Tok → Prop) (x y : Outc α) : Prop := x = y ∨ (BadO S x ∧ BadO S y)

theorem Agree.rfl' {α : Type} {S : List Tok → Prop} {x : Outc α} : Agree S x x := Or.inl rfl

theorem Agree.of_eq {α : Type} {S : List Tok → Prop} {x y : Outc α} (h : x = y) : Agree S x y := Or.inl h

theorem BadO.none {α : Type} {S : List Tok → Prop} : BadO S (none : Outc α) := Or.inl rfl

theorem BadO.stuck {α : Type} {S : List Tok → Prop} {a : α} {r : List Tok} (h : S r) : BadO S (some (a, r)) :=
  Or.inr ⟨a, r, rfl, h⟩

theorem BadO.mono {α : Type} {S S' : List Tok → Prop} (hS : ∀ r, S r → S' r) {x : Outc α} (h : BadO S x) : BadO S' x := by
  rcases h with h | ⟨a, r, e, hs⟩
  · exact Or.inl h
  · exact Or.inr ⟨a, r, e, hS r hs⟩

theorem Agree.mono {α : Type} {S S' : List Tok → Prop} (hS : ∀ r, S r → S' r) {x y : Outc α} (h : Agree S x y) :
    Agree S' x y := by
  rcases h with h | ⟨h1, h2⟩
  · exact Or.inl h
  · exact Or.inr ⟨h1.mono hS, h2.mono hS⟩

/-- sequencing on outcomes -/
def obind {α β : Type} (x : Outc α) (k : α → List Tok → Outc β) : Outc β :=
  match x with
  | some (a, r) => k a r
  | none => none

theorem BadO.bind {α β : Type} {S S' : List Tok → Prop} {x : Outc α} {k : α → List Tok → Outc β}
    (hx : BadO S x) (hk : ∀ a r, S r → BadO S' (k a r)) : BadO S' (obind x k) := by
  rcases hx with rfl | ⟨a, r, rfl, hs⟩
  · exact Or.inl rfl
  · exact hk a r hs

/-- the continuation rule: continuations that agree everywhere and fail on stuck rests -/
theorem Agree.bind {α β : Type} {S S' : List Tok → Prop} {x y : Outc α} {k1 k2 : α → List Tok → Outc β}
    (h : Agree S x y) (hk : ∀ a r, Agree S' (k1 a r) (k2 a r))
    (h1 : ∀ a r, S r → BadO S' (k1 a r)) (h2 : ∀ a r, S r → BadO S' (k2 a r)) :
    Agree S' (obind x k1) (obind y k2) := by
  rcases h with rfl | ⟨hx, hy⟩
  · cases x with
    | none => exact Or.inl rfl
    | some p => exact hk p.1 p.2
  · exact Or.inr ⟨hx.bind h1, hy.bind h2⟩

/-- mapping the value does not matter -/
def omap {α β : Type} (f : α → β) (x : Outc α) : Outc β := x.map (fun p => (f p.1, p.2))

theorem BadO.map {α β : Type} {S : List Tok → Prop} {f : α → β} {x : Outc α} (h : BadO S x) : BadO S (omap f x) := by
  rcases h with rfl | ⟨a, r, rfl, hs⟩
  · exact Or.inl rfl
  · exact Or.inr ⟨f a, r, rfl, hs⟩

theorem Agree.map {α β : Type} {S : List Tok → Prop} {f : α → β} {x y : Outc α} (h : Agree S x y) :
    Agree S (omap f x) (omap f y) := by
  rcases h with rfl | ⟨hx, hy⟩
  · exact Or.inl rfl
  · exact Or.inr ⟨hx.map, hy.map⟩

/-- agreement modulo nothing is equality -/
theorem Agree.eq_of_false {α : Type} {x y : Outc α} (h : Agree (fun _ => False) x y) : x = y := by
  rcases h with h | ⟨hx, hy⟩
  · exact h
  · rcases hx with rfl | ⟨_, _, _, f⟩
    · rcases hy with rfl | ⟨_, _, _, f⟩
      · rfl
      · exact f.elim
    · exact f.elim

/-- two failures-to-be become equal once a continuation that fails on stuck rests is applied -/
theorem Agree.bind_eq {α β : Type} {S : List Tok → Prop} {x y : Outc α} {k1 k2 : α → List Tok → Outc β}
    (h : Agree S x y) (hk : ∀ a r, k1 a r = k2 a r)
    (h1 : ∀ a r, S r → k1 a r = none) (h2 : ∀ a r, S r → k2 a r = none) :
    obind x k1 = obind y k2 := by
  rcases h with rfl | ⟨hx, hy⟩
  · cases x with
    | none => rfl
    | some p => exact hk p.1 p.2
  · have e1 : obind x k1 = none := by
      rcases hx with rfl | ⟨a, r, rfl, hs⟩
      · rfl
      · exact h1 a r hs
    have e2 : obind y k2 = none := by
      rcases hy with rfl | ⟨a, r, rfl, hs⟩
      · rfl
      · exact h2 a r hs
    rw [e1, e2]

/-- the head token is one of these Punctuators -/
def HeadIn (cs : List Char) (ts : List Tok) : Prop := ∃ c r, ts = .punct c :: r ∧ c ∈ cs

theorem HeadIn.mono {cs cs' : List Char} (h : ∀ c ∈ cs, c ∈ cs') {ts : List Tok} (ht : HeadIn cs ts) : HeadIn cs' ts := by
  obtain ⟨c, r, e, hc⟩ := ht
  exact ⟨c, r, e, h c hc⟩
end AGV.Lemmas.PegX
